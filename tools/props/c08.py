"""C08 — wire format stays compatible with the reference release for all types/versions.

Proof: coq/Properties/Properties_C08.v: the SyncIR models generated (on every run, by the same
translator, with shared name tables) from /verif/reference and from /repo's working tree are
syntactically equal, hence every block type is read/written identically for all versions, objects and
byte strings. Validation / failing-input search: the reference BUILD and the current BUILD exchange
generated instances of every block type in every version, and re-save the sample files."""
import json
import os
import random

import blocks_engine as be
import vlib

PID = "C08"


def run(tier, seed, replay=None):
    rep = vlib.Reporter(PID, tier, seed)
    hygiene = vlib.coq_hygiene()
    gen = vlib.gen_ir(("Cur",))
    info = gen["Cur"]
    ref = be.load_info("Ref")
    pr = vlib.coq_property(PID)
    cov = vlib.proof_coverage(pr, hygiene)
    differing = []
    if not pr["ok"]:
        # name the block types whose generated programs differ
        rc, out, err = be.eval_in_coq("Q_c08diff", "From NiflyVerif Require Import IR IREq IRRef IRCur.\n"
                                      "Eval vm_compute in table_diff IRCur.block_table IRRef.block_table.\n")
        ids = be.parse_coq_list(out) or []
        byid = {i: b for b, i in zip(info["blocks"], info["ids"])}
        byid.update({i: b for b, i in zip(ref["blocks"], ref["ids"])})
        differing = [byid.get(i, "#%d" % i) for i in ids]
    cur_bin = vlib.build_oracle("plain")
    ref_bin = vlib.build_oracle("plain", repo=os.path.join(vlib.ROOT, "reference"))
    rng = random.Random(seed)
    vers = be.QUICK_VERS if tier == "quick" else list(be.VERS)
    seeds = [seed] if tier == "quick" else [seed + k for k in range(4)]
    types = sorted(set(info["blocks"]) & set(ref["blocks"]))
    if replay:
        r = json.load(open(replay))
        cases = [(r["case"], r["type"], r["ver"], 0)] if "case" in r else []
        samples = []
    else:
        cases = be.block_cases(types, vers, seeds)
        samples = sorted(f for f in os.listdir(os.path.join(vlib.REPO, "tests", "input")) if f.endswith(".nif"))
    env = {"VERIF_SAMPLES": os.path.join(vlib.REPO, "tests", "input")}
    found = []
    stats = {"instances": 0, "cur_to_ref": 0, "ref_to_cur": 0, "lockstep_equal": 0, "samples": 0}
    # 1. the same generator seed must give the same bytes in both builds (writers and readers in lockstep)
    gen = {}
    for (b, tag) in ((cur_bin, "cur"), (ref_bin, "ref")):
        res = be.par_run(b, "blocks", [c[0] for c in cases], timeout=120)
        for (c, n, vn, s), (_, l, crash) in zip(cases, res):
            if crash is None and l is not None and "b1=" in l:
                gen[(tag, c)] = be.kv_of(l)["b1"]
    exchange = []
    for (c, n, vn, s) in cases:
        a, r = gen.get(("cur", c)), gen.get(("ref", c))
        if a is None or r is None:
            continue
        stats["instances"] += 1
        if a == r:
            stats["lockstep_equal"] += 1
            exchange.append((c, n, vn, a))
        else:
            found.append({"case": c, "type": n, "ver": vn, "what": "same generator seed gives different bytes in the two builds (field order/width/gating differs)",
                          "cur": a[:4000], "ref": r[:4000]})
    # 2. both builds read the (identical) bytes: same consumption, same re-encoding
    rcases = ["reput type=%s ver=%s bytes=%s" % (n, be.VERS[vn], b) for (_, n, vn, b) in exchange]
    rc_cur = be.par_run(cur_bin, "blocks", rcases, timeout=120)
    rc_ref = be.par_run(ref_bin, "blocks", rcases, timeout=120)
    for (c, n, vn, b), (_, lc, cc), (_, lr, cr) in zip(exchange, rc_cur, rc_ref):
        stats["cur_to_ref"] += 1
        stats["ref_to_cur"] += 1
        if (cc is None) != (cr is None) or lc != lr:
            found.append({"case": c, "type": n, "ver": vn, "bytes": b[:4000], "cur": (lc or str(cc))[:2000], "ref": (lr or str(cr))[:2000],
                          "what": "the two builds read/re-encode the same block bytes differently"})
    # sample files: raw re-save by both builds
    sc = ["resave name=%s opts=raw" % f for f in samples]
    a = be.par_run(cur_bin, "blocks", sc, timeout=120, env=env)
    b = be.par_run(ref_bin, "blocks", sc, timeout=120, env=env)
    for (c, la, ca), (_, lb, cb) in zip(a, b):
        stats["samples"] += 1
        if la != lb:
            found.append({"case": c, "what": "sample file is re-saved differently by the two builds", "cur": la, "ref": lb})
    for f in found[:10]:
        rep.violation("wire format differs from the reference release: " + f["what"], dict(f, family="blocks", differing_types=differing))
    if not pr["ok"] and not found:
        rep.violation("obligation C08_same_programs no longer holds (generated Sync models differ for: %s); the cross-build exchange found no differing bytes" % ",".join(differing[:12]),
                      {"broken": "theorem C08_same_programs (coq/Properties/Properties_C08.v)", "differing_types": differing, "log": pr["log"][-2000:]}, found_input=False)
    if hygiene:
        rep.violation("Coq hygiene: " + ",".join(hygiene), {"broken": "hygiene", "hits": hygiene}, found_input=False)
    cov.update({
        "evaluations": stats["instances"] + stats["samples"],
        "distinct_nontrivial": len({c for (c, n, vn, s) in cases}),
        "rule": "every block type registered in both trees x versions %s x seeds %s: a populated instance is synthesised by a generative read in one build, written, and must be consumed exactly and re-encoded identically by the other build (both directions), and the same seed must give the same bytes in both builds; plus raw re-save of every sample file by both builds. Non-trivial: every instance has its counts/optional sections chosen by the seeded generator; distinct = distinct (type, version, seed)" % (vers, seeds),
        "samples": [c[0] for c in cases[:3]] + sc[:2],
        "input_distribution": stats,
        "block_types_compared": len(types),
        "types_untranslated_in_model": sorted(info.get("opaque", {}).keys()),
        "differing_types": differing,
        "traces_validated_against_impl": stats["cur_to_ref"] + stats["ref_to_cur"],
        "trusted_base": vlib.BASE_TRUSTED + [
            "translator tools/nif2ir.py + clang 14 AST dump: a change it cannot see hits both sides equally (mitigation: the cross-build exchange above and the model-vs-implementation runs of C01)",
            "reference = /verif/reference, a vendored copy of the pinned release with only the guarded verification hooks added",
            "the header layout (NiHeader::Get/Put) is not part of the generated model: it is covered by the sample-file re-saves only"],
        "exhaustive": False,
    })
    return rep.finish(cov, ["block types whose Sync is untranslatable (listed) compare as opaque = opaque: covered by the cross-build exchange only"])
