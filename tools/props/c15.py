"""C15 — corrupted block references never crash loading, querying or saving.

Proof (coq/Properties/Properties_C15.v over coq/Robust/RobustModel.v): the guarded lookup and every
traversal (GetTree, SetSortIndices / SortCollision / PrettySortBlocks, DeleteUnreferencedBlocks, the
parent walk of GetNodeTransformToGlobal) terminate within an explicit linear fuel and never index out of
range for EVERY graph. (SortCollision and the parent walk diverged on cycles until they were repaired;
the input classes of those defects are still recognised, and a crash inside them is reported as the
repaired defect coming back.)
Search (harness/o_corrupt.cpp, ASan/UBSan, watchdog): every block-reference field of the raw-saved
samples (found with the reference hook) x corruption kinds, 1..3 at a time -> load, query battery,
copy, save raw/default, reload. Tie: the extracted model runs on the graph dumped after loading each
corrupted file and predicts every digest of the battery, including the exact order PrettySortBlocks produces."""
import concurrent.futures as cf
import json
import os
import random
import re
import time

import vlib

PID = "C15"
NPOS = 4294967295
SYNTH_FILES = ["@skin_sse", "@skin_le", "@skin_fo4", "@skin_ob", "@skin2_sse", "@skin2_le", "@skin2_fo4"]

# API-built collision structures (see c_build_synth in harness/o_corrupt.cpp); every reference of every
# block is then overwritten with every value of {empty, 0..n-1, n, n+5}
SYNTH_BASES = [
    "N:1|3+C:2+B:4|+N:x|+M:5+S:",                                  # node -> collision object -> body -> mopp -> box
    "N:1.6|3+C:2+B:4|+N:x|+L:5.5+S:+X:",                           # list shape, shared sub shape, extra data
    "N:1|4+C:2+B:x|3+H:2.6+N:5|+C:6+B:x|3",                        # two bodies joined by a hinge
    "N:1|4+C:2+B:x|3+K:2.6|2.6+N:5|+C:6+B:x|",                     # ball-socket chain
    "N:x|1.2+N:x|+N:x|1",                                          # nodes only (shared child)
    "N:x|1+T:2|x.x.x+C:3+B:x|",                                    # shape with a collision object
]

# aborting undefined behaviour unrelated to references that is recorded with status "known":
# (finding id, skip flag of the battery, all of these substrings in stderr) -- none at present
KNOWN_UB = []
# recoverable UBSan reports (the asan flavour continues after invalid bool/enum loads): finding id, substrings
KNOWN_WARN = [
    ("C15-ub-invalid-bool-copy", ["is not a valid value for type 'bool'", "NiBlendBoolInterpolator"]),
]


def kv(line):
    return dict(t.split("=", 1) for t in (line or "").split(" ") if "=" in t)


def spec_str(spec):
    if "blocks" in spec:
        return "blocks=" + spec["blocks"]
    return "file=%s at=%s" % (spec["file"], ",".join("%d:%d" % (o, v) for o, v in spec["at"]))


def op_name(spec, op):
    return ("synth" + op) if "blocks" in spec else op


def spec_of_case(case):
    """case line (any op) -> spec"""
    d = kv(case)
    if "blocks" in d:
        return {"blocks": d["blocks"], "kind": d.get("kind", "replay")}
    at = [tuple(int(x) for x in a.split(":")) for a in d.get("at", "").split(",") if a]
    return {"file": d["file"], "at": at, "kind": d.get("kind", "replay")}


def par_run(binp, args, cases, env, timeout=600, min_batch=4, workers=None, warnings=None, single_timeout=None):
    """vlib.run_cases_robust over chunks, in parallel; results in input order"""
    if not cases:
        return []
    workers = workers or vlib.NPROC
    per = max(min_batch, (len(cases) + workers * 4 - 1) // (workers * 4))
    chunks = [cases[i:i + per] for i in range(0, len(cases), per)]
    with cf.ThreadPoolExecutor(max_workers=workers) as ex:
        res = list(ex.map(lambda ch: vlib.run_cases_robust(binp, args, ch, timeout_per_batch=timeout, batch=len(ch) + 1, env=env,
                                                           single_timeout=single_timeout, warnings=warnings), chunks))
    out = [r for rs in res for r in rs]
    # vlib.run_lines returns [''] for an empty stdout, which run_cases_robust takes for the first case's
    # output when a batch dies on its first case: such a result is re-run on its own
    bad = [i for i, (c, l, cr) in enumerate(out) if cr is None and (l is None or not l.startswith(("I=", "M=")))]
    if bad:
        e = env
        redo = run_each(binp, args, [out[i][0] for i in bad], e, timeout=single_timeout or 120)
        for i, r in zip(bad, redo):
            out[i] = r
    return out


def run_each(binp, args, cases, env, timeout=60, workers=None, warnings=None):
    """one process per case (used where a crash is the expected outcome); [(case, line, crash)]"""
    def one(c):
        rc, lines, err = vlib.run_lines(binp, args, [c], timeout=timeout, env=env)
        if rc == 0 and len(lines) == 1:
            if warnings is not None and "runtime error:" in err:
                warnings.append(([c], err[-4000:]))
            return (c, lines[0], None)
        return (c, lines[0] if lines else None, {"rc": rc, "stderr": err[-6000:]})
    if not cases:
        return []
    with cf.ThreadPoolExecutor(max_workers=workers or vlib.NPROC) as ex:
        return list(ex.map(one, cases))


# ------------------------------------------------------------------------------------------------
# scan results


def parse_scan(line):
    d = kv(line)
    fields = []
    for f in d.get("fields", "").split(";"):
        if not f:
            continue
        off, owner, kind, val = f.split(":")
        fields.append({"off": int(off), "owner": int(owner), "kind": kind, "val": NPOS if val == "x" else int(val)})
    blocks = []
    for b in d.get("g", "").split("+"):
        fs = dict((x[:2], x[3:]) for x in b.split(";") if len(x) >= 3)
        blocks.append({"ty": fs.get("ty", "?"),
                       "ci": [NPOS if r == "x" else int(r) for r in fs.get("ci", "").split(".") if r]})
    return {"n": int(d.get("n", "0")), "size": int(d.get("size", "0")), "fields": fields, "blocks": blocks}


def ancestors(scan):
    """per block: the chain of blocks above it in the tree spanned from block 0 by GetChildIndices"""
    n = scan["n"]
    parent = {0: None}
    order = [0]
    for b in order:
        for c in scan["blocks"][b]["ci"]:
            if c != NPOS and c < n and c not in parent:
                parent[c] = b
                order.append(c)
    anc = {}
    for b in range(n):
        chain = []
        p = parent.get(b)
        while p is not None:
            chain.append(p)
            p = parent.get(p)
        anc[b] = chain
    return anc


def gen_file_cases(name, scan, tier, rng, small):
    """corruption specs for one file"""
    n = scan["n"]
    anc = ancestors(scan)
    fields = scan["fields"]
    big = len(fields) > 150                 # FO76, DeepGraph, Animated: most of the run time
    types = [b["ty"] for b in scan["blocks"]]
    out = []

    def fixed_kinds(f):
        vals = []
        if f["val"] != NPOS:
            vals.append(("empty", NPOS))
        vals.append(("count", n))
        one_beyond = tier == "quick" or big
        if not one_beyond or (f["off"] // 4) % 2 == 0:
            vals.append(("beyond", n + 5))
        if not one_beyond or (f["off"] // 4) % 2 == 1:
            vals.append(("beyond", 0x7FFFFFFF))
        if f["owner"] >= 0 and f["val"] != f["owner"]:
            vals.append(("self", f["owner"]))
        chain = anc.get(f["owner"], [])
        if tier == "quick" and len(chain) > 3:
            chain = chain[:2] + chain[-1:]          # parent, grandparent, root
        elif big and len(chain) > 3:
            chain = chain[:2] + chain[-1:]
        for a in chain:
            if a != f["val"]:
                vals.append(("ancestor", a))
        return vals

    def arbitrary(f, k):
        cur_ty = types[f["val"]] if f["val"] != NPOS and f["val"] < n else None
        others = [i for i in range(n) if i != f["val"]]
        wrong = [i for i in others if types[i] != cur_ty]
        same = [i for i in others if types[i] == cur_ty]
        picks = []
        if same:
            picks.append(rng.choice(same))      # another block of the type the field expects: passes the type test
        if wrong:
            picks.append(rng.choice(wrong))     # a block of another type
        while len(picks) < k and others:
            picks.append(rng.choice(others))
        return [("inrange", v) for v in picks[:k]]

    if tier == "quick":
        flds = fields if small else rng.sample(fields, min(len(fields), 6))
        for f in flds:
            for kind, v in fixed_kinds(f) + arbitrary(f, 2 if small else 1):
                out.append({"file": name, "at": [(f["off"], v)], "kind": kind})
        nmulti = 12 if small else 3
    else:
        for f in fields:
            arb = [("inrange", v) for v in range(n) if v != f["val"]] if n <= 24 else arbitrary(f, 2 if big else 6)
            for kind, v in fixed_kinds(f) + arb:
                out.append({"file": name, "at": [(f["off"], v)], "kind": kind})
        nmulti = 120 if n <= 24 else 40
    # 2..3 simultaneous corruptions
    if len(fields) >= 2:
        for _ in range(nmulti):
            k = rng.choice([2, 2, 3]) if len(fields) >= 3 else 2
            fs = rng.sample(fields, k)
            at = []
            for f in fs:
                cands = fixed_kinds(f) + arbitrary(f, 2)
                at.append((f["off"], rng.choice(cands)[1]))
            out.append({"file": name, "at": sorted(at), "kind": "multi%d" % k})
    # de-duplicate
    seen, res = set(), []
    for s in out:
        key = spec_str(s)
        if key not in seen:
            seen.add(key)
            res.append(s)
    return res


def synth_block_refs(spec):
    """positions of reference values inside a synth block list: [(block index, part index, ref index)]"""
    out = []
    for bi, b in enumerate(spec.split("+")):
        parts = b.split(":")
        if len(parts) < 2:
            continue
        for hi, half in enumerate(parts[1].split("|")):
            for ri, r in enumerate(half.split(".")):
                if r != "":
                    out.append((bi, hi, ri))
    return out


def synth_replace(spec, pos, val):
    bi, hi, ri = pos
    blocks = spec.split("+")
    parts = blocks[bi].split(":")
    halves = parts[1].split("|")
    refs = halves[hi].split(".")
    refs[ri] = "x" if val == NPOS else str(val)
    halves[hi] = ".".join(refs)
    parts[1] = "|".join(halves)
    blocks[bi] = ":".join(parts)
    return "+".join(blocks)


def gen_synth_cases(tier, rng):
    out = []
    for base in SYNTH_BASES:
        n = len(base.split("+"))
        out.append({"blocks": base, "kind": "base"})
        poss = synth_block_refs(base)
        for pos in poss:
            for v in [NPOS, n, n + 5] + list(range(n)):
                s = synth_replace(base, pos, v)
                if s != base:
                    out.append({"blocks": s, "kind": "synth1"})
        for _ in range(40 if tier == "quick" else 600):
            s = base
            for pos in rng.sample(poss, min(len(poss), rng.choice([2, 3]))):
                s = synth_replace(s, pos, rng.choice([NPOS, n] + list(range(n))))
            out.append({"blocks": s, "kind": "synthmulti"})
    seen, res = set(), []
    for s in out:
        if s["blocks"] not in seen:
            seen.add(s["blocks"])
            res.append(s)
    return res


# ------------------------------------------------------------------------------------------------


COMPARED = ["n", "shapes", "nodes", "root", "tree", "lk", "rf", "par", "ts", "nd", "du", "so"]


def skin_mismatch(graph):
    """some shape's BSSkin::Instance (bn = its bone count) points to a BSSkin::BoneData holding fewer records (bx)"""
    if " g=" not in " " + graph:
        return False
    blocks = [dict((x[:2], x[3:]) for x in b.split(";") if len(x) >= 3) for b in graph.split("g=", 1)[1].split("+")]
    for b in blocks:
        sk = b.get("sk", "")
        if sk.isdigit() and int(sk) < len(blocks):
            inst = blocks[int(sk)]
            sd = inst.get("sd", "")
            if "bn" in inst and sd.isdigit() and int(sd) < len(blocks) and "bx" in blocks[int(sd)]:
                if int(blocks[int(sd)]["bx"]) < int(inst["bn"]):
                    return True
    return False


def known_match(k, ctx):
    """does the known-finding entry k describe this failure? (every key of its matcher is checked)"""
    m = k.get("match", {})
    if "op" in m and ctx.get("op") not in m["op"]:
        return False
    if m.get("graph_has_before_parent_cycle") and ctx.get("cyc", "-") in ("-", ""):
        return False
    if m.get("graph_has_node_parent_cycle") and not ctx.get("pcyc"):
        return False
    if m.get("watchdog") and "WATCHDOG" not in ctx.get("stderr", ""):
        return False
    if m.get("graph_has_skin_with_fewer_bone_records") and not skin_mismatch(ctx.get("graph", "")):
        return False
    for s in m.get("stderr_contains", []):
        if s not in ctx.get("stderr", ""):
            return False
    if "nifly_frames_if_any" in m:
        # ASan sometimes cannot unwind an exhausted stack ("<empty stack>"); when it can, the recursion must be this one
        fr = re.findall(r"#\d+ 0x[0-9a-f]+ in (nifly::[\w:<>~]+)", ctx.get("stderr", ""))
        if fr and sum(1 for f in fr if m["nifly_frames_if_any"] in f) * 2 < len(fr):
            return False
    return True


def run(tier, seed, replay=None):
    rep = vlib.Reporter(PID, tier, seed)
    t_start = time.time()
    hygiene = vlib.coq_hygiene()
    pr = vlib.coq_property(PID)
    cov = vlib.proof_coverage(pr, hygiene)
    if not pr["ok"] or hygiene:
        rep.violation("proof obligations of Properties_C15.v not discharged: " + ",".join(pr["failed"] or hygiene),
                      {"broken": "theorems " + ",".join(pr["failed"]), "log": pr["log"][-3000:], "hygiene": hygiene}, found_input=False)
    impl_exe = vlib.build_oracle("asan")
    model_bin = vlib.build_model_oracle()
    # an 8 MB stack for the implementation: should unbounded recursion come back it is reported within a second
    # (vlib's default for the C++ oracles is 64 MB)
    impl_bin = "/bin/sh"
    IMPL = ["-c", "ulimit -s 8192; exec '%s' corrupt" % impl_exe]
    rng = random.Random(seed)
    samples_dir = os.environ.get("VERIF_SAMPLES") or os.path.join(vlib.REPO, "tests", "input")
    env = {"VERIF_SAMPLES": samples_dir, "VERIF_CASE_TIMEOUT": "20",
           "ASAN_OPTIONS": "detect_leaks=0:abort_on_error=0:allocator_may_return_null=1:detect_stack_use_after_return=0"}
    known = {k["id"]: k for k in rep.known}
    all_entries = [k for k in vlib.load_known() if k.get("property") == PID]
    timings = {}

    # ---------------------------------------------------------------- scan + baseline
    t0 = time.time()
    file_flags = {}
    scans = {}
    if replay:
        r = json.load(open(replay))
        rcases = [r["case"]] if "case" in r else [c["case"] for c in r.get("cases", [])]
        specs = [spec_of_case(c) for c in rcases]
        files = sorted({s["file"] for s in specs if "file" in s})
    else:
        files = sorted(f for f in os.listdir(samples_dir) if f.endswith(".nif")) + SYNTH_FILES
        specs = []
    scan_res = par_run(impl_bin, IMPL, ["scan file=%s" % f for f in files], env, timeout=300, min_batch=1)
    for f, (c, line, crash) in zip(files, scan_res):
        if crash is not None or line is None or not line.startswith("I=ok"):
            rep.violation("reference scan of a sample failed (harness save loop / hook): " + str((line or "")[:120]),
                          {"case": c, "family": "corrupt", "crash": crash, "broken": "scan"}, found_input=False)
            continue
        scans[f] = parse_scan(line)
        scans[f]["graphline"] = line.split(" load=0 ", 1)[1] if " load=0 " in line else ""
    # the uncorrupted file through the whole battery: anything that fails here is not caused by a reference
    warnings = []

    def baseline(f):
        flags, out = [], []
        for _ in range(len(KNOWN_UB) + 1):
            case = battery_line({"file": f, "at": [], "kind": "baseline"}, flags)
            (_, line, crash), = run_each(impl_bin, IMPL, [case], env, timeout=240, warnings=warnings)
            if crash is None:
                return flags, out, True
            hit = None
            for kid, flag, pats in KNOWN_UB:
                if flag not in flags and all(p in crash["stderr"] for p in pats):
                    hit = (kid, flag)
            ctx = {"op": "battery", "stderr": crash["stderr"], "case": case}
            if hit and hit[0] in known and known_match(known[hit[0]], ctx):
                out.append(("known", hit[0], case))
                flags.append(hit[1])
                continue
            out.append(("violation", case, crash))
            return flags, out, False
        return flags, out, False

    with cf.ThreadPoolExecutor(max_workers=vlib.NPROC) as ex:
        bres0 = list(ex.map(baseline, list(scans)))
    for f, (flags, out, ok) in zip(list(scans), bres0):
        for o in out:
            if o[0] == "known":
                rep.known_finding(o[1], o[2])
            else:
                ctx = {"op": "battery", "stderr": (o[2] or {}).get("stderr", ""), "case": o[1]}
                back = [k["id"] for k in all_entries if k.get("status") == "fixed" and known_match(k, ctx)]
                rep.violation(("the repaired defect %s is back: " % back[0] if back else "") +
                              "the battery fails on the UNCORRUPTED sample (sanitizer/abort/timeout) [%s]" % crash_site(o[2]),
                              {"case": o[1], "family": "corrupt", "crash": o[2]})
        if not ok:
            del scans[f]
        file_flags[f] = flags
    timings["scan_baseline_s"] = round(time.time() - t0, 1)

    # ---------------------------------------------------------------- generate
    if not replay:
        try:
            for l in open(os.path.join(vlib.ROOT, "corpus", PID, "cases.txt")):
                l = l.strip()
                if l and not l.startswith("#"):
                    s = spec_of_case(l)
                    if "blocks" in s or (s["file"] in scans and all(o in {f["off"] for f in scans[s["file"]]["fields"]} for o, _ in s["at"])):
                        s["kind"] = "corpus"
                        specs.append(s)
        except OSError:
            pass
        for f in sorted(scans):
            small = scans[f]["size"] <= 30000
            specs += gen_file_cases(f, scans[f], tier, rng, small)
        specs += gen_synth_cases(tier, rng)
    specs = [s for s in specs if "blocks" in s or s["file"] in scans]
    for s in specs:
        s["flags"] = list(file_flags.get(s.get("file"), []))

    def mk(op, s, extra=""):
        return "%s %s kind=%s%s%s" % (op_name(s, op), spec_str(s), s["kind"], flag_str(s["flags"]), extra)

    # ---------------------------------------------------------------- load + graph dump, model
    t0 = time.time()
    gres = par_run(impl_bin, IMPL, [mk("graph", s) for s in specs], env, timeout=600)
    live = []
    for s, (c, line, crash) in zip(specs, gres):
        if crash is not None or line is None:
            rep.violation("loading a file with a corrupted block reference crashed (sanitizer/abort/timeout)",
                          {"case": c, "family": "corrupt", "crash": crash})
            continue
        if not line.startswith("I=load=0 "):
            rep.violation("a file with a corrupted block reference no longer loads: " + line[:80], {"case": c, "family": "corrupt", "impl": line[:300]})
            continue
        s["graph"] = line[len("I=load=0 "):]
        s["base_graph"] = scans[s["file"]]["graphline"] if "file" in s else None
        live.append(s)
    timings["graph_s"] = round(time.time() - t0, 1)
    t0 = time.time()
    # the model's recursion is as deep as its fuel on a diverging graph: give it a large stack
    sh_cmd = "ulimit -s 4000000 2>/dev/null || ulimit -s unlimited 2>/dev/null; exec '%s' corrupt" % model_bin
    mres = par_run("/bin/sh", ["-c", sh_cmd], ["model " + s["graph"] for s in live], None, timeout=900)
    ready = []
    for s, (c, line, crash) in zip(live, mres):
        if crash is not None or line is None or not line.startswith("M=n="):
            rep.violation("model oracle failed on a dumped graph: " + str((line or "")[:100]),
                          {"case": mk("graph", s), "family": "corrupt", "model_crash": crash, "model": line, "broken": "model oracle"}, found_input=False)
            continue
        s["model"] = kv(line[2:])
        s["model"]["n"] = line[2:].split(" ")[0].split("=")[1]
        ready.append(s)
    timings["model_s"] = round(time.time() - t0, 1)

    # ---------------------------------------------------------------- battery
    t0 = time.time()
    for s in ready:
        m = s["model"]
        s["cyc"] = m.get("cyc", "-")          # a cycle of before-parent calls of SortCollision (checked by rg_closed_ok)
        s["pcyc"] = m.get("pcyc", "")         # first-node ids whose parent chain runs into a cycle (rb_pclosed_ok)
        s["battery_case"] = battery_line(s, s["flags"])
    # a first slice decides whether the tree is badly broken: then the rest would only multiply watchdog time
    order = list(range(len(ready)))
    random.Random(seed + 2).shuffle(order)
    first = sorted(order[:min(len(order), 320)])
    rest = sorted(order[len(first):])
    part1 = par_run(impl_bin, IMPL, [ready[i]["battery_case"] for i in first], env, timeout=900, warnings=warnings, single_timeout=40)
    ncrash1 = sum(1 for (_, l, cr) in part1 if cr is not None or l is None)
    skipped_after_slice = 0
    if ncrash1 >= 12 and not replay:
        skipped_after_slice = len(rest)
        rest = []
    part2 = par_run(impl_bin, IMPL, [ready[i]["battery_case"] for i in rest], env, timeout=900, warnings=warnings, single_timeout=40)
    bmap = dict(zip(first + rest, part1 + part2))
    ready = [ready[i] for i in sorted(bmap)]
    bres = [bmap[i] for i in sorted(bmap)]
    mism, specfails = [], []
    nontriv = set()
    kinds = {}
    retry = []
    for s, (c, line, crash) in zip(ready, bres):
        kinds[s["kind"]] = kinds.get(s["kind"], 0) + 1
        if crash is not None or line is None:
            retry.append((s, c, crash))
            continue
        check_line(s, c, line, mism, specfails, nontriv)
    # a crash: known undefined behaviour unrelated to references is skipped around once, anything else is a violation
    for (s, c, crash) in retry:
        line = None
        for _ in range(len(KNOWN_UB) + 1):
            err = (crash or {}).get("stderr", "")
            hit = None
            for kid, flag, pats in KNOWN_UB:
                if all(p in err for p in pats) and flag not in s["flags"]:
                    hit = (kid, flag)
            ctx = {"op": "battery", "stderr": err, "case": c, "cyc": s["cyc"], "pcyc": s["pcyc"], "graph": s.get("graph", "")}
            if not (hit and hit[0] in known and known_match(known[hit[0]], ctx)):
                break
            rep.known_finding(hit[0], c)
            s["flags"].append(hit[1])
            c = battery_line(s, s["flags"])
            (_, line, crash), = run_each(impl_bin, IMPL, [c], env, timeout=240)
            if crash is None:
                break
        if crash is None and line:
            check_line(s, c, line, mism, specfails, nontriv)
            continue
        ctx = {"op": "battery", "stderr": (crash or {}).get("stderr", ""), "case": c, "cyc": s["cyc"], "pcyc": s["pcyc"], "graph": s.get("graph", "")}
        back = [k["id"] for k in all_entries if k.get("status") == "fixed" and known_match(k, ctx)]
        what = "hang (watchdog)" if "WATCHDOG" in (crash or {}).get("stderr", "") else "crash (sanitizer/abort)"
        if back:
            rep.violation("the repaired defect %s is back: %s [%s]" % (back[0], what, crash_site(crash)),
                          {"case": c, "family": "corrupt", "crash": crash, "model": s["model"]})
        else:
            rep.violation("%s in load/query/copy/save of a file with a corrupted block reference [%s]" % (what, crash_site(crash)),
                          {"case": c, "family": "corrupt", "crash": crash, "model": s["model"]})
    timings["battery_s"] = round(time.time() - t0, 1)

    # ---------------------------------------------------------------- the input classes of the repaired defects
    cyc_cases = [s for s in ready if s["cyc"] not in ("-", "")]
    pcyc_cases = [s for s in ready if s["pcyc"]]
    cycle_types = {}
    for s in cyc_cases:
        tys = [b.split(";")[0][3:] for b in s["graph"].split(" g=", 1)[1].split("+")]
        key = ">".join(tys[int(i)] for i in s["cyc"].split(".") if int(i) < len(tys))
        cycle_types[key] = cycle_types.get(key, 0) + 1

    for f in specfails[:10]:
        rep.violation("save/copy/reload of a file with a corrupted block reference failed: " + f["what"], dict(f, family="corrupt"))
    if mism and not specfails:
        rep.violation("correspondence corrupt (Coq traversal models vs NifFile/NiHeader on dumped graphs) no longer holds: " + mism[0]["what"][:160],
                      {"broken": "correspondence:corrupt", "family": "corrupt", "cases": mism[:10]}, found_input=False)

    # recoverable UBSan reports (invalid bool/enum loads do not abort the asan flavour)
    warn_sigs = {}
    for (wcases, text) in warnings:
        for sig in set(re.findall(r"([\w./]+:\d+:\d+: runtime error: [^\n]{0,120})", text)):
            sig = sig.split("/")[-1]
            warn_sigs[sig] = warn_sigs.get(sig, 0) + 1
        for kid, pats in KNOWN_WARN:
            ctx = {"op": "battery", "stderr": text, "case": wcases[0]}
            if all(p in text for p in pats) and kid in known and known_match(known[kid], ctx):
                rep.known_finding(kid, wcases[0])
    nfields = {f: len(scans[f]["fields"]) for f in scans}
    cov.update({
        "evaluations": len(specs),
        "distinct_nontrivial": len(nontriv),
        "rule": "per sample / API-synthesised file: every block-reference field found by the reference hook in the raw-saved file (quick: all fields of files <= 30 KB, 6 random fields of larger ones; thorough: all fields of all files) x {empty, count, count+5 and 0x7FFFFFFF (quick: one of the two per field), owner itself, each tree ancestor of the owner (quick: parent, grandparent, root), in-range indices (quick: 2 per field: another block of the same type as the current target when there is one, and one of another type; thorough: every index when the file has <= 24 blocks, else 6 (for the three files with more than 150 reference fields: 2, one of the two 'beyond' values, and parent/grandparent/root as ancestors))} + seeded random pairs/triples; API-built collision structures with every reference x every value; a case is non-trivial when the patched file loaded, its dumped graph differs from the uncorrupted file's and the whole battery ran; distinct = distinct case specifications",
        "samples": [mk("battery", s) for s in (specs[:2] + specs[len(specs) // 2:len(specs) // 2 + 2] + specs[-2:])],
        "input_distribution": {"files": len(scans), "reference_fields_per_file": nfields, "reference_fields": sum(nfields.values()),
                               "cases_per_kind": kinds, "files_with_baseline_flags": {f: v for f, v in file_flags.items() if v}},
        "traces_validated_against_impl": len(ready),
        "correspondence_mismatches": len(mism),
        "spec_failures_on_impl": len(specfails),
        "cases_with_a_cycle_of_before_parent_calls_all_sorted_and_saved": len(cyc_cases),
        "before_parent_cycles_by_block_types": cycle_types,
        "cases_with_a_node_parent_cycle_all_queried": len(pcyc_cases),
        "timings": timings,
        "battery_cases_not_run_after_a_crashing_first_slice": skipped_after_slice,
        "recoverable_ubsan_reports": warn_sigs,
        "unproved": UNPROVED,
        "trusted_base": vlib.BASE_TRUSTED + [
            "memory safety / absence of undefined behaviour is OBSERVED (ASan+UBSan, watchdog) on the enumerated corruptions only; no Coq model exhibits it",
            "modelled, not verified: std::set<uint32_t> visitedIndices as one flag per block id, std::vector as lists with faulting access, dynamic_cast as dumped kind flags",
        ],
        "exhaustive": False,
    })
    level_note = ["reference fields are those passing through NiBlockRef::Sync (onRef hook) when the loaded sample is saved raw; the corrupted file is otherwise the valid raw-saved sample",
                  "theorems: arbitrary graphs (any reference any number); header tables consistent (counter = vector size) for the no-fault statements"]
    return rep.finish(cov, level_note)


UNPROVED = []


def flag_str(flags):
    return ""


def battery_line(spec, flags):
    sk = list(flags)
    return "%s %s kind=%s%s%s" % (op_name(spec, "battery"), spec_str(spec), spec.get("kind", "replay"), flag_str(flags),
                                  (" skip=" + ",".join(sk)) if sk else "")


def crash_site(crash):
    err = (crash or {}).get("stderr", "")
    if "WATCHDOG" in err:
        return "watchdog"
    m = re.search(r"(AddressSanitizer: [\w-]+|runtime error: [^\n]{0,80})", err)
    site = re.sub(r" 0x[0-9a-f]+", "", m.group(1)) if m else "rc=%s" % (crash or {}).get("rc")
    fr = re.findall(r"#\d+ 0x[0-9a-f]+ in (nifly::[\w:<>~]+)", err)
    if fr:
        site += " in " + fr[0]
    return site


def check_line(s, c, line, mism, specfails, nontriv):
    I = kv(line[2:])
    I["n"] = I.get("n", "")
    M = s["model"]
    for k in COMPARED:
        if k == "so" and "so" not in I:
            continue
        iv, mv = I.get(k), M.get(k)
        if iv != mv:
            mism.append({"case": c, "what": "digest %s: implementation %s, model %s" % (k, iv, mv), "impl": line[:400], "model": M})
            break
    if "BAD" in line:
        specfails.append({"case": c, "what": "a guarded lookup returned a block for an id outside the table: " + line[:200]})
    n = I.get("n", "0")
    for key in ("copy", "raw", "dflt", "opt"):
        if key not in I:
            continue
        p = I[key].split("/")
        ok = len(p) == 4 and p[0] == "0" and p[2] == "0" and int(p[1]) > 0
        # (FinalizeData may add or drop tangent extra data, Optimize prunes: only a loadable, non-empty result is required)
        if ok and int(p[3]) <= 0:
            ok = False
        if not ok:
            specfails.append({"case": c, "what": "%s=%s (save rc / size / reload rc / blocks) for a model of %s blocks" % (key, I[key], n), "impl": line[:400]})
            break
    if s["kind"] not in ("baseline", "base") and s.get("graph") != s.get("base_graph"):
        nontriv.add(spec_str(s))
