"""C12 — LE<->SE conversion preserves geometry and skinning and yields a valid file.

Level: PARTIAL.  Proved (coq/Properties/Properties_C12.v over coq/Convert/*.v): the pure list logic of
NifFile::RenameDuplicateShapes (faithful loop model; distinctness under an explicit hypothesis and its
refutation without it), the geometry bookkeeping of the two directions (positions / triangle lists /
strip expansion, by reuse of the C13 and C18 lemmas) and the reference carry-over as a
record-to-record function.  The conversion as a whole (NifFile::OptimizeFor, ~470 lines, skin
partitions, shader flag fixes, block deletion, sorting) is EXPLORED, not proved: harness/o_convert.cpp
converts every LE/SE sample file and API-built models under every option combination, saves, reloads,
converts back, and this module evaluates the property's clauses on the dumps."""
import itertools
import json
import os
import random
import struct
import concurrent.futures as cf

import vlib

PID = "C12"
FAM = "convert"


def b2f(b):
    return struct.unpack("<f", struct.pack("<I", b & 0xFFFFFFFF))[0]


def f2b(x):
    return struct.unpack("<I", struct.pack("<f", x))[0]


def half_rt_bits(b):
    x = b2f(b)
    try:
        h = struct.unpack("<e", struct.pack("<e", x))[0]
    except OverflowError:
        h = float("inf") if x > 0 else float("-inf")
    return f2b(h)


def hexs(s):
    return s.encode("latin-1").hex()


# ------------------------------------------------------------------------------------------------
# case generation

OPTS_ALL = ["".join(p) for p in itertools.product("01", repeat=5)]          # hp, rp, cb, bsx, sf
SHAPE_FLAGS_LE = ["un", "u", "n", "", "unc", "unw", "uns", "unsc", "unsp", "unsq", "unt", "unts", "unm", "unsm", "una", "une", "unsae", "uc"]
SHAPE_FLAGS_SE = ["un", "u", "n", "", "unc", "unw", "uns", "unsc", "unsd", "unm", "unsm", "una", "une", "unh", "unhs", "unhsd", "uc"]


def samples_dir():
    return os.environ.get("VERIF_SAMPLES", os.path.join(vlib.REPO, "tests", "input"))


def gen_shape(rng, ver, name, parent, flags=None):
    fl = flags if flags is not None else rng.choice(SHAPE_FLAGS_LE if ver == "sk" else SHAPE_FLAGS_SE)
    nv = rng.choice([0, 1, 2, 3, 4, 5, 8, 12, rng.randint(3, 40)])
    nt = rng.choice([0, 1, 2, 4, rng.randint(0, 30)])
    nb = rng.choice([1, 2, 3, 5]) if "s" in fl else 0
    return "%s:%d:%d:%d:%s:%d" % (name, parent, nv, nt, fl, nb)


NAME_POOLS = [["A_1", "A", "A"], ["A", "A", "A"], ["A", "A_1", "A"], ["A", "A", "A_1"], ["A_1", "A_1", "A"], ["A", "B", "A", "B"],
              ["A_2", "A", "A", "A"], ["X", "Y", "Z"], ["A", "A_1_1", "A_1", "A_1"], ["S", "S"], ["A_1", "A"], ["A_01", "A", "A"]]


def opts_for(dynamic, full, rng=None):
    """option combinations; headParts (first digit) only for models made of dynamic shapes"""
    base = [o for o in OPTS_ALL if o[0] == "0"]
    if dynamic:
        base = OPTS_ALL
    if full:
        return base
    quick = ["01111", "00000", "01000", "00100", "00011"] + (["11111", "10011"] if dynamic else [])
    return quick


def gen_cases(tier, rng):
    full = tier == "thorough"
    files, gens, renames = [], [], []
    # (1) every LE / SE sample x option combinations
    sd = samples_dir()
    names = sorted(f for f in os.listdir(sd) if f.endswith(".nif"))
    for f in names:
        for o in opts_for("Dynamic" in f, full):
            files.append("file path=%s opts=%s" % (os.path.join(sd, f), o))
    # (2) API-built models
    for ver in ("sk", "sse"):
        flagset = SHAPE_FLAGS_LE if ver == "sk" else SHAPE_FLAGS_SE
        for fl in flagset:                                   # one shape, every flag set, option combinations
            for o in (opts_for("h" in fl, True) if full else opts_for("h" in fl, False)[:4]):
                gens.append("gen ver=%s seed=%d opts=%s nodes= shapes=%s" % (ver, rng.randint(1, 10 ** 6), o, gen_shape(rng, ver, "Shp", 0, fl)))
        for pool in NAME_POOLS:                              # sibling name clashes
            shapes = ";".join(gen_shape(rng, ver, n, 0, rng.choice(["un", "unc", "uns"])) for n in pool)
            gens.append("gen ver=%s seed=%d opts=01111 nodes= shapes=%s" % (ver, rng.randint(1, 10 ** 6), shapes))
            shapes = ";".join(gen_shape(rng, ver, n, 1 + (i % 2), "un") for i, n in enumerate(pool))
            gens.append("gen ver=%s seed=%d opts=01111 nodes=N1:0;N2:1 shapes=%s" % (ver, rng.randint(1, 10 ** 6), shapes))
            gens.append("gen ver=%s seed=%d opts=01111 nodes=N1:0;N2:0 shapes=%s" % (ver, rng.randint(1, 10 ** 6), shapes))
        for _ in range(400 if full else 40):                 # random multi-shape models
            nn = rng.randint(0, 3)
            nodes = ";".join("N%d:%d" % (i + 1, rng.randint(0, i)) for i in range(nn))
            k = rng.randint(1, 4)
            pool = rng.choice(NAME_POOLS + [["P", "Q", "R", "S"]] * 6)
            flags = [rng.choice([f for f in flagset if "h" not in f]) for _ in range(k)]
            shapes = ";".join(gen_shape(rng, ver, rng.choice(pool), rng.randint(0, nn), flags[i]) for i in range(k))
            gens.append("gen ver=%s seed=%d opts=%s nodes=%s shapes=%s" % (ver, rng.randint(1, 10 ** 6), rng.choice(opts_for(False, True)), nodes, shapes))
    # (3) RenameDuplicateShapes directly: every child list over a small name alphabet
    alphabet = ["A", "A_1", "A_2", "B", "", "A_1_1"]
    for n in range(1, 5 if full else 4):
        for combo in itertools.product(range(len(alphabet)), repeat=n):
            for kinds in (["s" * n] if not full else ["s" * n, "n" + "s" * (n - 1), "s" + "n" * (n - 1)]):
                kids = ";".join("0:%s:%s" % (kinds[i], hexs(alphabet[combo[i]])) for i in range(n))
                renames.append("rename nodes= kids=%s" % kids)
    for _ in range(300 if full else 60):
        n = rng.randint(2, 8)
        nn = rng.randint(0, 2)
        kids = ";".join("%d:%s:%s" % (rng.randint(0, nn), rng.choice("sssn"), hexs(rng.choice(alphabet + ["A_3", "B_1", "A_10"]))) for _ in range(n))
        renames.append("rename nodes=%s kids=%s" % (";".join(str(rng.randint(0, i)) for i in range(nn)), kids))
    return files, gens, renames


# ------------------------------------------------------------------------------------------------
# evaluation of the property on the dumps

def canon_tri(t):
    a, b, c = t
    m = min(a, b, c)
    while a != m:
        a, b, c = b, c, a
    return (a, b, c)


def tri_set(flat):
    return sorted(canon_tri(tuple(flat[i:i + 3])) for i in range(0, len(flat) - 2, 3))


def fingerprint(s):
    return (s["nv"], tuple(s["verts"] or ()))


def match_shapes(a, b):
    """pair the shapes of two dumps by their vertex positions (which the property says are kept bit-exactly)"""
    pairs, missing = [], []
    pool = list(b["shapes"])
    for s in a["shapes"]:
        fp = fingerprint(s)
        cand = [t for t in pool if fingerprint(t) == fp]
        # several shapes with identical positions: prefer the same parent, then the same triangle set
        cand.sort(key=lambda t: (t["parent"] != s["parent"], tri_set(t["tris"]) != tri_set(s["tris"]), t["name"] != s["name"]))
        if cand:
            pairs.append((s, cand[0]))
            pool.remove(cand[0])
        else:
            missing.append(s)
    return pairs, missing, pool


def near_half(w, g):
    return g == w or g == half_rt_bits(w)


def weights_of(s):
    """per vertex the (bone name, weight) pairs: what the public accessor reports; for a BSTriShape whose
    vertex data carries no weight at all (a model that keeps them in NiSkinData only) the NiSkinData ones"""
    src = s["weights"]
    if s["type"] != "NiTriShape" and not any(src) and any(s.get("sdw", [])):
        src = s["sdw"]
    out = []
    for vw in src:
        out.append(sorted((s["bones"][b] if b < len(s["bones"]) else "#%d" % b, b2f(w)) for b, w in vw))
    return out


def weights_close(a, b):
    """per vertex the same set of (bone, weight), weights within 1e-4 (so an entry below 1e-4 may be absent)"""
    n = max(len(a), len(b))
    for v in range(n):
        x = dict(a[v]) if v < len(a) else {}
        y = dict(b[v]) if v < len(b) else {}
        for bn in set(x) | set(y):
            if abs(x.get(bn, 0.0) - y.get(bn, 0.0)) > 1e-4:
                return False
    return True


def white(cols):
    one = f2b(1.0)
    return all(c == one for c in cols)


def compare_shape(s, t, what, same_file_precision):
    """clauses of the property between a shape and its image; returns list of failure strings"""
    bad = []
    if tri_set(s["tris"]) != tri_set(t["tris"]):
        bad.append("triangle set differs")
    if s["uvs"] is not None and s["nv"] > 0:
        if t["uvs"] is None or len(t["uvs"]) != len(s["uvs"]) or not all(near_half(a, b) for a, b in zip(s["uvs"], t["uvs"])):
            bad.append("texture coordinates not kept within half precision")
    if s["cols"] is not None and not white(s["cols"]):
        if t["cols"] is None or len(t["cols"]) != len(s["cols"]):
            bad.append("vertex colours lost")
        else:
            for a, b in zip(s["cols"], t["cols"]):
                x = min(1.0, max(0.0, b2f(a)))
                if abs(b2f(b) - x) > 1.0 / 255.0 + 1e-6:
                    bad.append("vertex colours not kept within byte precision")
                    break
    if s["bones"] != t["bones"]:
        bad.append("bone list differs")
    elif not weights_close(weights_of(s), weights_of(t)):
        bad.append("per-vertex bone weights differ")
    if (s["shader"] or "-") != (t["shader"] or "-"):
        bad.append("shader class differs")
    if s["parent"] != t["parent"]:
        bad.append("parent node differs")
    for k in ("alpha_ref", "ctrl_ref", "coll_ref", "props", "extra"):
        if s.get(k) != t.get(k):
            bad.append("reference not carried over: " + k)
    if (s["skin_ref"] == "-") != (t["skin_ref"] == "-"):
        bad.append("skin instance reference not carried over")
    return bad


def hierarchy(d):
    return sorted((n["name"], n["parent"] or "") for n in d["nodes"])


def sibling_dupes(d):
    seen, dup = {}, []
    for s in d["shapes"]:
        key = (s["pid"], s["name"])
        if key in seen:
            dup.append(s["name"])
        seen[key] = True
    return dup


def partition_failures(s):
    """every triangle in exactly one partition; vertexMap = the vertices its triangles use; mapped triangles agree"""
    if "parts" not in s or not s["skinned"]:
        return []
    bad = []
    want = tri_set(s["tris"])
    got = []
    for k, p in enumerate(s["parts"]):
        vm = p["vmap"]
        true = tri_set(p["true"])
        mapped = [tuple(p["tris"][i:i + 3]) for i in range(0, len(p["tris"]) - 2, 3)]
        if not true and mapped:
            if s.get("mapped"):
                if any(i >= len(vm) for t in mapped for i in t):
                    bad.append("partition %d: mapped triangle index outside vertexMap" % k)
                    continue
                true = sorted(canon_tri(tuple(vm[i] for i in t)) for t in mapped)
            else:
                true = sorted(canon_tri(t) for t in mapped)
        used = sorted({i for t in true for i in t})
        if vm and sorted(vm) != used:
            bad.append("partition %d: vertexMap is not the set of vertices used by its triangles" % k)
        if len(set(vm)) != len(vm):
            bad.append("partition %d: vertexMap has duplicates" % k)
        got += true
    if sorted(got) != want:
        bad.append("partition triangles are not the shape's triangles exactly once")
    return bad


def evaluate_pipeline(case, d):
    """returns (failures [(what, detail)], known [(id, detail)], nontrivial flag)"""
    fails, known = [], []
    st = {s["stage"]: s for s in d.get("stages", [])}
    if "orig" not in st:
        return fails, known, False
    orig = st["orig"]["d"]
    is_le = orig["ver"][2] == 83
    is_se = orig["ver"][2] == 100
    if not (is_le or is_se) or "conv0" not in st:
        return fails, known, False
    if st["conv0"]["res"]["mismatch"]:
        return fails, known, False

    def check_pair(a_name, b_name, label, through_file):
        a, b = st[a_name]["d"], st[b_name]["d"]
        pairs, missing, extra = match_shapes(a, b)
        for s in missing:
            fails.append(("%s: vertex positions of shape not kept bit-exactly (no shape with these positions afterwards)" % label, {"shape": s["name"], "nv": s["nv"]}))
        for s, t in pairs:
            for w in compare_shape(s, t, label, through_file):
                fails.append(("%s: %s" % (label, w), {"shape": s["name"], "type_before": s["type"], "type_after": t["type"],
                                                     "weights_before": sum(len(x) for x in s["weights"]), "weights_after": sum(len(x) for x in t["weights"])}))
        if hierarchy(a) != hierarchy(b):
            fails.append(("%s: node hierarchy differs" % label, {"before": hierarchy(a)[:8], "after": hierarchy(b)[:8]}))

    check_pair("orig", "conv0", "conversion", False)
    dup = sibling_dupes(st["conv0"]["d"])
    if dup:
        fails.append(("conversion: sibling shapes share a name afterwards", {"names": dup, "before": [s["name"] for s in orig["shapes"]],
                                                                            "after": [s["name"] for s in st["conv0"]["d"]["shapes"]]}))
    for s in st["conv0"]["d"]["shapes"]:
        for w in partition_failures(s):
            fails.append(("conversion: partition invariant: " + w, {"shape": s["name"]}))
    if "reload0" in st:
        r0 = st["reload0"]
        if r0.get("load_rc", 1) != 0 or r0.get("save_rc", 1) != 0:
            fails.append(("converted model does not save and reload in the target version", {"save_rc": r0.get("save_rc"), "load_rc": r0.get("load_rc")}))
        else:
            check_pair("conv0", "reload0", "save+reload of the converted model", True)
            for s in r0["d"]["shapes"]:
                for w in partition_failures(s):
                    fails.append(("reloaded converted model: partition invariant: " + w, {"shape": s["name"]}))
    if "reload1" in st and st["reload1"].get("load_rc", 1) == 0:
        check_pair("orig", "reload1", "there and back", True)
    elif "conv1" in st and "reload1" in st:
        fails.append(("model converted there and back does not reload", {"load_rc": st["reload1"].get("load_rc")}))
    return fails, known, True


# known-finding classification ---------------------------------------------------------------------
def classify(case, what, det, d):
    """map a failure to a recorded finding when it is exactly that input class; None otherwise"""
    st = {s["stage"]: s for s in d.get("stages", [])} if d else {}
    orig = st.get("orig", {}).get("d")
    if "share a name" in what and orig:
        # RenameDuplicateShapes accepted a candidate X_k that another child already carries, or empty names
        names = [s["name"] for s in orig["shapes"]]
        after = det.get("names", [])
        if any(n in names or n == "" for n in after) or any(n.rsplit("_", 1)[0] in names for n in after if "_" in n):
            return "C12-rename-candidate-taken"
    return None


# ------------------------------------------------------------------------------------------------
def run_parallel(binp, cases, chunk, timeout, env=None):
    chunks = [cases[i:i + chunk] for i in range(0, len(cases), chunk)]
    with cf.ThreadPoolExecutor(max_workers=max(2, vlib.NPROC - 2)) as ex:
        res = list(ex.map(lambda ch: vlib.run_cases_robust(binp, [FAM], ch, timeout_per_batch=timeout, env=env), chunks))
    out = [r for rs in res for r in rs]
    for i, (c, l, crash) in enumerate(out):
        if crash is None and (l is None or l.strip() == ""):
            out[i] = vlib.run_cases_robust(binp, [FAM], [c], timeout_per_batch=timeout, env=env)[0]
    return out
