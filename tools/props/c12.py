"""C12 — LE<->SE conversion preserves geometry and skinning and yields a valid file.

Level: PARTIAL.  Proved (coq/Properties/Properties_C12.v over coq/Convert/*.v): the pure list logic of
NifFile::RenameDuplicateShapes (faithful loop model; distinctness under an explicit hypothesis and its
refutation without it), the geometry bookkeeping of the two directions (positions / triangle lists /
strip expansion, by reuse of the C13 and C18 lemmas) and the reference carry-over as a
record-to-record function.  The conversion as a whole (NifFile::OptimizeFor, ~470 lines, skin
partitions, shader flag fixes, block deletion, sorting) is EXPLORED, not proved: harness/o_convert.cpp
converts every LE/SE sample file and API-built models under every option combination, saves, reloads,
converts back, and this module evaluates the property's clauses on the dumps."""
import itertools
import json
import os
import random
import struct
import concurrent.futures as cf

import vlib

PID = "C12"
FAM = "convert"


def b2f(b):
    return struct.unpack("<f", struct.pack("<I", b & 0xFFFFFFFF))[0]


def f2b(x):
    return struct.unpack("<I", struct.pack("<f", x))[0]


def half_rt_bits(b):
    x = b2f(b)
    try:
        h = struct.unpack("<e", struct.pack("<e", x))[0]
    except OverflowError:
        h = float("inf") if x > 0 else float("-inf")
    return f2b(h)


def hexs(s):
    return s.encode("latin-1").hex()


# ------------------------------------------------------------------------------------------------
# case generation

OPTS_ALL = ["".join(p) for p in itertools.product("01", repeat=5)]          # hp, rp, cb, bsx, sf
SHAPE_FLAGS_LE = ["un", "u", "n", "", "unc", "unw", "uns", "unsc", "unsp", "unsq", "unt", "unts", "unT", "unTs", "unsS", "unsS3", "uns3", "unm", "unsm", "una", "une", "unsae", "uc",
                  "unsfr", "unsfR", "unsr", "unsR", "unscfR", "unsfrp"]
SHAPE_FLAGS_SE = ["un", "u", "n", "", "unc", "unw", "uns", "unsc", "unsd", "unm", "unsm", "una", "une", "unh", "unhs", "unhsd", "uc"]


def samples_dir():
    return os.environ.get("VERIF_SAMPLES", os.path.join(vlib.REPO, "tests", "input"))


def gen_shape(rng, ver, name, parent, flags=None):
    fl = flags if flags is not None else rng.choice(SHAPE_FLAGS_LE if ver == "sk" else SHAPE_FLAGS_SE)
    nv = rng.choice([0, 1, 2, 3, 4, 5, 8, 12, rng.randint(3, 40)])
    nt = rng.choice([0, 1, 2, 4, rng.randint(0, 30)])
    nb = rng.choice([1, 2, 3, 5]) if "s" in fl else 0
    return "%s:%d:%d:%d:%s:%d" % (name, parent, nv, nt, fl, nb)


NAME_POOLS = [["A_1", "A", "A"], ["A", "A", "A"], ["A", "A_1", "A"], ["A", "A", "A_1"], ["A_1", "A_1", "A"], ["A", "B", "A", "B"],
              ["A_2", "A", "A", "A"], ["X", "Y", "Z"], ["A", "A_1_1", "A_1", "A_1"], ["S", "S"], ["A_1", "A"], ["A_01", "A", "A"]]


def opts_for(dynamic, full, rng=None):
    """option combinations; headParts (first digit) only for models made of dynamic shapes"""
    base = [o for o in OPTS_ALL if o[0] == "0"]
    if dynamic:
        base = OPTS_ALL
    if full:
        return base
    quick = ["01111", "00000", "01000", "00100", "00011"] + (["11111", "10011"] if dynamic else [])
    return quick


def gen_cases(tier, rng):
    full = tier == "thorough"
    files, gens, renames = [], [], []
    # (1) every LE / SE sample x option combinations
    sd = samples_dir()
    names = sorted(f for f in os.listdir(sd) if f.endswith(".nif"))
    for f in names:
        for o in opts_for("Dynamic" in f, full):
            files.append("file path=%s opts=%s" % (os.path.join(sd, f), o))
        # the same file with every LE partition rewritten to an unordered vertex map (exporter-style), then saved and reloaded
        for mode in (1, 2):
            for o in (opts_for("Dynamic" in f, full) if full else ["01111"]):
                files.append("file path=%s opts=%s perm=%d seed=%d" % (os.path.join(sd, f), o, mode, rng.randint(1, 10 ** 6)))
    # (2) API-built models
    for ver in ("sk", "sse"):
        flagset = SHAPE_FLAGS_LE if ver == "sk" else SHAPE_FLAGS_SE
        for fl in flagset:                                   # one shape, every flag set, option combinations
            for o in (opts_for("h" in fl, True) if full else opts_for("h" in fl, False)[:4]):
                gens.append("gen ver=%s seed=%d opts=%s nodes= shapes=%s" % (ver, rng.randint(1, 10 ** 6), o, gen_shape(rng, ver, "Shp", 0, fl)))
        if ver == "sk":                                      # dense single partitions with unordered vertex maps
            for _ in range(60 if full else 12):
                nv = rng.choice([3, 4, 5, 6, 8, 12, rng.randint(3, 40)])
                fl = rng.choice(["unsfR", "unsfR", "unsfr", "unscfR", "unsfR"])
                gens.append("gen ver=sk seed=%d opts=%s nodes= shapes=Shp:0:%d:%d:%s:%d" % (
                    rng.randint(1, 10 ** 6), rng.choice(opts_for(False, True)), nv, rng.randint(0, 6), fl, rng.choice([1, 2, 3])))
        if ver == "sk":                                      # more bones than one SE partition may hold (80): the split path
            for _ in range(24 if full else 4):
                gens.append("gen ver=sk seed=%d opts=%s nodes= shapes=Shp:0:%d:%d:%s:%d" % (
                    rng.randint(1, 10 ** 6), rng.choice(["01111", "00000", "01000"]), rng.randint(120, 260), rng.randint(80, 200),
                    rng.choice(["uns", "unsc", "unsS3", "uns3"]), rng.choice([81, 85, 100, 130, 200])))
        for pool in NAME_POOLS:                              # sibling name clashes
            shapes = ";".join(gen_shape(rng, ver, n, 0, rng.choice(["un", "unc", "uns"])) for n in pool)
            gens.append("gen ver=%s seed=%d opts=01111 nodes= shapes=%s" % (ver, rng.randint(1, 10 ** 6), shapes))
            shapes = ";".join(gen_shape(rng, ver, n, 1 + (i % 2), "un") for i, n in enumerate(pool))
            gens.append("gen ver=%s seed=%d opts=01111 nodes=N1:0;N2:1 shapes=%s" % (ver, rng.randint(1, 10 ** 6), shapes))
            gens.append("gen ver=%s seed=%d opts=01111 nodes=N1:0;N2:0 shapes=%s" % (ver, rng.randint(1, 10 ** 6), shapes))
        for _ in range(400 if full else 40):                 # random multi-shape models
            nn = rng.randint(0, 3)
            nodes = ";".join("N%d:%d" % (i + 1, rng.randint(0, i)) for i in range(nn))
            k = rng.randint(1, 4)
            pool = rng.choice(NAME_POOLS + [["P", "Q", "R", "S"]] * 6)
            flags = [rng.choice([f for f in flagset if "h" not in f]) for _ in range(k)]
            shapes = ";".join(gen_shape(rng, ver, rng.choice(pool), rng.randint(0, nn), flags[i]) for i in range(k))
            gens.append("gen ver=%s seed=%d opts=%s nodes=%s shapes=%s" % (ver, rng.randint(1, 10 ** 6), rng.choice(opts_for(False, True)), nodes, shapes))
    # (3) RenameDuplicateShapes directly: every child list over a small name alphabet
    alphabet = ["A", "A_1", "A_2", "B", "", "A_1_1"]
    for n in range(1, 5 if full else 4):
        for combo in itertools.product(range(len(alphabet)), repeat=n):
            for kinds in (["s" * n] if not full else ["s" * n, "n" + "s" * (n - 1), "s" + "n" * (n - 1)]):
                kids = ";".join("0:%s:%s" % (kinds[i], hexs(alphabet[combo[i]])) for i in range(n))
                renames.append("rename nodes= kids=%s" % kids)
    for _ in range(300 if full else 60):
        n = rng.randint(2, 8)
        nn = rng.randint(0, 2)
        kids = ";".join("%d:%s:%s" % (rng.randint(0, nn), rng.choice("sssn"), hexs(rng.choice(alphabet + ["A_3", "B_1", "A_10"]))) for _ in range(n))
        renames.append("rename nodes=%s kids=%s" % (";".join(str(rng.randint(0, i)) for i in range(nn)), kids))
    return files, gens, renames


# ------------------------------------------------------------------------------------------------
# evaluation of the property on the dumps

def canon_tri(t):
    a, b, c = t
    m = min(a, b, c)
    while a != m:
        a, b, c = b, c, a
    return (a, b, c)


def tri_set(flat):
    return sorted(canon_tri(tuple(flat[i:i + 3])) for i in range(0, len(flat) - 2, 3))


def fingerprint(s):
    return (s["nv"], tuple(s["verts"] or ()))


def match_shapes(a, b):
    """pair the shapes of two dumps by their vertex positions (which the property says are kept bit-exactly)"""
    pairs, missing = [], []
    pool = list(b["shapes"])
    for s in a["shapes"]:
        fp = fingerprint(s)
        cand = [t for t in pool if fingerprint(t) == fp]
        # several shapes with identical positions: prefer the same parent, then the same triangle set
        # (shapes without vertices all have the same fingerprint: the references a shape carries - extra data, alpha,
        # controller, collision, properties - and its position among its peers decide then)
        refkeys = ("extra", "alpha_ref", "ctrl_ref", "coll_ref", "props")
        cand.sort(key=lambda t: (t["parent"] != s["parent"], tri_set(t["tris"]) != tri_set(s["tris"]),
                                 sum(1 for k in refkeys if bool(t.get(k)) != bool(s.get(k))),
                                 t["name"] != s["name"],                      # sibling renaming may change names
                                 abs(b["shapes"].index(t) - a["shapes"].index(s))))
        if cand:
            pairs.append((s, cand[0]))
            pool.remove(cand[0])
        else:
            missing.append(s)
    return pairs, missing, pool


def near_half(w, g):
    return g == w or g == half_rt_bits(w)


def weights_of(s):
    """per vertex the (bone name, weight) pairs: what the public accessor reports; for a BSTriShape whose
    vertex data carries no weight at all (a model that keeps them in NiSkinData only) the NiSkinData ones"""
    src = s["weights"]
    if s["type"] != "NiTriShape" and not any(src) and any(s.get("sdw", [])):
        src = s["sdw"]
    out = []
    for vw in src:
        out.append(sorted((s["bones"][b] if b < len(s["bones"]) else "#%d" % b, b2f(w)) for b, w in vw))
    return out


def weights_close(a, b):
    """per vertex the same set of (bone, weight), weights within 1e-4 (so an entry below 1e-4 may be absent)"""
    n = max(len(a), len(b))
    for v in range(n):
        x = dict(a[v]) if v < len(a) else {}
        y = dict(b[v]) if v < len(b) else {}
        for bn in set(x) | set(y):
            if abs(x.get(bn, 0.0) - y.get(bn, 0.0)) > wtol(x.get(bn, 0.0), y.get(bn, 0.0)):
                return False
    return True


def wtol(a, b):
    """1e-4, or one unit in the last place of binary16 (the SE vertex format stores weights as halves)"""
    return max(1e-4, max(abs(a), abs(b)) * 2.0 ** -10)


def weight_bad_vertices(a, b):
    bad = []
    for v in range(max(len(a), len(b))):
        x = dict(a[v]) if v < len(a) else {}
        y = dict(b[v]) if v < len(b) else {}
        if any(abs(x.get(bn, 0.0) - y.get(bn, 0.0)) > wtol(x.get(bn, 0.0), y.get(bn, 0.0)) for bn in set(x) | set(y)):
            bad.append(v)
    return bad


def white(cols):
    one = f2b(1.0)
    return all(c == one for c in cols)


def compare_shape(s, t, what, same_file_precision):
    """clauses of the property between a shape and its image; returns list of failure strings"""
    bad = []
    if tri_set(s["tris"]) != tri_set(t["tris"]):
        bad.append("triangle set differs")
    if s["uvs"] is not None and s["nv"] > 0:
        if t["uvs"] is None or len(t["uvs"]) != len(s["uvs"]) or not all(near_half(a, b) for a, b in zip(s["uvs"], t["uvs"])):
            bad.append("texture coordinates not kept within half precision")
    if s["cols"] is not None and not white(s["cols"]):
        if t["cols"] is None or len(t["cols"]) != len(s["cols"]):
            bad.append("vertex colours lost")
        else:
            for a, b in zip(s["cols"], t["cols"]):
                x = min(1.0, max(0.0, b2f(a)))
                if abs(b2f(b) - x) > 1.0 / 255.0 + 1e-6:
                    bad.append("vertex colours not kept within byte precision")
                    break
    if s["bones"] != t["bones"]:
        bad.append("bone list differs")
    elif not weights_close(weights_of(s), weights_of(t)):
        bad.append("per-vertex bone weights differ")
    if (s["shader"] or "-") != (t["shader"] or "-"):
        bad.append("shader class differs")
    if s["parent"] != t["parent"]:
        bad.append("parent node differs")
    for k in ("alpha_ref", "ctrl_ref", "coll_ref", "props", "extra"):
        if s.get(k) != t.get(k):
            bad.append("reference not carried over: " + k)
    if (s["skin_ref"] == "-") != (t["skin_ref"] == "-"):
        bad.append("skin instance reference not carried over")
    return bad


def hierarchy(d):
    return sorted((n["name"], n["parent"] or "") for n in d["nodes"])


def sibling_dupes(d):
    seen, dup = {}, []
    for s in d["shapes"]:
        key = (s["pid"], s["name"])
        if key in seen:
            dup.append(s["name"])
        seen[key] = True
    return dup


def partition_failures(s, bone_lists=True):
    """every triangle in exactly one partition; vertexMap = the vertices its triangles use; mapped triangles agree;
    bone_lists: also demand that a partition's bone list covers the bones of its vertices (not demanded of a converted
    model whose SOURCE partitions already lacked them: generated sources with boneless partitions)"""
    if "parts" not in s or not s["skinned"]:
        return []
    bad = []
    want = tri_set(s["tris"])
    got = []
    for k, p in enumerate(s["parts"]):
        vm = p["vmap"]
        true = tri_set(p["true"])
        mapped = [tuple(p["tris"][i:i + 3]) for i in range(0, len(p["tris"]) - 2, 3)]
        if not true and mapped:
            if s.get("mapped"):
                if any(i >= len(vm) for t in mapped for i in t):
                    bad.append("partition %d: mapped triangle index outside vertexMap" % k)
                    continue
                true = sorted(canon_tri(tuple(vm[i] for i in t)) for t in mapped)
            else:
                true = sorted(canon_tri(t) for t in mapped)
        used = sorted({i for t in true for i in t})
        if vm and sorted(vm) != used:
            bad.append("partition %d: vertexMap is not the set of vertices used by its triangles" % k)
        if len(set(vm)) != len(vm):
            bad.append("partition %d: vertexMap has duplicates" % k)
        got += true
        # a partition names every bone that a vertex of its triangles is weighted to (the game looks the bones of a
        # partition's vertices up in the partition's own bone list)
        if bone_lists and p.get("bones") and s.get("weights"):
            pb = set(p["bones"])
            for v in used:
                if v < len(s["weights"]):
                    lack = sorted(b for b, w in s["weights"][v] if b2f(w) > 0.0 and b not in pb)
                    if lack:
                        bad.append("partition %d: vertex %d is weighted to bone(s) %s which the partition's bone list lacks" % (k, v, lack[:4]))
                        break
    if sorted(got) != want:
        bad.append("partition triangles are not the shape's triangles exactly once")
    return bad


def unordered_le_partitions(d):
    """LE partitions of the dump whose vertexMap is not ascending; of those, the dense ones that still start at 0 and end at n-1"""
    n = dense = 0
    for s in d.get("shapes", []):
        if s["type"] in ("NiTriShape", "NiTriStrips") and s.get("mapped"):
            for p in s.get("parts", []):
                vm = p["vmap"]
                if vm and vm != sorted(vm):
                    n += 1
                    if vm[0] == 0 and vm[-1] == len(vm) - 1 and sorted(vm) == list(range(len(vm))):
                        dense += 1
    return n, dense


def evaluate_pipeline(case, d):
    """returns (failures [(what, detail)], known [(id, detail)], nontrivial flag)"""
    fails, known = [], []
    st = {s["stage"]: s for s in d.get("stages", [])}
    if "orig" not in st:
        return fails, known, False
    orig = st["orig"]["d"]
    is_le = orig["ver"][2] == 83
    is_se = orig["ver"][2] == 100
    if not (is_le or is_se) or "conv0" not in st:
        return fails, known, False
    if st["conv0"]["res"]["mismatch"]:
        return fails, known, False

    def check_pair(a_name, b_name, label, through_file):
        a, b = st[a_name]["d"], st[b_name]["d"]
        pairs, missing, extra = match_shapes(a, b)
        for s in missing:
            fails.append(("%s: vertex positions of shape not kept bit-exactly (no shape with these positions afterwards)" % label, {"shape": s["name"], "nv": s["nv"]}))
        for s, t in pairs:
            for w in compare_shape(s, t, label, through_file):
                fails.append(("%s: %s" % (label, w), {"shape": s["name"], "type_before": s["type"], "type_after": t["type"],
                                                     "weights_before": sum(len(x) for x in s["weights"]), "weights_after": sum(len(x) for x in t["weights"])}))
        if hierarchy(a) != hierarchy(b):
            fails.append(("%s: node hierarchy differs" % label, {"before": hierarchy(a)[:8], "after": hierarchy(b)[:8]}))

    # strip shapes built by the generator: what the library decodes from the strips must be the triangles that were
    # encoded (same corners, same winding), before any conversion - the generator's list is the ground truth
    gen = st["orig"].get("gen_tris") or {}
    seen_names = {}
    for s in orig["shapes"]:
        if s.get("type") != "NiTriStrips":
            continue
        k = seen_names.get(s["name"], 0)
        seen_names[s["name"]] = k + 1
        flat = gen.get("%s#%d" % (s["name"], k))
        if flat is not None and tri_set(s["tris"]) != tri_set(flat):
            fails.append(("strip shape: the decoded triangles are not the encoded ones (corners or winding)",
                          {"shape": s["name"], "decoded": tri_set(s["tris"])[:6], "encoded": tri_set(flat)[:6]}))
    check_pair("orig", "conv0", "conversion", False)
    dup = sibling_dupes(st["conv0"]["d"])
    if dup:
        fails.append(("conversion: sibling shapes share a name afterwards", {"names": dup, "before": [s["name"] for s in orig["shapes"]],
                                                                            "after": [s["name"] for s in st["conv0"]["d"]["shapes"]]}))
    # shapes whose source partitions do not name the bones of their vertices (or name none at all)
    src_boneless = {s["name"] for s in orig["shapes"] if s.get("skinned") and s.get("parts")
                    and (any(not p.get("bones") for p in s["parts"]) or any("bone list lacks" in w for w in partition_failures(s)))}
    for s in st["conv0"]["d"]["shapes"]:
        for w in partition_failures(s, s["name"] not in src_boneless):
            fails.append(("conversion: partition invariant: " + w, {"shape": s["name"]}))
    if "reload0" in st:
        r0 = st["reload0"]
        if r0.get("load_rc", 1) != 0 or r0.get("save_rc", 1) != 0:
            fails.append(("converted model does not save and reload in the target version", {"save_rc": r0.get("save_rc"), "load_rc": r0.get("load_rc")}))
        else:
            check_pair("conv0", "reload0", "save+reload of the converted model", True)
            for s in r0["d"]["shapes"]:
                for w in partition_failures(s, s["name"] not in src_boneless):
                    fails.append(("reloaded converted model: partition invariant: " + w, {"shape": s["name"]}))
    if "reload1" in st and st["reload1"].get("load_rc", 1) == 0:
        check_pair("orig", "reload1", "there and back", True)
    elif "conv1" in st and "reload1" in st:
        fails.append(("model converted there and back does not reload", {"load_rc": st["reload1"].get("load_rc")}))
    return fails, known, True


# ------------------------------------------------------------------------------------------------
def run_parallel(binp, cases, chunk, timeout, env=None):
    chunks = [cases[i:i + chunk] for i in range(0, len(cases), chunk)]
    with cf.ThreadPoolExecutor(max_workers=max(2, vlib.NPROC - 2)) as ex:
        res = list(ex.map(lambda ch: vlib.run_cases_robust(binp, [FAM], ch, timeout_per_batch=timeout, env=env), chunks))
    out = [r for rs in res for r in rs]
    for i, (c, l, crash) in enumerate(out):
        if crash is None and (l is None or l.strip() == ""):
            out[i] = vlib.run_cases_robust(binp, [FAM], [c], timeout_per_batch=timeout, env=env)[0]
    return out


# ------------------------------------------------------------------------------------------------
# names: the scene tree of a dump in the syntax of ocaml/d_convert.ml, and the property on it

def build_tree(d):
    """(tree text for the model, {node path: [(kind, name), ...]}) from the node table of a dump"""
    nodes = d["nodes"]
    used = set()

    def find(name, parent):
        for k, n in enumerate(nodes):
            if k not in used and n["name"] == name and (n["parent"] or "") == (parent or ""):
                used.add(k)
                return n
        return None

    roots = [k for k, n in enumerate(nodes) if n["parent"] is None]
    if not roots:
        return None, {}
    used.add(roots[0])
    per_node = {}

    def items(node, path, depth):
        out, lst = [], []
        for kid in node["kids"]:
            if kid is None:
                continue
            kind, typ, nm = kid.split(":", 2)
            if kind == "S":
                out.append("s" + hexs(nm))
                lst.append(("s", nm))
            elif kind == "N":
                sub = find(nm, node["name"])
                inner = items(sub, path + (nm,), depth + 1) if (sub is not None and depth < 40) else ""
                out.append("n" + hexs(nm) + "(" + inner + ")")
                lst.append(("n", nm))
            else:
                out.append("n" + hexs(nm) + "()")
                lst.append(("o", nm))
        per_node[path] = lst
        return ",".join(out)

    txt = items(nodes[roots[0]], (), 0)
    return txt, per_node


def parse_tree(txt):
    """{path: [(kind, name)]} from the model's output syntax"""
    pos = [0]
    per_node = {}

    def hexrun():
        st = pos[0]
        while pos[0] < len(txt) and txt[pos[0]] in "0123456789abcdef":
            pos[0] += 1
        return bytes.fromhex(txt[st:pos[0]]).decode("latin-1")

    def items(path):
        lst = []
        while pos[0] < len(txt) and txt[pos[0]] != ")":
            k = txt[pos[0]]
            pos[0] += 1
            nm = hexrun()
            if k == "s":
                lst.append(("s", nm))
            else:
                lst.append(("n", nm))
                if pos[0] < len(txt) and txt[pos[0]] == "(":
                    pos[0] += 1
                    items(path + (nm,))
                    pos[0] += 1
            if pos[0] < len(txt) and txt[pos[0]] == ",":
                pos[0] += 1
        per_node[path] = lst
        return lst

    items(())
    return per_node


def shape_names(per_node):
    return {p: sorted(nm for k, nm in l if k == "s") for p, l in per_node.items() if any(k == "s" for k, _ in l)}


def name_hypotheses(per_node):
    """which hypotheses of C12_rename_distinct a tree violates, per node path"""
    out = {}
    for path, lst in per_node.items():
        why = []
        shapes = [nm for k, nm in lst if k == "s"]
        alln = [nm for k, nm in lst]
        if shapes.count("") > 1:
            why.append("unnamed")
        for x in set(shapes):
            if x and any(n.startswith(x + "_") and n[len(x) + 1:].isdigit() and str(int(n[len(x) + 1:])) == n[len(x) + 1:] for n in alln):
                why.append("candidate")
                break
        if len(path) >= 2 and len(set(shapes)) < len(shapes):
            why.append("deep")
        out[path] = why
    return out


RENAME_IDS = {"candidate": "C12-rename-candidate-taken", "unnamed": "C12-rename-unnamed-shapes", "deep": "C12-rename-deep-nodes-skipped"}


def finding_status(kid):
    for k in vlib.load_known():
        if k.get("id") == kid:
            return k.get("status")
    return None


def report_finding(rep, kid, detail, case, extra=None):
    """a recorded defect class was recognised: KNOWN-FINDING while it is recorded as known, a VIOLATION once it
    is recorded as fixed (the defect is back).  Returns 1 when it became a violation."""
    if finding_status(kid) == "known":
        rep.known_finding(kid, detail)
        return 0
    d = {"case": case, "family": FAM, "finding": kid, "detail": detail}
    d.update(extra or {})
    rep.violation("a defect recorded as fixed is back: " + kid, d)
    return 1


def dup_class(path, name, before):
    """which recorded rename defect explains two sibling shapes called [name] below [path]"""
    if name == "":
        return "unnamed"
    if len(path) >= 2:
        return "deep"
    base, _, num = name.rpartition("_")
    shapes_before = [nm for k, nm in before.get(path, []) if k == "s"]
    if base and num.isdigit() and str(int(num)) == num and base in shapes_before and name in [nm for _, nm in before.get(path, [])]:
        return "candidate"
    return None


def check_names(rep, case, before, after_impl, after_model, tag):
    """before/after: {path: [(kind,name)]}.  Returns (n correspondence diffs, n spec failures, n known)"""
    ncorr = nspec = nknown = 0
    if after_model is not None and shape_names(after_model) != shape_names(after_impl):
        ncorr += 1
    for path, names in shape_names(after_impl).items():
        dups = sorted({n for n in names if names.count(n) > 1})
        for n in dups:
            cls = dup_class(path, n, before)
            agrees = after_model is not None and shape_names(after_model).get(path) == names
            detail = "%s %s: %s" % (tag, "/".join(path) or "<root>", names)
            if cls and (agrees or finding_status(RENAME_IDS[cls]) != "known"):
                if report_finding(rep, RENAME_IDS[cls], detail, case, {"node": "/".join(path), "names": names}):
                    nspec += 1
                else:
                    nknown += 1
            else:
                rep.violation("sibling shapes share a name after RenameDuplicateShapes although the hypothesis of C12_rename_distinct holds",
                              {"case": case, "family": FAM, "node": "/".join(path), "names": names, "model_agrees": agrees})
                nspec += 1
    return ncorr, nspec, nknown


# ------------------------------------------------------------------------------------------------
# known-finding classification of pipeline failures

def covered_vertices(le_shape):
    """vertices whose weights AND bone indices the LE partitions carry"""
    cov = set()
    for p in le_shape.get("parts", []):
        if p["hvw"] and p["hbi"] and p["nb"] > 0 and p["nw"] >= len(p["vmap"]) and p["nbi"] >= len(p["vmap"]):
            cov |= set(p["vmap"])
    return cov


def classify_weights(st, label, s, t):
    """s -> t is a pair whose weights differ; returns a known-finding id or None"""
    into_se = t["type"] != "NiTriShape" and t["type"] != "NiTriStrips"
    ws, wt = weights_of(s), weights_of(t)
    bad = weight_bad_vertices(ws, wt)
    if label == "conversion":
        if into_se:
            cov = covered_vertices(s)
            if bad and all(v not in cov for v in bad):
                return "C12-le2se-weights-from-partitions"
        else:
            # SE -> LE takes the weights from NiSkinData; a model that keeps them in the vertex data only loses them
            sd = s.get("sdw", [])
            if bad and all(not (sd[v] if v < len(sd) else []) or s["weights"][v] != sd[v] for v in bad) and sum(len(x) for x in sd) < sum(len(x) for x in s["weights"]):
                return "C12-se2le-weights-need-skindata"
    elif label == "there and back":
        orig_le = s["type"] in ("NiTriShape", "NiTriStrips")
        if not orig_le:
            # SE -> LE -> SE: either the first step lost them (NiSkinData without weights) or the second one
            sd = s.get("sdw", [])
            if sum(len(x) for x in sd) < sum(len(x) for x in s["weights"]):
                return "C12-se2le-weights-need-skindata"
            mid = None
            for m in st.get("reload0", {}).get("d", {}).get("shapes", []):
                if fingerprint(m) == fingerprint(s):
                    mid = m
            if mid is not None:
                cov = covered_vertices(mid)
                if bad and all(v not in cov for v in bad):
                    return "C12-le2se-weights-from-partitions"
    elif label.startswith("save+reload"):
        return None
    return None


def evaluate_case(rep, case, d, crashed_back=False):
    """evaluate one pipeline dump; returns (nspec, nknown, nontrivial)"""
    nspec = nknown = 0
    st = {s["stage"]: s for s in d.get("stages", [])}
    fails, _, nontriv = evaluate_pipeline(case, d)
    for what, det in fails:
        kid = None
        if "bone weights differ" in what or "bone list differs" in what:
            label = what.split(":")[0]
            a_name, b_name = {"conversion": ("orig", "conv0"), "there and back": ("orig", "reload1")}.get(label, ("conv0", "reload0"))
            if a_name in st and b_name in st and "d" in st[b_name]:
                pairs, _, _ = match_shapes(st[a_name]["d"], st[b_name]["d"])
                for s, t in pairs:
                    if s["name"] == det.get("shape") and not weights_close(weights_of(s), weights_of(t)):
                        kid = classify_weights(st, label, s, t)
                        break
        elif "share a name" in what:
            continue          # handled by check_names with the model
        if kid:
            if report_finding(rep, kid, "%s | %s | %s" % (case[:160], what, json.dumps(det)[:160]), case):
                nspec += 1
            else:
                nknown += 1
        else:
            det = dict(det)
            det.update({"case": case, "family": FAM})
            rep.violation(what, det)
            nspec += 1
    return nspec, nknown, nontriv


def run(tier, seed, replay=None):
    rep = vlib.Reporter(PID, tier, seed)
    hygiene = vlib.coq_hygiene()
    pr = vlib.coq_property(PID)
    cov = vlib.proof_coverage(pr, hygiene)
    if not pr["ok"] or hygiene:
        rep.violation("proof obligations of Properties_C12.v not discharged: " + ",".join(pr["failed"] or hygiene),
                      {"broken": "theorems " + ",".join(pr["failed"]), "log": pr["log"][-3000:], "hygiene": hygiene}, found_input=False)
    impl_bin = vlib.build_oracle("asan")
    model_bin = vlib.build_model_oracle()
    rng = random.Random(seed)
    if replay:
        r = json.load(open(replay))
        cl = [r["case"]] if "case" in r else [c["case"] for c in r.get("cases", [])]
        files = [c for c in cl if c.startswith("file ")]
        gens = [c for c in cl if c.startswith("gen ")]
        renames = [c for c in cl if c.startswith("rename ")]
    else:
        corpus = []
        try:
            corpus = [l.strip() for l in open(vlib.ROOT + "/corpus/C12/cases.txt") if l.strip() and not l.startswith("#")]
        except OSError:
            pass
        files, gens, renames = gen_cases(tier, rng)
        gens = [c for c in corpus if c.startswith("gen ")] + gens
        files = [c for c in corpus if c.startswith("file ")] + files
        renames = [c for c in corpus if c.startswith("rename ")] + renames
    pipe_cases = files + gens
    impl = run_parallel(impl_bin, pipe_cases, 6, 900)
    impl_rn = run_parallel(impl_bin, renames, 200, 300)
    nspec = nknown = ncorr = 0
    n_unordered_cases = n_unordered_parts = n_dense_unordered = 0
    nontriv = set()
    dist = {"file": len(files), "gen": len(gens), "rename": len(renames)}
    model_cases, model_ctx = [], []
    for (c, il, crash) in impl:
        d = None
        if crash is not None:
            err = crash.get("stderr", "")
            known_crash = False
            if "OptimizeFor" in err and "vector<unsigned short" in err and "operator[]" in err:
                # candidate: back-conversion of a model whose LE partitions have bone indices but no bones.
                # Re-run without the back-conversion and look at the intermediate model.
                rr = vlib.run_cases_robust(impl_bin, [FAM], [c + " back=0"], timeout_per_batch=600)[0]
                if rr[2] is None and rr[1] and rr[1].startswith("I={"):
                    d = json.loads(rr[1][2:])
                    st = {s["stage"]: s for s in d.get("stages", [])}
                    mid = st.get("reload0", {}).get("d")
                    if mid and mid["ver"][2] == 83 and any(s["skinned"] and s.get("parts") and all(p["nb"] == 0 and p["hbi"] for p in s["parts"]) for s in mid["shapes"]):
                        known_crash = True
            if known_crash:
                if report_finding(rep, "C12-back-conversion-crash-empty-partition-bones", c[:200], c, {"crash": crash}):
                    nspec += 1
                    continue
                nknown += 1
            else:
                rep.violation("conversion crashed (sanitizer/abort/timeout)", {"case": c, "family": FAM, "crash": crash})
                nspec += 1
                continue
        else:
            if not il or not il.startswith("I={"):
                rep.violation("conversion oracle produced no dump", {"case": c, "family": FAM, "out": (il or "")[:200]}, found_input=False)
                continue
            d = json.loads(il[2:])
        if "stages" not in d:
            continue
        a, b, nt = evaluate_case(rep, c, d)
        nspec += a
        nknown += b
        if nt:
            nontriv.add(c)
            st0 = next((x for x in d["stages"] if x["stage"] == "orig"), None)
            if st0:
                u, dn = unordered_le_partitions(st0["d"])
                if u:
                    n_unordered_cases += 1
                    n_unordered_parts += u
                    n_dense_unordered += dn
        st = {s["stage"]: s for s in d.get("stages", [])}
        if "orig" in st and "conv0" in st and not st["conv0"]["res"]["mismatch"]:
            txt, before = build_tree(st["orig"]["d"])
            _, after = build_tree(st["conv0"]["d"])
            if txt is not None:
                model_cases.append("names tree=" + txt)
                model_ctx.append((c, before, after, "conversion"))
    # RenameDuplicateShapes probes: the tree is known from the case line
    for (c, il, crash) in impl_rn:
        if crash is not None or not il:
            rep.violation("RenameDuplicateShapes crashed", {"case": c, "family": FAM, "crash": crash})
            nspec += 1
            continue
        kv = dict(t.split("=", 1) for t in c.split(" ")[1:] if "=" in t)
        parents = [int(x) for x in kv.get("nodes", "").split(";") if x != ""]
        kids = [k.split(":") for k in kv.get("kids", "").split(";") if k]
        got = il.split("names=", 1)[1].split(",") if "names=" in il else []
        nn = 1 + len(parents)
        child_nodes = {i: [j + 1 for j, p in enumerate(parents) if (p if p <= j else 0) == i] for i in range(nn)}

        def tree(i, names, path, per_node):
            out, lst = [], []
            for j in child_nodes[i]:
                nm = "N%d" % j
                out.append("n" + hexs(nm) + "(" + tree(j, names, path + (nm,), per_node) + ")")
                lst.append(("n", nm))
            for k, kd in enumerate(kids):
                par = int(kd[0]) if int(kd[0]) < nn else 0
                if par == i:
                    nm = bytes.fromhex(names[k]).decode("latin-1")
                    out.append(("s" if kd[1] == "s" else "n") + names[k] + ("" if kd[1] == "s" else "()"))
                    lst.append(("s" if kd[1] == "s" else "n", nm))
            per_node[path] = lst
            return ",".join(out)

        before, after = {}, {}
        txt = tree(0, [kd[2] if len(kd) > 2 else "" for kd in kids], (), before)
        if len(got) == len(kids):
            tree(0, got, (), after)
        model_cases.append("names tree=" + txt)
        model_ctx.append((c, before, after, "rename"))
        nontriv.add(c)
    mres = vlib.run_cases_robust(model_bin, [FAM], model_cases, timeout_per_batch=900)
    mism = []
    for (mc, ml, mcrash), (c, before, after, tag) in zip(mres, model_ctx):
        am = None
        if mcrash is None and ml and ml.startswith("M=") and " " in ml:
            am = parse_tree(ml[2:].split(" ", 1)[1])
        elif mcrash is None and ml and ml.startswith("M=1") or (ml or "").startswith("M=0"):
            am = parse_tree("")
        else:
            rep.violation("model oracle failed on a case", {"case": mc, "model": ml, "model_crash": mcrash}, found_input=False)
            continue
        a, b, k = check_names(rep, c, before, after, am, tag)
        nspec += b
        nknown += k
        if a:
            mism.append({"case": c, "impl": {"/".join(p): v for p, v in shape_names(after).items()}, "model": {"/".join(p): v for p, v in shape_names(am).items()}})
    ncorr = len(mism)
    if mism and not nspec:
        rep.violation("correspondence convert (Coq model of RenameDuplicateShapes vs NifFile.cpp) no longer holds; theorems of Properties_C12.v no longer speak about the code",
                      {"broken": "correspondence:convert", "family": FAM, "cases": mism[:10]}, found_input=False)
    cov.update({
        "evaluations": len(pipe_cases) + len(renames),
        "distinct_nontrivial": len(nontriv),
        "rule": "cases = every sample file x option combinations (headParts only for the Dynamic samples) + API-built LE/SE models (every flag set: uvs, normals, colours, white colours, skin, model-space shader, strips, LE partitions without weights / without bones, SE NiSkinData without weights, alpha, extra data, dynamic, LE partitions rewritten consistently to an unordered vertexMap incl. dense maps that still start at 0 and end at n-1) + every sample with its LE partitions rewritten that way and saved/reloaded first + sibling name-clash models incl. [A_1,A,A] at depth 0/1/2 + random multi-shape models, each converted, saved, reloaded, converted back, saved, reloaded; + RenameDuplicateShapes probes (all child lists over 6 names up to length 3/4, random up to 8 children on up to 3 nodes). A pipeline case is non-trivial when the file is LE or SE and the conversion ran (no versionMismatch); every rename probe counts; distinct = distinct case lines",
        "samples": [c[:300] for c in (files[:1] + gens[:2] + renames[:1])],
        "input_distribution": dist,
        "traces_validated_against_impl": len(model_cases),
        "correspondence_mismatches": ncorr,
        "spec_failures_on_impl": nspec,
        "known_finding_hits": nknown,
        "cases_with_unordered_le_vertex_maps": n_unordered_cases,
        "unordered_le_partitions": n_unordered_parts,
        "unordered_dense_partitions_first0_lastn": n_dense_unordered,
        "unproved": ["NifFile::OptimizeFor as a whole (skin partition conversion, weight transfer, shader flag edits, block deletion / sorting, save + reload): explored on the implementation, not modelled"],
        "trusted_base": vlib.BASE_TRUSTED + [
            "level PARTIAL: the theorems cover renaming and list bookkeeping; the conversion as a whole is explored, not proved",
            "Python evaluation of the property's clauses on the dumps (tools/props/c12.py): shape matching by vertex positions, triangle sets up to rotation, binary16 / byte tolerances, weights within 1e-4 or one binary16 ulp",
            "harness/o_convert.cpp reads NiSkinData weights directly for NiTriShape (the public accessor binds a misaligned reference: known finding C15-ub-misaligned-skinweight-ref)"],
        "exhaustive": False,
    })
    return rep.finish(cov, [
        "headParts only for models made of dynamic shapes (an unskinned BSDynamicTriShape loses its positions on reload: outside the quantifier)",
        "C12_rename_distinct: no unnamed shape child; shapes directly below the root or below a direct child node of the root",
        "bookkeeping theorems: vertex and triangle arrays within the 16-bit counters of both formats",
    ])
