"""C16 — truncated files never crash the loader.

Proof (the part a model can carry): coq/Properties/Properties_C16.v — a static check on the SyncIR
programs GENERATED from the current tree under which reading ANY byte string never faults
(no division by a possibly-zero value, nothing untranslatable), with its soundness theorem; the
per-type obligation is re-evaluated on every run and compared with the committed baseline.
Runtime part (only observed): prefixes of every sample file and of generated blocks of all types are
loaded, queried, saved and destroyed in an ASan/UBSan build under a watchdog."""
import json
import os
import random
import re
import time

import blocks_engine as be
import vlib

PID = "C16"


def proved_names(pr, info):
    m = re.search(r"=\s*\[(.*?)\]\s*:\s*list N", pr["log"], re.S)
    ids = [int(x) for x in m.group(1).replace("\n", " ").split(";") if x.strip()] if m else []
    byid = {i: b for b, i in zip(info["blocks"], info["ids"])}
    return sorted(byid[i] for i in ids if i in byid)


def cut_points(size, offsets, tier, rng):
    pts = set()
    small = size <= (2048 if tier == "quick" else 16384)
    if small:
        pts.update(range(0, size, 1 if tier == "thorough" or size <= 1200 else 5))
    want = 90 if tier == "quick" else 1500
    offs = [o for o in offsets if o <= size]
    if len(offs) > want:
        offs = rng.sample(offs, want)
    for o in offs:
        for d in ((0, 1) if tier == "quick" else (-2, -1, 0, 1, 2)):
            if 0 <= o + d <= size:
                pts.add(o + d)
    stride = max(1, size // (60 if tier == "quick" else 1500))
    pts.update(range(0, size, stride))
    pts.add(size)
    return sorted(pts)


def run(tier, seed, replay=None):
    rep = vlib.Reporter(PID, tier, seed)
    hygiene = vlib.coq_hygiene()
    info = vlib.gen_ir(("Cur",))["Cur"]
    pr = vlib.coq_property(PID)
    cov = vlib.proof_coverage(pr, hygiene)
    proved = proved_names(pr, info) if pr["ok"] else []
    base = json.load(open(os.path.join(vlib.ROOT, "baseline", "proved_obligations.json"))).get(PID, [])
    lost = sorted(set(base) - set(proved))
    rng = random.Random(seed)
    asan = vlib.build_oracle("asan")
    model = vlib.build_model_oracle()
    samples_dir = os.path.join(vlib.REPO, "tests", "input")
    env = {"VERIF_SAMPLES": samples_dir}
    crashes, stats = [], {"files": 0, "file_prefixes": 0, "block_instances": 0, "block_prefixes": 0, "model_faults": 0}

    # ---- file level: prefixes of the sample files
    if replay:
        r = json.load(open(replay))
        fcases = [r["case"]] if r.get("case", "").startswith("trunc") else []
        bcases_replay = [r["case"]] if r.get("case", "").startswith("rtrunc") else []
    else:
        bcases_replay = None
        files = sorted(f for f in os.listdir(samples_dir) if f.endswith(".nif"))
        # geometry kinds no sample contains: API-built files (strip shapes incl. a degenerate 2-point strip; plain shapes)
        files += ["@synth:strips:ob", "@synth:strips:fo3", "@synth:strips:sk", "@synth:shape:ob", "@synth:shape:sk",
                  "@synth:shape:sse", "@synth:shape:fo4", "@synth:shape:fo76", "@synth:sits:fo4", "@synth:sits:fo76"]
        b = be.par_run(asan, "trunc", ["bounds name=%s" % f for f in files], timeout=120, env=env)
        fcases = []
        for f, (_, l, crash) in zip(files, b):
            if crash is not None or l is None:
                crashes.append({"case": "bounds name=%s" % f, "what": "loading the complete sample crashed", "crash": crash})
                continue
            kv = be.kv_of(l)
            offs = [int(x) for x in kv["offsets"].split(",")] if kv.get("offsets") else []
            pts = cut_points(int(kv["size"]), offs, tier, rng)
            stats["files"] += 1
            for ch in be.chunks(pts, 12):
                fcases.append("trunc name=%s at=%s" % (f, ",".join(map(str, ch))))
    t0 = time.time()
    res = be.par_run(asan, "trunc", fcases, timeout=240, batch=8, env=env, single_timeout=60)
    for c, l, crash in res:
        n = len(c.split("at=")[1].split(","))
        if crash is None and l is not None:
            stats["file_prefixes"] += n
            continue
        # isolate the failing cut point
        name = c.split()[1]
        for a in c.split("at=")[1].split(","):
            one = "trunc %s at=%s" % (name, a)
            rc, ll, err = vlib.run_lines(asan, ["trunc"], [one], timeout=60, env=env)
            stats["file_prefixes"] += 1
            if rc != 0:
                crashes.append({"case": one, "what": "loading a prefix of a valid file crashed (rc=%s)" % rc, "stderr": err[-2500:]})
                break

    stats["seconds_files"] = round(time.time() - t0)
    t0 = time.time()
    # ---- block level: prefixes of generated blocks of every type, implementation and model
    vers = ["OB", "SSE", "FO76"] if tier == "quick" else list(be.VERS)
    plain = vlib.build_oracle("plain")
    if bcases_replay is None:
        gen = be.par_run(plain, "blocks", [c[0] for c in be.block_cases(info["blocks"], vers, [seed])], timeout=120)
        bcases, mcases, meta = [], [], []
        tid = {b: i for b, i in zip(info["blocks"], info["ids"])}
        for (c, l, crash) in gen:
            if crash is not None or l is None or "b1=" not in l:
                continue
            kv = be.kv_of(l)
            L = int(kv["len"])
            if L == 0 or L > 20000:
                continue
            n, vs = c.split()[1][5:], c.split()[2][4:]
            tr = [int(x) for x in kv["wtrace"].split(",")] if kv.get("wtrace") else []
            offs, acc = [], 0
            for t in tr:
                acc += t
                offs.append(acc)
            pts = sorted(set([0] + [o + d for o in offs for d in (0, -1) if 0 <= o + d < L]))
            if len(pts) > (10 if tier == "quick" else 60):
                pts = sorted(rng.sample(pts, 10 if tier == "quick" else 60))
            stats["block_instances"] += 1
            stats["block_prefixes"] += len(pts)
            bcases.append("rtrunc type=%s ver=%s bytes=%s at=%s" % (n, vs, kv["b1"], ",".join(map(str, pts))))
            for p in pts[:4]:
                mcases.append("trunc tid=%d ver=%s bytes=%s" % (tid[n], vs, kv["b1"][:2 * p]))
                meta.append((n, vs, p, kv["b1"]))
    else:
        bcases, mcases, meta = bcases_replay, [], []
    res = be.par_run(asan, "blocks", bcases, timeout=240, batch=40, single_timeout=60)
    for c, l, crash in res:
        if crash is not None or l is None or l.startswith("I=EXC"):
            crashes.append({"case": c[:6000], "what": "reading a prefix of a valid block crashed or threw", "crash": crash, "impl": l})
    mres = be.par_run(model, "syncir", mcases, timeout=120, batch=200)
    model_faults = []
    for (n, vs, p, b1), (c, l, crash) in zip(meta, mres):
        if l is not None and "FAULT" in l and n in proved:
            # contradicts the theorem: cannot happen unless the extraction/driver is broken
            rep.violation("model faulted on a type the totality obligation covers", {"case": c[:4000], "model": l, "broken": "C16_block_never_faults vs extracted model"}, found_input=False)
        if l is not None and "FAULT" in l:
            stats["model_faults"] += 1
            model_faults.append((n, vs, p))

    stats["seconds_blocks"] = round(time.time() - t0)
    for cr in crashes[:10]:
        rep.violation("truncated input crashed the loader: " + cr["what"], dict(cr, family="trunc"))
    if (not pr["ok"]) or lost or hygiene:
        # an obligation of the baseline is gone: the failing-input search above is the attempt to exhibit it
        if not crashes:
            rep.violation("totality obligation no longer discharged for: %s" % (",".join(lost[:10]) or ",".join(pr["failed"]) or ",".join(hygiene)),
                          {"broken": "obligation block_total (coq/Properties/Properties_C16.v, C16_proved_ids) for " + ",".join(lost),
                           "model_faults_seen": model_faults[:10], "log": pr["log"][-1500:] if not pr["ok"] else ""}, found_input=False)
    cov["obligations"] += len(base)
    cov["discharged"] += len(set(base) & set(proved))
    cov.update({
        "per_type_obligations": {"baseline": len(base), "discharged_now": len(set(base) & set(proved)), "lost": lost,
                                 "newly_discharged_not_in_baseline": sorted(set(proved) - set(base))},
        "unproved": ["block types outside the baseline (Sync untranslatable or containing a division by a loaded value): " + ",".join(sorted(set(info["blocks"]) - set(proved))),
                     "memory safety, allocation failure and out-of-range container indexing of the C++ are runtime behaviour: only observed under ASan/UBSan",
                     "the header parser and the block loop of NifFile::Load are not part of the generated model (covered by the file-prefix runs)"],
        "evaluations": stats["file_prefixes"] + stats["block_prefixes"],
        "distinct_nontrivial": stats["file_prefixes"] + stats["block_prefixes"],
        "rule": "file level: every sample x cut points (every %s byte of small files, every primitive-read boundary of Load +-%s, a uniform stride, the full size): Load(prefix), query battery, copy, raw and default Save, destroy, in an ASan/UBSan build with a watchdog. Block level: a generated instance of every block type x versions %s, cut at primitive boundaries. Every cut point is a distinct case; all are non-trivial (a strict prefix or the whole input)" % ("5th" if tier == "quick" else "", "1" if tier == "quick" else "2", vers),
        "samples": fcases[:2] + [c[:160] for c in bcases[:2]],
        "input_distribution": stats,
        "traces_validated_against_impl": stats["block_prefixes"],
        "trusted_base": vlib.BASE_TRUSTED + ["translator tools/nif2ir.py + clang AST (validated on every run by C01's model-vs-implementation comparison of bytes and transfer traces)",
                                            "std::istream short-read behaviour as modelled in coq/SyncIR/Exec.v (read)"],
        "exhaustive": False,
    })
    return rep.finish(cov, ["the theorem speaks about arithmetic faults of the generated model only; absence of memory errors is observed, not proved"])
