"""C09 — deleting vertices keeps a shape and its skin data consistent.

Proof: coq/Properties/Properties_C09.v over coq/Geom/GeomModel.v (every notifyVerticesDelete
override and NifFile::DeleteVertsForShape, line by line on the utility models of C18).
Tie: shapes of every geometry kind are built through the public API per game version (and loaded
from the samples), index sets are deleted with DeleteVertsForShape, every modelled field is dumped
after each step; the extracted model starts from the implementation's first dump and must predict
all later ones. Search: the property itself (tools/geomspec.py, written without the model) is
evaluated on the implementation's dumps, including save + reload."""
import itertools
import json
import os
import random

import vlib
import geomspec as gs

PID = "C09"
FAMILY = "geom"


def fmt_tris(tris):
    return ";".join("%d.%d.%d" % t for t in tris)


def rand_tris(rng, nv, nt):
    out = []
    for _ in range(nt):
        if nv >= 3 and rng.random() < 0.9:
            out.append(tuple(rng.sample(range(nv), 3)))
        elif nv >= 1:
            out.append(tuple(rng.randrange(nv) for _ in range(3)))
    return out


def index_sets(rng, nv, n_random):
    """single, prefix, suffix, all, random subsets of range(nv)"""
    sets = []
    if nv == 0:
        return sets
    sets.append([rng.randrange(nv)])
    sets.append([0])
    sets.append([nv - 1])
    k = rng.randint(1, nv)
    sets.append(list(range(k)))
    sets.append(list(range(nv - k, nv)))
    sets.append(list(range(nv)))
    for _ in range(n_random):
        m = rng.randint(1, max(1, min(nv, 6)))
        sets.append(sorted(rng.sample(range(nv), m)))
    return sets


def steps_str(steps):
    return ";".join(",".join(map(str, s)) for s in steps)


def history(rng, nv, first):
    """a first deletion followed (sometimes) by further ones on the shrinking shape"""
    steps = [first]
    left = nv - len(first)
    for _ in range(rng.choice([0, 0, 1, 1, 2])):
        if left <= 0:
            break
        m = rng.randint(1, min(left, 4))
        nxt = sorted(rng.sample(range(left), m))
        steps.append(nxt)
        left -= m
    return steps


def skin_params(rng, nv, nt, ver, force_pm=None):
    nb = rng.randint(1, 3)
    sw = []
    for b in range(nb):
        vs = sorted(rng.sample(range(nv), rng.randint(0, nv))) if nv else []
        sw.append("+".join("%d.%d" % (v, rng.choice([1, 2, 4])) for v in vs) or "-")
    s = " nb=%d sw=%s" % (nb, ";".join(sw))
    pm = force_pm if force_pm is not None else rng.choice([0, 1, 2, 2])
    if ver in ("fo4", "fo76"):
        pm = 0
    s += " pm=%d" % pm
    if pm >= 1 and nt > 0:
        npart = rng.randint(1, 3)
        s += " tp=" + ",".join(str(rng.randrange(npart)) for _ in range(nt))
    return s


def seg_params(rng, nt):
    """a segmentation info with permuted ids and a valid label list"""
    nseg = rng.randint(1, 3)
    ids = list(range(nseg * 3))
    rng.shuffle(ids)
    inf, allids, p = [], [], 0
    for _ in range(nseg):
        sid = ids[p]
        p += 1
        subs = []
        for _ in range(rng.choice([0, 0, 1, 2])):
            subs.append(ids[p])
            p += 1
        allids += [sid] + subs
        inf.append("%d:%s" % (sid, "+".join("%d.%d" % (x, rng.choice([0, 0, 31])) for x in subs) or "-"))
    labels = [rng.choice(allids + [-1]) for _ in range(nt)]
    return " inf=%s labels=%s" % (";".join(inf), ",".join(map(str, labels)))


def gen_synthetic(tier, rng):
    cases = []
    quick = tier == "quick"
    # 1. exhaustive small scope: a fixed 4-vertex / 3-triangle shape of every kind, every non-empty
    #    index subset, followed by every single-vertex second deletion of the first survivor
    small = [(0, 1, 2), (1, 2, 3), (0, 2, 3)]
    kinds = [("ob", "auto"), ("fo3", "auto"), ("sk", "auto"), ("sse", "auto"), ("fo4", "auto"), ("fo76", "auto"),
             ("sse", "dyn"), ("sse", "lod"), ("ob", "strips"), ("sk", "strips")]
    for ver, kind in kinds:
        for k in range(1, 5):
            for sub in itertools.combinations(range(4), k):
                # Oblivion streams keep the NUMBER of texture-coordinate sets: half of the small scope has two
                base = "del ver=%s kind=%s nv=4 attrs=%s" % (ver, kind, "nucU" if ver == "ob" and k % 2 == 0 else "nuc")
                base += " strips=0.1.2.3;1.2.3.0" if kind == "strips" else " tris=" + fmt_tris(small)
                steps = [list(sub)] + ([[0]] if k < 4 else [])
                for skin in ([False, True] if kind == "auto" and ver not in ("fo4", "fo76") else [False]):
                    c = base
                    if skin:
                        c += " nb=2 sw=0.4+1.2+2.4;1.2+3.4 pm=2 tp=0,1,1 ln=0.3.1;2"
                    cases.append(c + " steps=%s save=1" % steps_str(steps))
    # 2. random shapes
    n = 500 if quick else 9000
    for _ in range(n):
        ver, kind = rng.choice(kinds + [("sk", "auto"), ("sse", "auto"), ("fo4", "auto"), ("ob", "auto")])
        nv = rng.choice([1, 2, 3, 5, 6, 8, 12, 20]) if quick else rng.choice([1, 2, 3, 4, 5, 6, 8, 12, 20, 40, 90])
        nt = rng.randint(0, 2 * nv)
        c = "del ver=%s kind=%s nv=%d attrs=%s" % (ver, kind, nv, rng.choice(["", "n", "u", "nu", "nuc", "c", "uc", "nuU", "uU", "nucU"]))
        if kind == "strips":
            ns = rng.randint(0, 3)
            strips = [".".join(str(rng.randrange(nv)) for _ in range(rng.randint(0, 7))) or "-" for _ in range(ns)]
            c += " strips=" + ";".join(strips)
            nt = 0
        else:
            tris = rand_tris(rng, nv, nt)
            nt = len(tris)
            c += " tris=" + fmt_tris(tris)
        if kind in ("auto", "strips") and rng.random() < 0.6:
            c += skin_params(rng, nv, nt, ver)
        if rng.random() < 0.3:
            lists = [".".join(str(rng.randrange(nv)) for _ in range(rng.randint(0, 5))) or "-" for _ in range(rng.randint(1, 2))]
            c += " ln=" + ";".join(lists)
        if ver in ("fo4", "fo76") and kind == "auto":
            if rng.random() < 0.6 and nt > 0:
                c += seg_params(rng, nt)
            if rng.random() < 0.3 and nt > 0:
                cuts = sorted(rng.randint(0, nt) for _ in range(2))
                c += " sse=0.%d;%d.%d;%d.%d" % (cuts[0], 3 * cuts[0], cuts[1] - cuts[0], 3 * cuts[1], nt - cuts[1])
        first = rng.choice(index_sets(rng, nv, 3))
        c += " steps=%s save=%d" % (steps_str(history(rng, nv, first)), 1 if rng.random() < 0.7 else 0)
        cases.append(c)
    # 3. BSSubIndexTriShape with segment tables that do NOT tile the triangle list from triangle 0, as a
    #    loaded file may carry them: disjoint ordered ranges inside the list, first start mostly above 0,
    #    gaps between ranges; as SSE table (sse=), as raw FO4 table (fseg=) or both
    for _ in range(60 if quick else 900):
        ver = rng.choice(["fo4", "fo4", "fo76"])
        nv = rng.choice([4, 5, 6, 8, 12, 20]) if quick else rng.choice([4, 5, 6, 8, 12, 20, 40])
        tris = rand_tris(rng, nv, rng.randint(2, 2 * nv))
        nt = len(tris)
        if nt < 2:
            continue
        c = "del ver=%s kind=auto nv=%d attrs=%s tris=%s" % (ver, nv, rng.choice(["", "u", "nu"]), fmt_tris(tris))
        for key in rng.choice([["sse"], ["fseg"], ["sse", "fseg"]]):
            c += " %s=%s" % (key, loose_table(rng, nt))
        first = rng.choice(index_sets(rng, nv, 3))
        c += " steps=%s save=%d" % (steps_str(history(rng, nv, first)), 1 if rng.random() < 0.5 else 0)
        cases.append(c)
    return cases


def loose_table(rng, nt):
    """1-3 disjoint, ordered ranges inside [0, nt) as 'index.num;...' (index = 3 * first triangle); the
    first one starts above 0 three times out of four, later ones may leave a gap"""
    pos = rng.randint(1, max(1, nt // 2)) if rng.random() < 0.75 else 0
    out = []
    for _ in range(rng.randint(1, 3)):
        if pos >= nt:
            break
        n = rng.randint(0 if out else 1, nt - pos)
        out.append("%d.%d" % (3 * pos, n))
        pos += n + (rng.randint(0, 2) if rng.random() < 0.5 else 0)
    return ";".join(out)


def gen_files(tier, rng, impl_bin, env):
    """deletion histories on every shape of every sample (size-limited in the quick tier)"""
    sdir = env["VERIF_SAMPLES"]
    files = sorted(f for f in os.listdir(sdir) if f.endswith(".nif"))
    rc, lines, err = vlib.run_lines(impl_bin, [FAMILY], ["shapes name=" + f for f in files], timeout=300, env=env)
    cases = []
    seen_kinds = {}
    for f, l in zip(files, lines):
        toks = l[2:].split(" ")
        for k, t in enumerate(toks[1:]):
            name, nv, nt = t.split(":")
            nv = int(nv)
            if nv == 0:
                continue
            limit = 400 if tier == "quick" else 6000
            if nv > limit:
                continue
            # quick: at most two shapes per (file, block type); thorough: all
            key = (f, name)
            seen_kinds[key] = seen_kinds.get(key, 0) + 1
            if tier == "quick" and seen_kinds[key] > 1:
                continue
            sets = index_sets(rng, nv, 2 if tier == "quick" else 4)
            if nv > 1500:
                sets = sets[:2]
            elif tier == "quick":
                sets = [sets[0], sets[3], sets[-1]]
            for first in sets:
                cases.append("file name=%s shape=%d steps=%s save=1" % (f, k, steps_str(history(rng, nv, first))))
    return cases


KNOWN_DYN = "C09-bsdyn-datasize"
KNOWN_SEG0 = "C09-segment-table-not-from-zero"
_SEG_MSGS = (("after deletion: SSE segment ", " range leaves the triangle list", "sse"),
             ("after deletion: segment ", " sub-segment range leaves the triangle list", "fo4sub"),
             ("after deletion: segment ", " range leaves the triangle list", "fo4"))


def seg_not_from_zero(prev, idx, cur, errs):
    """Input class and symptom of C09-segment-table-not-from-zero, decided on the INPUT of the step:
    a BSSubIndexTriShape whose SSE / FO4 table has its FIRST range starting above triangle 0 and at
    least one deleted triangle in front of that start; the only complaints are ranges of THAT table
    leaving the triangle list, each by at least 1 and at most the number of deleted triangles in
    front (the re-fit chains every start to the first one, which it never moves).
    Returns True when every error of the step is explained that way."""
    if not errs or "b" not in prev or "b" not in cur or prev["b"]["kind"] != "sits":
        return False
    b0, b1 = prev["b"], cur["b"]
    nv0 = gs.nverts(prev)
    dead = set(i for i in idx if i < nv0)
    gone = [k for k, t in enumerate(b0["TR"]) if any(v in dead for v in t)]
    tables0 = {"sse": [(ix, n) for ix, n in b0["SSE"]], "fo4": [(g["start"], g["num"]) for g in b0["segs"]]}
    front = {}
    for name, tab in tables0.items():
        first = tab[0][0] // 3 if tab else 0
        front[name] = len([k for k in gone if k < first]) if first > 0 else 0
    nt1 = b1["nt"]
    for x in errs:
        for pre, post, kind in _SEG_MSGS:
            if x.startswith(pre) and x.endswith(post) and x[len(pre):len(x) - len(post)].isdigit():
                i = int(x[len(pre):len(x) - len(post)])
                break
        else:
            return False
        tab = "sse" if kind == "sse" else "fo4"
        f = front[tab]
        if f <= 0:
            return False
        if kind == "sse":
            if i >= len(b1["SSE"]):
                return False
            over = [b1["SSE"][i][0] // 3 + b1["SSE"][i][1] - nt1]
        elif kind == "fo4":
            if i >= len(b1["segs"]):
                return False
            over = [b1["segs"][i]["start"] // 3 + b1["segs"][i]["num"] - nt1]
        else:
            if i >= len(b1["segs"]):
                return False
            over = [ss // 3 + sn - nt1 for ss, sn in b1["segs"][i]["subs"] if ss // 3 + sn > nt1]
        if not over or any(o < 1 or o > f for o in over):
            return False
    return True


def finding_status(fid):
    """'known' (recorded, tolerated), 'fixed' (repaired: its return is a violation) or None"""
    for k in vlib.load_known():
        if k.get("id") == fid:
            return k.get("status")
    return None


def check_case(rep, case, iline, mline, stats):
    """returns (mismatch or None, list of spec failures)"""
    I = iline[2:].split(" | ")
    M = mline[2:].split(" | ") if mline else []
    kvc = gs.kv(case)
    steps = [gs.ints(s) for s in kvc.get("steps", "").split(";")] if kvc.get("steps") else []
    if I and I[0].startswith("PRE "):
        I = I[1:]
    dels = [x for x in I if not x.startswith("SV ") and not x.startswith("RL ")]
    mismatch = None
    for k, a in enumerate(dels):
        b = M[k] if k < len(M) else "<missing>"
        if a != b:
            ka, kb = gs.kv(a), gs.kv(b)
            diff = {x: [ka.get(x, "<none>")[:160], kb.get(x, "<none>")[:160]] for x in sorted(set(ka) | set(kb)) if ka.get(x) != kb.get(x)}
            mismatch = {"case": case, "step": k, "fields": diff, "model_tail": b[:80] if b.startswith(("FAULT", "OUTOFFUEL", "<")) else ""}
            break
    fails = []
    try:
        states = [gs.parse_state(x.split("S ", 1)[1] if not x.startswith("S") else x) for x in dels]
        prev = states[0]
        pre_wf = gs.wf_errors(prev)
        # a dynamic shape that was never saved may carry any dynamicDataSize; not a deletion matter
        pre_wf = [x for x in pre_wf if not x.startswith("dynamicDataSize")]
        if pre_wf and case.startswith("del"):
            fails.append({"case": case, "step": 0, "errors": ["shape built through the public API is not well-formed: " + pre_wf[0]]})
        for k, idx in enumerate(steps):
            if k + 1 >= len(states):
                break
            cur = states[k + 1]
            if not idx:
                prev = cur
                continue
            if pre_wf:
                stats["skipped_not_wf"] = stats.get("skipped_not_wf", 0) + 1
            else:
                errs = gs.delete_errors(prev, idx, cur)
                keep = []
                for x in errs:
                    if "dynamicDataSize" in x and cur["b"]["dds"] == cur["b"]["nv"] and cur["b"]["nv"] > 0:
                        # input class / symptom of finding C09-bsdyn-datasize
                        if finding_status(KNOWN_DYN) == "known":
                            rep.known_finding(KNOWN_DYN, case[:200])
                        else:
                            keep.append(x + " (the defect repaired as %s is back)" % KNOWN_DYN)
                    else:
                        keep.append(x)
                if keep and mismatch is None and seg_not_from_zero(prev, idx, cur, keep):
                    # the implementation does what the model says; the table did not start at triangle 0
                    if finding_status(KNOWN_SEG0) == "known":
                        rep.known_finding(KNOWN_SEG0, case[:200])
                        stats["known_seg0"] = stats.get("known_seg0", 0) + 1
                        keep = []
                    else:
                        keep = [x + " (input class of %s, which is not recorded as known)" % KNOWN_SEG0 for x in keep]
                if keep:
                    fails.append({"case": case, "step": k + 1, "idx": idx, "errors": keep[:6]})
                stats["steps_checked"] = stats.get("steps_checked", 0) + 1
                if len(idx) and gs.nverts(cur) > 0:
                    stats["nontrivial"] = True
            pre_wf = [x for x in gs.wf_errors(cur) if not x.startswith("dynamicDataSize")]
            prev = cur
        rl = [x for x in I if x.startswith("RL ")]
        sv = [x for x in I if x.startswith("SV ")]
        if rl:
            stats["reloads"] = stats.get("reloads", 0) + 1
            if " rc=0 " not in rl[0][:12] + " ":
                fails.append({"case": case, "errors": ["reload of the saved shape failed: " + rl[0][:20]]})
            elif sv and " rc=0 " not in sv[0][:12] + " ":
                fails.append({"case": case, "errors": ["save failed: " + sv[0][:20]]})
            elif not pre_wf:
                re = gs.parse_state(rl[0].split("S ", 1)[1])
                # SSE keeps the triangles of a skinned shape in the partitions: reloaded partition by partition
                sort_tris = "b" in prev and "sp" in prev.get("k", {})
                a, b = gs.geometry_view(prev, sort_tris), gs.geometry_view(re, sort_tris)
                if gs.nverts(prev) > 0 and a != b:
                    keys = [x for x in a if a.get(x) != b.get(x)]
                    fails.append({"case": case, "errors": ["reloaded geometry differs from the saved one in: " + ",".join(keys)]})
                e2 = [x for x in gs.wf_errors(re)]
                if gs.nverts(prev) > 0 and e2:
                    fails.append({"case": case, "errors": ["reloaded shape is not well-formed: " + e2[0]]})
    except Exception as ex:  # malformed dump = the oracle itself is broken
        fails.append({"case": case, "errors": ["unparsable dump: %r" % (ex,)]})
    return mismatch, fails


def run(tier, seed, replay=None):
    rep = vlib.Reporter(PID, tier, seed)
    hygiene = vlib.coq_hygiene()
    pr = vlib.coq_property(PID)
    cov = vlib.proof_coverage(pr, hygiene)
    if not pr["ok"] or hygiene:
        rep.violation("proof obligations of Properties_C09.v not discharged: " + ",".join(pr["failed"] or hygiene),
                      {"broken": "theorems " + ",".join(pr["failed"]), "log": pr["log"][-3000:], "hygiene": hygiene}, found_input=False)
    impl_bin = vlib.build_oracle("asan")
    model_bin = vlib.build_model_oracle()
    rng = random.Random(seed)
    samples_dir = os.environ.get("VERIF_SAMPLES") or os.path.join(vlib.REPO, "tests", "input")
    env = {"VERIF_SAMPLES": samples_dir}
    if replay:
        r = json.load(open(replay))
        cases = [r["case"]] if "case" in r else [c["case"] for c in r.get("cases", [])]
    else:
        corpus = []
        try:
            corpus = [l.strip() for l in open(vlib.ROOT + "/corpus/C09/cases.txt") if l.strip() and not l.startswith("#")]
        except OSError:
            pass
        cases = corpus + gen_synthetic(tier, rng) + gen_files(tier, rng, impl_bin, env)
    impl = vlib.run_cases_robust(impl_bin, [FAMILY], cases, timeout_per_batch=900, batch=400, env=env)
    mcases, idxmap = [], []
    for k, (c, il, crash) in enumerate(impl):
        if crash is not None or il is None or not il.startswith("I=S") and not il.startswith("I=PRE"):
            continue
        states = il[2:].split(" | ")
        if states[0].startswith("PRE "):
            states = states[1:]
        mcases.append("del st=%s steps=%s" % (states[0].replace(" ", "~"), gs.kv(c).get("steps", "")))
        idxmap.append(k)
    model = vlib.run_cases_robust(model_bin, [FAMILY], mcases, timeout_per_batch=1500, batch=200)
    mlines = {}
    for k, (mc, ml, mcrash) in zip(idxmap, model):
        if mcrash is not None or ml is None:
            rep.violation("model oracle failed", {"case": cases[k], "model_crash": mcrash}, found_input=False)
        else:
            mlines[k] = ml
    mism, fails, nontriv = [], [], set()
    stats = {}
    dist = {}
    for k, (c, il, crash) in enumerate(impl):
        if crash is not None or il is None:
            rep.violation("implementation crashed (sanitizer/abort/timeout) while deleting vertices of a well-formed shape",
                          {"case": c, "family": FAMILY, "crash": crash})
            continue
        if not (il.startswith("I=S") or il.startswith("I=PRE")):
            rep.violation("oracle could not build or load the shape: " + il[:60], {"case": c, "family": FAMILY}, found_input=False)
            continue
        if k not in mlines:
            continue
        st = {}
        m, f = check_case(rep, c, il, mlines[k], st)
        for a, b in st.items():
            if a != "nontrivial":
                stats[a] = stats.get(a, 0) + b
        if st.get("nontrivial"):
            nontriv.add(c)
        if m:
            mism.append(m)
        fails += f
        kvc = gs.kv(c)
        key = (kvc.get("ver", "file") + "/" + kvc.get("kind", "-")) if c.startswith("del") else "file/" + kvc.get("name", "")[12:-4]
        dist[key] = dist.get(key, 0) + 1
    for f in fails[:12]:
        rep.violation("vertex deletion broke the property: " + "; ".join(f["errors"][:2]), dict(f, family=FAMILY))
    if mism and not fails:
        rep.violation("correspondence geom (Coq geometry model vs notifyVerticesDelete/DeleteVertsForShape) no longer holds; theorems of Properties_C09.v no longer speak about the code",
                      {"broken": "correspondence:geom", "family": FAMILY, "cases": mism[:10]}, found_input=False)
    unproved = []
    try:
        unproved = json.load(open(os.path.join(vlib.ROOT, "tools", "props", "C09.manifest.json"))).get("unproved", [])
    except (OSError, ValueError):
        pass
    cov.update({
        "evaluations": len(cases),
        "distinct_nontrivial": len(nontriv),
        "rule": "synthetic: every non-empty index subset of a 4-vertex shape of every kind/version (NiTriShape OB/FO3/SK with and without skin+partitions+LOCKEDNORM, BSTriShape SSE, BSSubIndexTriShape FO4/FO76, BSDynamicTriShape, BSMeshLODTriShape, NiTriStrips) followed by a second deletion, plus seeded random shapes (1-%d vertices, random triangles/strips, attribute subsets, 1-3 bones, default / SetShapePartitions / UpdateSkinPartitions partitions, LOCKEDNORM lists, FO4 segmentations, SSE segment tables; plus BSSubIndexTriShapes with SSE / raw FO4 segment tables that do not tile the triangle list from 0: first start above 0, gaps) with single/prefix/suffix/all/random index sets and up to 3 consecutive deletions; samples: every shape (size-limited in quick) with the same index-set classes; non-trivial = some step deleted at least one vertex of a well-formed shape and left at least one; distinct = distinct case lines" % (20 if tier == "quick" else 90),
        "samples": cases[:2] + cases[len(cases) // 2:len(cases) // 2 + 2] + cases[-2:],
        "input_distribution": dist,
        "steps_checked_against_spec": stats.get("steps_checked", 0),
        "steps_skipped_input_not_well_formed": stats.get("skipped_not_wf", 0),
        "save_reload_checked": stats.get("reloads", 0),
        "steps_in_known_class_segment_table_not_from_zero": stats.get("known_seg0", 0),
        "traces_validated_against_impl": len(mlines),
        "correspondence_mismatches": len(mism),
        "spec_failures_on_impl": len(fails),
        "unproved": unproved,
        "trusted_base": vlib.BASE_TRUSTED + ["modelled, not verified: std::vector / NiVector (lists with faulting get/set), std::sort (insertion sorts), C integer conversions as explicit wrap; per-vertex payloads are opaque tokens (a hash of the stored bytes, half-precision fields hashed after rounding to half)",
                                             "tools/geomspec.py: the property evaluated on dumps, written without the model"],
        "exhaustive": False,
    })
    return rep.finish(cov, ["index lists strictly ascending, non-empty, inside the shape's vertex range (below 65535); the shape is well-formed (counters = lengths, indices in range: Geom/GeomSpec.v gd_wf / bs_core_wf / bone_wf; the generator only produces such shapes, samples that are not are skipped and counted)"])
