"""C20 — transform algebra and bounding spheres obey their geometric laws.

Proof: coq/Properties/Properties_C20.v — the laws hold in the exact-arithmetic model
(coq/Xform/XformModel.v, formulas transcribed from Object3d.hpp / Object3d.cpp) over EVERY commutative
field, all elements; closed under the global context.  PARTIAL: IEEE-754 rounding, sqrt/sin/cos/asin/
acos, Miniball.hpp, UpdateBounds and every "within tolerance" statement are outside the model and are
only exercised here on the implementation.

Tie: the same case lines go through the C++ (harness/o_xform.cpp, real nifly functions, binary32) and
the extracted model instantiated with canonical rationals Qc (ocaml/d_xform.ml); all inputs are decimal
expansions of binary32 values, so both sides start from the same numbers; the float results are
compared with the exact rationals within TOL * (magnitude of the largest intermediate).  The laws
themselves are evaluated on the implementation's outputs (failing-input search)."""
import json
import math
import random
import struct
from decimal import Decimal
from fractions import Fraction

import vlib

PID = "C20"
TOL = 1e-4          # relative to the magnitude of the computation (see mag_* below); >= 1 at game scale
ORTHO_TOL = 1e-5    # RotVecToMat: |m m^T - I|, |det - 1|
HALF_TURN_MARGIN = 0.05   # "below a half turn": |v| <= pi - 0.05 for the RotMatToVec round trip
KNOWN_AVG = "C20-average-rotation-overcorrects"
KNOWN_HALF = "C20-rotmattovec-symmetric-half-turn"
KNOWN_MB = "C20-miniball-float-cospherical"


# ------------------------------------------------------------------------------------------------
# numbers

def f32(x):
    try:
        return struct.unpack("f", struct.pack("f", x))[0]
    except OverflowError:
        return math.copysign(math.inf, x)


def dec(x):
    """exact decimal expansion of a binary floating point value (no exponent)"""
    s = format(Decimal(x), "f")
    if "." in s:
        s = s.rstrip("0").rstrip(".")
    return s if s not in ("-0", "") else "0"


def fl(xs):
    return ",".join(dec(x) for x in xs)


def parse_frac(s):
    neg = s.startswith("-")
    if neg:
        s = s[1:]
    a, b = s.split("/")
    v = Fraction(int(a, 16), int(b, 16))
    return -v if neg else v


def parse_m(line):
    """model line 'M=g1|g2|...' -> list of groups, each a list of Fractions / 'none' / '-'"""
    if line is None or not line.startswith("M="):
        return None
    body = line[2:]
    if body in ("-", "?") or body.startswith("ERR"):
        return body
    out = []
    for g in body.split("|"):
        out.append("none" if g == "none" else [parse_frac(x) for x in g.split(",") if x != ""])
    return out


def parse_i(line):
    if line is None or not line.startswith("I="):
        return None
    out = []
    for g in line[2:].split("|"):
        if g in ("none", "none?", "noshape", "?"):
            out.append(g)
        elif ":" in g or ";" in g:
            out.append([[f32(float(x)) for x in p.split(":")] for p in g.split(";") if p])
        else:
            out.append([f32(float(x)) for x in g.split(",") if x != ""])
    return out


# ------------------------------------------------------------------------------------------------
# small linear algebra in double (for conditioning, magnitudes and laws on the outputs)

def det3(m):
    return (m[0] * (m[4] * m[8] - m[5] * m[7]) + m[1] * (m[5] * m[6] - m[3] * m[8]) + m[2] * (m[3] * m[7] - m[4] * m[6]))


def fro(m):
    return math.sqrt(sum(x * x for x in m))


def amax(xs):
    return max([abs(x) for x in xs] + [0.0])


def finite(xs):
    return all(math.isfinite(x) for x in xs)


def ndet3(m):
    """|det| after normalising the matrix by its Frobenius norm (orthonormal: 0.19)"""
    f = fro(m)
    return abs(det3(m)) / f ** 3 if f > 0 else 0.0


def wc_matrix(m):
    return finite(m) and 1e-2 <= fro(m) <= 1e2 and ndet3(m) >= 1e-2


def wc_xform(r, t, s):
    return wc_matrix(r) and finite(t + [s]) and 1e-2 <= s <= 1e2 and amax(t) <= 1e5


def is_rotation(m):
    """orthonormal with determinant +1 within 1e-5 (what CalcAverage/Median and RotMatToVec assume)"""
    for i in range(3):
        for j in range(3):
            d = sum(m[3 * i + k] * m[3 * j + k] for k in range(3)) - (1.0 if i == j else 0.0)
            if abs(d) > 1e-5:
                return False
    return abs(det3(m) - 1.0) <= 1e-5


ID3 = [1.0, 0.0, 0.0, 0.0, 1.0, 0.0, 0.0, 0.0, 1.0]
ID4 = [1.0 if i % 5 == 0 else 0.0 for i in range(16)]


# ------------------------------------------------------------------------------------------------
# generators (every number is a binary32 value written out exactly)

def rodrigues_nifly(n, ang):
    """RotVecToMat's sign convention (m01 = +nz sin), computed in double and rounded to binary32"""
    c, s = math.cos(ang), math.sin(ang)
    o = 1 - c
    x, y, z = n
    m = [x * x * o + c, x * y * o + z * s, z * x * o - y * s,
         x * y * o - z * s, y * y * o + c, y * z * o + x * s,
         z * x * o + y * s, y * z * o - x * s, z * z * o + c]
    return [f32(v) for v in m]


def rand_axis(rng):
    while True:
        v = [rng.gauss(0, 1) for _ in range(3)]
        n = math.sqrt(sum(x * x for x in v))
        if n > 1e-3:
            return [x / n for x in v]


def signed_perms():
    out = []
    for p in ((0, 1, 2), (0, 2, 1), (1, 0, 2), (1, 2, 0), (2, 0, 1), (2, 1, 0)):
        for sg in range(8):
            m = [0.0] * 9
            for i in range(3):
                m[3 * i + p[i]] = -1.0 if (sg >> i) & 1 else 1.0
            out.append(m)
    return out


SPERMS = signed_perms()
ROTPERMS = [m for m in SPERMS if det3(m) > 0]


def dyadic(rng, maxabs):
    """k / 2^m with |k| <= 1024, m <= 10, times a power of two, clamped to [-maxabs, maxabs]: few
    significant bits, so most float operations on such inputs are exact"""
    x = rng.randint(-1024, 1024) / (1 << rng.randint(0, 10))
    p = int(math.floor(math.log2(maxabs / 1024.0))) if maxabs > 0 else 0
    x *= 2.0 ** rng.randint(min(0, p), max(0, p))
    return f32(max(-maxabs, min(maxabs, x)))


def rand_f32(rng, lo, hi):
    return f32(rng.uniform(lo, hi))


def rand_scale(rng, ill=False):
    if ill:
        return rng.choice([f32(1e-6), f32(1e-4), f32(3e3), f32(1e6), -1.0, -0.5, f32(1e-3)])
    r = rng.random()
    if r < 0.4:
        return rng.choice([0.25, 0.5, 1.0, 1.0, 1.5, 2.0, 4.0, 0.015625, 64.0])
    return f32(math.exp(rng.uniform(math.log(1e-2), math.log(1e2)) * 0.999))


def rand_vec(rng, mx):
    r = rng.random()
    if r < 0.15:
        return [0.0, 0.0, 0.0]
    if r < 0.5:
        return [dyadic(rng, mx) for _ in range(3)]
    sc = math.exp(rng.uniform(math.log(1e-3), math.log(mx)))
    return [f32(rng.uniform(-sc, sc)) for _ in range(3)]


def rand_rot(rng, kind=None):
    """returns (matrix, kind)"""
    kind = kind or rng.choice(["perm", "rod", "rod", "rod", "gen", "gen", "rodhalf", "id"])
    if kind == "id":
        return list(ID3), kind
    if kind == "perm":
        return list(rng.choice(SPERMS)), kind
    if kind == "rod":
        return rodrigues_nifly(rand_axis(rng), rng.uniform(-math.pi, math.pi)), kind
    if kind == "rodhalf":
        d = rng.choice([0.0, 1e-5, 1e-4, 3e-4, 1e-3, 3e-3, 1e-2])
        return rodrigues_nifly(rand_axis(rng), math.pi - d), kind
    if kind == "gen":
        while True:
            if rng.random() < 0.5:
                m = [float(rng.randint(-4, 4)) * rng.choice([1.0, 0.5, 0.25]) for _ in range(9)]
            else:
                m = [rand_f32(rng, -2, 2) for _ in range(9)]
            if wc_matrix(m):
                return m, kind
    if kind == "ill":
        a = [rand_f32(rng, -2, 2) for _ in range(3)]
        b = [rand_f32(rng, -2, 2) for _ in range(3)]
        e = rng.choice([1e-3, 1e-5, 1e-7])
        c = [f32(a[i] + b[i] + e * rng.uniform(-1, 1)) for i in range(3)]
        return a + b + c, kind
    if kind == "sing":
        a = [float(rng.randint(-3, 3)) for _ in range(3)]
        b = [float(rng.randint(-3, 3)) for _ in range(3)]
        k1, k2 = rng.randint(-2, 2), rng.randint(-2, 2)
        rows = [a, b, [k1 * a[i] + k2 * b[i] for i in range(3)]]
        rng.shuffle(rows)
        return rows[0] + rows[1] + rows[2], kind
    raise ValueError(kind)


def rand_xform(rng, kind=None):
    if kind in ("ill", "sing"):
        r, _ = rand_rot(rng, kind)
        return r, rand_vec(rng, 1e5), rand_scale(rng)
    if kind == "illscale":
        r, _ = rand_rot(rng)
        return r, rand_vec(rng, 1e5), rand_scale(rng, ill=True)
    if kind == "hugetrans":
        r, _ = rand_rot(rng)
        return r, [f32(rng.uniform(-1e9, 1e9)) for _ in range(3)], rand_scale(rng)
    r, _ = rand_rot(rng, kind)
    return r, rand_vec(rng, 1e5), rand_scale(rng)


def xf_kv(r, t, s, sfx=""):
    return "r%s=%s t%s=%s s%s=%s" % (sfx, fl(r), sfx, fl(t), sfx, dec(s))


# rational unit axes and points of the unit circle for the "rodrigues" correspondence cases
UNIT_AXES = [(1, 0, 0), (0, 1, 0), (0, 0, 1), (1, 2, 2, 3), (2, 3, 6, 7), (2, 6, 9, 11), (1, 4, 8, 9), (4, 4, 7, 9),
             (3, 4, 12, 13), (6, 6, 7, 11), (2, 10, 11, 15), (8, 9, 12, 17)]
PYTH = [(3, 4, 5), (5, 12, 13), (8, 15, 17), (7, 24, 25), (20, 21, 29), (12, 35, 37), (9, 40, 41), (28, 45, 53),
        (11, 60, 61), (33, 56, 65), (16, 63, 65), (48, 55, 73), (1, 0, 1), (0, 1, 1), (99, 20, 101), (65, 72, 97), (39, 80, 89)]


def rational_axes(rng):
    a = rng.choice(UNIT_AXES)
    if len(a) == 3:
        comp = [Fraction(x) for x in a]
    else:
        comp = [Fraction(x, a[3]) for x in a[:3]]
    rng.shuffle(comp)
    return [c * rng.choice([1, -1]) for c in comp]


def rational_circle(rng):
    while True:
        a, b, h = rng.choice(PYTH)
        if a * a + b * b != h * h:
            continue
        if rng.random() < 0.5:
            a, b = b, a
        return Fraction(a * rng.choice([1, -1]), h), Fraction(b * rng.choice([1, -1]), h)


def frs(q):
    return "%d/%d" % (q.numerator, q.denominator)


def point_sets(rng, count):
    sets = []
    for _ in range(count):
        kind = rng.choice(["single", "dup", "pair", "collinear", "coplanar", "cube", "box", "box", "random", "random", "cluster", "big"])
        mx = rng.choice([1.0, 10.0, 100.0, 1e3, 1e4])
        if kind == "single":
            pts = [rand_vec(rng, mx)]
        elif kind == "dup":
            p = rand_vec(rng, mx)
            pts = [list(p) for _ in range(rng.randint(2, 6))]
        elif kind == "pair":
            pts = [rand_vec(rng, mx), rand_vec(rng, mx)]
        elif kind == "collinear":
            a, d = rand_vec(rng, mx), rand_vec(rng, mx)
            pts = [[f32(a[i] + k * d[i] / 8) for i in range(3)] for k in rng.sample(range(-8, 9), rng.randint(3, 7))]
        elif kind == "coplanar":
            a, u, v = rand_vec(rng, mx), rand_vec(rng, mx), rand_vec(rng, mx)
            pts = [[f32(a[i] + rng.randint(-4, 4) * u[i] / 4 + rng.randint(-4, 4) * v[i] / 4) for i in range(3)] for _ in range(rng.randint(4, 10))]
        elif kind == "cube":
            c, h = rand_vec(rng, mx), abs(dyadic(rng, mx)) + 0.5
            pts = [[f32(c[0] + sx * h), f32(c[1] + sy * h), f32(c[2] + sz * h)] for sx in (-1, 1) for sy in (-1, 1) for sz in (-1, 1)]
            pts += [list(p) for p in rng.sample(pts, 2)]
        elif kind == "box":
            # corners of a box with full-mantissa coordinates (cospherical: Miniball's degenerate case), shuffled
            c = [f32(rng.uniform(-mx, mx)) for _ in range(3)]
            h = [f32(rng.uniform(0.1, mx)) for _ in range(3)]
            if rng.random() < 0.5:
                h = [h[0]] * 3
            pts = [[f32(c[0] + sx * h[0]), f32(c[1] + sy * h[1]), f32(c[2] + sz * h[2])] for sx in (-1, 1) for sy in (-1, 1) for sz in (-1, 1)]
            if rng.random() < 0.3:
                pts += [list(p) for p in rng.sample(pts, 2)]
            rng.shuffle(pts)
        elif kind == "cluster":
            c = [f32(rng.uniform(-mx, mx)) for _ in range(3)]
            pts = [[f32(c[i] + rng.uniform(-1, 1) * mx * 1e-3) for i in range(3)] for _ in range(rng.randint(3, 12))]
        elif kind == "big":
            pts = [[f32(rng.uniform(-mx, mx)) for _ in range(3)] for _ in range(rng.randint(30, 120))]
        else:
            pts = [[f32(rng.uniform(-mx, mx)) for _ in range(3)] for _ in range(rng.randint(3, 12))]
        sets.append((kind, pts))
    return sets


def pts_str(pts):
    return ";".join(":".join(dec(x) for x in p) for p in pts)


def gen_cases(tier, rng):
    q = tier == "quick"
    cases = []
    # fixed cases: the witnesses of the two recorded defects and a few textbook inputs
    half_sym = [f32(x) for x in (-0.988544345, 0.0452510267, 0.143987462, 0.0452510267, -0.821253479, 0.568766236,
                                 0.143987462, 0.568766236, 0.809797883)]
    near_half_z = rodrigues_nifly([0.0, 0.0, 1.0], math.pi - 1e-4)
    perm_half = [-1.0, 0.0, 0.0, 0.0, 0.0, -1.0, 0.0, -1.0, 0.0]
    for r, n in ((half_sym, 1), (half_sym, 3), (near_half_z, 10), (near_half_z, 100), (near_half_z, 1), (perm_half, 2), (perm_half, 1),
                 (rodrigues_nifly([0.6, 0.0, 0.8], math.pi - 1.0), 100),
                 (rodrigues_nifly([0.0, 0.0, 1.0], math.atan2(4, 3)), 5)):
        one = fl(r + [1.0, -2.0, 3.0, 2.0])
        cases.append("avg ts=%s" % ";".join([one] * n))
        cases.append("median ts=%s" % ";".join([one] * n))
        cases.append("avg ts=%s" % one)
    cases.append("inverse %s v=5,0,1" % xf_kv([0.6, 0.8, 0.0, -0.8, 0.6, 0.0, 0.0, 0.0, 1.0], [1.0, -2.0, 3.0], 2.0))
    cases.append("rodrigues n=0/1,0/1,1/1 c=3/5 s=4/5 v=%s" % fl([0.0, 0.0, f32(math.atan2(4, 3))]))
    box_witness = [[97.2033538818359375, -80.84381866455078125, -45.2521820068359375], [-17.796649932861328125, 34.15618133544921875, 69.7478179931640625],
                   [97.2033538818359375, 34.15618133544921875, 69.7478179931640625], [97.2033538818359375, 34.15618133544921875, -45.2521820068359375],
                   [97.2033538818359375, -80.84381866455078125, 69.7478179931640625], [-17.796649932861328125, 34.15618133544921875, -45.2521820068359375],
                   [-17.796649932861328125, -80.84381866455078125, 69.7478179931640625], [-17.796649932861328125, -80.84381866455078125, -45.2521820068359375]]
    cases.append("bsphere kind=box pts=%s" % pts_str(box_witness))
    cases.append("bounds ver=sse kind=box pts=%s" % pts_str(box_witness))
    cases.append("bsphere kind=single pts=1:2:3")
    cases.append("bsphere kind=pair pts=0:0:0;2:0:0")
    n_main = 250 if q else 2500
    kinds = [None] * 8 + ["ill", "sing", "illscale", "hugetrans"]
    # apply / compose / inverse / tomatrix
    for _ in range(n_main):
        k1, k2 = rng.choice(kinds), rng.choice(kinds)
        r1, t1, s1 = rand_xform(rng, k1)
        r2, t2, s2 = rand_xform(rng, k2)
        v = rand_vec(rng, 1e4)
        cases.append("apply %s v=%s" % (xf_kv(r1, t1, s1), fl(v)))
        cases.append("compose %s %s v=%s" % (xf_kv(r1, t1, s1, "1"), xf_kv(r2, t2, s2, "2"), fl(v)))
        cases.append("inverse %s v=%s" % (xf_kv(r1, t1, s1), fl(v)))
        cases.append("tomatrix %s v=%s" % (xf_kv(r2, t2, s2), fl(v)))
    # every signed permutation as a rotation (exact in float)
    for m in SPERMS:
        cases.append("inverse %s v=%s" % (xf_kv(m, [1.0, -2.0, 3.0], 2.0), fl([0.5, 0.25, -4.0])))
        cases.append("invert3 m=%s" % fl(m))
    # well-conditioned matrices with a tiny determinant: a rotation times a small uniform factor (1/32 and 1/64 are
    # exact in binary32; det = 2^-15 resp. 2^-18, condition number 1) - "singular" must mean det == 0, not "small"
    for m in SPERMS:
        for f in (0.03125, 0.015625):
            cases.append("invert3 m=%s" % fl([x * f for x in m]))
    for _ in range(20 if q else 200):
        m, _k = rand_rot(rng, rng.choice(["rod", "gen"]))
        f = rng.choice([0.04, 0.03, 0.02, 0.0125, 0.045])
        cases.append("invert3 m=%s" % fl([x * f for x in m]))
    # Matrix3 Invert / Determinant
    for _ in range(n_main):
        m, _k = rand_rot(rng, rng.choice(["perm", "rod", "gen", "gen", "gen", "ill", "sing", "sing"]))
        cases.append("invert3 m=%s" % fl(m))
        cases.append("det3 m=%s" % fl(m))
    # Matrix4 Det / Adjoint / Inverse
    for _ in range(n_main // 2):
        r = rng.random()
        if r < 0.35:
            m = [float(rng.randint(-3, 3)) for _ in range(16)]
            if rng.random() < 0.4:      # exactly singular, exact in float
                m[12:16] = [m[i] + 2 * m[4 + i] for i in range(4)]
        elif r < 0.7:
            rr, tt, ss = rand_xform(rng)
            m = [f32(rr[0] * ss), f32(rr[1] * ss), f32(rr[2] * ss), tt[0], f32(rr[3] * ss), f32(rr[4] * ss), f32(rr[5] * ss), tt[1],
                 f32(rr[6] * ss), f32(rr[7] * ss), f32(rr[8] * ss), tt[2], 0.0, 0.0, 0.0, 1.0]
            m = [x if abs(x) < 1e3 else f32(x / 1024) for x in m]
        else:
            m = [rand_f32(rng, -2, 2) for _ in range(16)]
        cases.append("inverse4 m=%s" % fl(m))
    # RotVecToMat against the rational Rodrigues model (unit rational axis, Pythagorean (cos, sin))
    for _ in range(n_main // 2):
        n = rational_axes(rng)
        c, s = rational_circle(rng)
        ang = math.atan2(float(s), float(c))
        v = [f32(ang * float(x)) for x in n]
        cases.append("rodrigues n=%s c=%s s=%s v=%s" % (",".join(frs(x) for x in n), frs(c), frs(s), fl(v)))
    # rotation vector -> matrix -> rotation vector (implementation only)
    for _ in range(n_main):
        r = rng.random()
        ax = rand_axis(rng)
        if r < 0.1:
            ang = rng.choice([0.0, 1e-6, 1e-4, 1e-3])
        elif r < 0.75:
            ang = rng.uniform(0, math.pi - HALF_TURN_MARGIN)
        elif r < 0.9:
            ang = math.pi - rng.choice([0.04, 1e-2, 1e-3, 1e-4, 0.0])
        else:
            ang = rng.uniform(math.pi, 3 * math.pi)
        cases.append("rotvec v=%s" % fl([f32(ang * x) for x in ax]))
    # averages / medians of copies, and of distinct transforms (translation / scale parts)
    for _ in range(n_main // 2):
        kind = rng.choice(["rod", "rod", "rod", "perm+", "rodhalf", "id"])
        if kind == "perm+":
            r = list(rng.choice(ROTPERMS))
        else:
            r, _k = rand_rot(rng, kind)
        t, s = rand_vec(rng, 1e5), rand_scale(rng)
        n = rng.choice([1, 2, 2, 3, 4, 5, 8, 10, 16])
        one = fl(r + t + [s])
        cases.append("avg ts=%s" % ";".join([one] * n))
        cases.append("median ts=%s" % ";".join([one] * n))
        cases.append("avg ts=%s" % one)
    for _ in range(n_main // 4):
        n = rng.randint(1, 7)
        ts = []
        base_ax, base_ang = rand_axis(rng), rng.uniform(0, 2.5)
        for _i in range(n):
            r = rodrigues_nifly(base_ax, base_ang + rng.uniform(-0.05, 0.05))
            ts.append(fl(r + rand_vec(rng, 1e4) + [rand_scale(rng)]))
        cases.append("avg ts=%s" % ";".join(ts))
        cases.append("median ts=%s" % ";".join(ts))
        xs = [rand_f32(rng, -100, 100) for _ in range(rng.randint(1, 9))]
        if rng.random() < 0.3:
            xs += xs[:2]
        cases.append("medf xs=%s" % fl(xs))
    # bounding spheres and recomputed shape bounds
    for kind, pts in point_sets(rng, n_main):
        cases.append("bsphere kind=%s pts=%s" % (kind, pts_str(pts)))
    for kind, pts in point_sets(rng, n_main // 3):
        cases.append("bounds ver=%s kind=%s pts=%s" % (rng.choice(["ob", "fo3", "sk", "sse", "fo4"]), kind, pts_str(pts)))
    # vertices moved after the bounds were computed once (same count): the recomputed bounds must enclose the
    # NEW positions (a stale vertex cache would give the old sphere)
    for kind, pts in point_sets(rng, max(6, n_main // 3)):
        if len(pts) < 3:
            continue
        far = [[f32(p[0] + 40.0), f32(p[1] - 25.0), f32(p[2] + 10.0)] for p in reversed(pts)]
        for ver in ("sk", "sse", "fo4"):
            cases.append("bounds2 ver=%s kind=%s pts0=%s pts=%s" % (ver, kind, pts_str(pts), pts_str(far)))
    seen, out = set(), []
    for c in cases:
        if c not in seen:
            seen.add(c)
            out.append(c)
    return out


# ------------------------------------------------------------------------------------------------
# evaluation

def kv(case):
    parts = case.split()
    return parts[0], dict(p.split("=", 1) for p in parts[1:] if "=" in p)


def fnums(s):
    return [float(Fraction(x)) if "/" in x else float(Decimal(x)) for x in s.split(",") if x != ""]


class Eval:
    """collects per-case failures: ('law', text) on the implementation alone, ('corr', text) I vs M"""

    def __init__(self):
        self.fails = []
        self.worst = 0.0

    def close(self, kind, what, got, want, tol):
        if len(got) != len(want):
            self.fails.append((kind, "%s: %d values, expected %d" % (what, len(got), len(want))))
            return
        for k, (a, b) in enumerate(zip(got, want)):
            d = abs(a - b)
            if not (d <= tol):
                self.fails.append((kind, "%s[%d]: got %.9g, expected %.9g, |diff| %.3g > tol %.3g" % (what, k, a, b, d, tol)))
                return
            if tol > 0:
                self.worst = max(self.worst, d / tol)


def m_floats(g):
    return [float(x) for x in g]


def eval_case(case, I, M):
    """returns (well_conditioned, Eval, nontrivial)"""
    op, a = kv(case)
    ev = Eval()
    if I is None:
        ev.fails.append(("law", "no output from the implementation"))
        return True, ev, False
    if op in ("apply", "tomatrix", "inverse"):
        r, t, s = fnums(a["r"]), fnums(a["t"]), fnums(a["s"])[0]
        v = fnums(a["v"])
        small_int = all(x == int(x) and abs(x) <= 8 for x in r)
        wc = (wc_xform(r, t, s) or (small_int and det3(r) == 0 and wc_xform(ID3, t, s))) and amax(v) <= 1e5
        nontriv = r != ID3 or amax(t) > 0
        mr, mt, mv = amax(r), amax(t), amax(v)
        mag_apply = mt + 3 * mr * abs(s) * mv
        if op == "apply":
            ev.close("corr", "ApplyTransform", I[0], m_floats(M[0]), TOL * max(1, mag_apply))
        elif op == "tomatrix":
            ev.close("corr", "ToMatrix", I[0], m_floats(M[0]), TOL * max(1, mr * abs(s), mt))
            ev.close("corr", "Matrix4*v", I[1], m_floats(M[1]), TOL * max(1, mag_apply))
            ev.close("law", "ToMatrix()*v = ApplyTransform(v)", I[1], I[2], TOL * max(1, mag_apply))
        else:
            Mi = m_floats(M[0])
            mri = amax(Mi[:9])
            inv_s = abs(1 / s) if s != 0 else math.inf
            mag_it = 3 * mri * mt * inv_s
            tol_r = TOL * max(1e-30, mri)
            # correspondence: inverse transform itself
            ev.close("corr", "InverseTransform.rotation", I[0][:9], Mi[:9], tol_r)
            ev.close("corr", "InverseTransform.translation", I[0][9:12], Mi[9:12], TOL * max(1, mag_it))
            ev.close("corr", "InverseTransform.scale", I[0][12:], Mi[12:], TOL * max(1e-30, inv_s))
            invertible = det3(r) != 0 and s != 0
            if invertible and finite(Mi):
                ident = ID3 + [0.0, 0.0, 0.0, 1.0]
                mag_rr = 3 * mr * mri
                mag1 = mt + 3 * mr * abs(s) * mag_it
                mag2 = mag_it + 3 * mri * inv_s * mt
                for (g, name, mg) in ((1, "t.Compose(t.Inverse())", mag1), (2, "t.Inverse().Compose(t)", mag2)):
                    ev.close("law", name + ".rotation = I", I[g][:9], ident[:9], TOL * max(1, mag_rr))
                    ev.close("law", name + ".translation = 0", I[g][9:12], ident[9:12], TOL * max(1, mg))
                    ev.close("law", name + ".scale = 1", I[g][12:], ident[12:], TOL)
                ina = mt + 3 * mr * abs(s) * mv
                ev.close("law", "inv.Apply(t.Apply(v)) = v", I[3], v, TOL * max(1, mag_it + 3 * mri * inv_s * ina))
                inb = mag_it + 3 * mri * inv_s * mv
                ev.close("law", "t.Apply(inv.Apply(v)) = v", I[4], v, TOL * max(1, mt + 3 * mr * abs(s) * inb))
        return wc, ev, nontriv
    if op == "compose":
        r1, t1, s1 = fnums(a["r1"]), fnums(a["t1"]), fnums(a["s1"])[0]
        r2, t2, s2 = fnums(a["r2"]), fnums(a["t2"]), fnums(a["s2"])[0]
        v = fnums(a["v"])
        # the laws of composition need no invertibility: only finite, game-scale numbers
        wc = finite(r1 + r2 + t1 + t2 + [s1, s2] + v) and max(amax(r1), amax(r2)) <= 1e2 and max(abs(s1), abs(s2)) <= 1e2 \
            and max(amax(t1), amax(t2), amax(v)) <= 1e5
        m1, m2 = amax(r1), amax(r2)
        mag_t = amax(t1) + 3 * m1 * abs(s1) * amax(t2)
        mag_a = mag_t + 9 * m1 * m2 * abs(s1 * s2) * amax(v)
        Mc = m_floats(M[0])
        ev.close("corr", "ComposeTransforms.rotation", I[0][:9], Mc[:9], TOL * max(1e-30, 3 * m1 * m2))
        ev.close("corr", "ComposeTransforms.translation", I[0][9:12], Mc[9:12], TOL * max(1, mag_t))
        ev.close("corr", "ComposeTransforms.scale", I[0][12:], Mc[12:], TOL * max(1e-30, abs(s1 * s2)))
        ev.close("corr", "compose.Apply(v)", I[1], m_floats(M[1]), TOL * max(1, mag_a))
        ev.close("law", "t1.Compose(t2).Apply(v) = t1.Apply(t2.Apply(v))", I[1], I[2], TOL * max(1, mag_a))
        return wc, ev, (r1 != ID3 or r2 != ID3)
    if op in ("invert3", "det3"):
        m = fnums(a["m"])
        wc = wc_matrix(m) or (all(x == int(x) and abs(x) <= 8 for x in m))   # small integers: float arithmetic exact
        mm = amax(m)
        if op == "det3":
            ev.close("corr", "Determinant", I[0], m_floats(M[0]), TOL * max(1e-30, 6 * mm ** 3))
            return wc, ev, m != ID3
        if M == ["none"] or I == ["none"]:
            if M != I:
                small_int = all(x == int(x) and abs(x) <= 8 for x in m)
                if I == ["none"]:
                    ev.fails.append(("law" if small_int or wc_matrix(m) else "corr", "Invert reports failure on a matrix with non-zero determinant"))
                else:
                    ev.fails.append(("law" if small_int else "corr", "Invert succeeds on a singular matrix (exact det = 0)"))
                # judged when the entries are small integers (float arithmetic exact) or the matrix is well conditioned
                # at game scale (normalised determinant >= 1e-2, Frobenius norm in [1e-2, 1e2]: the float determinant
                # is then at least ~1e-9 in magnitude and cannot round to zero)
                return (wc and (small_int or wc_matrix(m))), ev, True
            return wc, ev, True
        Mi = m_floats(M[0])
        mi = amax(Mi)
        ev.close("corr", "Invert", I[0], Mi, TOL * max(1e-30, mi))
        ev.close("law", "m * m.Invert() = I", I[1], ID3, TOL * max(1, 3 * mm * mi))
        ev.close("law", "m.Invert() * m = I", I[2], ID3, TOL * max(1, 3 * mm * mi))
        return wc, ev, m != ID3
    if op == "inverse4":
        m = fnums(a["m"])
        small_int = all(x == int(x) and abs(x) <= 4 for x in m)
        mm = amax(m)
        Md = float(M[0][0])
        f4 = fro(m)
        wc = finite(m) and ((f4 > 0 and abs(Md) / f4 ** 4 >= 1e-3 and 1e-2 <= f4 <= 1e3) or small_int)
        ev.close("corr", "Matrix4::Det", I[0], [Md], TOL * max(1e-30, 24 * mm ** 4))
        if M[1] == "none" or I[1] in ("none", "none?"):
            if (M[1] == "none") != (I[1] in ("none", "none?")) or I[1] == "none?":
                ev.fails.append(("law" if small_int else "corr", "Matrix4::Inverse: singular-matrix signalling differs from the exact determinant (impl %s, model %s)" % (I[1] if isinstance(I[1], str) else "inverse", "none" if M[1] == "none" else "inverse")))
            return wc, ev, True
        Mi = m_floats(M[1])
        mi = amax(Mi)
        ev.close("corr", "Matrix4::Inverse", I[1], Mi, TOL * max(1e-30, mi))
        ev.close("law", "m * m.Inverse() = I", I[2], ID4, TOL * max(1, 4 * mm * mi))
        ev.close("law", "m.Inverse() * m = I", I[3], ID4, TOL * max(1, 4 * mm * mi))
        return wc, ev, m != ID4
    if op in ("rodrigues", "rotvec"):
        v = fnums(a["v"])
        ang = math.sqrt(sum(x * x for x in v))
        wc = finite(v) and ang <= 1e3
        ev.close("law", "RotVecToMat(v) * transpose = I", I[2], ID3, ORTHO_TOL)
        ev.close("law", "det RotVecToMat(v) = 1", I[3], [1.0], ORTHO_TOL)
        if ang <= math.pi - HALF_TURN_MARGIN:
            ev.close("law", "RotMatToVec(RotVecToMat(v)) = v", I[1], v, TOL * max(ang, 1e-2))
        if op == "rodrigues":
            ev.close("corr", "RotVecToMat vs rational Rodrigues matrix", I[0], m_floats(M[0]), ORTHO_TOL)
        return wc, ev, ang > 0
    if op in ("avg", "median"):
        ts = [fnums(x) for x in a["ts"].split(";")]
        n = len(ts)
        same = all(t == ts[0] for t in ts)
        wc = all(is_rotation(t[:9]) and amax(t[9:12]) <= 1e5 and 1e-2 <= t[12] <= 1e2 for t in ts)
        mt = max(amax(t[9:12]) for t in ts)
        ms = max(abs(t[12]) for t in ts)
        if op == "avg":
            ev.close("corr", "CalcAverageMatTransform.translation", I[0][9:12], m_floats(M[0]), TOL * max(1, mt))
            ev.close("corr", "CalcAverageMatTransform.scale", I[0][12:], m_floats(M[1]), TOL * max(1e-30, ms))
        else:
            # median of translation / scale: component-wise median of binary32 values (definition)
            def med(xs):
                xs = sorted(xs)
                k = len(xs)
                return xs[k // 2] if k & 1 else f32(f32(xs[k // 2] + xs[k // 2 - 1]) / 2)
            want = [med([t[9 + k] for t in ts]) for k in range(3)] + [med([t[12] for t in ts])]
            ev.close("law", "CalcMedianMatTransform translation/scale = component-wise median", I[0][9:], want, 0.0)
        if same:
            name = "average" if op == "avg" else "median"
            ev.close("law", name + " of %d identical transforms: rotation" % n, I[0][:9], ts[0][:9], TOL)
            ev.close("law", name + " of %d identical transforms: translation" % n, I[0][9:12], ts[0][9:12], TOL * max(1, mt))
            ev.close("law", name + " of %d identical transforms: scale" % n, I[0][12:], ts[0][12:], TOL * ms)
        return wc, ev, ts[0][:9] != ID3
    if op == "medf":
        xs = sorted(fnums(a["xs"]))
        k = len(xs)
        want = xs[k // 2] if k & 1 else f32(f32(xs[k // 2] + xs[k // 2 - 1]) / 2)
        ev.close("law", "CalcMedianOfFloats = median", I[0], [want], 0.0)
        return True, ev, k > 1
    if op in ("bsphere", "bounds", "bounds2"):
        pts = [[float(Decimal(x)) for x in p.split(":")] for p in a["pts"].split(";")]
        if I[0] == "noshape":
            ev.fails.append(("law", "CreateShapeFromData returned no shape"))
            return True, ev, False
        c, rad = I[0][:3], I[0][3]
        if op in ("bounds", "bounds2"):
            back = I[1] if len(I) > 1 else []
            ev.close("law", "shape vertices read back = vertices given", [x for p in back for x in p], [x for p in pts for x in p], 0.0)
        mp = max(amax(p) for p in pts)
        wc = mp <= 1e5
        if not finite(c + [rad]):
            ev.fails.append(("law", "bounding sphere is not finite: %r" % (I[0],)))
            return wc, ev, True
        slack = TOL * (rad + mp) + 1e-6
        worst = max(math.dist(p, c) for p in pts)
        if not worst <= rad + slack:
            ev.fails.append(("law", "bounding sphere misses a point: distance %.9g > radius %.9g (+%.3g)" % (worst, rad, slack)))
        lo = [min(p[i] for p in pts) for i in range(3)]
        hi = [max(p[i] for p in pts) for i in range(3)]
        half = 0.5 * math.dist(lo, hi)
        if not rad <= half * (1 + TOL) + 1e-6 * max(1, mp):
            ev.fails.append(("law", "bounding sphere radius %.9g exceeds half the bounding-box diagonal %.9g" % (rad, half)))
        ev.worst = max(ev.worst, (worst - rad) / slack if slack > 0 else 0.0)
        return wc, ev, len({tuple(p) for p in pts}) > 1
    ev.fails.append(("corr", "unknown op"))
    return True, ev, False


def avg_known_match(case, ev, median_ok, single_ok):
    """the recorded defect: CalcAverageRotation adds the rebased rotation vectors of the second pass
    without dividing by n, so a first-pass error e comes back as (n-1)*e.  Input class: avg of
    n >= 2 IDENTICAL proper rotations; only the rotation part deviates; the average of ONE copy of the
    same transform (where the missing division is invisible) and the median of the same copies (same
    two-pass scheme, without the sum) are both within tolerance."""
    op, a = kv(case)
    if op != "avg":
        return False
    ts = a["ts"].split(";")
    n = len(ts)
    if n < 2 or any(t != ts[0] for t in ts):
        return False
    if not ev.fails or any(not (k == "law" and "identical transforms: rotation" in w) for k, w in ev.fails):
        return False
    return median_ok and single_ok


def miniball_known_match(case, ev):
    """the recorded defect: Miniball instantiated with float (BoundingSphere(vertices)) stops its pivot
    loop early on COSPHERICAL points - here: at least 5 distinct points that all lie on the sphere
    around their bounding-box centre through the box corners (the corners of a box) - and returns a
    sphere that misses points and/or exceeds the bounding-box sphere.  Only these two laws fail."""
    op, a = kv(case)
    if op not in ("bsphere", "bounds", "bounds2"):
        return False
    pts = list(dict.fromkeys(tuple(float(Decimal(x)) for x in p.split(":")) for p in a["pts"].split(";")))
    if len(pts) < 5:
        return False
    lo = [min(p[i] for p in pts) for i in range(3)]
    hi = [max(p[i] for p in pts) for i in range(3)]
    ctr = [(lo[i] + hi[i]) / 2 for i in range(3)]
    half = 0.5 * math.dist(lo, hi)
    if half <= 0 or any(abs(math.dist(p, ctr) - half) > 1e-5 * half for p in pts):
        return False
    return bool(ev.fails) and all(k == "law" and (w.startswith("bounding sphere misses a point") or w.startswith("bounding sphere radius")) for k, w in ev.fails)


def halfturn_known_match(case, ev, I):
    """the recorded defect: RotMatToVec on a half-turn matrix that is EXACTLY symmetric (skew part
    0) while its binary32 trace gives cosang just above -1 takes the acos branch, normalises the zero
    vector to zero and returns the zero rotation vector; CalcAverageRotation / CalcMedianRotation then
    return the identity rotation for any number of copies.  Input class: avg/median of identical
    copies of such a matrix; only the rotation part fails and the result is the identity."""
    op, a = kv(case)
    if op not in ("avg", "median") or I is None:
        return False
    ts = a["ts"].split(";")
    if any(t != ts[0] for t in ts):
        return False
    r = fnums(ts[0])[:9]
    if not (r[1] == r[3] and r[2] == r[6] and r[5] == r[7]):
        return False
    cosang = f32(f32(f32(r[0] + r[4]) + r[8]) - 1.0) * 0.5     # as RotMatToVec computes it
    if not (-1.0 < cosang <= -1.0 + 1e-6):
        return False
    if not ev.fails or any(not (k == "law" and "identical transforms: rotation" in w) for k, w in ev.fails):
        return False
    return all(abs(x - y) <= 1e-6 for x, y in zip(I[0][:9], ID3))


def run(tier, seed, replay=None):
    rep = vlib.Reporter(PID, tier, seed)
    hygiene = vlib.coq_hygiene()
    pr = vlib.coq_property(PID)
    cov = vlib.proof_coverage(pr, hygiene)
    if not pr["ok"] or hygiene:
        rep.violation("proof obligations of Properties_C20.v not discharged: " + ",".join(pr["failed"] or hygiene),
                      {"broken": "theorems " + ",".join(pr["failed"]), "log": pr["log"][-3000:], "hygiene": hygiene}, found_input=False)
    impl_bin = vlib.build_oracle("plain")
    model_bin = vlib.build_model_oracle()
    rng = random.Random(seed)
    if replay:
        r = json.load(open(replay))
        cases = [r["case"]] if "case" in r else [c["case"] for c in r.get("cases", [])]
        # the known-finding matcher looks at the median of the same copies
        cases += ["median " + c.split(" ", 1)[1] for c in cases if c.startswith("avg ")]
        cases += ["avg ts=" + c.split("ts=", 1)[1].split(";")[0] for c in cases if c.startswith("avg ") and ";" in c]
    else:
        corpus = []
        try:
            corpus = [l.strip() for l in open(vlib.ROOT + "/corpus/C20/cases.txt") if l.strip() and not l.startswith("#")]
        except OSError:
            pass
        cases = corpus + gen_cases(tier, rng)
    impl = vlib.run_cases_robust(impl_bin, ["xform"], cases, timeout_per_batch=600)
    model = vlib.run_cases_robust(model_bin, ["xform"], cases, timeout_per_batch=900)
    results = {}
    ops, nontriv = {}, set()
    ill_total, ill_exceed = 0, 0
    worst = {}
    law_v, corr_v = [], []
    for (c, il, crash), (_, ml, mcrash) in zip(impl, model):
        op = c.split()[0]
        ops[op] = ops.get(op, 0) + 1
        if crash is not None:
            rep.violation("implementation crashed / hung on a transform or bounding-sphere input",
                          {"case": c, "family": "xform", "crash": crash})
            continue
        M = parse_m(ml)
        if mcrash is not None or M is None or (isinstance(M, str) and M != "-"):
            rep.violation("model oracle failed on a case", {"case": c, "model_line": ml, "model_crash": mcrash}, found_input=False)
            continue
        try:
            wc, ev, nt = eval_case(c, parse_i(il), M)
        except (ValueError, IndexError, TypeError, ZeroDivisionError) as e:
            rep.violation("oracle output not understood", {"case": c, "impl": il, "model": ml, "error": repr(e)}, found_input=False)
            continue
        results[c] = (wc, ev)
        if nt:
            nontriv.add(c)
        if not wc:
            ill_total += 1
            if ev.fails:
                ill_exceed += 1
            continue
        worst[op] = max(worst.get(op, 0.0), ev.worst)
        if ev.fails:
            if any(k == "law" for k, _ in ev.fails):
                law_v.append((c, il, ml, ev))
            else:
                corr_v.append((c, il, ml, ev))
    known_hits = 0
    per_head = {}
    back = {}
    for (c, il, ml, ev) in law_v:
        med = results.get("median " + c.split(" ", 1)[1]) if c.startswith("avg ") else None
        one = results.get("avg ts=" + c.split("ts=", 1)[1].split(";")[0]) if c.startswith("avg ") else None
        median_ok = med is not None and not med[1].fails
        single_ok = one is not None and not one[1].fails
        # recorded defects: KNOWN-FINDING while the entry has status "known"; once it is "fixed" the same
        # input class failing again is a violation ("the repaired defect is back")
        kid = KNOWN_AVG if avg_known_match(c, ev, median_ok, single_ok) else KNOWN_HALF if halfturn_known_match(c, ev, parse_i(il)) \
            else KNOWN_MB if miniball_known_match(c, ev) else None
        if kid is not None:
            if any(k["id"] == kid for k in rep.known):
                rep.known_finding(kid, c[:200])
                known_hits += 1
            else:
                back[kid] = back.get(kid, 0) + 1
                if back[kid] <= 2:
                    rep.violation("the repaired defect %s is back: %s" % (kid, [w for k, w in ev.fails if k == "law"][0][:160]),
                                  {"case": c, "family": "xform", "impl": il, "model": ml, "failures": [w for _, w in ev.fails][:10],
                                   "tolerance": "TOL=%g relative to the magnitude of the computation" % TOL})
            continue
        head = [w for k, w in ev.fails if k == "law"][0].split(":")[0].split("[")[0]
        per_head[head] = per_head.get(head, 0) + 1
        if per_head[head] <= 2 and len(rep.violations) < 40:
            rep.violation("geometric law violated beyond tolerance on a well-conditioned input: " + head,
                          {"case": c, "family": "xform", "impl": il, "model": ml, "failures": [w for _, w in ev.fails][:10],
                           "tolerance": "TOL=%g relative to the magnitude of the computation" % TOL})
    if corr_v and not [1 for v in rep.violations if v[2]]:
        rep.violation("correspondence xform (exact-rational Coq model vs Object3d float code) no longer holds within tolerance; theorems of Properties_C20.v no longer speak about the code",
                      {"broken": "correspondence:xform", "family": "xform",
                       "cases": [dict(case=c, impl=il, model=ml, failures=[w for _, w in ev.fails][:5]) for (c, il, ml, ev) in corr_v[:20]]},
                      found_input=False)
    cov.update({
        "evaluations": len(cases),
        "distinct_nontrivial": len(nontriv),
        "rule": "seeded random cases per operation (see input_distribution): rotations = all 48 signed permutation matrices, Rodrigues matrices of random axis/angle rounded to binary32 (incl. angles within 1e-5..1e-2 of a half turn), general invertible matrices (small dyadic and random binary32 entries), near-singular / exactly singular / extreme-scale / huge-translation transforms (generated, evaluated, but only counted: ill_conditioned_*); point sets = single, duplicates, pairs, collinear, coplanar, cube corners (dyadic), box corners with full-mantissa coordinates in random order, clusters far from the origin, up to 120 random points. Every input number is a binary32 value written as its exact decimal expansion. A case is non-trivial when its rotation/matrix is not the identity (transform ops), its vector is non-zero (rotvec), or it has at least two distinct points (bounding spheres); distinct = distinct case lines.",
        "samples": [c[:400] for c in (cases[:2] + cases[len(cases) // 3:len(cases) // 3 + 2] + cases[-2:])],
        "input_distribution": ops,
        "traces_validated_against_impl": len(cases),
        "well_conditioned_cases": len(cases) - ill_total,
        "ill_conditioned_cases": ill_total,
        "ill_conditioned_exceeding_tolerance": ill_exceed,
        "law_failures_on_impl": len(law_v) - known_hits,
        "known_finding_hits": known_hits,
        "repaired_defects_back": back,
        "correspondence_mismatches": len(corr_v),
        "tolerance": "I vs exact M and every law: |diff| <= %g * max(1, magnitude of the largest intermediate of that computation) (pure matrix results: relative to the largest entry of the exact result); RotVecToMat orthonormality/determinant %g absolute; RotMatToVec round trip only for |v| <= pi - %g; medians of translation/scale and CalcMedianOfFloats: exact; spheres: every point within radius + %g*(radius+max|coord|), radius <= half bbox diagonal * (1+%g)" % (TOL, ORTHO_TOL, HALF_TURN_MARGIN, TOL, TOL),
        "worst_error_over_tolerance_by_op": {k: round(v, 4) for k, v in sorted(worst.items())},
        "well_conditioned_means": "finite; 1e-2 <= |rotation|_F <= 1e2 and |det|/|rotation|_F^3 >= 1e-2 (orthonormal = 0.19); scale in [1e-2, 1e2]; |translation|, |v| <= 1e5; avg/median: proper rotations (orthonormal, det +1 within 1e-5); Matrix4: |det|/|m|_F^4 >= 1e-3 or small integers",
        "unproved": [
            "mat_to_vec_inverse (RotMatToVec o RotVecToMat = id below a half turn): only its algebraic core is proved (C20_rotvec_trace, C20_rotvec_axis); asin/acos/sqrt are outside the model; tested on the implementation",
            "average_of_copies / median_of_copies for the ROTATION part: proved for the two-pass scheme of the repaired CalcAverageRotation (sum2 / n) and of CalcMedianRotation with RotMatToVec / RotVecToMat as PARAMETERS (C20_avg_rotation_of_copies, C20_median_rotation_of_copies: hypotheses = orthonormal base, exact rotation-vector round trip on the rebased matrix); that the real RotMatToVec / RotVecToMat meet these hypotheses (up to rounding) is tested on the implementation only; translation and scale parts are proved (C20_average_of_copies_ts, C20_median_of_copies)",
            "RotMatToVec branch selection (cosang thresholds, the repaired fall-through to the half-turn case when the skew part vanishes): only the algebra behind it is proved (C20_rotvec_skew_zero, C20_rotvec_half_turn_sq); tested on the implementation",
            "Miniball.hpp / BoundingSphere(vertices) / UpdateBounds: not modelled; C20_meb_le_bbox proves only the mathematical fact (over Q, squared distances) that an IDEAL minimum enclosing ball contains every point and is no larger than the bounding-box-diagonal ball; that the C++ returns such a ball is tested (containment and radius bound on every generated point set), not proved",
            "every 'within float tolerance' claim: no binary32 error analysis; the exact laws are proved, the float code is compared with the exact rational result on each case",
        ],
        "claim_is_partial": "theorems are about exact arithmetic over an arbitrary field; IEEE-754 rounding, libm, Miniball.hpp and Geometry.cpp UpdateBounds are only exercised on the implementation",
        "trusted_base": vlib.BASE_TRUSTED + [
            "modelled, not verified: binary32 arithmetic as exact field arithmetic (Qc for execution); equality test det == 0.0f as exact equality",
            "tools/props/c20.py: tolerance rules, conditioning classification, double-precision evaluation of the laws on the printed outputs (%.9g)",
            "plain (-O1) flavour of nifly_oracle for this property (no sanitizer)",
        ],
        "exhaustive": False,
    })
    return rep.finish(cov, [
        "theorems: any commutative field with decidable equality, det(rotation) <> 0 and scale <> 0 for the inverse laws, unit axis and c^2+s^2=1 for the Rodrigues matrix, n <> 0 in the field for averages",
        "implementation checks: well-conditioned inputs only are reported (see coverage.well_conditioned_means); others are counted",
    ])
