"""C07 — saved header tables describe the written file exactly.

Proof: coq/Properties/Properties_C07.v over the hand model coq/Container/ContainerModel.v of
NiString, NiHeader::Get/Put, the string table functions and Save's framing (header, payloads with
the byte counter, footer, back-patch). Tie: (a) synthetic cases (header tables of every version
branch, sized strings, string references, string-table updates) through the real classes and the
extracted model, every observable compared; (b) every file the implementation writes (round trips
of all samples under all option sets, random edit histories, API-created files of every game
version) is parsed by the extracted `get_hdr`/`walk` and by tools/walknif.py (the independent
reader), which must agree with each other and with NiHeader's own members, and `put_hdr` must
reproduce the header bytes nifly wrote. Search: the property itself (walk lands on EOF, sizes =
bytes per block, strings unique, max length, string indices in range) is evaluated on every written
file by the independent reader."""
import concurrent.futures as cf
import json
import os
import random
import shutil

import vlib
import walknif as wn

PID = "C07"
FAMILY = "container"
GAMES = ["OB", "FO3", "SK", "SSE", "FO4", "FO76", "SF"]
OPTS = ["raw", "default", "opt", "sort"]
NODE_TYPES = ["NiNode", "BSXFlags", "NiStringExtraData", "BSLightingShaderProperty", "NiAlphaProperty", "NiTriShape",
              "bhkCollisionObject", "BSTriShape", "NiSkinPartition", "BSShaderTextureSet"]


# ------------------------------------------------------------------------------------------------
# running the two oracles


def run_parallel(binp, cases, workers=None, timeout=600, env=None, batch=400):
    """run case lines through `binp container`, in parallel chunks, results in order"""
    if not cases:
        return []
    workers = workers or max(2, min(8, vlib.NPROC // 2))
    chunks = [cases[i:i + batch] for i in range(0, len(cases), batch)]
    with cf.ThreadPoolExecutor(max_workers=workers) as ex:
        res = list(ex.map(lambda ch: vlib.run_cases_robust(binp, [FAMILY], ch, timeout_per_batch=timeout, batch=batch, env=env), chunks))
    return [r for ch in res for r in ch]


def subst(case, samples, outdir):
    return case.replace("@S/", samples + "/").replace("@O/", outdir + "/")


def kv_of(s):
    return dict(t.split("=", 1) for t in s.split(" ") if "=" in t)


def split_impl(line):
    """'I=a | b | c' -> list of kv dicts (dump fields of the header are folded under 'hl'/'hs')"""
    parts = line[2:].split(" | ")
    out = []
    for p in parts:
        d = {}
        for key in (" hl=", " hs="):
            if key in p:
                p, dump = p.split(key, 1)
                d[key.strip(" =")] = dump
        if p.startswith("hl=") or p.startswith("hs="):
            d[p[:2]] = p[3:]
            p = ""
        d.update(kv_of(p))
        out.append(d)
    return out


# ------------------------------------------------------------------------------------------------
# the property on one written file


def check_written(path, obs, hu):
    """obs: kv of the save observation (src, held, written, psz, hs). Returns (errors, facts)."""
    errs = []
    try:
        b = open(path, "rb").read()
    except OSError:
        return ["output file missing"], {}
    if obs.get("src") != "0":
        return ["Save returned %s" % obs.get("src")], {}
    try:
        t, hlen = wn.parse_header(b)
    except Exception as e:  # noqa: BLE001
        return ["independent reader cannot parse the written header: %r" % e], {}
    facts = {"file": t["file"], "nblocks": t["nblocks"], "ns": t["ns"], "len": len(b)}
    has_sizes = t["file"] >= 0x14020005
    if has_sizes:
        w = wn.walk(b)
        if w is None:
            end = hlen + sum(t["sizes"])
            errs.append("walk from the header by the size table does not land on the 8-byte footer at EOF (header %d + sizes %d = %d, file %d, tail %s)"
                        % (hlen, sum(t["sizes"]), end, len(b), b[end:end + 12].hex()))
        psz = [int(x) for x in obs.get("psz", "").split(",") if x]
        if psz != t["sizes"]:
            k = next((i for i, (a, c) in enumerate(zip(psz, t["sizes"])) if a != c), min(len(psz), len(t["sizes"])))
            errs.append("size table entry differs from the number of bytes the block serialises to (entry %d: %s vs %s)" % (k, t["sizes"][k:k + 1], psz[k:k + 1]))
    else:
        if b[-8:] != b"\x01\x00\x00\x00\x00\x00\x00\x00":
            errs.append("no footer at the end of the file")
        psz = [int(x) for x in obs.get("psz", "").split(",") if x]
        if hlen + sum(psz) + 8 != len(b):
            errs.append("header + serialised blocks + footer is not the file (%d vs %d bytes)" % (hlen + sum(psz) + 8, len(b)))
    if len(t["tidx"]) != t["nblocks"] or any(i >= t["nt"] for i in t["tidx"]):
        errs.append("type index outside the type table")
    elif obs.get("bnames") is not None and hu == 0 and obs.get("hu2", "0") == "0":
        # every block's entry in the type table names the block's real type (not for files with unknown blocks,
        # whose NiUnknown objects carry no type name of their own)
        real = [bytes.fromhex(x) for x in obs["bnames"].split(",")] if obs["bnames"] else []
        if len(real) == t["nblocks"]:
            for i, nm in enumerate(real):
                if nm != b"NiUnknown" and t["types"][t["tidx"][i]] != nm:
                    errs.append("type table entry of block %d names %r, the block is a %r" % (i, t["types"][t["tidx"][i]][:40], nm[:40]))
                    break
    if t["file"] >= 0x14010001:
        if not hu and len(set(t["strings"])) != len(t["strings"]):
            errs.append("string table holds a string twice")
        mx = max([len(s) for s in t["strings"]] or [0])
        if t["maxlen"] != mx:
            errs.append("maxStringLen is not the length of the longest string (%d vs %d)" % (t["maxlen"], mx))
    if t["file"] >= 0x14010003:
        for key in ("held", "written"):
            cnt, npos, mxi = obs.get(key, "0:0:-1").split(":")
            if int(mxi) >= t["ns"]:
                errs.append("string index stored in a block is outside the string table (%s, %s, table has %d)" % (mxi, key, t["ns"]))
            facts[key] = int(cnt)
    # the header object the library holds = what it wrote (sizes apart: they are patched in the file only)
    hs = obs.get("hs")
    if hs:
        try:
            mem = wn.parse_dump(hs)
            keys = ["file", "user", "endian", "nblocks", "nt", "types", "tidx", "ns", "maxlen", "strings", "ng", "groups"]
            if wn.is_bethesda(t["file"], t["user"]):      # members a version does not transfer are not compared
                keys += ["stream", "creator", "e1", "e2"] + (["e3"] if t["stream"] == 130 else []) + (["unk"] if t["stream"] > 130 else [])
            for k in keys:
                if mem[k] != t[k]:
                    errs.append("header member in memory differs from the file (%s: %r vs %r)" % (k, str(mem[k])[:60], str(t[k])[:60]))
                    break
        except Exception as e:  # noqa: BLE001
            errs.append("unparsable header dump: %r" % e)
    facts["tables"] = t
    facts["hlen"] = hlen
    return errs, facts


KNOWN_WRAP = "C07-nistring1-wrap"


def known_or_violation(rep, kid, detail, replay):
    """a recorded defect: reported as KNOWN-FINDING while its entry has status "known"; once the
    entry is "fixed" the same input class coming back is a violation"""
    if any(k["id"] == kid for k in rep.known):
        rep.known_finding(kid, detail)
    else:
        rep.violation("the repaired defect %s is back: %s" % (kid, detail[:200]), replay)


def clip1(s):
    """what NiString::Write leaves of a 1-byte-sized, zero-terminated string"""
    return s[:254]


def one_byte_wrap(t_or_case_kv):
    """#10: a 1-byte-sized header string whose length is 255 mod 256"""
    return any(len(t_or_case_kv.get(k, b"")) % 256 == 255 for k in ("creator", "e1", "e2", "e3"))


# ------------------------------------------------------------------------------------------------
# case generators


def rand_bytes(rng, n, nul=False):
    return bytes(rng.randint(0 if nul else 1, 255) for _ in range(n))


def gen_edit_ops(rng, maxlen=6):
    ops = []
    for _ in range(rng.randint(1, maxlen)):
        k = rng.choice("DDARYYPTSSCX")
        if k == "D":
            ops.append("D%%%d" % rng.randint(1, 500))
        elif k == "A":
            ops.append("AT0:%s:" % ".".join("%%%d" % rng.randint(0, 50) for _ in range(rng.randint(0, 2))))
        elif k == "R":
            ops.append("R%%%d=T0::" % rng.randint(1, 500))
        elif k == "Y":
            ops.append("Y%%%d" % rng.randint(0, 500))
        elif k == "P":
            ops.append("P0")
        elif k == "T":
            ops.append("T%s,%d" % (rng.choice(NODE_TYPES), rng.randint(0, 1)))
        elif k == "S":
            ops.append("S%%%d=%s" % (rng.randint(0, 500), rand_bytes(rng, rng.choice([0, 1, 5, 12, 40]), False).replace(b" ", b"_").hex()))
        elif k == "C":
            ops.append("C" + (b"c" * rng.choice([0, 3, 100, 253, 254])).hex())
        else:
            ops.append("X" + (b"e" * rng.choice([0, 7, 254, 255, 300, 508, 509, 600, 762, 900])).hex())
    return ops


def craft_inputs(samples, files, outdir):
    """loadable inputs nobody ships: a creator field with size byte n and n characters, no terminator"""
    made = []
    for f in files:
        b = open(os.path.join(samples, f), "rb").read()
        try:
            t, h = wn.parse_header(b)
        except Exception:  # noqa: BLE001
            continue
        if not wn.is_bethesda(t["file"], t["user"]) or t["creator"] or t["file"] < 0x14020005:
            continue
        pos = b.index(b"\n") + 1 + 4 + 1 + 4 + 4 + 4
        if b[pos:pos + 2] != b"\x01\x00":
            continue
        for n in (254, 255):
            name = "crafted_creator%d.nif" % n
            with open(os.path.join(outdir, name), "wb") as o:
                o.write(b[:pos] + bytes([n]) + b"A" * n + b[pos + 2:])
            made.append(name)
        break
    return made


def wrap_expected(case, samples, outdir):
    """does the header hold a 1-byte-sized string of length 255 mod 256 when this case saves?"""
    ckv = kv_of(case)
    cre = [o[1:] for o in ckv.get("ops", "").split(";") if o.startswith("C")]
    if cre:
        return len(bytes.fromhex(cre[-1])) % 256 == 255
    if "in" in ckv:
        try:
            t, _ = wn.parse_header(open(subst(ckv["in"], samples, outdir), "rb").read())
            return one_byte_wrap(t)
        except Exception:  # noqa: BLE001
            return False
    return False


def gen_file_cases(tier, rng, files):
    cases = []
    for f in files:
        for o in (OPTS if tier != "quick" else ["raw", "default"]):
            cases.append("loadsave in=@S/%s out=@O/%d.nif opts=%s" % (f, len(cases), o))
    for f in files:
        for _ in range(2 if tier == "quick" else 120):
            cases.append("loadsave in=@S/%s out=@O/%d.nif opts=%s ops=%s" % (f, len(cases), rng.choice(["raw", "raw", "sort"]), ";".join(gen_edit_ops(rng))))
    for g in GAMES:
        for k in range(2 if tier == "quick" else 60):
            ops = gen_edit_ops(rng, 3) if k % 2 else []
            cases.append("create ver=%s shapes=%d seed=%d out=@O/%d.nif opts=%s%s" % (
                g, k % 4, rng.randint(1, 10 ** 6), len(cases), rng.choice(["raw", "sort"] if ops else OPTS), (" ops=" + ";".join(ops)) if ops else ""))
    # histories of the NifFile OBJECT: a model created in an object that held a loaded file before
    for g in GAMES:
        for k in range(2 if tier == "quick" else 12):
            cases.append("create ver=%s shapes=%d seed=%d out=@O/%d.nif opts=%s reuse=@S/%s" % (
                g, 1 + k % 3, rng.randint(1, 10 ** 6), len(cases), rng.choice(OPTS), rng.choice(files)))
    # 1-byte-sized creator string at and around the wrap (DESIGN.md 7 #10)
    for n in (254, 255, 256, 300, 511):
        cases.append("loadsave in=@S/%s out=@O/%d.nif opts=raw ops=C%s" % (files[0], len(cases), (b"A" * n).hex()))
    return cases


FILE_VERSIONS = [0x0A000100, 0x0A000102, 0x0A01006A, 0x0A020000, 0x14000004, 0x14000005, 0x14010003, 0x14020005,
                 0x14020007, 0x14020008, 0x1E000002, 0x1E010003, 0x04000002, 0x05000001, 0x05000006, 0x0A000108, 0x14000003]


def gen_tables(rng, wrap=False):
    f = rng.choice(FILE_VERSIONS)
    u = rng.choice([0, 3, 10, 11, 12, rng.randint(0, 2 ** 32 - 1)])
    beth = wn.is_bethesda(f, u)
    t = dict(file=f, user=u if f >= 0x0A000108 else 0, endian=rng.choice([0, 1, 1, 1, 200]) if f >= 0x14000003 else 1,
             stream=0, creator=b"", unk=0, e1=b"", e2=b"", e3=b"", esz=0, emb=b"")
    beth = wn.is_bethesda(f, t["user"])
    nb = rng.choice([0, 1, 2, 5, 17])
    t["nblocks"] = nb
    if beth:
        s = t["stream"] = rng.choice([11, 34, 83, 100, 130, 131, 139, 155, 172, rng.randint(0, 2 ** 32 - 1)])
        lens = [0, 1, 10, 200, 254] + ([255, 256, 300, 511] if wrap else [])
        t["creator"] = rand_bytes(rng, rng.choice(lens))
        t["e1"] = rand_bytes(rng, rng.choice(lens[:5]))
        t["e2"] = rand_bytes(rng, rng.choice(lens[:4]))
        if s == 130:
            t["e3"] = rand_bytes(rng, rng.choice(lens[:4]))
        if s > 130:
            t["unk"] = rng.randint(0, 2 ** 32 - 1)
    elif f >= 0x1E000002:
        t["emb"] = rand_bytes(rng, rng.choice([0, 1, 9]), True)
        t["esz"] = len(t["emb"])
    t.update(nt=0, types=[], tidx=[], sizes=[], ns=0, maxlen=0, strings=[], ng=0, groups=[])
    if f >= 0x05000001:
        t["types"] = [rand_bytes(rng, rng.choice([0, 1, 6, 30])) for _ in range(rng.choice([0, 1, 3, 7]))]
        t["nt"] = len(t["types"])
        t["tidx"] = [rng.randint(0, 65535) if rng.random() < 0.2 else rng.randint(0, max(0, t["nt"] - 1)) for _ in range(nb)]
    if f >= 0x14020005:
        t["sizes"] = [rng.choice([0, 1, 88, 65536, 2 ** 32 - 1]) for _ in range(nb)]
    if f >= 0x14010001:
        t["strings"] = [rand_bytes(rng, rng.choice([0, 1, 4, 20, 300])) for _ in range(rng.choice([0, 1, 2, 9]))]
        t["ns"] = len(t["strings"])
        t["maxlen"] = rng.choice([0, 5, 2 ** 32 - 1])
    if f >= 0x05000006:
        t["groups"] = [rng.randint(0, 2 ** 32 - 1) for _ in range(rng.choice([0, 0, 1, 3]))]
        t["ng"] = len(t["groups"])
    return t


def hput_case(t, tail):
    return "hput " + wn.dump(t) + " tail=" + tail.hex()


def gen_synth(tier, rng):
    cases = []
    n = 1 if tier == "quick" else 20
    for i in range(250 * n):
        cases.append(hput_case(gen_tables(rng, wrap=(i % 10 == 0)), rand_bytes(rng, rng.choice([0, 3, 8]), True)))
    for w in (1, 2, 4):
        for nul in (0, 1):
            lens = {1: [0, 1, 2, 100, 253, 254, 255, 256, 257, 300, 510, 511, 512], 2: [0, 1, 300, 65534, 65535, 65536, 65537, 70000],
                    4: [0, 1, 5, 1000]}[w]
            for ln in lens:
                cases.append("nistr w=%d null=%d s=%s tail=%s" % (w, nul, rand_bytes(rng, ln).hex(), rand_bytes(rng, 2, True).hex()))
            for _ in range(6 * n):
                cases.append("nistr w=%d null=%d s=%s tail=%s" % (w, nul, rand_bytes(rng, rng.randint(0, 40), rng.random() < 0.3).hex(), rand_bytes(rng, rng.randint(0, 3), True).hex()))
    for f in (0x14000005, 0x14010002, 0x14010003, 0x14020007):
        for ln in (0, 1, 30, 2047, 2048, 2049, 3000):
            cases.append("sref file=%d idx=%s s=%s tail=%s" % (f, rng.choice(["x", "0", "7"]), rand_bytes(rng, ln).hex(), rand_bytes(rng, 3, True).hex()))
        for _ in range(5 * n):
            cases.append("sref file=%d idx=%s s=%s tail=%s" % (f, rng.choice(["x", "0", "4294967294"]), rand_bytes(rng, rng.randint(0, 20), rng.random() < 0.3).hex(), rand_bytes(rng, 3, True).hex()))
    pool = [b"", b"a", b"b", b"ab", b"Scene Root", b"abc", b"x" * 70]
    for _ in range(300 * n):
        tab = [rng.choice(pool) for _ in range(rng.choice([0, 0, 1, 2, 4]))]
        if rng.random() < 0.7:
            tab = list(dict.fromkeys(tab))
        blocks = []
        for _ in range(rng.randint(0, 4)):
            refs = []
            for _ in range(rng.randint(0, 3)):
                idx = rng.choice(["x", "x", "0", "1", "3", "9", "4294967294"])
                refs.append("%s:%s" % (idx, rng.choice(pool).hex()))
            blocks.append(".".join(refs) if refs else "-")
        op = rng.choice(["uhs", "uhs", "uhs", "fill"])
        cases.append("%s file=%d hu=%d tab=%s maxlen=%d blocks=%s" % (
            op, rng.choice([0x14000005, 0x14010001, 0x14020007]), rng.randint(0, 1), wn.hexlist(tab), rng.choice([0, 3, 99]), ";".join(blocks)))
    return cases


# ------------------------------------------------------------------------------------------------
# specs on synthetic cases, evaluated on the implementation's output


def parse_blocks(s):
    out = []
    for b in s.split(";") if s else []:
        out.append([] if b == "-" else [(None if r.split(":")[0] == "x" else int(r.split(":")[0]), bytes.fromhex(r.split(":")[1])) for r in b.split(".")])
    return out


def parse_tab(s):
    return [bytes.fromhex(x.rstrip("-")) for x in s.split(",")] if s else []


def spec_uhs(case, iline):
    c = kv_of(case)
    o = kv_of(iline[2:])
    errs = []
    file, hu = int(c["file"]), c["hu"] == "1"
    tab0, tab1 = parse_tab(c.get("tab", "")), parse_tab(o.get("tab", ""))
    refs0, refs1 = parse_blocks(c.get("blocks", "")), parse_blocks(o.get("blocks", ""))
    if int(o["n"]) != len(tab1):
        errs.append("numStrings differs from the table size")
    if hu and tab1[:len(tab0)] != tab0:
        errs.append("append-only update changed an existing string")
    if file >= 0x14010001:
        if not hu and len(set(tab1)) != len(tab1):
            errs.append("rebuilt string table holds a string twice")
        if int(o["maxlen"]) != max([len(s) for s in tab1] or [0]):
            errs.append("maxStringLen is not the maximum")
        for b0, b1 in zip(refs0, refs1):
            for (i0, s0), (i1, s1) in zip(b0, b1):
                if s1 != s0:
                    errs.append("reference string changed")
                if i1 is not None and (i1 >= len(tab1) or tab1[i1] != s1):
                    errs.append("stored index does not denote the reference's string (%d)" % i1)
                if i1 is None and (s1 != b"" or i0 is not None):
                    errs.append("non-empty reference left without index")
    elif not hu and (tab1 or int(o["maxlen"])):
        errs.append("string table not cleared")
    return errs


def tables_wf(t):
    """the hypotheses of C07_hdr_get_put (wf_tables) on generated tables"""
    def s4(s):
        return b"\0" not in s
    def s1(s):
        return b"\0" not in s       # any length: Write cuts them to 254 characters
    return (t["file"] > wn.V3_1 and all(s4(s) for s in t["types"] + t["strings"])
            and all(s1(t[k]) for k in ("creator", "e1", "e2", "e3")))


# ------------------------------------------------------------------------------------------------


def run(tier, seed, replay=None):
    rep = vlib.Reporter(PID, tier, seed)
    hygiene = vlib.coq_hygiene()
    pr = vlib.coq_property(PID)
    cov = vlib.proof_coverage(pr, hygiene)
    if not pr["ok"] or hygiene:
        rep.violation("proof obligations of Properties_C07.v not discharged: " + ",".join(pr["failed"] or hygiene),
                      {"broken": "theorems " + ",".join(pr["failed"]), "log": pr["log"][-3000:], "hygiene": hygiene}, found_input=False)
    impl_bin = vlib.build_oracle("asan")
    model_bin = vlib.build_model_oracle()
    rng = random.Random(seed)
    samples = os.environ.get("VERIF_SAMPLES") or os.path.join(vlib.REPO, "tests", "input")
    files = sorted(f for f in os.listdir(samples) if f.endswith(".nif"))
    outdir = os.path.join(vlib.WORK, "scratch", "%s-%d" % (PID, os.getpid()))
    os.makedirs(outdir, exist_ok=True)
    try:
        return _run(rep, cov, tier, rng, replay, impl_bin, model_bin, samples, files, outdir)
    finally:
        shutil.rmtree(outdir, ignore_errors=True)


def _run(rep, cov, tier, rng, replay, impl_bin, model_bin, samples, files, outdir):
    if replay:
        craft_inputs(samples, files, outdir)
        r = json.load(open(replay))
        allc = [r["case"]] if "case" in r else [c["case"] if isinstance(c, dict) else c for c in r.get("cases", [])]
        fcases = [c for c in allc if c.split(" ")[0] in ("loadsave", "create")]
        scases = [c for c in allc if c.split(" ")[0] in ("hput", "nistr", "sref", "uhs", "fill")]
        ucases = [c for c in allc if c.startswith("uhsfile")]
    else:
        corpus = []
        try:
            corpus = [l.strip() for l in open(os.path.join(vlib.ROOT, "corpus", PID, "cases.txt")) if l.strip() and not l.startswith("#")]
        except OSError:
            pass
        fcases = [c for c in corpus if c.split(" ")[0] in ("loadsave", "create")] + gen_file_cases(tier, rng, files)
        fcases += ["loadsave in=@O/%s out=@O/x.nif opts=%s" % (n, o) for n in craft_inputs(samples, files, outdir) for o in ("raw", "default")]
        scases = [c for c in corpus if c.split(" ")[0] in ("hput", "nistr", "sref", "uhs", "fill")] + gen_synth(tier, rng)
        ucases = ["uhsfile in=@S/%s hu=%d" % (f, hu) for f in files for hu in (0, 1)]
    # unique output names
    fcases = [c if "out=@O/" not in c else c.replace(c[c.index("out=@O/"):].split(" ")[0], "out=@O/f%d.nif" % i) for i, c in enumerate(fcases)]
    nontriv, mism, evals = set(), [], 0
    dist = {}

    # ---- (1) files written by the implementation -------------------------------------------------
    impl = run_parallel(impl_bin, [subst(c, samples, outdir) for c in fcases], batch=60)
    mcases, mindex = [], []
    written = []     # (case, path, obs, hu, hl)
    for c, (_, il, crash) in zip(fcases, impl):
        evals += 1
        dist[c.split(" ")[0]] = dist.get(c.split(" ")[0], 0) + 1
        if crash is not None or il is None:
            rep.violation("implementation crashed (sanitizer/abort/timeout) while loading/editing/saving", {"case": c, "family": FAMILY, "crash": crash})
            continue
        parts = split_impl(il)
        if parts[0].get("lrc") != "0" or len(parts) < 2:
            rep.violation("Load failed on a sample file: " + il[:80], {"case": c, "family": FAMILY, "impl": il[:400]})
            continue
        outp = subst(kv_of(c)["out"], samples, outdir)
        written.append((c, outp, parts[1], parts[0].get("hu") == "1", parts[0].get("hl")))
    # the input samples themselves: Get correspondence (hl) through the model
    insamples = sorted({kv_of(c)["in"] for c in fcases if c.startswith("loadsave")})
    hl_of = {}
    for c, _, _, _, hl in written:
        if c.startswith("loadsave") and hl:
            hl_of.setdefault(kv_of(c)["in"], hl)
    mlines = ["file path=" + p for _, p, _, _, _ in written] + ["file path=" + subst(p, samples, outdir) for p in insamples]
    mres = run_parallel(model_bin, mlines, batch=100)
    # the whole of Save's framing: save_core (header nifly holds, payload slices) = the file nifly wrote
    sc_lines = ["savecore path=%s psz=%s hu=%d %s" % (p, obs.get("psz", ""), 1 if hu else 0, obs.get("hs", "")) for _, p, obs, hu, _ in written]
    sc_res = run_parallel(model_bin, sc_lines, batch=100)
    for (c, p, obs, hu, _), (_, ml, mcrash) in zip(written, sc_res):
        if (ml or "").strip() != "M=savecore=1":
            mism.append({"case": c, "what": "extracted save_core (header members + payload slices) does not reproduce the file nifly wrote", "model": (ml or str(mcrash))[:200]})
    for i, (c, outp, obs, hu, hl) in enumerate(written):
        errs, facts = check_written(outp, obs, hu)
        ckv = kv_of(c)
        wrap = wrap_expected(c, samples, outdir)
        if errs and wrap:
            known_or_violation(rep, KNOWN_WRAP, "written file contradicts its own header tables: " + errs[0].split(" (")[0],
                               {"case": c, "family": FAMILY, "errors": errs[:5]})
            errs = []
        elif errs:
            rep.violation("written file contradicts its own header tables: " + errs[0].split(" (")[0], {"case": c, "family": FAMILY, "errors": errs[:5]})
        if facts.get("nblocks", 0) > 1 or ckv.get("ops"):
            nontriv.add(c)
        # model / independent reader / implementation agree on the written file
        _, ml, mcrash = mres[i]
        if mcrash is not None or ml is None:
            rep.violation("model oracle failed on a written file", {"case": c, "model_crash": mcrash}, found_input=False)
            continue
        mk = ml[2:].split(" hdr=", 1)
        mkv = kv_of(mk[0])
        try:
            b = open(outp, "rb").read()
            pw = wn.walk(b)
            try:
                pt, phl = wn.parse_header(b)
                pdump = wn.dump(pt)
            except Exception:  # noqa: BLE001
                pt, phl, pdump = None, 0, "FAULT"
        except OSError:
            continue
        mdump = mk[1] if len(mk) > 1 else "FAULT"
        if mdump != pdump or int(mkv.get("hlen", 0)) != phl:
            mism.append({"case": c, "what": "extracted get_hdr vs tools/walknif.py on the written file", "model": mdump[:300], "walker": pdump[:300]})
        if (mkv.get("walk") == "1") != (pw is not None):
            mism.append({"case": c, "what": "extracted walk vs tools/walknif.py disagree on walkability", "model": mkv.get("walk"), "walker": pw is not None})
        if pw is not None and mkv.get("wsizes", "") != ",".join(map(str, pt["sizes"])):
            mism.append({"case": c, "what": "payload slices of extracted walkb differ from the walker's"})
        if mkv.get("reput") != "1":
            mism.append({"case": c, "what": "put_hdr (get_hdr file) does not reproduce the header bytes nifly wrote", "model": ml[:200]})
    for j, p in enumerate(insamples):
        _, ml, mcrash = mres[len(written) + j]
        hl = hl_of.get(p)
        if ml is None or hl is None:
            continue
        mdump = ml[2:].split(" hdr=", 1)[1] if " hdr=" in ml else "FAULT"
        if mdump != hl:
            mism.append({"case": "file " + p, "what": "NiHeader::Get members vs extracted get_hdr on a sample", "impl": hl[:300], "model": mdump[:300]})

    # ---- (2) UpdateHeaderStrings on the loaded samples: implementation vs model, and the spec -----
    uimpl = run_parallel(impl_bin, [subst(c, samples, outdir) for c in ucases], batch=60)
    um, uidx = [], []
    for c, (_, il, crash) in zip(ucases, uimpl):
        evals += 1
        if crash is not None or il is None or " | " not in il:
            rep.violation("implementation failed in UpdateHeaderStrings on a sample", {"case": c, "family": FAMILY, "crash": crash, "impl": (il or "")[:200]})
            continue
        before, after = il[2:].split(" | ")
        bk = kv_of(before)
        mc = "uhs file=%s hu=%s n=%s maxlen=%s tab=%s blocks=%s" % (bk["file"], kv_of(c)["hu"], bk["n"], bk["maxlen"], bk.get("tab", ""), bk.get("blocks", ""))
        um.append(mc)
        uidx.append((c, after))
    umod = run_parallel(model_bin, um, batch=100)
    for (c, after), mc, (_, ml, mcrash) in zip(uidx, um, umod):
        if ml is None or ml[2:] != after:
            mism.append({"case": c, "what": "UpdateHeaderStrings on a loaded sample: implementation vs extracted update_header_strings", "impl": after[:300], "model": (ml or "")[:300]})
        e = spec_uhs(mc, "I=" + after)
        if e:
            rep.violation("UpdateHeaderStrings on a loaded sample breaks the property: " + e[0].split(" (")[0], {"case": c, "family": FAMILY, "errors": e[:5]})
        nontriv.add(c)

    # ---- (3) synthetic cases: implementation vs model, spec on the implementation -----------------
    simpl = run_parallel(impl_bin, scases, batch=400)
    smod = run_parallel(model_bin, scases, batch=400)
    for c, (_, il, crash), (_, ml, mcrash) in zip(scases, simpl, smod):
        evals += 1
        op = c.split(" ")[0]
        dist[op] = dist.get(op, 0) + 1
        if crash is not None or il is None:
            rep.violation("implementation crashed (sanitizer/abort/timeout) on a container primitive", {"case": c, "family": FAMILY, "crash": crash})
            continue
        if mcrash is not None or ml is None:
            rep.violation("model oracle failed", {"case": c, "model_crash": mcrash}, found_input=False)
            continue
        I, M = il[2:], ml[2:]
        if op == "hput":
            ckv = kv_of(c)
            t = wn.parse_dump(c[5:].split(" tail=")[0])
            ip, mp = I.split(" | "), M.split(" | ")
            if ip[0] != mp[0]:
                mism.append({"case": c, "what": "NiHeader::Put vs put_hdr (bytes / blockSizePos / members left in memory)", "impl": ip[0][:300], "model": mp[0][:300]})
            ikv = kv_of(ip[1]) if len(ip) > 1 else {}
            iget = ip[1].split(" get=", 1)[1] if len(ip) > 1 and " get=" in ip[1] else None
            if len(mp) > 1 and mp[1] != "FAULT":
                mget = mp[1].split(" get=", 1)[1]
                mrest = kv_of(mp[1]).get("rest")
                if ikv.get("good") == "1" and (iget != mget or ikv.get("rest") != mrest):
                    mism.append({"case": c, "what": "NiHeader::Get vs get_hdr on written header bytes", "impl": (iget or "")[:300], "model": mget[:300]})
            # the property: Get reads back what Put wrote
            if tables_wf(t):
                # Get reads back the header Put leaves in memory: the 1-byte-sized strings cut to 254 characters
                tc = dict(t)
                if wn.is_bethesda(t["file"], t["user"]):
                    tc.update(creator=clip1(t["creator"]), e1=clip1(t["e1"]), e2=clip1(t["e2"]))
                    if t["stream"] == 130:
                        tc["e3"] = clip1(t["e3"])
                want = wn.dump(tc)
                tail = ckv.get("tail", "")
                imem = ip[0].split(" mem=", 1)[1] if " mem=" in ip[0] else None
                if iget != want or ikv.get("rest", "-").rstrip("-") != tail or imem != want:
                    rpl = {"case": c, "family": FAMILY, "want": want[:300], "got": (iget or "")[:300], "mem": (imem or "")[:300]}
                    if any(len(t[k]) > 254 for k in ("creator", "e1", "e2", "e3")):
                        known_or_violation(rep, KNOWN_WRAP, "NiHeader::Get does not read back the header NiHeader::Put wrote / left in memory", rpl)
                    else:
                        rep.violation("NiHeader::Get does not read back the tables NiHeader::Put wrote", rpl)
                nontriv.add(c)
        else:
            if I != M:
                mism.append({"case": c, "what": "%s: implementation vs model" % op, "impl": I[:300], "model": M[:300]})
            if op == "uhs":
                e = spec_uhs(c, il)
                if e:
                    rep.violation("UpdateHeaderStrings breaks the property: " + e[0].split(" (")[0], {"case": c, "family": FAMILY, "errors": e[:5]})
                nontriv.add(c)
            elif op == "nistr":
                ckv, ikv = kv_of(c), kv_of(I)
                s = bytes.fromhex(ckv.get("s", ""))
                w = int(ckv["w"])
                nul = 1 if ckv["null"] == "1" else 0
                maxlen = 256 ** w - 1 - nul
                if b"\0" not in s and not (w == 4 and min(len(s), maxlen) + nul == 2 ** 32 - 1):
                    # what is read back is what Write left in memory: the longest prefix the size can express
                    want = s[:maxlen].hex()
                    if ikv["read"].rstrip("-") != want or ikv["rest"].rstrip("-") != ckv.get("tail", "") or ikv["mem"].rstrip("-") != want:
                        rpl = {"case": c, "family": FAMILY, "impl": I[:300]}
                        if len(s) > maxlen:
                            known_or_violation(rep, KNOWN_WRAP, "NiString::Read does not read back what NiString::Write wrote / left in memory", rpl)
                        else:
                            rep.violation("NiString::Read does not read back what NiString::Write wrote", rpl)
                    nontriv.add(c)
    # ---- a generated, populated instance of EVERY registered block type inside a minimal file: the size table
    # written by Save must tile the file (independent reader), for the versions that have a size table
    gen_checked = 0
    if not replay or any(c.startswith("fileblk") for c in allc):
        import blocks_engine as be
        info = vlib.gen_ir(("Cur",))["Cur"]
        plain = vlib.build_oracle("plain")
        gdir = os.path.join(outdir, "gen")
        os.makedirs(gdir, exist_ok=True)
        if replay:
            gcases = [c.split(" out=")[0] for c in allc if c.startswith("fileblk")]
        else:
            gvers = ["FO3", "SSE", "FO76", "SF173"] if tier == "quick" else ["FO3", "SK", "SSE", "FO4", "FO4_132", "FO4_139", "FO76", "SF172", "SF173"]
            gseed = rng.randrange(1, 1000)
            gcases = ["fileblk type=%s ver=%s seed=%d" % (b, be.VERS[gv], gseed + k) for b in info["blocks"] for gv in gvers for k in range(1 if tier == "quick" else 3)]
        gfull = ["%s out=%s" % (c, os.path.join(gdir, "g%d.nif" % i)) for i, c in enumerate(gcases)]
        gres = be.par_run(plain, "blocks", gfull, timeout=180)
        for i, (c, (_, l, crash)) in enumerate(zip(gcases, gres)):
            pth = os.path.join(gdir, "g%d.nif" % i)
            if crash is not None or l is None or not os.path.exists(pth):
                continue            # crashes of the generator are C01/C16's business
            b = open(pth, "rb").read()
            os.remove(pth)
            try:
                t, hlen = wn.parse_header(b)
            except Exception as e:  # noqa: BLE001
                rep.violation("independent reader cannot parse the header of a file holding a generated block", {"case": c, "family": "blocks", "error": repr(e)})
                continue
            gen_checked += 1
            evals += 1
            nontriv.add(c)
            if wn.walk(b) is None:
                end = hlen + sum(t["sizes"])
                rep.violation("written file contradicts its own header tables: the size table does not tile the file of a generated block (header %d + sizes %d = %d, file %d; block sizes %s)"
                              % (hlen, sum(t["sizes"]), end, len(b), t["sizes"]), {"case": c, "family": "blocks", "sizes": t["sizes"], "file_len": len(b)})
        dist["generated_block_files_walked"] = gen_checked
    for m in mism[:6]:
        rep.violation("correspondence container (Coq container model vs nifly / independent reader) no longer holds: " + m["what"],
                      dict(m, broken="correspondence:container", family=FAMILY), found_input=False)
    cov.update({
        "evaluations": evals,
        "distinct_nontrivial": len(nontriv),
        "rule": "files: every sample x save option sets, random edit histories (delete/add/replace/prune/delete-by-type/rename/creator/export info) on every sample, API-created files of the 7 game versions with 0-3 shapes; synthetic: header tables over 17 file versions (all Get/Put branches), sized strings at the width boundaries, string references at the 2048 boundary, string-table updates in both modes; non-trivial = written file with more than one block or an edit history, well-formed header tables, in-range strings, every string-table update; distinct = distinct case lines",
        "samples": [fcases[0], fcases[len(fcases) // 2], fcases[-1]][:3] + [scases[0][:300], scases[-1][:300]] if fcases and scases else (fcases + scases)[:3],
        "input_distribution": dist,
        "files_written_and_walked": len(written),
        "save_core_vs_nifly_bytes": len(sc_lines),
        "traces_validated_against_impl": evals,
        "correspondence_mismatches": len(mism),
        "unproved": [],
        "refuted": ["C07_stringref_old_long_refuted"],
        "trusted_base": vlib.BASE_TRUSTED + [
            "tools/walknif.py (independent reader; compared with the extracted Coq walk/get_hdr on every written file)",
            "modelled, not verified: std::iostream (as byte lists; reads past the end are Fault), std::string/std::vector, tellp/seekp on a fresh stream",
            "block payload codecs are a parameter of the model (any function); per-block byte counts are observed by serialising each block separately"],
        "exhaustive": False,
    })
    return rep.finish(cov, [
        "wf_tables: counters equal their vector sizes (C06 invariant), values inside their C widths, header strings without NUL bytes and shorter than 2^32-1, the four 1-byte-sized Bethesda strings NUL-free within their first 254 characters (any length: Put cuts them, the theorems speak about the header Put leaves in memory), file version above 3.1 and not NDS",
        "wf_model: version >= 20.2.0.5 (size table present), numBlocks = number of blocks, every payload shorter than 4 GiB",
        "string table: numStrings = table size and below 2^32-1 entries"])
