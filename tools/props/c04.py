"""C04 — default save only permutes blocks and prunes unreferenced ones.

Proof: coq/Properties/Properties_C04.v over the hand model coq/Sorter/SorterModel.v of the block
sorter (PrettySortBlocks, SetShapeOrder and their helper routines, DeleteUnreferencedBlocks) on top
of the header model of C06. Tie: the real sorter runs on sample files (plain and edited through the
API) and on graphs synthesised from real block classes; the extracted model predicts the graph
afterwards from the graph before; every field of every block is compared. Search: the property
itself (tools/sorterspec.py) is evaluated on the implementation's dumps. The thorough tier also
enumerates all small graphs inside the model and checks the theorems' conclusions by computation
(a test of the model, not a proof)."""
import json
import os
import random
import re

import vlib
import sorterspec as ss

PID = "C04"
CLASSES = {
    # class: fields (name, kind) kind: 1 single, n list, c = pairs
    "ND": "e* c p* k ch* ef* nm", "ON": "e* c p* k ch* nm", "TS": "e* c p* k d s sh a nm", "BT": "e* c k s sh a nm",
    "SK": "sd sp tg", "BK": "sd tg", "LS": "e* c t", "TX": "", "AP": "", "XD": "", "TD": "", "SD": "", "SP": "",
    "CM": "sq* op nx", "SQ": "cb* tk an al* mg", "TK": "", "AN": "nt*", "NT": "", "IP": "", "TC": "nx ip",
    "CO": "b tg", "RB": "hs cs*", "BX": "", "LH": "sub*", "HC": "en*", "CH": "ce* ea eb",
}
# typed targets; collision fields also draw from other collision classes so that reference cycles are frequent
PLAUSIBLE = {"e": ["XD", "TK"], "c": ["CM", "TC"], "p": ["AP", "LS"], "k": ["CO"], "ch": ["ND", "ON", "TS", "BT", "ND", "TS"], "ef": ["XD"],
             "d": ["TD"], "s": ["SK", "BK"], "sh": ["LS"], "a": ["AP"], "sd": ["SD"], "sp": ["SP"], "tg": ["ND"], "t": ["TX"],
             "sq": ["SQ"], "op": ["XD"], "nx": ["TC", "CM"], "cb": ["IP", "TC"], "tk": ["TK"], "an": ["AN"], "al": ["AN"], "mg": ["CM"],
             "nt": ["NT"], "ip": ["IP"], "b": ["RB", "RB", "LH"], "hs": ["BX", "LH", "RB"], "cs": ["HC", "CH", "RB"], "sub": ["BX", "LH", "LH", "RB"], "en": ["RB", "RB", "HC", "CH"],
             "ce": ["RB", "CH"], "ea": ["RB", "HC"], "eb": ["RB", "CH"]}
WEIGHTS = ["ND"] * 6 + ["ON"] + ["TS"] * 3 + ["BT"] * 3 + ["SK", "BK", "SD", "SP", "TD"] + ["LS"] * 2 + ["TX", "AP"] + ["XD"] * 3 + \
          ["CM", "SQ", "SQ", "TK", "AN", "NT", "IP", "TC"] + ["CO"] * 3 + ["RB"] * 3 + ["BX"] * 2 + ["LH", "HC", "HC", "CH"]


def gen_synth(rng, n=None):
    n = n or rng.randint(2, 14)
    cls = [rng.choice(WEIGHTS) for _ in range(n)]
    if rng.random() < 0.7:
        cls[0] = "ND"
    by = {}
    for i, c in enumerate(cls):
        by.setdefault(c, []).append(i)

    def pick(f, i):
        r = rng.random()
        if r < 0.12:
            return "x"
        if r < 0.72:
            cand = [j for c in PLAUSIBLE.get(f, []) for j in by.get(c, []) if (j != i or rng.random() < 0.1)]
            if cand:
                return str(rng.choice(cand))
        return str(rng.randrange(n))

    out = []
    names = 0
    for i, c in enumerate(cls):
        parts = [c]
        for f in CLASSES[c].split():
            if f == "nm":
                if c in ("TS", "BT"):
                    parts.append("nm=%d" % rng.randint(0, 3))
                continue
            if f.endswith("*"):
                f = f[:-1]
                k = rng.choice([0, 0, 1, 1, 2, 3]) * (2 if f == "cb" else 1)
                if f == "ch":
                    k = rng.choice([0, 1, 2, 2, 3, 4])
                if k:
                    parts.append("%s=%s" % (f, ".".join(pick(f, i) for _ in range(k))))
            elif rng.random() < 0.75:
                parts.append("%s=%s" % (f, pick(f, i)))
        out.append(":".join(parts))
    return "+".join(out), cls


def rand_edits(rng, maxn=4):
    ed = []
    for _ in range(rng.randint(1, maxn)):
        k = rng.choice(["P", "P", "W", "LN", "LX", "LB", "AN", "DC", "EC", "MV", "RC", "XD", "CS", "RN"])
        if k == "P":
            ed.append("P%d" % rng.randint(1, 10 ** 6))
        elif k == "W":
            ed.append("W%d" % rng.randint(1, 60))
        elif k in ("LN", "LX", "LB"):
            ed.append(k)
        elif k in ("AN", "EC", "XD"):
            ed.append("%s%d" % (k, rng.randint(0, 20)))
        elif k in ("DC", "MV", "RC"):
            ed.append("%s%d.%d" % (k, rng.randint(0, 20), rng.randint(0, 200)))
        else:
            ed.append("%s%d=h%s" % (k, rng.randint(0, 5), rng.choice(["41", "4142", "63"])))
    return ";".join(ed)


def kv_of(case):
    return dict(t.split("=", 1) for t in case.split(" ")[1:] if "=" in t)


def with_act(case, act):
    toks = [t for t in case.split(" ") if not t.startswith("act=") and not t.startswith("raw=")]
    return " ".join(toks + ["act=" + act])


def strip_empty(d):
    """a dump with the empty entries of every list field removed (what writing the blocks does)"""
    head, blocks = d.split("blocks=", 1)
    out = []
    for b in blocks.split(" ")[0].split("+"):
        f = b.split(",")
        for i, k in enumerate(ss.FIELDS):
            if k in ss.LISTS and i < len(f):
                f[i] = ".".join(x for x in f[i].split(".") if x and x != "x")
        out.append(",".join(f))
    return head + "blocks=" + "+".join(out)


def resolved_order(g0, names):
    """ids SetShapeOrder resolves the names to (first shape with that name), and the root's shape children"""
    ids = []
    for nm in names:
        for i, b in enumerate(g0["blocks"]):
            if b["kind"] & ss.K_SHAPE and b["name"] == nm:
                ids.append(i)
                break
    root = ss.first_node(g0)
    rshapes = []
    if root is not None and root == 0:
        rshapes = [int(r) for r in g0["blocks"][0]["children"] if r != "x" and int(r) < len(g0["blocks"]) and g0["blocks"][int(r)]["kind"] & ss.K_SHAPE]
    return ids, rshapes, root


def order_applies(g0, names):
    nshapes = sum(1 for b in g0["blocks"] if b["kind"] & ss.K_SHAPE)
    return (not g0["unk"]) and len(names) > 0 and len(names) == nshapes


def crash_summary(crash):
    err = (crash or {}).get("stderr", "")
    for l in err.split("\n"):
        if "ERROR: AddressSanitizer" in l or l.startswith("SUMMARY:") or "runtime error" in l:
            return l.strip()[:200]
    return "abort rc=%s" % (crash or {}).get("rc")


def lattice_errors(g):
    """assumptions of the model about the C++ class lattice, checked on every dump"""
    e = []
    for i, b in enumerate(g["blocks"]):
        k = b["kind"]
        if (k & ss.K_NODE) and (k & (ss.K_SHAPE | ss.K_COLL)):
            e.append("block %d (%s) is a node and also a shape / collision object" % (i, b["t"]))
        if (k & ss.K_ORDERED) and not (k & ss.K_NODE):
            e.append("block %d (%s) is an ordered node but not a node" % (i, b["t"]))
        for r in b["children"]:
            if r != "x" and int(r) >= len(g["blocks"]):
                e.append("block %d lists an out-of-range child %s (outside the quantifier)" % (i, r))
    return e


def dangling_only_nodes(g):
    """blocks that are nodes (not ordered nodes) with a non-empty child array made of out-of-range indices only"""
    n = len(g["blocks"])
    return [i for i, b in enumerate(g["blocks"])
            if (b["kind"] & ss.K_NODE) and not (b["kind"] & ss.K_ORDERED) and b["children"]
            and all(r != "x" and int(r) >= n for r in b["children"])]


def dangling_error(msg, g):
    """is this error message only about a dangling child index (or the idempotence failure it causes)?"""
    n = len(g["blocks"])
    if msg == "sorting an already sorted model changed it" or "lists an out-of-range child" in msg:
        return True
    m = re.match(r"node uid (\d+) .*children were", msg)
    if m:
        return any(b["uid"] == int(m.group(1)) and any(r != "x" and int(r) >= n for r in b["children"]) for b in g["blocks"])
    return False


class Outcome:
    def __init__(self):
        self.mismatch = None
        self.errors = []
        self.known = None
        self.nontrivial = False
        self.skipped = None


def evaluate(case, d0, names, mline, iline, crash):
    """d0: first dump (string) the model ran on; names: resolved names ('h..' list); mline: model
    output; iline/crash: implementation run of the operation (None when not run)."""
    o = Outcome()
    kv = kv_of(case)
    act = kv["act"]
    M = mline[2:].split(" | ")
    g0 = ss.parse_dump(d0)
    if M[0] == "OUTOFFUEL":
        o.skipped = "diverges"
        return o
    if crash is not None or not iline:
        o.errors = ["implementation crashed: " + crash_summary(crash)]
        o.nontrivial = True
        if act == "order":
            # the repaired defect: the counter seeded with the root's block id -> a store outside SetBlockOrder's vectors
            ids, rshapes, root = resolved_order(g0, names)
            if order_applies(g0, names) and root is not None and root != 0:
                o.known = ("C04-shapeorder-root-nonzero", "root is block %d of %d; %s" % (root, g0["n"], crash_summary(crash)))
        return o
    P = ss.split_line(iline)
    I = P["dumps"]
    if len(I) < 2 or "KIDSLAYOUT" in iline:
        o.errors = ["malformed implementation output: " + iline[:200]]
        return o
    if I[0] != d0:
        o.errors = ["the two runs of the same case produced different first dumps"]
        return o
    # ---- correspondence ----
    if M[0] in ("FAULT", "?") or M[0].startswith("ERR"):
        o.mismatch = {"case": case, "what": "model result " + M[0][:100], "impl": I[1][:300]}
    elif act == "save":
        if strip_empty(I[1]) != strip_empty(M[0]):
            o.mismatch = {"case": case, "impl": I[1], "model": M[0]}
    elif I[1:] != M:
        k = next((j for j, (a, b) in enumerate(zip(I[1:], M)) if a != b), 0)
        o.mismatch = {"case": case, "step": k + 1, "impl": I[1 + k] if 1 + k < len(I) else None, "model": M[k] if k < len(M) else None}
    # ---- the property on the implementation's dumps ----
    g1 = ss.parse_dump(I[1])
    o.nontrivial = I[1] != I[0]
    prune = act in ("opt", "save")
    e = lattice_errors(g0) + ss.graph_errors(g0, g1, prune, strip_empty=(act == "save"))
    if act in ("sort", "sort2"):
        e += ss.root_first_errors(g0, g1)
    if act == "save":
        pn = ss.parentless_nodes(g1)
        if pn and 0 not in pn:
            e.append("after the default save block 0 is not a parentless node although block %d is one" % pn[0])
        sv = P["saved"] or {}
        if sv.get("rc") != "0" or sv.get("reload") != "0":
            e.append("saving / reloading the sorted model failed: %s" % sv)
        elif sv.get("types", "") != ",".join(b["t"] for b in g1["blocks"]):
            e.append("the saved file does not list the blocks in the order of the sorted model")
    if act == "sort2" and len(I) > 2 and I[2] != I[1]:
        e.append("sorting an already sorted model changed it")
    re_, _ = ss.raw_errors(P["raw"])
    e += re_
    if e and act == "order":
        # duplicate / unresolved names: the resolved ids have the size of the root's shape children
        # without being a permutation of them
        ids, rshapes, root = resolved_order(g0, names)
        u0 = g0["blocks"][0]["uid"] if g0["blocks"] else None
        only_root = all(("uid %d " % u0) in x and ("children" in x or "lists child" in x) for x in e)
        if root == 0 and order_applies(g0, names) and len(ids) == len(rshapes) and sorted(ids) != sorted(rshapes) and only_root:
            # the repaired defect: an order that is not a permutation of the root's shape children was applied
            o.known = ("C04-shapeorder-bad-names", "ids %s vs root shape children %s: %s" % (ids, rshapes, e[0]))
    # known finding (outside refs_in_range, C04_sort_idem_refuted_dangling_ref): OB / FO3 ordering and a node all of
    # whose child indices are out of range. The first sort empties that node's array, so for the second sort it is
    # no longer a "node with children" and moves behind the shapes. Only when model and implementation agree and
    # every error of the case is about the dangling indices.
    dn = dangling_only_nodes(g0)
    if "sorting an already sorted model changed it" in e and g0["ob"] and dn and o.mismatch is None and all(dangling_error(x, g0) for x in e):
        o.known = ("C04-sort-not-idempotent-dangling-child-ob",
                   "OB/FO3 ordering, node block(s) %s list only out-of-range children: the second sort moved blocks" % dn)
    o.errors = e
    return o


def run(tier, seed, replay=None):
    rep = vlib.Reporter(PID, tier, seed)
    hygiene = vlib.coq_hygiene()
    pr = vlib.coq_property(PID)
    cov = vlib.proof_coverage(pr, hygiene)
    if not pr["ok"] or hygiene:
        rep.violation("proof obligations of Properties_C04.v not discharged: " + ",".join(pr["failed"] or hygiene),
                      {"broken": "theorems " + ",".join(pr["failed"]), "log": pr["log"][-3000:], "hygiene": hygiene}, found_input=False)
    impl_bin = vlib.build_oracle("asan")
    model_bin = vlib.build_model_oracle()
    rng = random.Random(seed)
    samples_dir = os.environ.get("VERIF_SAMPLES") or os.path.join(vlib.REPO, "tests", "input")
    env = {"VERIF_SAMPLES": samples_dir}
    quick = tier == "quick"
    files = sorted(f for f in os.listdir(samples_dir) if f.endswith(".nif"))
    direct, twopass = [], []
    if replay:
        r = json.load(open(replay))
        cs = [r["case"]] if "case" in r else [c["case"] for c in r.get("cases", []) if "case" in c]
        for c in cs:
            (twopass if (c.startswith("synth") or " act=order" in c) else direct).append(c)
    else:
        try:
            for l in open(vlib.ROOT + "/corpus/C04/cases.txt"):
                l = l.strip()
                if l and not l.startswith("#"):
                    (twopass if (l.startswith("synth") or " act=order" in l) else direct).append(l)
        except OSError:
            pass
        for f in files:
            for a in ("sort2", "opt", "save"):
                direct.append("file name=%s act=%s raw=1" % (f, a))
            for _ in range(5 if quick else 90):
                direct.append("file name=%s act=%s raw=%d edits=%s" % (f, rng.choice(["sort2", "sort2", "sort", "opt", "save"]), 1 if quick or rng.random() < 0.5 else 0, rand_edits(rng)))
            # a loose block in front of a root that is not block 0 (pruning deletes a block below the root)
            for a in ("opt", "save"):
                direct.append("file name=%s act=%s raw=%d edits=%s" % (f, a, 1 if quick else rng.randint(0, 1), rng.choice(["LF", "LF;LN", "LX;LF", "LF;LF"])))
            # explicit shape orders: permutations, duplicates, missing names, wrong counts, nested shapes, non-zero root
            for _ in range(2 if quick else 16):
                k = rng.randint(1, 4)
                names = [rng.choice(["@%d" % rng.randint(0, 5), "@%d" % rng.randint(0, 5), "h7a7a"]) for _ in range(k)]
                ed = rng.choice(["", "", rand_edits(rng, 2), "AN0;MV%d.%d" % (rng.randint(0, 3), rng.randint(0, 9)), "RN0=h41;RN1=h41", "CS0=h41", "LN"])
                twopass.append("file name=%s act=order raw=1 names=%s edits=%s" % (f, ",".join(names), ed))
            twopass.append("file name=%s act=order raw=1 names=%s edits=" % (f, ",".join("@%d" % i for i in reversed(range(6)))))
        # every sample with as many names as shapes (the call is effective): the generator cannot know the count, try 1..6
        for f in files[:: (3 if quick else 1)]:
            for k in range(1, 7):
                perm = list(range(k))
                rng.shuffle(perm)
                twopass.append("file name=%s act=order raw=0 names=%s edits=" % (f, ",".join("@%d" % i for i in perm)))
        for _ in range(3 if quick else 12):
            f = rng.choice(files)
            k = rng.randint(1, 3)
            twopass.append("file name=%s act=order raw=0 names=%s edits=W%d" % (f, ",".join("@%d" % i for i in range(k)), rng.randint(1, 40)))
        for _ in range(600 if quick else 30000):
            g, cls = gen_synth(rng)
            act = rng.choice(["sort2", "sort2", "sort", "order"])
            names = ""
            if act == "order":
                ns = sum(1 for c in cls if c in ("TS", "BT"))
                names = ",".join(rng.choice(["@%d" % rng.randint(0, 4), "h7a"]) for _ in range(ns if rng.random() < 0.8 else rng.randint(0, 3)))
            twopass.append("synth ver=%s act=%s names=%s g=%s" % (rng.choice(["sse", "sse", "ob", "fo3", "fo4"]), act, names, g))
    # ---- stage A: direct cases; stage B: first dumps of the two-pass cases ----
    resA = vlib.run_cases_robust(impl_bin, ["sorter"], direct, timeout_per_batch=900, batch=60, env=env)
    resB = vlib.run_cases_robust(impl_bin, ["sorter"], [with_act(c, "dump") for c in twopass], timeout_per_batch=900, batch=400, env=env)
    items = []   # (case, d0, names, iline, crash, need_run)
    for c, il, crash in resA:
        if crash is not None or il is None or not il.startswith("I=names="):
            rep.violation("implementation crashed (sanitizer/abort/timeout) while sorting / pruning / saving a model",
                          {"case": c, "family": "sorter", "crash": crash, "impl": il})
            continue
        P = ss.split_line(il)
        items.append([c, P["dumps"][0], P["names"], il, None, False])
    for c, (_, il, crash) in zip(twopass, resB):
        if crash is not None or il is None or not il.startswith("I=names="):
            rep.violation("implementation crashed while building / dumping a model (before any sorting)",
                          {"case": c, "family": "sorter", "crash": crash, "impl": il}, found_input=False)
            continue
        P = ss.split_line(il)
        items.append([c, P["dumps"][0], P["names"], None, None, True])
    # ---- stage C: the model on every first dump ----
    mcases = ["m act=%s names=%s dump=%s" % (kv_of(it[0])["act"], it[2], it[1].replace(" ", "~")) for it in items]
    mres = vlib.run_cases_robust(model_bin, ["sorter"], mcases, timeout_per_batch=900, batch=400)
    # ---- stage D: run the two-pass cases the model terminates on; expected faults one by one ----
    batch_idx, fault_idx = [], []
    for k, (it, (_, ml, mcrash)) in enumerate(zip(items, mres)):
        if not it[5] or ml is None or mcrash is not None:
            continue
        if ml.startswith("M=OUTOFFUEL"):
            continue
        (fault_idx if ml.startswith("M=FAULT") else batch_idx).append(k)
    fault_idx = fault_idx[: (4 if quick else 25)] if not replay else fault_idx
    resD = vlib.run_cases_robust(impl_bin, ["sorter"], [items[k][0] for k in batch_idx], timeout_per_batch=900, batch=200, env=env)
    for k, (_, il, crash) in zip(batch_idx, resD):
        items[k][3], items[k][4] = il, crash
    for k in fault_idx:
        (_, il, crash), = vlib.run_cases_robust(impl_bin, ["sorter"], [items[k][0]], timeout_per_batch=120, batch=1, env=env)
        items[k][3], items[k][4] = il, crash if crash is not None else None
        items[k][5] = "ran"
    ran_fault = set(fault_idx)
    # ---- evaluate ----
    mism, fails, nontriv, acts, skipped, evaluated = [], [], set(), {}, {}, 0
    for k, (it, (_, ml, mcrash)) in enumerate(zip(items, mres)):
        c, d0, names, il, crash, tp = it
        if mcrash is not None or ml is None:
            rep.violation("model oracle failed", {"case": c, "model_crash": mcrash}, found_input=False)
            continue
        if tp is True and k not in ran_fault and il is None and crash is None and not ml.startswith("M=OUTOFFUEL"):
            skipped["expected-fault-not-run"] = skipped.get("expected-fault-not-run", 0) + 1
            continue
        o = evaluate(c, d0, [n for n in names.split(",") if n], ml, il, crash)
        if o.skipped:
            skipped[o.skipped] = skipped.get(o.skipped, 0) + 1
            continue
        evaluated += 1
        a = kv_of(c)["act"] + ("/" + c.split(" ")[0])
        acts[a] = acts.get(a, 0) + 1
        if o.known:
            # recorded as "fixed": the same input class failing again is a violation (it would be a
            # KNOWN-FINDING only while the entry had status "known")
            if any(kf["id"] == o.known[0] for kf in rep.known):
                rep.known_finding(o.known[0], c + " :: " + o.known[1])
            else:
                rep.violation("the repaired defect %s is back: %s" % (o.known[0], o.known[1][:200]), {"case": c, "family": "sorter", "detail": o.known[1], "before": d0})
            if o.mismatch:
                mism.append(o.mismatch)
            if o.nontrivial:
                nontriv.add(c)
            continue
        if o.mismatch:
            mism.append(o.mismatch)
        if o.errors:
            fails.append({"case": c, "family": "sorter", "errors": o.errors[:5], "before": d0})
        if o.nontrivial:
            nontriv.add(c)
    for f in fails[:10]:
        rep.violation("sorting / pruning broke the property: " + "; ".join(f["errors"][:2])[:300], f)
    if mism and not fails:
        rep.violation("correspondence sorter (Coq sorter model vs NifFile sorter) no longer holds; theorems of Properties_C04.v no longer speak about the code",
                      {"broken": "correspondence:sorter", "family": "sorter", "cases": mism[:10]}, found_input=False)
    # ---- all small graphs inside the model (a test of the theorems' conclusions by computation) ----
    enum = {}
    if not replay:
        ecases = ["enum n=%d ob=%d" % (n, ob) for n in ((2,) if quick else (2, 3)) for ob in (0, 1)]
        rc, lines, err = vlib.run_lines(model_bin, ["sorter"], ecases, timeout=1500)
        for ec, l in zip(ecases, lines):
            kv = dict(t.split("=", 1) for t in l[2:].split(" ") if "=" in t)
            enum[ec] = {k: kv.get(k) for k in ("checked", "diverge", "bad")}
            if kv.get("bad", "1") != "0":
                rep.violation("a conclusion of Properties_C04.v fails by computation on a small graph of the model: " + kv.get("first", "?")[:200],
                              {"enum": ec, "first": kv.get("first")}, found_input=False)
        if len(lines) != len(ecases):
            rep.violation("model enumeration did not finish", {"stderr": err[-500:]}, found_input=False)
    cov.update({
        "evaluations": evaluated + sum(int(v["checked"] or 0) for v in enum.values()),
        "distinct_nontrivial": len(nontriv),
        "rule": "implementation cases: 26 samples plain (sort twice / Optimize / default Save+reload) and edited through the API (random block permutation, root swapped to a non-zero index, loose nodes/extra data/bhk shapes, added nodes, cloned and renamed shapes, duplicated and empty child refs, re-parented shapes, foreign blocks listed as children), explicit shape orders (permutations, duplicates, unresolved names, wrong counts, nested shapes, non-zero root), graphs synthesised from 26 real block classes with random (typed and untyped) wiring in 4 game versions; non-trivial = the operation changed the dump; distinct = distinct case lines; model-only: every graph with <= %d blocks over 7 block shapes (a test)" % (2 if quick else 3),
        "samples": (direct[:2] + direct[len(direct) // 2:len(direct) // 2 + 2] + twopass[:2] + twopass[-2:]),
        "input_distribution": {"by_act": acts, "not_run": skipped, "model_enumeration": enum},
        "traces_validated_against_impl": evaluated,
        "correspondence_mismatches": len(mism),
        "spec_failures_on_impl": len(fails),
        "known_findings_hit": {k: len(v) for k, v in rep.known_hits.items()},
        "unproved": ["idempotence beyond C04_sort_idem: the clause 'sorting an already sorted model changes nothing' is proved for PrettySortBlocks on every graph (C04_sort_idem / C04_sort_idem_checked: pretty_sort fuel m = Ok m' -> pretty_sort fuel m' = Ok m') under fewer than 2^32-1 blocks, child references empty or in range (refs_in_range) and no object that is a NiNode and also a NiShape / NiCollisionObject / NiTimeController (node_excl); outside these hypotheses it is refuted in the model (C04_sort_idem_refuted_dangling_ref: OB/FO3 node whose only child index is out of range; C04_sort_idem_refuted_node_controller: an impossible class combination). Not proved, tested on every sort2 / order / save case only: idempotence of SetShapeOrder (non-empty rootShapeOrder) and of Optimize followed by the sort (default_save)",
                     "termination: every theorem is conditional on the run returning Ok (fuel = call depth); since SortCollision marks its parent before descending, reference cycles no longer recurse forever and no generated graph runs out of fuel, but termination itself is not proved"],
        "trusted_base": vlib.BASE_TRUSTED + ["modelled, not verified: the C++ class lattice as one independent bit per dynamic_cast (hypothesis node_shape_excl says no object is both NiNode and NiShape; checked on every dump), std::set<uint32_t> as a duplicate-free list, std::vector / NiBlockRefArray as lists",
                                             "tested, not proved: every structured field the sorter reads is one of the slots GetChildRefs / GetPtrs enumerate (so SetBlockOrder / DeleteBlock rewrite it): compared field by field on every case",
                                             "field values: written bytes of each block before/after with reference and string-index positions blanked (a second instance of the model; blocks of nifly's Put that rewrite empty array entries are compared after that rewrite)"],
        "exhaustive": False,
    })
    return rep.finish(cov, ["references are empty or in range (refs_in_range), no object is both a node and a shape (node_shape_excl), fewer than 2^32-1 blocks, the traversal terminates (result Ok; cyclic collision graphs included in the generated cases)",
                            "sort_idem (C04_sort_idem): additionally no object is both a NiNode and a NiCollisionObject or NiTimeController (node_excl; the dumped class bits of every case satisfy it); proof = equivariance of every routine under block renumbering (C04_traversal_equivariant) + the run on the rebuilt graph repeats the first run and rebuilds nothing (C04_rerun_same_order) + the loops over parentless nodes / leftover blocks assign the identity on the reordered graph (C04_second_run_identity)",
                            "SetShapeOrder: no further hypothesis (any root position, any name list) after the two repairs C04-shapeorder-root-nonzero / C04-shapeorder-bad-names; std::is_permutation is modelled by its specification (true iff a rearrangement)",
                            "Optimize's bounding-sphere update and FinalizeData run before the first dump (outside the property)"])
