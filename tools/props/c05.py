"""C05 — every serialised block or string reference is enumerated by its owner.

Proof: coq/Properties/Properties_C05.v — a static collection of the reference fields a generated Sync
program can pass through the stream, proved to cover everything the interpreter logs (for all programs,
versions, objects, inputs); the per-type obligation compares it, for every supported version, with the
names reported by the class's enumerators (both GENERATED from /repo on every run).
Search / validation on the implementation: the reference hooks record the NiRef / NiStringRef objects
actually passing through Sync of generated instances and compare them with the enumerators' results;
block deletion and reordering are applied through the API and stale indices looked for."""
import json
import os
import random
import re

import blocks_engine as be
import vlib

PID = "C05"


def proved_names(pr, info):
    m = re.search(r"=\s*\[(.*?)\]\s*:\s*list N", pr["log"], re.S)
    ids = [int(x) for x in m.group(1).replace("\n", " ").split(";") if x.strip()] if m else []
    byid = {i: b for b, i in zip(info["blocks"], info["ids"])}
    return sorted(byid[i] for i in ids if i in byid)


def run(tier, seed, replay=None):
    rep = vlib.Reporter(PID, tier, seed)
    hygiene = vlib.coq_hygiene()
    info = vlib.gen_ir(("Cur",))["Cur"]
    pr = vlib.coq_property(PID)
    cov = vlib.proof_coverage(pr, hygiene)
    proved = proved_names(pr, info) if pr["ok"] else []
    base = json.load(open(os.path.join(vlib.ROOT, "baseline", "proved_obligations.json"))).get(PID, [])
    lost = sorted(set(base) - set(proved))
    # an enumerator body the translator does not understand (e.g. a reference reported only under a condition): the
    # "enumerated" set of the theorem would not describe it, so the type's obligation does not count as discharged
    unread = info.get("enum_unparsed", {}) or {}
    lost = sorted(set(lost) | set(unread))
    plain = vlib.build_oracle("plain")
    model = vlib.build_model_oracle()
    vers = be.QUICK_VERS if tier == "quick" else list(be.VERS)
    seeds = [seed, seed + 1] if tier == "quick" else [seed + k for k in range(8)]
    if replay:
        r = json.load(open(replay))
        cases = [(r["case"], r["case"].split()[1][5:], "", 0)] if r.get("case", "").startswith("blk") else []
        scases = [r["case"]] if r.get("case", "").startswith("stale") else []
    else:
        # the types that dropped out of the proved set are explored more densely
        cases = be.block_cases(info["blocks"], vers, seeds) + be.block_cases(lost, list(be.VERS), [seed + k for k in range(20)]) \
            + be.block_cases(lost, list(be.VERS), [seed + 100 + k for k in range(20)], maxc=12)
        scases = [c[0].replace("blk ", "stale ", 1) for c in be.block_cases(info["blocks"], vers, seeds[:1] if tier == "quick" else seeds)]
    res = be.par_run(plain, "blocks", [c[0] for c in cases], timeout=120)
    fails, stats = [], {"instances": 0, "with_refs": 0, "with_string_refs": 0, "stale_runs": 0, "stale_with_refs": 0, "model_log_compared": 0}
    items = []
    for (c, n, vn, s), (_, l, crash) in zip(cases, res):
        if crash is not None or l is None or "refs_ok=" not in l:
            continue                      # generator crashes are reported by C01/C16
        kv = be.kv_of(l)
        stats["instances"] += 1
        stats["with_refs"] += kv.get("nref") not in ("0", None)
        stats["with_string_refs"] += kv.get("nsref") not in ("0", None)
        for flag, what in (("refs_ok", "a block reference written by Put is not reported by GetChildRefs/GetPtrs"),
                           ("srefs_ok", "a string-table reference written by Put is not reported by GetStringRefs"),
                           ("rrefs_ok", "a reference read by Get is not reported by the enumerators of the object read"),
                           ("idx_ok", "GetChildIndices disagrees with GetChildRefs")):
            if kv.get(flag) != "1":
                fails.append({"case": c, "type": n, "ver": vn, "what": what, "impl": l[:1500]})
        if vn and int(kv["len"]) <= be.MODEL_MAX_LEN and n not in info.get("opaque", {}):
            items.append((n, vn, kv))
    # the model's log must have as many entries as references passed through the real Sync
    mres = be.par_run(model, "syncir", be.model_cases(info, [(n, vn, kv["b1"]) for (n, vn, kv) in items]), timeout=120)
    mism = []
    for (n, vn, kv), (c, l, crash) in zip(items, mres):
        if l is None or not l.startswith("M=consumed"):
            continue
        mk = be.kv_of(l)
        indexed = int(be.VERS[vn].split(",")[0], 16) >= 0x14010003
        want = int(kv["nref"]) + (int(kv["nsref"]) if indexed else 0)
        stats["model_log_compared"] += 1
        if int(mk.get("nlog", "-1")) != want:
            mism.append({"type": n, "ver": vn, "model_nlog": mk.get("nlog"), "impl_refs": kv["nref"], "impl_string_refs": kv["nsref"]})
    # stale indices after DeleteBlock / SetBlockOrder through the API
    sres = be.par_run(plain, "blocks", scases, timeout=120)
    for c, (_, l, crash) in zip(scases, sres):
        if crash is not None or l is None or "del_ok=" not in l:
            continue
        kv = be.kv_of(l)
        stats["stale_runs"] += 1
        stats["stale_with_refs"] += kv.get("nref") != "0"
        if kv.get("del_ok") != "1" or kv.get("ord_ok") != "1" or kv.get("last_ok", "1") != "1":
            fails.append({"case": c, "what": "a stale block index is left in a serialised field after DeleteBlock/SetBlockOrder", "impl": l[:1500]})
    for f in fails[:10]:
        rep.violation("reference not enumerated: " + f["what"], dict(f, family="blocks"))
    if (not pr["ok"] or lost or hygiene) and not fails:
        rep.violation("enumeration obligation no longer discharged for: %s%s" % (",".join(lost[:10]) or ",".join(pr["failed"]) or ",".join(hygiene),
                                                                                (" (enumerator not understood: %s)" % json.dumps(unread)[:200]) if unread else ""),
                      {"broken": "obligation refs_enumerated (coq/Properties/Properties_C05.v, C05_proved_ids) for " + ",".join(lost),
                       "log": pr["log"][-1500:] if not pr["ok"] else ""}, found_input=False)
    if mism and not fails:
        rep.violation("correspondence: the generated model logs a different number of references than pass through the real Sync",
                      {"broken": "correspondence:syncir reference log", "cases": mism[:10]}, found_input=False)
    cov["obligations"] += len(base)
    cov["discharged"] += len(set(base) & set(proved))
    cov.update({
        "per_type_obligations": {"baseline": len(base), "discharged_now": len(set(base) & set(proved)), "lost": lost,
                                 "newly_discharged_not_in_baseline": sorted(set(proved) - set(base))},
        "unproved": ["block types outside the baseline: " + ",".join(sorted(set(info["blocks"]) - set(proved))),
                     "enumerator bodies the translator could not read: " + json.dumps(info.get("enum_unparsed", {}))],
        "evaluations": stats["instances"] + stats["stale_runs"],
        "distinct_nontrivial": stats["with_refs"] + stats["stale_with_refs"],
        "rule": "a populated instance of every registered block type x versions %s x seeds %s is synthesised by a generative read (references take values in {empty, 0..3}, counts small, optional sections by the seed); hooks record every NiRef/NiStringRef object passing through Put and Get and the four enumerators must cover them; then the block sits behind four placeholder nodes, DeleteBlock(1) and a rotation through SetBlockOrder are applied and every serialised reference must have followed. Non-trivial = the instance serialises at least one reference" % (vers, seeds),
        "samples": [c[0] for c in cases[:3]] + scases[:2],
        "input_distribution": stats,
        "traces_validated_against_impl": stats["model_log_compared"],
        "trusted_base": vlib.BASE_TRUSTED + ["translator tools/nif2ir.py + clang AST, for Sync bodies and for the enumerator bodies (validated on every run: the implementation's hooks observe the real NiRef objects, and the model's log length is compared with the number of references seen by the hooks)"],
        "exhaustive": False,
    })
    return rep.finish(cov, ["string references are string-table indices only from file version 20.1.0.3 on; below that they are inline strings and nothing can go stale"])
