"""C06 — block-graph edits keep every reference on its target and the header consistent.

Proof: coq/Properties/Properties_C06.v over the hand model coq/Graph/GraphModel.v of NiHeader's
block-table operations. Tie: edit histories run through the real NiHeader (synthetic blocks with
arbitrary ref/ptr slots, and real sample files with save+reload) and through the extracted model;
dumps are compared after every operation. Search: the property itself (tools/graphspec.py) is
evaluated on the implementation's dumps."""
import itertools
import json
import os
import random

import vlib
import graphspec as gs

PID = "C06"

INIT_GRAPHS = [
    "",                                             # empty model
    "T0:1.2:+T1::0+T1:x:",                         # root with two children, parent pointer, empty ref
    "T0:1:+T1:2:+T2:0:",                           # reference cycle
    "T0:0:0",                                       # self reference
    "T3::+T0:0.0:+T3::1",                           # root not first, shared child, loose-ish block
    "T0:1:+T1::+T2::+T2:x.x:",                      # unreferenced blocks of a shared type
    "T0:3.2.1:+T1::0+T2::0+T1:1:2",                 # fan-out with pointers back
]
ADD_SHAPES = ["T0::", "T1:%0:", "T5:%1.x:%0", "T2:%2:%1"]


def resolve_id(a, g):
    n = len(g["blocks"])
    if a == "x":
        return None
    if a.startswith("%"):
        return (int(a[1:]) % n) if n else None
    return int(a)


def ops_for(n, types, full):
    ops = []
    for i in range(n):
        ops.append("D%d" % i)
    ops.append("Dx")
    for s in (ADD_SHAPES if full else ADD_SHAPES[:2]):
        ops.append("A" + s)
    for i in range(n):
        for s in (ADD_SHAPES[:2] if full else ADD_SHAPES[1:2]):
            ops.append("R%d=%s" % (i, s))
    if n <= 3:
        for p in itertools.permutations(range(n)):
            if n > 0:
                ops.append("O" + ".".join(map(str, p)))
    else:
        ops += ["Og1", "Og2", "Og3"]
    ops.append("O" + ".".join(map(str, range(n + 1))))     # wrong size: guarded no-op
    for t in sorted(types) + ["V9"]:
        ops.append("T%s,0" % t)
        ops.append("T%s,1" % t)
    for r in range(n):
        ops.append("P%d" % r)
    ops.append("Px")
    return ops


def last_state(line):
    d = line[2:].split(" | ")[-1]
    return None if d in ("FAULT", "OUTOFFUEL") else gs.parse_dump(d)


def exhaustive(model_bin, depth, hs_values, full):
    """all operation sequences up to [depth] over the initial graphs, enumerated with the model as
    the step function (so every generated id is in range)"""
    frontier = [("seq hs=%d init=%s ops=" % (hs, g), []) for g in INIT_GRAPHS for hs in hs_values]
    final = []
    for d in range(depth):
        cases = [c + ";".join(ops) for c, ops in frontier]
        rc, lines, err = vlib.run_lines(model_bin, ["graph"], cases, timeout=900)
        nxt = []
        for (c, ops), l in zip(frontier, lines):
            st = last_state(l)
            if st is None:
                continue
            types = {b["t"] for b in st["blocks"]}
            for o in ops_for(len(st["blocks"]), types, full):
                nxt.append((c, ops + [o]))
        frontier = nxt
        if d == depth - 1:
            final = [c + ";".join(ops) for c, ops in frontier]
    return final


def random_histories(rng, count, maxlen):
    out = []
    for _ in range(count):
        g = rng.choice(INIT_GRAPHS)
        hs = rng.choice([0, 1])
        ops = []
        for _ in range(rng.randint(1, maxlen)):
            k = rng.choice("DDARROOTPPA")
            if k == "D":
                ops.append("D%%%d" % rng.randint(0, 50))
            elif k == "A":
                t = rng.randint(0, 5)
                nc, npp = rng.randint(0, 3), rng.randint(0, 2)
                ops.append("AT%d:%s:%s" % (t, ".".join(rng.choice(["x", "%%%d" % rng.randint(0, 50)]) for _ in range(nc)),
                                           ".".join("%%%d" % rng.randint(0, 50) for _ in range(npp))))
            elif k == "R":
                ops.append("R%%%d=T%d:%s:" % (rng.randint(0, 50), rng.randint(0, 5), ".".join("%%%d" % rng.randint(0, 50) for _ in range(rng.randint(0, 2)))))
            elif k == "O":
                ops.append("Og%d" % rng.randint(1, 10 ** 6))
            elif k == "T":
                ops.append("T%d,%d" % (rng.randint(0, 5), rng.randint(0, 1)))
            else:
                ops.append("P%%%d" % rng.randint(0, 50))
        out.append("seq hs=%d init=%s ops=%s" % (hs, g, ";".join(ops)))
    return out


def check_seq(rep, case, iline, mline, real=False):
    """returns (mismatch, specfail, nontrivial)"""
    I = iline[2:].split(" | ")
    M = mline[2:].split(" | ")
    kv = dict(t.split("=", 1) for t in case.split(" ")[1:] if "=" in t)
    ops = kv.get("ops", "").split(";") if kv.get("ops") else []
    hs = kv.get("hs", "1") != "0"
    mismatch = None
    states_i = I[:len(ops) + 1]
    if states_i != M[:len(ops) + 1]:
        k = next((j for j, (a, b) in enumerate(zip(states_i, M)) if a != b), min(len(states_i), len(M)))
        mismatch = {"case": case, "step": k, "op": ops[k - 1] if 0 < k <= len(ops) else None,
                    "impl": I[k] if k < len(I) else None, "model": M[k] if k < len(M) else None}
    specfail = None
    changed = False
    try:
        prev = gs.parse_dump(I[0])
        e0 = gs.inv_errors(prev, hs)
        if e0 and not real:
            specfail = {"case": case, "step": 0, "errors": e0}
        for j, o in enumerate(ops):
            if j + 1 >= len(I):
                break
            cur = gs.parse_dump(I[j + 1])
            if I[j + 1] != I[j]:
                changed = True
            errs = gs.step_errors(prev, o, cur, hs, resolve_id)
            if errs and specfail is None:
                specfail = {"case": case, "step": j + 1, "op": o, "errors": errs[:5], "before": I[j], "after": I[j + 1]}
            prev = cur
        if real and len(I) > len(ops) + 2:
            # save + reload: same types in the same order, same references once empty ones are dropped
            saved = gs.parse_dump(I[len(ops) + 1].split(" ", 2)[2])
            rel = I[len(ops) + 2].split(" ", 2)
            if rel[1] != "rc=0":
                specfail = specfail or {"case": case, "errors": ["reload of the saved edited model failed: " + rel[1]]}
            else:
                re = gs.parse_dump(rel[2])
                a = [(b["t"], [r for r in b["c"] if r != "x"], [r for r in b["p"] if r != "x"]) for b in saved["blocks"]]
                b = [(b["t"], [r for r in b["c"] if r != "x"], [r for r in b["p"] if r != "x"]) for b in re["blocks"]]
                if [x[0] for x in a] != [x[0] for x in b] or [sorted(x[1]) + ["|"] + sorted(x[2]) for x in a] != [sorted(x[1]) + ["|"] + sorted(x[2]) for x in b]:
                    specfail = specfail or {"case": case, "errors": ["reloaded graph differs from the saved model"], "saved": I[len(ops) + 1], "reloaded": I[len(ops) + 2]}
    except Exception as ex:  # malformed dump = the oracle itself is broken
        specfail = specfail or {"case": case, "errors": ["unparsable dump: %r" % ex]}
    return mismatch, specfail, changed


def run(tier, seed, replay=None):
    rep = vlib.Reporter(PID, tier, seed)
    hygiene = vlib.coq_hygiene()
    pr = vlib.coq_property(PID)
    cov = vlib.proof_coverage(pr, hygiene)
    if not pr["ok"] or hygiene:
        rep.violation("proof obligations of Properties_C06.v not discharged: " + ",".join(pr["failed"] or hygiene),
                      {"broken": "theorems " + ",".join(pr["failed"]), "log": pr["log"][-3000:], "hygiene": hygiene}, found_input=False)
    impl_bin = vlib.build_oracle("asan")
    model_bin = vlib.build_model_oracle()
    rng = random.Random(seed)
    samples_dir = os.path.join(vlib.REPO, "tests", "input")
    env = {"VERIF_SAMPLES": samples_dir}
    if replay:
        r = json.load(open(replay))
        cases = [r["case"]] if "case" in r else [c["case"] for c in r.get("cases", [])]
        filecases = [c for c in cases if c.startswith("fileseq")]
        cases = [c for c in cases if not c.startswith("fileseq")]
    else:
        corpus = []
        try:
            corpus = [l.strip() for l in open(vlib.ROOT + "/corpus/C06/cases.txt") if l.strip() and not l.startswith("#")]
        except OSError:
            pass
        depth = 2 if tier == "quick" else 3
        cases = [c for c in corpus if c.startswith("seq")] + exhaustive(model_bin, depth, [1] if tier == "quick" else [0, 1], tier != "quick") \
            + random_histories(rng, 400 if tier == "quick" else 6000, 40)
        # the same kind of histories with every deletion made through DeleteBlock(const NiRef&) on a reference that lives
        # inside a surviving block (what NifFile::DeleteShape does); the model's operation is the same
        cases += [c + " viaref=1" for c in random_histories(rng, 300 if tier == "quick" else 3000, 40)]
        files = sorted(f for f in os.listdir(samples_dir) if f.endswith(".nif"))
        filecases = [c for c in corpus if c.startswith("fileseq")]
        for f in files:
            for _ in range(2 if tier == "quick" else 12):
                ops = []
                for _ in range(rng.randint(1, 6)):
                    k = rng.choice("DDARPTO")
                    if k == "D":
                        ops.append("D%%%d" % rng.randint(0, 500))
                    elif k == "A":
                        ops.append("AT0::")
                    elif k == "R":
                        ops.append("R%%%d=T0::" % rng.randint(0, 500))
                    elif k == "P":
                        ops.append("P0")
                    elif k == "T":
                        ops.append("T%s,%d" % (rng.choice(["NiNode", "BSXFlags", "NiStringExtraData", "BSLightingShaderProperty", "NiAlphaProperty", "NiTriShapeData", "bhkCollisionObject"]), rng.randint(0, 1)))
                    else:
                        ops.append("Og%d" % rng.randint(1, 10 ** 6))
                filecases.append("fileseq name=%s ops=%s" % (f, ";".join(ops)))
                if any(o.startswith("D") for o in ops):
                    filecases.append("fileseq name=%s ops=%s viaref=1" % (f, ";".join(ops)))
    # synthetic histories
    impl = vlib.run_cases_robust(impl_bin, ["graph"], cases, timeout_per_batch=900, batch=4000, env=env)
    model = vlib.run_cases_robust(model_bin, ["graph"], cases, timeout_per_batch=900, batch=4000)
    mism, fails, nontriv = [], [], set()
    opcount = {}
    for (c, il, crash), (_, ml, mcrash) in zip(impl, model):
        if crash is not None or il is None:
            rep.violation("implementation crashed (sanitizer/abort/timeout) on a valid edit history", {"case": c, "family": "graph", "crash": crash, "model": ml})
            continue
        if mcrash is not None or ml is None:
            rep.violation("model oracle failed", {"case": c, "model_crash": mcrash}, found_input=False)
            continue
        m, f, ch = check_seq(rep, c, il, ml)
        if m:
            mism.append(m)
        if f:
            fails.append(f)
        if ch:
            nontriv.add(c)
        for o in dict(t.split("=", 1) for t in c.split(" ")[1:] if "=" in t).get("ops", "").split(";"):
            if o:
                opcount[o[0]] = opcount.get(o[0], 0) + 1
    # real files: the model starts from the implementation's dump of the loaded file
    nfile = 0
    if filecases:
        rc, tl, err = vlib.run_lines(impl_bin, ["graph"], ["template"], env=env)
        tpl = dict(t.split("=", 1) for t in tl[0][2:].split(" ")) if tl else {"crefs": "", "ptrs": ""}
        fimpl = vlib.run_cases_robust(impl_bin, ["graph"], filecases, timeout_per_batch=900, batch=200, env=env)
        mcases = []
        for (c, il, crash) in fimpl:
            if crash is not None or il is None or il.startswith("I=LOADFAIL"):
                mcases.append(None)
                continue
            kv = dict(t.split("=", 1) for t in c.split(" ")[1:] if "=" in t)
            d0 = il[2:].split(" | ")[0]
            hs0 = 1 if gs.parse_dump(d0)["sizes"] else 0      # files older than 20.2.0.5 carry no size table
            mcases.append("seq hs=%d real=1 tplc=%s tplp=%s dump=%s ops=%s" % (hs0, tpl.get("crefs", ""), tpl.get("ptrs", ""), d0.replace(" ", "~"), kv["ops"]))
        live = [m for m in mcases if m]
        fmodel = iter(vlib.run_cases_robust(model_bin, ["graph"], live, timeout_per_batch=900, batch=200))
        for (c, il, crash), mc in zip(fimpl, mcases):
            if mc is None:
                rep.violation("implementation crashed or failed to load a sample during an edit history", {"case": c, "family": "graph", "crash": crash, "impl": il})
                continue
            (_, ml, mcrash) = next(fmodel)
            nfile += 1
            m, f, ch = check_seq(rep, c + (" hs=0" if " hs=0 " in mc else ""), il, ml, real=True)
            if m:
                mism.append(m)
            if f:
                fails.append(f)
            if ch:
                nontriv.add(c)
    for f in fails[:10]:
        rep.violation("block-graph edit broke the property: " + "; ".join(f["errors"][:2]), dict(f, family="graph"))
    if mism and not fails:
        rep.violation("correspondence graph (Coq header model vs NiHeader) no longer holds; theorems of Properties_C06.v no longer speak about the code",
                      {"broken": "correspondence:graph", "family": "graph", "cases": mism[:10]}, found_input=False)
    cov.update({
        "evaluations": len(cases) + len(filecases),
        "distinct_nontrivial": len(nontriv),
        "rule": "synthetic histories: every operation sequence of length %d over %d initial graphs (empty, tree with parent pointers, cycle, self reference, non-zero root, loose blocks, fan-out) with all in-range ids, all permutations (<=3 blocks), wrong-size orders, present/absent type names, plus seeded random histories up to 40 operations; real files: random histories on every sample followed by save+reload; non-trivial = at least one operation changed the dump; distinct = distinct case lines" % (2 if tier == "quick" else 3, len(INIT_GRAPHS)),
        "samples": (cases[:2] + cases[len(cases) // 2:len(cases) // 2 + 2] + cases[-2:] + filecases[:2]),
        "input_distribution": {"ops": opcount, "synthetic_histories": len(cases), "file_histories": nfile},
        "traces_validated_against_impl": len(cases) + nfile,
        "correspondence_mismatches": len(mism),
        "spec_failures_on_impl": len(fails),
        "unproved": [],
        "trusted_base": vlib.BASE_TRUSTED + ["modelled, not verified: std::vector / std::unique_ptr ownership (as lists of blocks with ghost identities), std::set<NiRef*> iteration order (slot order is irrelevant to the operations), C++ object lifetime"],
        "exhaustive": False,
    })
    return rep.finish(cov, ["operation ids in range or NPOS, order lists that are permutations (or of the wrong size: guarded no-op), fresh objects for add/replace: the C++ preconditions; histories outside them are undefined behaviour in the C++ and Fault in the model"])
