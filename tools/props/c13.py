"""C13 — geometry written through the API is what is read back, in every version.

Proof: coq/Properties/Properties_C13.v over the hand models coq/ShapeApi/*.v (class-selection table
of CreateShapeFromData for every version triple; NiTriShapeData and BSTriShape storage with every
setter/getter; byte quantisation bounds over Q).  Tie: harness/o_shapeapi.cpp drives the real API
(create, setters, flag setters, save + reload) and dumps raw storage and every getter after each
step; ocaml/d_shapeapi.ml runs the extracted model on the same generated case and prints the same
dump; every field is compared.  Search: the property's clauses are evaluated here, in Python, on
the implementation's getter output (bit-exact where the format keeps binary32, within the
documented quantisation where it stores bytes / binary16)."""
import concurrent.futures as cf
import json
import random
import struct
from fractions import Fraction

import vlib

PID = "C13"
FAM = "shapeapi"
V20207 = 0x14020007
VERSIONS = {
    "OB": (0x14000005, 11, 11), "FO3": (V20207, 11, 34), "SK": (V20207, 12, 83), "SSE": (V20207, 12, 100),
    "FO4": (V20207, 12, 130), "FO76": (V20207, 12, 155), "SF": (V20207, 12, 172),
}
UNK = 1 << 32
HALF = 1 << 33


def f2b(x):
    return struct.unpack("<I", struct.pack("<f", x))[0]


def b2f(b):
    return struct.unpack("<f", struct.pack("<I", b & 0xFFFFFFFF))[0]


def f32(x):
    return b2f(f2b(x))


def half_rt_bits(b):
    """binary32 pattern -> pattern after a binary16 round trip (round to nearest even)"""
    x = b2f(b)
    try:
        h = struct.unpack("<e", struct.pack("<e", x))[0]
    except OverflowError:
        h = float("inf") if x > 0 else float("-inf")
    return f2b(h)


# palettes ---------------------------------------------------------------------------------------
P_GENERAL = [0.0, -0.0, 1.0, -1.0, 0.5, 3.14159274, -2.71828175, 1e-3, 123.456001, -37.5, 1024.0, 2047.0, 60000.0,
             -59999.0, 1e-8, 0.333333343, 7.0, -0.125, 100.25, 16777216.0 / 4096.0, 1.17549435e-38, 1e-45]
P_HALF = [0.0, 1.0, -1.0, 0.5, 0.25, 1.5, 2.0, 100.0, -37.5, 0.0009765625, 1024.0, 2047.0, 0.333251953125, 65504.0,
          -0.75, 3.140625, 6.103515625e-05, 5.9604644775390625e-08, -2048.0, 0.099975586]
P_UNIT_DYADIC = [k / 128.0 - 1.0 for k in (0, 1, 2, 63, 64, 65, 127, 128, 129, 191, 192, 200, 254, 255, 256)]
P_UNIT_ANY = [0.3, -0.7071068, 0.57735026, -0.9999, 0.9999, 0.1234567, -0.33333334, 0.8660254, -0.2588190, 0.0078125,
              2.0 / 255.0 - 1.0, 254.0 / 255.0, -1.0 + 1e-6, 1.0 - 1e-6, 0.70710677]
P_COLOR = [0.0, 1.0, 0.5, 0.25, 1.0 / 255.0, 2.0 / 255.0, 128.0 / 255.0, 254.0 / 255.0, -0.25, 1.5, 0.999999, 0.00390625,
           0.003921569, 0.99609375, 0.996, 0.7, 1e-9, 3.0, -0.0, 0.49999997, 0.50196081]


def unit_ok(x):
    """a unit-range binary32 value whose byte encoding cannot depend on binary32 rounding:
    dyadic with <= 8 fractional bits, or (x+1)/2*255 at least 1e-4 away from a rounding tie"""
    xf = Fraction(f32(x))
    if (xf * 128).denominator == 1:
        return True
    y = (xf + 1) / 2 * 255
    fr = y - (y.numerator // y.denominator)
    return abs(fr - Fraction(1, 2)) > Fraction(1, 10000)


def bits_list(vals):
    return [f2b(v) for v in vals]


def pick(rng, pool, n):
    return [rng.choice(pool) for _ in range(n)]


# case generation --------------------------------------------------------------------------------
PER_VERTEX = {"sv": "p", "su": "p", "sn": "u", "st": "u", "sb": "u", "sc": "c", "se": "p"}


def gen_ops(rng, nv, game, full):
    """a random op history; per-vertex setters mostly with the right count"""
    ops = []
    cur = min(nv, 65535)
    is_bs = game in ("SSE", "FO4", "FO76")
    k = 10
    for _ in range(rng.randint(1, 7 if full else 5)):
        k += 1
        r = rng.random()
        if r < 0.55:
            o = rng.choice(list(PER_VERTEX))
            pal = PER_VERTEX[o]
            if o in ("sv", "su") and rng.random() < 0.4:
                pal = "h"
            if o == "sb":
                pal = "u"
            n = cur
            q = rng.random()
            if q < 0.12 and cur < 3000:
                # a different count: setters with a size check ignore it; sv re-creates
                n = max(0, cur + rng.choice([-1, 1, 2, -2, 5]))
                if o in ("sn",) and is_bs and n < cur:
                    n = cur + 1          # BSTriShape::SetNormals reads numVertices entries: shorter input is outside the API contract
                if o in ("sn", "st", "sb") and not is_bs:
                    n = cur              # NiGeometryData stores whatever length it is given: per-vertex arrays have the vertex count by hypothesis
            ops.append("%s:%d:%d:%s" % (o, n, k, pal))
            if o == "sv" and n != cur:
                cur = min(n, 65535)
        elif r < 0.65:
            nt = rng.choice([0, 1, 2, 5, rng.randint(0, 40)])
            ops.append("sr:%d:%d:%d" % (nt, k, max(1, cur) if rng.random() < 0.85 else cur + 3))
        elif r < 0.72:
            ops.append("sbd:%d:%s" % (k, rng.choice("ph")))
        elif r < 0.76:
            ops.append("ub")
        elif r < 0.82 and is_bs:
            ops.append("fp:%d" % rng.randint(0, 1))
        elif r < 0.90:
            ops.append("%s:%d" % (rng.choice(["vc", "nm", "tg", "uv"]), rng.randint(0, 1)))
        elif r < 0.93:
            ops.append("ct")
        else:
            ops.append("save:%d" % rng.randint(0, 1))
    if rng.random() < 0.8 and not any(o.startswith("save") for o in ops):
        ops.append("save:%d" % rng.randint(0, 1))
    if rng.random() < 0.3:
        ops.append("save:0")
    return ops


def mk_case(rng, game, nv, nt, nuv, nn, tr, ops, ver=None, cp=None):
    ver = ver or VERSIONS[game]
    pp = bits_list(pick(rng, P_GENERAL, rng.randint(3, 9)))
    ph = bits_list(pick(rng, P_HALF, rng.randint(3, 9)))
    pu = bits_list([v for v in pick(rng, P_UNIT_DYADIC + P_UNIT_ANY, rng.randint(4, 10)) if unit_ok(v)] or [0.0, 1.0])
    pc = bits_list(pick(rng, P_COLOR, rng.randint(3, 9)))
    seed = [rng.randint(1, 997), rng.randint(1, 997), rng.randint(1, 997), rng.randint(0, 997)]
    cp = cp or rng.choice("pph")
    return ("shape ver=%d,%d,%d g=%s nv=%d nt=%d nuv=%d nn=%d tr=%d cp=%s cn=u pp=%s ph=%s pu=%s pc=%s seed=%s ops=%s"
            % (ver[0], ver[1], ver[2], game, nv, nt, nuv, nn, tr, cp, ",".join(map(str, pp)), ",".join(map(str, ph)),
               ",".join(map(str, pu)), ",".join(map(str, pc)), ",".join(map(str, seed)), ";".join(ops)))


def gen_cases(tier, rng):
    full = tier == "thorough"
    small, big, cls = [], [], []
    games = ["OB", "FO3", "SK", "SSE", "FO4", "FO76"]
    # (1) class table: the seven factory versions and triples around every boundary of the predicates
    files = [0x0A000100, 0x0A01006A, 0x0A020000, 0x14000004, 0x14000005, 0x14020005, V20207, 0x14020008]
    streams = [0, 11, 12, 34, 82, 83, 84, 99, 100, 101, 129, 130, 135, 139, 140, 154, 155, 156, 171, 172, 173, 174]
    users = [0, 2, 3, 10, 11, 12, 13]
    for g, v in VERSIONS.items():
        cls.append(mk_case(rng, g, 3, 1, 3, 3, 3, [], ver=v))
    trip = [(f, u, s) for f in files for u in users for s in streams]
    rng.shuffle(trip)
    for v in trip[:(len(trip) if full else 150)]:
        cls.append(mk_case(rng, "X", 2, 1, 2, -1, 2, [], ver=v))
    # (2) random small meshes x op histories, every game
    for g in games + ["SF"]:
        for _ in range((260 if full else 40) if g != "SF" else (40 if full else 6)):
            nv = rng.choice([0, 1, 2, 3, 4, rng.randint(5, 40), rng.randint(41, 300)])
            nt = rng.choice([0, 1, 2, rng.randint(0, 60)])
            nuv = rng.choice([nv, nv, nv, -1, nv + 1, max(0, nv - 1)])
            nn = rng.choice([nv, nv, -1, -1, nv + 1])
            tr = max(1, nv) if rng.random() < 0.85 else nv + 2
            small.append(mk_case(rng, g, nv, nt, nuv, nn, tr, gen_ops(rng, nv, g, full)))
    # (3) one case per setter and game with the exact count, followed by save, then the same after reload
    for g in games:
        for o, pal in PER_VERTEX.items():
            for p in ([pal, "h"] if o in ("sv", "su", "se") else [pal]):
                nv = rng.randint(1, 12)
                ops = ["%s:%d:20:%s" % (o, nv, p), "save:0", "%s:%d:21:%s" % (o, nv, p), "save:1"]
                small.append(mk_case(rng, g, nv, rng.randint(0, 8), nv, rng.choice([nv, -1]), nv, ops))
    # (4) limits: 65535 / 65536 vertices, triangle-count limits
    lim = [("SSE", 65535, 65535), ("SSE", 65536, 65536), ("SK", 65536, 65536), ("FO4", 65535, 70000), ("OB", 65535, 65535),
           ("FO3", 65537, 3), ("FO76", 65536, 65536)]
    if not full:
        lim = lim[:5]
    for g, nv, nt in lim:
        nvv = min(nv, 65535)
        nuv = rng.choice([nvv, nvv, nv])
        ops = rng.sample(["sc:%d:5:c" % nvv, "sn:%d:6:u" % nvv, "su:%d:7:h" % nvv, "st:%d:8:u" % nvv, "sb:%d:9:u" % nvv], 2) + ["save:%d" % rng.randint(0, 1)]
        big.append(mk_case(rng, g, nv, nt, nuv, rng.choice([nvv, -1]), nvv, ops, cp="h" if g in ("FO4", "FO76") else None))
    if full:
        for g in games:
            big.append(mk_case(rng, g, 65535, 65535, 65535, 65535, 65535, ["sv:65535:4:h", "sr:65535:5:65535", "save:0"]))
            big.append(mk_case(rng, g, 65534, 10, 65534, -1, 65534, ["sv:65535:4:p", "sc:65535:5:c", "save:1"]))
    return cls, small, big


# dump parsing -----------------------------------------------------------------------------------
def kv(seg):
    return dict(t.split("=", 1) for t in seg.split(" ") if "=" in t)


def parse_line(line, who):
    """-> list of steps; each step = dict(op, pre (state dict of the saved-from object or None), d (state+getters))"""
    body = line[2:] if line[:2] in ("I=", "M=") else line
    steps = []
    for seg in body.split(" | "):
        seg = seg.strip()
        toks = seg.split(" ")
        st = {"op": toks[0], "raw": seg, "pre": None, "fault": "FAULT" in toks or seg.endswith("FAULT")}
        if " ~ " in seg:
            a, b = seg.split(" ~ ", 1)
            st["pre"] = kv(a)
            st["d"] = kv(b)
            st["kind"] = next((t for t in b.split(" ") if t in ("S", "G")), "?")
            st["loadfail"] = "LOADFAIL" in b or "NOSHAPE" in b
        else:
            st["d"] = kv(seg)
            st["kind"] = next((t for t in toks if t in ("S", "G")), "?")
        steps.append(st)
    return steps


def parse_arr(s):
    """'len:items#digest' -> (len, [items], digest)"""
    if s in ("-", "FAULT"):
        return None
    flag = ""
    head, dig = s.rsplit("#", 1)
    ln, items = head.split(":", 1)
    return int(ln), (items.split(",") if items else []), dig


def sample_positions(n):
    return list(range(n)) if n <= 48 else [(j * (n - 1)) // 23 for j in range(24)]


def digest(vals):
    h = 7
    for x in vals:
        h = (h * 65599 + (x % 2147483647)) % 2147483647
    return h


def item_matches(m, i):
    """model item m vs implementation item i (strings)"""
    if "/" in m:
        q = Fraction(m)
        if abs(q) > 1000:          # the decoder applied to a byte the model does not know (UNK): anything
            return True
        return abs(Fraction(b2f(int(i))) - q) <= Fraction(1, 1 << 20)
    m = int(m)
    i = int(i)
    if m < UNK:
        return m == i
    if m == UNK:
        return True
    x = m - HALF
    return i == half_rt_bits(x)


def arr_matches(ms, is_):
    if ms == is_:
        return True
    if ms in ("-", "FAULT") or is_ in ("-", "FAULT"):
        return False
    pm, pi = parse_arr(ms), parse_arr(is_)
    if pm[0] != pi[0] or len(pm[1]) != len(pi[1]):
        return False
    if pm[2] != "*" and pm[2] != pi[2]:
        return False
    return all(item_matches(a, b) for a, b in zip(pm[1], pi[1]))


STATE_KEYS_S = ["nv", "nt", "desc", "ds", "vs", "seg", "vV", "vX", "vU", "vN", "vBY", "vT", "vBZ", "vC", "vE", "TR", "BD"]
STATE_KEYS_G = ["nv", "hv", "hn", "hc", "df", "nt", "ntp", "ht", "US", "V", "N", "T", "B", "C", "U", "TR", "BD"]
GETTER_MAP = {"mV": "gV", "mU": "gU", "mN": "pN", "mT": "gT", "mB": "gB", "mC": "gC", "mE": "gE"}


def state_diff(kind, md, idd):
    out = []
    for k in (STATE_KEYS_S if kind == "S" else STATE_KEYS_G):
        if k not in md or k not in idd:
            out.append((k, idd.get(k), md.get(k)))
            continue
        a, b = md[k], idd[k]
        if k == "BD":
            ok = all(item_matches(x, y) for x, y in zip(a.split(","), b.split(",")))
        elif ":" in a and "#" in a:
            ok = arr_matches(a, b)
        else:
            ok = a == b
        if not ok:
            out.append((k, b[:90], a[:90]))
    return out


def getter_diff(md, idd):
    out = []
    for mk, ik in GETTER_MAP.items():
        if mk in md and ik in idd and not arr_matches(md[mk], idd[ik]):
            out.append((ik, idd[ik][:90], md[mk][:90]))
    if "mTR" in md and "gTR" in idd and not (md["mTR"][0] == idd["gTR"][0] and arr_matches(md["mTR"][1:], idd["gTR"][1:])):
        out.append(("gTR", idd["gTR"][:90], md["mTR"][:90]))
    return out


# the property itself, on the implementation's output ---------------------------------------------
class CaseData:
    def __init__(self, case):
        c = kv(case)
        self.c = c
        self.ver = tuple(int(x) for x in c["ver"].split(","))
        self.pal = {"p": [int(x) for x in c["pp"].split(",")], "h": [int(x) for x in c["ph"].split(",")],
                    "u": [int(x) for x in c["pu"].split(",")], "c": [int(x) for x in c["pc"].split(",")]}
        self.a, self.b, self.cc, self.d = (int(x) for x in c["seed"].split(","))
        self.nv, self.nt, self.nuv, self.nn, self.tr = (int(c[k]) for k in ("nv", "nt", "nuv", "nn", "tr"))
        self.cp = c.get("cp", "p")
        self.ops = [o for o in c.get("ops", "").split(";") if o]

    def tok(self, p, k, i, j):
        v = self.pal[p]
        return v[(self.a * i + self.b * j + self.cc * k + self.d) % len(v)]

    def idx(self, k, i, j, rng_):
        return (self.a * i + self.b * j + self.cc * k + self.d) % (rng_ if rng_ else 1)

    def flat(self, n, arity, k, p):
        return [self.tok(p, k, i, j) for i in range(n) for j in range(arity)]

    def tris(self, n, k, rng_):
        return [self.idx(k, i, j, rng_) for i in range(n) for j in range(3)]


def expect_exact(arrs, want):
    """getter dump string vs the expected flat list of bit patterns (exact)"""
    p = parse_arr(arrs)
    if p is None or p[0] != len(want):
        return False
    pos = sample_positions(p[0])
    if [int(x) for x in p[1]] != [want[q] for q in pos]:
        return False
    return int(p[2]) == digest(want)


def expect_with(arrs, want, pred):
    """sampled comparison with a per-element predicate pred(want_bits, got_bits)"""
    p = parse_arr(arrs)
    if p is None or p[0] != len(want):
        return False
    pos = sample_positions(p[0])
    return all(pred(want[q], int(g)) for q, g in zip(pos, p[1]))


def near_unit(w, g):      # byte-quantised unit-range component: |dec(enc x) - x| <= 1/255 (+ binary32 slack)
    return abs(b2f(g) - b2f(w)) <= 1.0 / 255.0 + 2e-6


def near_col(w, g):       # byte colour: |dec(enc x) - clamp x| <= 1/256 (+ slack)
    x = min(1.0, max(0.0, b2f(w)))
    return abs(b2f(g) - x) <= 1.0 / 256.0 + 2e-6


def near_half(w, g):      # binary16 storage: exact when representable, else the nearest binary16 value
    return g == half_rt_bits(w)


def exact(w, g):
    return w == g


PER_VERTEX_GETTERS = {"gV": 3, "pV": 3, "gU": 2, "pU": 2, "pN": 3, "gT": 3, "pT": 3, "gB": 3, "pB": 3, "gC": 4, "pC": 4, "gE": 1, "pE": 1}


def length_violations(kind, d):
    """per-vertex arrays returned by the getters whose length is not the vertex count"""
    bad = []
    nv = int(d["gnv"])
    for g, ar in PER_VERTEX_GETTERS.items():
        if g not in d or d[g] == "-":
            continue
        n = parse_arr(d[g])[0]
        if n == nv * ar:
            continue
        # pointer variants hand out the (possibly disabled, then empty) vector itself
        if g.startswith("p") and n == 0:
            continue
        bad.append((g, n, nv * ar))
    return bad


def spec_check(case, isteps):
    """returns list of (what, detail) spec failures found on the implementation's dumps, and the
    list of known-finding hits (id, detail)"""
    cd = CaseData(case)
    fails, known = [], []
    if not isteps or len(isteps) < 2 or "gnv" not in isteps[1]["d"]:
        return fails, known
    kind = isteps[1]["kind"]
    game = cd.c.get("g", "X")
    d = isteps[1]["d"]
    nvv = min(cd.nv, 65535)
    limit = 65535 if (kind == "G" or (cd.ver[1] >= 12 and cd.ver[2] < 130)) else 0xFFFFFFFF
    ntt = 0 if nvv == 0 else min(cd.nt, limit)
    # creation: vertices / triangles / uvs are read back as given (with the stated truncations)
    verts = cd.flat(nvv, 3, 0, cd.cp)
    if int(d["gnv"]) != nvv or not expect_exact(d["gV"], verts) or not expect_exact(d["pV"], verts):
        fails.append(("created shape does not read back the given vertices", {"step": "create", "got": d["gV"][:120]}))
    tris = cd.tris(ntt, 1, cd.tr)
    if int(d["gnt"]) != ntt or not expect_exact(d["gTR"][1:], tris):
        fails.append(("created shape does not read back the given triangles in order", {"step": "create", "got": d["gTR"][:120]}))
    cur_uv = None
    if cd.nuv == nvv:
        cur_uv = cd.flat(nvv, 2, 2, cd.cp)
        if not expect_exact(d["gU"], cur_uv):
            fails.append(("created shape does not read back the given UVs", {"step": "create", "got": d["gU"][:120]}))
    elif cd.nuv >= 0 and d["gU"] != "-":
        fails.append(("UV array of the wrong length was accepted at creation", {"step": "create", "got": d["gU"][:120]}))
    if cd.nn == nvv:
        want = cd.flat(nvv, 3, 3, "u")
        if not expect_with(d["pN"], want, exact if kind == "G" else near_unit):
            fails.append(("created shape does not read back the given normals within the byte quantisation", {"step": "create", "got": d["pN"][:120]}))
    cur_v, cur_t = verts, tris
    stale_colors = False
    tan_dropped = False       # NiTriShapeData saved with the tangent flag but without normals (known finding)
    prev = d
    if length_violations(kind, d):
        fails.append(("a per-vertex array does not have the vertex count after creation", {"step": "create", "bad": length_violations(kind, d)}))
    for si, st in enumerate(isteps[2:], start=2):
        o = st["op"].split(":")
        d = st["d"]
        if "gnv" not in d:
            break
        name = o[0]
        nv_before = int(prev["gnv"])
        frame_exempt = set()
        if name in PER_VERTEX:
            n, k, p = int(o[1]), int(o[2]), o[3]
            ar = {"sv": 3, "su": 2, "sn": 3, "st": 3, "sb": 3, "sc": 4, "se": 1}[name]
            if name == "sv":
                want = cd.flat(min(n, 65535), 3, k, p)
                if int(d["gnv"]) != min(n, 65535) or not expect_exact(d["gV"], want) or not expect_exact(d["pV"], want):
                    fails.append(("SetVertsForShape then GetVertsForShape does not return the given vertices", {"step": st["op"], "got": d["gV"][:120]}))
                cur_v = want
                if n != nv_before:
                    frame_exempt = None           # documented re-creation: only the vertices and the length invariant are claimed
                    cur_uv = None
                    if kind == "S":
                        cur_t = []
                    if kind == "G" and prev.get("gC", "-") != "-":
                        stale_colors = True
                else:
                    frame_exempt = {"gV", "pV"}
            elif n == nv_before and not (name == "se" and kind == "G"):
                want = cd.flat(n, ar, k, p)
                tgt = {"su": ("gU", "pU"), "sn": ("pN",), "st": ("gT", "pT"), "sb": ("gB", "pB"), "sc": ("gC", "pC"), "se": ("gE", "pE")}[name]
                if name == "su":
                    pred = exact
                    cur_uv = want
                elif name == "se":
                    pred = exact
                elif kind == "G":
                    pred = exact
                elif name == "sc":
                    pred = near_col
                elif name == "sb":
                    pred = None
                else:
                    pred = near_unit
                for g in tgt:
                    if pred is None:
                        pa = parse_arr(d[g]) if d.get(g, "-") != "-" else None
                        pos = sample_positions(len(want))
                        ok = pa is not None and pa[0] == len(want) and all(
                            (exact if q % 3 == 0 else near_unit)(want[q], int(gv)) for q, gv in zip(pos, pa[1]))
                    elif pred is exact:
                        ok = d.get(g, "-") != "-" and expect_exact(d[g], want)
                    else:
                        ok = d.get(g, "-") != "-" and expect_with(d[g], want, pred)
                    if not ok:
                        fails.append(("%s then its getter %s does not return the given values within the documented quantisation" % (name, g),
                                      {"step": st["op"], "got": d.get(g, "-")[:120]}))
                frame_exempt = set(tgt)
                if name == "sc":
                    stale_colors = False
                if name in ("st", "sb"):
                    frame_exempt |= {"gT", "pT", "gB", "pB"} if prev.get("gT", "-") == "-" else set()
            else:
                frame_exempt = set() if name not in ("sn", "st", "sb") or kind == "S" and name != "sn" else None
                if kind == "G" and name == "se":
                    frame_exempt = set()
        elif name == "sr":
            n, k, rg = int(o[1]), int(o[2]), int(o[3])
            want = cd.tris(n, k, rg)
            if n <= limit:
                if int(d["gnt"]) != n or not expect_exact(d["gTR"][1:], want):
                    fails.append(("SetTriangles then GetTriangles does not return the given triangles", {"step": st["op"], "got": d["gTR"][:120]}))
            cur_t = want
            frame_exempt = {"gTR", "gnt"}
        elif name == "sbd":
            k, p = int(o[1]), o[2]
            want = ",".join(str(cd.tok(p, k, 0, j)) for j in range(4))
            if d["gBD"] != want:
                fails.append(("SetBounds then GetBounds does not return the given sphere", {"step": st["op"], "got": d["gBD"], "want": want}))
            frame_exempt = {"gBD"}
        elif name == "ub":
            frame_exempt = {"gBD"}
        elif name == "fp":
            frame_exempt = {"fl"}
        elif name in ("vc", "nm", "tg", "uv", "ct"):
            frame_exempt = None       # flag setters enable / disable whole arrays: only the length invariant is claimed
            if name == "vc":
                stale_colors = False
            if name == "uv":
                cur_uv = None
        elif name == "save":
            frame_exempt = None
            opt = int(o[1])
            if kind == "G" and game != "OB" and prev["fl"][2] == "0" and prev["fl"][3] == "1":
                tan_dropped = True
            if st.get("loadfail"):
                fails.append(("the saved file does not load again", {"step": st["op"]}))
                break
            halfv = kind == "S" and cd.ver[2] != 100 and d["fl"][7] != "1"
            # valid triangles survive; invalid ones are dropped by the loader (RemoveInvalidTris)
            nvc = int(d["gnv"])
            tl = [cur_t[i:i + 3] for i in range(0, len(cur_t), 3)]
            wt = [x for t in tl if all(q < nvc for q in t) for x in t]
            had_tris = prev["gTR"][0] == "1"
            if nvc != nv_before or not expect_with(d["gV"], cur_v, near_half if halfv else exact):
                fails.append(("vertices are not read back after save and reload", {"step": st["op"], "got": d["gV"][:120]}))
            if had_tris and (int(d["gnt"]) != len(wt) // 3 or not expect_exact(d["gTR"][1:], wt)):
                fails.append(("triangles are not read back in order after save and reload", {"step": st["op"], "got": d["gTR"][:120]}))
            if cur_uv is not None and prev.get("gU", "-") != "-":
                if not expect_with(d.get("gU", "-"), cur_uv, near_half if kind == "S" else exact):
                    fails.append(("UVs are not read back after save and reload", {"step": st["op"], "got": d.get("gU", "-")[:120]}))
            cur_t = wt
            if halfv:
                cur_v = [half_rt_bits(x) for x in cur_v]
            if kind == "S" and cur_uv is not None:
                cur_uv = [half_rt_bits(x) for x in cur_uv]
            stale_colors = False
        # frame: every other getter returns exactly what it returned before
        if frame_exempt is not None:
            for g in list(PER_VERTEX_GETTERS) + ["gTR", "gBD", "gnv", "gnt"]:
                if g in frame_exempt:
                    continue
                if tan_dropped and g in ("gT", "pT", "gB", "pB") and name in ("st", "sb"):
                    continue
                if prev.get(g) != d.get(g):
                    fails.append(("%s changed what another getter (%s) returns" % (name, g), {"step": st["op"], "before": str(prev.get(g))[:100], "after": str(d.get(g))[:100]}))
        bad = length_violations(kind, d)
        if bad:
            only_col = all(g in ("gC", "pC") for g, _, _ in bad)
            only_tan = all(g in ("gT", "pT", "gB", "pB") and n == 0 for g, n, _ in bad)
            if stale_colors and only_col and kind == "G":
                known.append(("C13-setverts-recreate-stale-colors", "%s step %s: %s" % (game, st["op"], bad)))
            elif tan_dropped and only_tan and kind == "G":
                known.append(("C13-tangents-without-normals-dropped", "%s step %s: %s" % (game, st["op"], bad)))
            else:
                fails.append(("a per-vertex array does not have the vertex count", {"step": st["op"], "bad": bad}))
        prev = d
    return fails, known


# running ----------------------------------------------------------------------------------------
def finding_status(kid):
    for k in vlib.load_known():
        if k.get("id") == kid:
            return k.get("status")
    return None


def report_finding(rep, kid, detail, case, extra=None):
    """a recorded defect class was recognised: a KNOWN-FINDING while it is recorded as known, a VIOLATION
    once it is recorded as fixed (the defect has come back)"""
    if finding_status(kid) == "known":
        rep.known_finding(kid, detail)
        return 0
    d = {"case": case, "family": FAM, "finding": kid, "detail": detail}
    d.update(extra or {})
    rep.violation("a defect recorded as fixed is back: " + kid, d)
    return 1


def run_parallel(binp, cases, chunk, timeout, env=None):
    chunks = [cases[i:i + chunk] for i in range(0, len(cases), chunk)]
    with cf.ThreadPoolExecutor(max_workers=max(2, vlib.NPROC - 2)) as ex:
        res = list(ex.map(lambda ch: vlib.run_cases_robust(binp, [FAM], ch, timeout_per_batch=timeout, env=env), chunks))
    out = [r for rs in res for r in rs]
    # vlib.run_cases_robust takes an empty stdout for one (empty) output line: re-run such cases alone
    for i, (c, l, crash) in enumerate(out):
        if crash is None and (l is None or l.strip() == ""):
            out[i] = vlib.run_cases_robust(binp, [FAM], [c], timeout_per_batch=timeout, env=env)[0]
    return out


def has_eye_before_save(case):
    ops = kv(case).get("ops", "").split(";")
    eye = False
    for o in ops:
        if o.startswith("se:"):
            eye = True
        if o.startswith("save") and eye:
            return True
    return False


def run(tier, seed, replay=None):
    rep = vlib.Reporter(PID, tier, seed)
    hygiene = vlib.coq_hygiene()
    pr = vlib.coq_property(PID)
    cov = vlib.proof_coverage(pr, hygiene)
    if not pr["ok"] or hygiene:
        rep.violation("proof obligations of Properties_C13.v not discharged: " + ",".join(pr["failed"] or hygiene),
                      {"broken": "theorems " + ",".join(pr["failed"]), "log": pr["log"][-3000:], "hygiene": hygiene}, found_input=False)
    impl_bin = vlib.build_oracle("asan")
    model_bin = vlib.build_model_oracle()
    rng = random.Random(seed)
    if replay:
        r = json.load(open(replay))
        cls, small, big = [], ([r["case"]] if "case" in r else [c["case"] for c in r.get("cases", [])]), []
    else:
        corpus = []
        try:
            corpus = [l.strip() for l in open(vlib.ROOT + "/corpus/C13/cases.txt") if l.strip() and not l.startswith("#")]
        except OSError:
            pass
        cls, small, big = gen_cases(tier, rng)
        small = corpus + small
    cases = cls + small + big
    impl = run_parallel(impl_bin, cls + small, 60, 300) + run_parallel(impl_bin, big, 1, 600)
    model = run_parallel(model_bin, cls + small, 60, 300) + run_parallel(model_bin, big, 1, 900)
    # cases that die in the sanitizer build on the recorded undefined shift are re-run without sanitizers
    plain_bin = None
    mism, nspec, nknown = [], 0, 0
    nontriv = set()
    dist = {}
    for (c, il, crash), (_, ml, mcrash) in zip(impl, model):
        g = kv(c).get("g", "X")
        dist[g] = dist.get(g, 0) + 1
        if mcrash is not None or ml is None:
            rep.violation("model oracle failed on a case", {"case": c, "model_crash": mcrash}, found_input=False)
            continue
        msteps = parse_line(ml, "M")
        if crash is not None:
            err = crash.get("stderr", "")
            model_faults_at_save = any(s["fault"] and s["op"].startswith("save") for s in msteps)
            if "VertexData.hpp:86" in err and "shift exponent" in err and has_eye_before_save(c):
                if report_finding(rep, "C13-eyedata-desc-shift", c[:200], c, {"crash": crash}):
                    nspec += 1
                    continue
                nknown += 1
                if plain_bin is None:
                    plain_bin = vlib.build_oracle("plain")
                rr = vlib.run_cases_robust(plain_bin, [FAM], [c], timeout_per_batch=300)
                (_, il, crash2) = rr[0]
                if crash2 is not None or il is None:
                    rep.violation("implementation crashed (plain build) on a shape with eye data", {"case": c, "crash": crash2})
                    continue
                # the model stops at the undefined shift: compare the steps before it, evaluate the property on all
                isteps = parse_line(il, "I")
                if model_faults_at_save:
                    msteps = msteps[:next(i for i, s in enumerate(msteps) if s["fault"])]
            else:
                rep.violation("implementation crashed (sanitizer/abort/timeout) on an API call sequence inside the model's domain",
                              {"case": c, "family": FAM, "crash": crash})
                continue
        else:
            isteps = parse_line(il, "I")
        # correspondence
        diffs = []
        if any(s["fault"] for s in msteps) and crash is None:
            diffs.append(("model faults, implementation does not", ml[-120:]))
        for k, (ms, is_) in enumerate(zip(msteps, isteps)):
            if ms["fault"]:
                break
            if k == 0:
                mc, ic = ms["raw"].split("/"), is_["raw"].split("/")
                if mc[:5] + mc[6:8] != ic[:5] + ic[6:8]:
                    diffs.append(("classes", is_["raw"], ms["raw"]))
                continue
            if ms["op"] != is_["op"] and k > 1:
                diffs.append(("step order", is_["op"], ms["op"]))
                break
            if ms["pre"] is not None and is_["pre"] is not None:
                dd = state_diff(ms["kind"], ms["pre"], is_["pre"])
                if dd:
                    diffs.append(("saved-from object after step %d %s" % (k, ms["op"]), dd[:4]))
            dd = state_diff(ms["kind"], ms["d"], is_["d"]) if ms["kind"] == is_["kind"] else [("storage kind", is_["kind"], ms["kind"])]
            dd += getter_diff(ms["d"], is_["d"])
            if dd:
                diffs.append(("step %d %s" % (k, ms["op"]), dd[:4]))
        # the property on the implementation
        fails, known = spec_check(c, isteps) if kv(c).get("g") != "X" else ([], [])
        for kid, det in known:
            if report_finding(rep, kid, det, c):
                nspec += 1
            else:
                nknown += 1
        for what, det in fails[:3]:
            det = dict(det)
            det.update({"case": c, "family": FAM})
            rep.violation(what, det)
            nspec += 1
        if diffs and not fails:
            mism.append({"case": c, "diffs": diffs[:4]})
        if len(isteps) > 2 and any(o.split(":")[0] in PER_VERTEX or o.startswith("save") for o in kv(c).get("ops", "").split(";")):
            nontriv.add(c)
    if mism:
        rep.violation("correspondence shapeapi (Coq storage/accessor model vs NifFile/Geometry.cpp) no longer holds; theorems of Properties_C13.v no longer speak about the code",
                      {"broken": "correspondence:shapeapi", "family": FAM, "cases": mism[:10]}, found_input=False)
    cov.update({
        "evaluations": len(cases),
        "distinct_nontrivial": len(nontriv),
        "rule": "cases = class-table probes (7 factory versions + version triples around every boundary of the NiVersion predicates) + seeded random meshes (0..300 vertices) x random histories of setters / flag setters / save+reload for OB, FO3, SK, SSE, FO4, FO76 (+SF) + one case per setter and game + limit meshes (65535/65536 vertices, 65535/65536/70000 triangles); a case is non-trivial when its history contains a per-vertex setter or a save+reload and the implementation produced a dump for it; distinct = distinct case lines",
        "samples": [c[:300] for c in (cls[:1] + small[:2] + big[:1])],
        "input_distribution": dist,
        "traces_validated_against_impl": len(cases),
        "correspondence_mismatches": len(mism),
        "spec_failures_on_impl": nspec,
        "known_finding_hits": nknown,
        "unproved": [],
        "trusted_base": vlib.BASE_TRUSTED + [
            "modelled, not verified: std::vector (lists; loops walk vectors with the counter and fault when a vector ends first)",
            "not modelled (Section variables without assumptions): Miniball bounding sphere, tangent-space arithmetic, binary16 conversion (half.hpp)",
            "binary32 rounding inside the byte encoders is not modelled: the bounds are over Q; generated unit-range values keep 1e-4 away from rounding ties unless they are dyadic (where binary32 is exact)",
            "Python side of the failing-input search: tools/props/c13.py (palette generator re-implemented, struct 'e' as binary16 reference)"],
        "exhaustive": False,
    })
    return rep.finish(cov, [
        "per-vertex setter inputs have the shape's vertex count where the code does not check it itself (SetNormalsForShape on both storages, SetTangents/SetBitangentsForShape on NiGeometryData); shorter input to BSTriShape::SetNormals is an out-of-bounds read",
        "unit-range setters (normals, tangents, bitangent y/z) get components in [-1,1]: outside, the float -> uint8_t conversion is undefined",
        "triangle lists no longer than the format's counter (65535 for NiTriShapeData and for user>=12 && stream<130, 2^32-1 otherwise)",
        "no NaN / infinity; magnitudes below 65504 where the format stores binary16",
    ])
