"""C10 — Skin partitions always cover the shape's triangles exactly once.

Proof: coq/Properties/Properties_C10.v over the hand model coq/Skin/SkinModel.v (same loops, counter
widths and branch order as Skin.cpp:303-510 and NifFile.cpp:2884-3060, 4103-4121, 4264-4466) built on the
proved utility models of C18.

Tie: (raw) every NiSkinPartition method of Skin.cpp on arbitrary partition states and (hist) histories of
UpdateSkinPartitions / Set / Get / SetDefault / Delete / RemoveEmpty on skinned shapes constructed through
NifFile's public API for OB, FO3, SK, SSE run through the real code (ASan/UBSan build) and through the
extracted model; every dump after every step is compared (float weights against the exact rationals within
1e-5). Search: the property itself (tools/skinspec.py: multiset cover, exact vertex maps, mapped->true,
bone limit, bone slots, weights, dismember alignment, set/get) is evaluated on the IMPLEMENTATION's dumps
after every step and on the saved + reloaded file."""
import concurrent.futures as cf
import json
import os
import random
import re

import vlib
import skinspec as ss

PID = "C10"
VERS = ["OB", "FO3", "SK", "SSE"]
OPNAME = {"U": "UpdateSkinPartitions", "S": "SetShapePartitions", "G": "GetShapePartitions", "D": "SetDefaultPartition",
          "X": "DeletePartitions", "E": "RemoveEmptyPartitions", "r": "save + reload"}


# --------------------------------------------------------------------------------------------
# generators


def s_tris(ts):
    return ";".join("%d:%d:%d" % t for t in ts)


def s_part(p):
    return "/".join([
        ".".join(str(p.get(k, 0)) for k in ("nv", "nt", "nb", "ns", "nw")),
        ",".join(map(str, p.get("bones", []))), "1" if p.get("hvm") else "0", ",".join(map(str, p.get("vm", []))),
        "1" if p.get("hvw") else "0", ";".join(":".join(map(str, w)) for w in p.get("vw", [])),
        "1" if p.get("hf") else "0", s_tris(p.get("tris", [])), "1" if p.get("hbi") else "0",
        ";".join(":".join(map(str, b)) for b in p.get("bi", [])), s_tris(p.get("tt", [])),
        ";".join(",".join(map(str, st)) for st in p.get("strips", []))])


def rnd_tri(rng, hi, edge=0.02):
    def c():
        if rng.random() < edge:
            return rng.choice([65535, 65534, hi, hi + 1])
        return rng.randrange(0, max(1, hi))
    return (c(), c(), c())


def rnd_part(rng, hi):
    """an arbitrary PartitionBlock: any mixture of empty / unsorted / duplicated / out-of-range fields"""
    style = rng.random()
    p = {}
    nvm = rng.choice([0, 0, 1, 3, 5, 8, hi])
    if style < 0.5:
        vm = sorted(rng.sample(range(hi + 3), min(nvm, hi + 3)))          # what the generators produce
    elif style < 0.62 and nvm >= 3:
        # what exporters write: a dense map 0..n-1 that is NOT ascending but still starts at 0 and ends at n-1
        mid = list(range(1, nvm - 1))
        rng.shuffle(mid)
        vm = [0] + mid + [nvm - 1]
    else:
        vm = [rng.choice([rng.randrange(0, hi + 3), 65535, 65534]) if rng.random() < 0.05 else rng.randrange(0, hi + 3) for _ in range(nvm)]
    p["vm"] = vm
    p["hvm"] = rng.random() < 0.8
    p["tris"] = [rnd_tri(rng, max(1, len(vm) + (1 if rng.random() < 0.2 else 0))) for _ in range(rng.choice([0, 0, 1, 2, 4, 7]))]
    p["tt"] = [rnd_tri(rng, hi) for _ in range(rng.choice([0, 0, 1, 2, 4, 7]))]
    if rng.random() < 0.3:
        p["strips"] = [[rng.randrange(0, hi) for _ in range(rng.choice([0, 2, 3, 5, 9]))] for _ in range(rng.choice([1, 2, 3]))]
        p["ns"] = len(p["strips"]) if rng.random() < 0.85 else rng.choice([0, 1, 7])
    p["nt"] = len(p["tris"]) if rng.random() < 0.7 else rng.choice([0, 1, len(p["tt"]), 9])
    p["nv"] = len(vm) if rng.random() < 0.8 else rng.randrange(0, 9)
    if rng.random() < 0.3:
        p["hvw"], p["hbi"] = True, True
        p["vw"] = [[rng.randrange(0, 257) for _ in range(4)] for _ in vm]
        p["bi"] = [[rng.randrange(0, 6) for _ in range(4)] for _ in vm]
        p["bones"] = sorted(rng.sample(range(40), rng.randrange(0, 6)))
        p["nb"] = len(p["bones"])
        p["nw"] = 4
    return p


def gen_raw(rng, count):
    out = []
    fns1 = ["conv1", "ttm", "mtt", "vmt"]
    fnsn = ["conv", "ptt", "pvm", "gtp", "gtt", "ptp", "del", "rem"]
    for _ in range(count):
        hi = rng.choice([3, 6, 12])
        if rng.random() < 0.4:
            fn = rng.choice(fns1)
            parts = [rnd_part(rng, hi) for _ in range(rng.choice([1, 1, 2]))]
            out.append("raw fn=%s m=%d k=%d parts=%s" % (fn, rng.randrange(2), rng.randrange(len(parts)), "+".join(s_part(p) for p in parts)))
            continue
        fn = rng.choice(fnsn)
        parts = [rnd_part(rng, hi) for _ in range(rng.choice([0, 1, 2, 3, 5]))]
        shape = [rnd_tri(rng, hi, 0.0) for _ in range(rng.choice([0, 1, 3, 6, 10]))]
        if rng.random() < 0.6 and parts:
            # partitions that really hold shape triangles (some rotated, some twice, some foreign)
            for t in shape:
                if rng.random() < 0.8:
                    q = rng.choice(parts)
                    r = rng.randrange(3)
                    q["tt"] = q["tt"] + [(t[r], t[(r + 1) % 3], t[(r + 2) % 3])]
        nps = len(parts)
        tpn = rng.choice([len(shape), len(shape), 0, len(shape) + 1])
        tp = [rng.randrange(-2, nps + 2) for _ in range(tpn)]
        line = "raw fn=%s m=%d tp=%s parts=%s shape=%s" % (fn, rng.randrange(2), ",".join(map(str, tp)), "+".join(s_part(p) for p in parts), s_tris(shape))
        if rng.random() < 0.15:
            line += " np=%d" % rng.randrange(0, nps + 3)
        if fn == "del":
            r = rng.random()
            if r < 0.6:
                arg = sorted(rng.sample(range(nps + 1), rng.randrange(0, nps + 2)))
            else:
                arg = [rng.randrange(0, nps + 3) for _ in range(rng.randrange(0, 5))]
            line += " arg=%s" % ",".join(map(str, arg))
        out.append(line)
    return out


def rnd_mesh(rng, nv, nt):
    tris = []
    for _ in range(nt):
        r = rng.random()
        if r < 0.04 and tris:
            t = rng.choice(tris)                      # duplicate
            k = rng.randrange(3)
            t = (t[k], t[(k + 1) % 3], t[(k + 2) % 3])
        elif r < 0.08:
            a = rng.randrange(nv)
            t = (a, a, rng.randrange(nv))             # degenerate
        else:
            if nv >= 3:
                t = tuple(rng.sample(range(nv), 3))
            else:
                t = tuple(rng.randrange(nv) for _ in range(3))
        tris.append(t)
    return tris


def rnd_weights(rng, nv, nb, maxw, style):
    """per-bone (vertex, k) lists, k/256 is the weight; up to maxw bones per vertex"""
    bones = [[] for _ in range(nb)]
    if nb == 0:
        return bones
    for v in range(nv):
        if rng.random() < 0.08 and style != "spread4":
            continue                                  # unweighted vertex
        cnt = rng.randrange(1, maxw + 1)
        if style == "local":
            base = rng.randrange(nb)
            bs = sorted({(base + rng.randrange(0, 6)) % nb for _ in range(cnt)})
        elif style in ("spread", "spread4"):
            if style == "spread4":
                cnt = 4
            bs = sorted({(v * 4 + i) % nb for i in range(cnt)})
        else:
            bs = sorted(rng.sample(range(nb), min(cnt, nb)))
        for b in bs:
            k = rng.choice([0, 1, 64, 64, 128, 256]) if rng.random() < 0.3 else rng.randrange(0, 257)
            bones[b].append((v, k))
    for b in bones:
        rng.shuffle(b)
    return bones


def s_weights(bones):
    return ";".join(",".join("%d:%d" % e for e in b) for b in bones)


def rnd_ops(rng, ntris, length, nparts_hint=3):
    ops = []
    np_ = nparts_hint
    for _ in range(length):
        k = rng.choice("UUUGGSSSDXXEE")
        if k == "S":
            ninfo = rng.choice([0, 1, 2, 3, 5])
            info = ",".join("%d:%d" % (rng.choice([0, 1, 257]), rng.choice([30, 32, 38, 100, 150, 1000, 5])) for _ in range(ninfo))
            hi = rng.choice([1, 2, 3, 6])
            r = rng.random()
            n = ntris if r < 0.9 else rng.choice([0, ntris + 1, max(0, ntris - 1)])
            tp = []
            for _ in range(n):
                q = rng.random()
                tp.append(-1 if q < 0.1 else (rng.randrange(hi + 3, hi + 12) if q < 0.13 else rng.randrange(0, hi)))
            ops.append("S%s@%s@%d" % (info, ",".join(map(str, tp)), rng.randrange(2)))
            np_ = max(ninfo, hi)
        elif k == "X":
            r = rng.random()
            if r < 0.75:
                ids = sorted(rng.sample(range(np_ + 1), rng.randrange(1, min(3, np_ + 1) + 1)))
            else:
                ids = [rng.randrange(0, np_ + 2) for _ in range(rng.randrange(1, 4))]
            ops.append("X" + ",".join(map(str, ids)))
        else:
            ops.append(k)
    return ops


def gen_hist(rng, count, kind="mixed"):
    out = []
    for _ in range(count):
        ver = rng.choice(VERS)
        if kind == "wide":
            # enough distinct bones per partition to reach every limit (18 / 80 / none) and 256 slots
            nv = rng.choice([30, 60, 100, 140])
            nb = rng.choice([19, 40, 81, 120, 257, 300])
            maxw = rng.choice([4, 4, 8])
            style = rng.choice(["spread", "spread", "any"])
            nt = rng.choice([nv // 2, nv, 2 * nv])
            if ver == "SK" and rng.random() < 0.5:
                nv, nb, maxw, style = 140, rng.choice([257, 280, 300]), 4, "spread4"   # > 256 bones in one LE partition
                nt = 2 * nv
        else:
            nv = rng.choice([1, 2, 3, 5, 8, 13, 24, 40])
            nb = rng.choice([0, 1, 2, 3, 5, 9, 19, 30, 90])
            maxw = rng.choice([1, 2, 4, 5, 8])
            style = rng.choice(["local", "any", "spread"])
            nt = rng.choice([0, 1, 2, 4, 8, 16, 40])
        tris = rnd_mesh(rng, nv, nt)
        bones = rnd_weights(rng, nv, nb, maxw, style)
        api = 1 if rng.random() < 0.15 else 0
        if not api and rng.random() < 0.1 and nb:
            b = rng.randrange(nb)                     # a vertex listed twice by one bone, a negative weight
            if bones[b]:
                bones[b].append((bones[b][0][0], rng.choice([-64, 32, 256])))
        ops = rnd_ops(rng, len(tris), rng.randrange(1, 8))
        if kind == "wide" and (ops[0] != "U" and rng.random() < 0.6 or "U" not in ops):
            ops.insert(0, "U")
        line = "hist ver=%s nv=%d tris=%s nb=%d w=%s api=%d ops=%s reload=%d" % (
            ver, nv, s_tris(tris), nb, s_weights(bones), api, "!".join(ops), 1 if rng.random() < 0.5 else 0)
        if ver in ("FO3", "SK") and rng.random() < 0.15:
            line += " dismember=0"
        out.append(line)
    return out


def parse_kv(line):
    return dict(t.split("=", 1) for t in line.split(" ")[1:] if "=" in t)


def case_facts(case):
    kv = parse_kv(case)
    tris = ss.parse_tris(kv.get("tris", ""))
    nb = int(kv.get("nb", "0"))
    raw = kv.get("w", "").split(";") if kv.get("w") else []
    raw += [""] * (nb - len(raw))
    bones = []
    api = kv.get("api") == "1"
    for b in range(nb):
        lst = [tuple(int(x) for x in e.split(":")) for e in raw[b].split(",") if e]
        if api:
            last = {}
            for v, k in lst:
                last[v] = k
            lst = [(v, k) for v, k in last.items() if k >= 1]
        bones.append([(v, k / 256.0) for v, k in lst])
    nonneg = all(w >= 0 for b in bones for _, w in b)
    ops = [o for o in kv.get("ops", "").split("!") if o]
    return {"ver": kv.get("ver"), "tris": tris, "nv": int(kv.get("nv", "0")), "bones": bones, "nonneg": nonneg, "ops": ops,
            "reload": kv.get("reload") == "1", "maxper": max([0] + [sum(1 for b in bones for v, _ in b if v == u) for u in {v for b in bones for v, _ in b}])}


# --------------------------------------------------------------------------------------------
# running and judging


def run_parallel(binp, fam, cases, timeout_per_batch, batch):
    if not cases:
        return []
    n = max(1, min(vlib.NPROC, (len(cases) + 49) // 50))
    chunks = [cases[k::n] for k in range(n)]
    with cf.ThreadPoolExecutor(max_workers=n) as ex:
        res = list(ex.map(lambda ch: vlib.run_cases_robust(binp, [fam], ch, timeout_per_batch=timeout_per_batch, batch=batch), chunks))
    out = [None] * len(cases)
    for k, r in enumerate(res):
        out[k::n] = r
    return out


def model_steps(ml):
    body = ml[2:].rsplit(" S=", 1)[0] if ml else ""
    return body.split(" | ")


def known_match(known, fact):
    """fact: dict of observed attributes; a finding matches when every key of its matcher agrees"""
    hits = []
    for k in known:
        m = k.get("match", {})
        if all(fact.get(a) == b if not isinstance(b, list) else fact.get(a) in b for a, b in m.items()):
            hits.append(k["id"])
    return hits


def judge(rep, stats, case, il, crash, ml):
    known = rep.known
    if case.startswith("raw"):
        stats["raw"] += 1
        isteps = [il[2:]] if il else [""]
        msteps = model_steps(ml)
        I, M = ss.parse_step(isteps[0]), ss.parse_step(msteps[0])
        if crash is not None or I is None:
            # a method of Skin.cpp failed on some partition state: fine exactly when the model faults too
            if M is None and msteps[0] in ("FAULT",):
                stats["raw_fault_agreed"] += 1
                stats["dist"]["raw:fault"] = stats["dist"].get("raw:fault", 0) + 1
                return
            stats["mismatch"].append({"case": case, "impl": (il or "")[:300], "model": ml[:300], "crash": crash})
            return
        fn = parse_kv(case).get("fn")
        stats["dist"]["raw:" + fn] = stats["dist"].get("raw:" + fn, 0) + 1
        if not ss.same_step(I, M):
            stats["mismatch"].append({"case": case, "impl": il[:400], "model": ml[:400]})
            return
        stats["validated"] += 1
        # non-trivial: the method changed the partition block (weights are printed differently, so
        # they are left out of this comparison)
        kvc = parse_kv(case)
        before = [dict(ss.parse_part(x), vw=None) for x in kvc.get("parts", "").split("+")] if kvc.get("parts") else []
        tpb = [int(x) for x in kvc.get("tp", "").split(",")] if kvc.get("tp") else []
        if [dict(x, vw=None) for x in I["parts"]] != before or I["tp"] != tpb:
            stats["nontriv"].add(case)
        return
    # hist
    stats["hist"] += 1
    f = case_facts(case)
    isteps = (il[2:] if il else "").split(" | ")
    msteps = model_steps(ml)
    judge_steps(rep, stats, case, f, isteps, msteps, crash)


def judge_steps(rep, stats, case, f, isteps, msteps, crash):
    known = rep.known
    nops = len(f["ops"])
    prev = ss.parse_step(isteps[0])
    if prev is None:
        stats["harness_err"].append({"case": case, "impl": (il or "")[:200], "crash": crash})
        return
    if not ss.same_step(prev, ss.parse_step(msteps[0]) if msteps else None):
        stats["mismatch"].append({"case": case, "step": 0, "impl": isteps[0][:300], "model": (msteps[0] if msteps else "")[:300]})
        return
    changed = False
    mism = None          # first step where the implementation and the model differ
    for j, op in enumerate(f["ops"]):
        it = isteps[j + 1] if j + 1 < len(isteps) else ""
        mt = msteps[j + 1] if j + 1 < len(msteps) else ""
        cur = ss.parse_step(it)
        mcur = ss.parse_step(mt)
        key = "%s:%s" % (f["ver"], op[0])
        stats["dist"][key] = stats["dist"].get(key, 0) + 1
        if cur is None:
            # the implementation crashed (sanitizer) in this step
            fact = {"op": op[0], "ver": f["ver"], "crash": True, "model_faults": mism is None and mt == "FAULT",
                    "pre_partitions": len(prev["parts"]), "pre_zero_partitions": len(prev["parts"]) == 0,
                    "has_triangles": len(f["tris"]) > 0, "pre_triparts_current": len(prev["tp"]) == len(f["tris"]),
                    "pre_dismember": "none" if prev["dis"] is None else ("short" if len(prev["dis"]) < len(prev["parts"]) else ("long" if len(prev["dis"]) > len(prev["parts"]) else "aligned"))}
            hits = known_match(known, fact)
            if hits:
                for h in hits:
                    rep.known_finding(h, case)
                    stats["known"][h] = stats["known"].get(h, 0) + 1
            else:
                stats["crashes"].append({"case": case, "step": j + 1, "op": op, "crash": crash, "model": mt[:200], "fact": fact})
            return
        if mism is None and not ss.same_step(cur, mcur):
            mism = {"case": case, "step": j + 1, "op": op, "impl": it[:600], "model": mt[:600]}
            stats["mismatch"].append(mism)
        if it != isteps[j]:
            changed = True
        if op[0] == "U" and len(cur["parts"]) > len(prev["parts"]):
            stats["splits"] += 1
        # the property itself, on the implementation's own dumps (whatever the model says)
        errs = ss.step_errors(f["ver"], f["tris"], f["nv"], f["bones"], f["nonneg"], prev, op, cur)
        stats["spec_evals"] += 1
        if errs:
            wide = [len(p["bones"]) for p in cur["parts"] if len(p["bones"]) > 256]
            fact = {"op": op[0], "ver": f["ver"], "crash": False, "impl_agrees_with_model": mism is None,
                    "partition_over_256_bones": bool(wide), "only_slot_errors": all("slot" in e_ for e_ in errs),
                    "only_unassigned_as_zero": all("instead of -1" in e_ for e_ in errs),
                    "duplicate_triangles": len({ss.rot(t) for t in f["tris"]}) < len(f["tris"]),
                    "pre_triparts_current": len(prev["tp"]) == len(f["tris"])}
            hits = known_match(known, fact)
            if hits:
                for h in hits:
                    rep.known_finding(h, case)
                    stats["known"][h] = stats["known"].get(h, 0) + 1
            else:
                stats["specfail"].append({"case": case, "step": j + 1, "op": op, "errors": errs[:4], "before": isteps[j][:400], "after": it[:400]})
                return
        prev = cur
    if mism is not None:
        return
    stats["validated"] += 1
    if changed:
        stats["nontriv"].add(case)
    if f["reload"] and len(isteps) >= nops + 3:
        sv, rl = isteps[nops + 1], isteps[nops + 2]
        stats["reloads"] += 1
        if not sv.startswith("SAVED rc=0") or not rl.startswith("RELOAD rc=0"):
            stats["specfail"].append({"case": case, "errors": ["save/reload of the edited model failed: %s / %s" % (sv[:20], rl[:20])]})
            return
        errs = ss.reload_errors(f["ver"], f["tris"], f["nv"], ss.parse_step(sv.split(" ", 2)[2]), ss.parse_step(rl.split(" ", 2)[2]))
        stats["spec_evals"] += 1
        if errs:
            lost = any("hasFaces = false" in e_ for e_ in errs)
            # (a partition that lost its triangles leaves them unassigned, which the reloaded file then reports as partition 0)
            fact = {"op": "reload", "ver": f["ver"], "crash": False,
                    "only_lost_faces": lost and all("hasFaces = false" in e_ or "instead of -1" in e_ for e_ in errs),
                    "only_unassigned_as_zero": (not lost) and all("instead of -1" in e_ for e_ in errs)}
            hits = known_match(known, fact)
            if hits:
                for h in hits:
                    rep.known_finding(h, case)
                    stats["known"][h] = stats["known"].get(h, 0) + 1
            else:
                stats["specfail"].append({"case": case, "step": "reload", "errors": errs[:4], "saved": sv[:400], "reloaded": rl[:400]})
    elif f["reload"] and crash is not None:
        stats["crashes"].append({"case": case, "step": "save/reload", "crash": crash})


SAMPLES = ["TestNifFile_Skinned_SE.nif", "TestNifFile_Skinned_OB.nif", "TestNifFile_Skinned_Dynamic_SE.nif",
           "TestNifFile_Optimize_LE_to_SE.nif", "TestNifFile_Optimize_SE_to_LE.nif", "TestNifFile_Optimize_Dynamic_LE_to_SE.nif",
           "TestNifFile_Optimize_Dynamic_SE_to_LE.nif", "TestNifFile_Skinned_NoNiSkinDataWeights.nif"]


def file_header(seg):
    """'FILE ver=.. nv=.. hastris=.. bs=.. tris=.. wx=..' -> facts"""
    kv = dict(t.split("=", 1) for t in seg.split(" ")[1:] if "=" in t)
    bones = []
    for b in kv.get("wx", "").split(";") if kv.get("wx", "") != "" else []:
        lst = []
        for e in b.split(","):
            if e:
                v, m, ex = e.split(":")
                lst.append((int(v), int(m) * 2.0 ** int(ex)))
        bones.append(lst)
    return kv, {"ver": kv["ver"], "tris": ss.parse_tris(kv.get("tris", "")), "nv": int(kv["nv"]), "bones": bones,
                "nonneg": all(w >= 0 for b in bones for _, w in b), "reload": False}


def gen_file_cases(impl_bin, rng, per_shape, env):
    """histories on the skinned shapes of the sample files (the triangle count is probed first)"""
    probes = ["file name=%s k=%d ops=" % (n, k) for n in SAMPLES for k in (0, 1)]
    pr = vlib.run_cases_robust(impl_bin, ["skin"], probes, timeout_per_batch=300, batch=4, env=env)
    cases = []
    for (c, il, crash) in pr:
        if crash is not None or not il or not il.startswith("I=FILE"):
            continue
        kv, f = file_header(il[2:].split(" | ")[0])
        if f["ver"] not in LIMIT_VERS:
            continue
        for _ in range(per_shape):
            ops = rnd_ops(rng, len(f["tris"]), rng.randrange(1, 6), 2)
            if rng.random() < 0.5:
                ops.insert(0, "U")
            cases.append(c[:-len("ops=")] + "ops=" + "!".join(ops))
    return cases


def run_file_cases(rep, stats, impl_bin, model_bin, cases, env):
    """the model starts from the implementation's dump of the loaded state"""
    if not cases:
        return
    n = max(1, min(vlib.NPROC, len(cases)))
    chunks = [cases[k::n] for k in range(n)]
    with cf.ThreadPoolExecutor(max_workers=n) as ex:
        parts = list(ex.map(lambda ch: vlib.run_cases_robust(impl_bin, ["skin"], ch, timeout_per_batch=600, batch=8, env=env), chunks))
    res = [None] * len(cases)
    for k, r in enumerate(parts):
        res[k::n] = r
    mcases, keep = [], []
    for (c, il, crash) in res:
        if not il or not il.startswith("I=FILE"):
            stats["harness_err"].append({"case": c, "impl": (il or "")[:200], "crash": crash})
            continue
        segs = il[2:].split(" | ")
        kv, f = file_header(segs[0])
        f["ops"] = [o for o in parse_kv(c).get("ops", "").split("!") if o]
        mcases.append("filem ver=%s nv=%s hastris=%s bs=%s tris=%s wx=%s init=%s ops=%s" % (
            kv["ver"], kv["nv"], kv["hastris"], kv["bs"], kv.get("tris", ""), kv.get("wx", ""), segs[1].replace(" ", "~"), "!".join(f["ops"])))
        keep.append((c, f, segs[1:], crash))
    mres = run_parallel(model_bin, "skin", mcases, 900, 8)
    for (c, f, isteps, crash), (_, ml, mcrash) in zip(keep, mres):
        if mcrash is not None or ml is None or "DRIVER-ERROR" in ml:
            rep.violation("model oracle failed", {"case": c, "model_crash": mcrash, "model": (ml or "")[:300]}, found_input=False)
            continue
        stats["hist"] += 1
        stats["files"] += 1
        judge_steps(rep, stats, c, f, isteps, model_steps(ml), crash)


LIMIT_VERS = ("OB", "FO3", "SK", "SSE")


def new_stats():
    return {"raw": 0, "hist": 0, "validated": 0, "mismatch": [], "specfail": [], "crashes": [], "harness_err": [], "known": {},
            "nontriv": set(), "dist": {}, "spec_evals": 0, "reloads": 0, "raw_fault_agreed": 0, "splits": 0, "files": 0}


def run(tier, seed, replay=None):
    rep = vlib.Reporter(PID, tier, seed)
    hygiene = vlib.coq_hygiene()
    pr = vlib.coq_property(PID)
    cov = vlib.proof_coverage(pr, hygiene)
    if not pr["ok"] or hygiene:
        rep.violation("proof obligations of Properties_C10.v not discharged: " + ",".join(pr["failed"] or hygiene),
                      {"broken": "theorems " + ",".join(pr["failed"]), "log": pr["log"][-3000:], "hygiene": hygiene}, found_input=False)
    impl_bin = vlib.build_oracle("asan")
    model_bin = vlib.build_model_oracle()
    rng = random.Random(seed)
    if replay:
        r = json.load(open(replay))
        cases = [r["case"]] if "case" in r else [c["case"] for c in r.get("cases", [])]
    else:
        corpus = []
        try:
            corpus = [l.strip() for l in open(vlib.ROOT + "/corpus/C10/cases.txt") if l.strip() and not l.startswith("#")]
        except OSError:
            pass
        q = tier == "quick"
        cases = corpus + gen_raw(rng, 8000 if q else 300000) + gen_hist(rng, 3000 if q else 80000) + gen_hist(rng, 250 if q else 5000, "wide")
    stats = new_stats()
    env0 = {"VERIF_SAMPLES": os.path.join(vlib.REPO, "tests", "input")}
    filecases = [c for c in cases if c.startswith("file ")]
    cases = [c for c in cases if not c.startswith("file ")]
    if not replay:
        filecases += gen_file_cases(impl_bin, rng, 3 if tier == "quick" else 40, env0)
    impl = run_parallel(impl_bin, "skin", cases, 600, 400)
    model = run_parallel(model_bin, "skin", cases, 900, 400)
    for (c, il, crash), (_, ml, mcrash) in zip(impl, model):
        if mcrash is not None or ml is None or "DRIVER-ERROR" in ml:
            rep.violation("model oracle failed", {"case": c, "model_crash": mcrash, "model": (ml or "")[:300]}, found_input=False)
            continue
        try:
            judge(rep, stats, c, il, crash, ml)
        except Exception as ex:       # a dump that cannot be read = harness broken
            stats["harness_err"].append({"case": c, "error": repr(ex), "impl": (il or "")[:200]})
    env = {"VERIF_SAMPLES": os.path.join(vlib.REPO, "tests", "input")}
    run_file_cases(rep, stats, impl_bin, model_bin, filecases, env)
    for f in stats["specfail"][:10]:
        # one line per class of failure (numbers masked), the concrete numbers are in the replay file
        rep.violation("skin partition property broken after %s: %s" % (OPNAME.get(str(f.get("op", f.get("step", "")))[:1], str(f.get("step", ""))),
                                                                      re.sub(r"\d+(\.\d+)?", "#", f["errors"][0])), dict(f, family="skin"))
    for f in stats["crashes"][:10]:
        rep.violation("implementation crashed (sanitizer/abort/timeout) in a partition operation outside the recorded classes", dict(f, family="skin"))
    if stats["harness_err"]:
        rep.violation("skin oracle could not run %d case(s) against the current tree" % len(stats["harness_err"]),
                      {"family": "skin", "broken": "harness:o_skin", "cases": stats["harness_err"][:10]}, found_input=False)
    if stats["mismatch"] and not stats["specfail"] and not stats["crashes"]:
        rep.violation("correspondence skin (Coq model SkinModel.v vs Skin.cpp / NifFile.cpp) no longer holds; theorems of Properties_C10.v no longer speak about the code",
                      {"broken": "correspondence:skin", "family": "skin", "cases": stats["mismatch"][:10]}, found_input=False)
    cov.update({
        "evaluations": len(cases) + len(filecases),
        "distinct_nontrivial": len(stats["nontriv"]),
        "rule": "raw: one Skin.cpp method on an arbitrary NiSkinPartition state (fields empty / unsorted / duplicated / out of range, strips, wrong counters, triParts of wrong size, -1 and out-of-range ids); hist: a skinned NiTriShape/BSTriShape built through NifFile's API (OB/FO3/SK/SSE, 1-140 vertices, 0-280 triangles incl. duplicates and degenerate ones, 0-300 bones, 0-8 weights per vertex, k/256 weights incl. 0 and ties) followed by 1-8 operations of U(pdateSkinPartitions) S(et) G(et) D(efault) X(delete) E(remove empty), half of them saved and reloaded; 'wide' histories have enough bones to reach every limit; file: 1-6 operations on every skinned shape of 8 sample files (SE, OB, LE), the model starting from the implementation's dump of the loaded state. non-trivial = some step changed the dump (hist) / the method changed the state (raw); distinct = distinct case lines",
        "samples": [c[:400] for c in (cases[:2] + cases[len(cases) // 2:len(cases) // 2 + 2] + cases[-2:] + filecases[:2])],
        "input_distribution": stats["dist"],
        "traces_validated_against_impl": stats["validated"],
        "spec_evaluated_on_impl_steps": stats["spec_evals"],
        "reloads_checked": stats["reloads"],
        "sample_file_histories": stats["files"],
        "updates_that_split_a_partition": stats["splits"],
        "raw_faults_agreed": stats["raw_fault_agreed"],
        "correspondence_mismatches": len(stats["mismatch"]),
        "spec_failures_on_impl": len(stats["specfail"]),
        "spec_failures_by_known_class": stats["known"],
        "crashes_outside_known_classes": len(stats["crashes"]),
        "unproved": UNPROVED,
        "modelled_not_verified": MODELLED,
        "trusted_base": vlib.BASE_TRUSTED + ["modelled, not verified: std::unordered_map / std::set (association lists, sorted lists), std::sort (stable insertion sort = libstdc++ up to 16 elements), IEEE binary32 arithmetic of the weight normalisation (exact rationals in the model, compared within 1e-5)"],
        "exhaustive": False,
    })
    return rep.finish(cov, ASSUMPTIONS)


UNPROVED = [
    "DeletePartitions with an index list that is not strictly ascending (outside the documented precondition): which partitions remain is correspondence only (proved for them: every remaining partition is one of the old ones, and the numTriangles invariant is kept - C10_counter_invariant_step)",
    "PrepareTrueTriangles for partitions that still carry strips (NifFile::Load of OB files): totality is proved for strip-free partitions only; strips are covered by the raw correspondence cases and C18_strips_correct",
    "save + reload (NiSkinPartition::Sync, PrepareData, RemoveInvalidTris) is not modelled in Coq: the property is evaluated on the reloaded dumps only",
    "numStrips / stripLengths and the partition flags hasFaces/hasVertexWeights/... are modelled and compared on every case but no theorem is stated about them. The numTriangles counter IS proved (coq/Skin/SkinCounters.v): the invariant ks_cnt_inv (numTriangles = number of true triangles; for partitions whose true triangles are not generated yet: numTriangles = length of the triangle list and everything fits the uint16_t counter) is established from ANY state by UpdateSkinPartitions / SetShapePartitions / SetDefaultPartition and preserved by every modelled operation incl. DeletePartitions with any index list and the lazy PrepareTrueTriangles path (C10_counter_invariant_step, _reachable, _run, _run_from_any_state), for shapes with fewer than 65536 triangles and no corner 65535; so RemoveEmptyPartitions loses no triangle in any reachable state (C10_remove_empty_keeps_cover_reachable, C10_remove_empty_loses_no_triangle) without the counter hypothesis. Both bounds are necessary: C10_remove_empty_keeps_cover_refuted_65536 (SetDefaultPartition on 65536 triangles: numTriangles wraps to 0, all triangles would be dropped; a Coq vm_compute witness only: a replay attempt through the harness' CreateShapeFromData route yields a shape capped at 65535 triangles, numTriangles = 65535, nothing lost, and the extracted model needs more than 15 minutes on that size) and C10_remove_empty_keeps_cover_refuted_corner_65535 (the known empty-vertex-map case of corpus/C10)",
]
MODELLED = [
    "float weights: the model normalises over Q; the implementation's binary32 results are compared within 1e-5 (generated weights are k/256, so the sums are exact and only the division rounds). weights_normalised is a statement about exact arithmetic: PARTIAL with respect to IEEE rounding",
    "std::sort with BoneWeightsSort: modelled as the stable insertion sort libstdc++ runs for at most 16 elements; with more than 16 weights on one vertex the order among EQUAL weights is unspecified and not modelled (generated cases have at most 8 weights per vertex)",
    "std::unordered_map / std::set: association lists and strictly ascending lists",
    "save + reload (NiSkinPartition::Sync, PrepareData): not modelled in Coq; the property is evaluated on the reloaded dump by tools/skinspec.py",
    "SSE vertex data copy (NiSkinPartition::vertData, vertexDesc), lodLevel, globalVB: left out of the model (only copied)",
]
ASSUMPTIONS = [
    "UpdateSkinPartitions theorems: ks_update_accepts = the shape has triangles; behind PrepareTriParts triParts has one entry per triangle and every entry is below the partition count (negative = unassigned) - met when triParts is current and in range (after SetShapePartitions / DeletePartitions / a previous UpdateSkinPartitions) or regenerated (C10_prepare_triparts_regenerated; no partition at all is fine since the repair of GenerateTriPartsFromTrueTriangles: C10_update_without_partitions); the dismember list, when present, has one entry per partition (kept by every partition operation: C10_set_partitions, C10_set_default_partition, C10_delete_partitions, C10_remove_empty_partitions, C10_dismember_aligned_update); no triangle corner is 65535; partitions + triangles < 2^31. Outside it the model faults exactly where the real code crashes (known finding C10-dismember-misaligned-crash).",
    "bone_slots_valid additionally assumes at most 256 bones in the partition (uint8_t slot): implied by the bone limit for OB/FO3/SSE (C10_limit_implies_slots), a real hypothesis for Skyrim LE where it is refuted without it (C10_bone_slots_valid_refuted_sk; known finding C10-le-bone-slot-wrap); at most 65536 bones per shape (uint16_t boneIndex) is built into the model's wrap",
    "weights_normalised assumes non-negative input weights and speaks about exact rational arithmetic (partial: IEEE rounding not modelled)",
    "SetShapePartitions: fewer than 2^31-2 partition infos and ids below 2^31-3 (no C integer conversion wraps; ids of that size would need that many PartitionBlocks anyway), and one id per triangle (otherwise GenerateTrueTrianglesFromTriParts leaves the partitions alone)",
    "DeletePartitions: strictly ascending, non-empty index list (documented precondition); numPartitions < 2^31",
    "generators: no corner equal to 65535 (the uint16_t loop bound of GenerateVertexMapFromTrueTriangles wraps to 0: the vertex map comes out empty, replayed in corpus/C10), fewer than 2^31 triangles per partition, fewer than 65536 vertex map entries",
]
