"""Shared machinery of the nifly verification checks (see DESIGN.md section 4).

Builds the implementation oracle from /repo's current working tree (content-keyed cache under
/verif/_work), the Coq project, the extracted model oracle; runs both oracles; writes evidence;
prints VIOLATION / KNOWN-FINDING lines.
"""
import concurrent.futures as cf
import glob
import hashlib
import json
import os
import re
import shutil
import subprocess
import sys
import time

ROOT = os.path.dirname(os.path.dirname(os.path.abspath(__file__)))
REPO = os.environ.get("NIFLY_REPO", "/repo")
WORK = os.path.join(ROOT, "_work")
COQ = os.path.join(ROOT, "coq")
OCAML = os.path.join(ROOT, "ocaml")
HARNESS = os.path.join(ROOT, "harness")
GUARD = "NIFLY_VERIF_HOOKS"
NPROC = os.cpu_count() or 4

FLAVOURS = {
    # name: (compiler, flags)
    "plain": ("g++", ["-std=c++17", "-O1", "-g0", "-w", "-D" + GUARD]),
    "asan": ("g++", ["-std=c++17", "-O0", "-g1", "-w", "-D" + GUARD, "-fsanitize=address,undefined",
                     "-fno-sanitize-recover=all", "-fsanitize-recover=bool,enum", "-fno-omit-frame-pointer"]),
}


def log(msg):
    print("[verif] " + msg, file=sys.stderr, flush=True)


def _big_stack(want=1 << 30):
    # extracted list functions are not tail recursive: give child processes a large stack
    import resource
    try:
        soft, hard = resource.getrlimit(resource.RLIMIT_STACK)
        if hard != resource.RLIM_INFINITY:
            want = min(want, hard)
        resource.setrlimit(resource.RLIMIT_STACK, (want, hard))
    except Exception:
        pass


def _limits(mem_gb, stack=1 << 30):
    def f():
        _big_stack(stack)
        if mem_gb:
            import resource
            try:
                resource.setrlimit(resource.RLIMIT_AS, (int(mem_gb * (1 << 30)), int(mem_gb * (1 << 30))))
            except Exception:
                pass
    return f


def _stack_for(cmd):
    # the C++ oracles keep an ordinary stack (64 MB): a runaway recursion then overflows quickly and the
    # sanitizer can still unwind it; only the extracted OCaml model needs the very large one
    c = cmd if isinstance(cmd, str) else " ".join(map(str, cmd[:1]))
    return (64 << 20) if "nifly_oracle-" in c else (1 << 30)


def sh(cmd, timeout=1800, cwd=None, inp=None, env=None, mem_gb=None):
    """Run a command, return (rc, stdout, stderr). rc = -9 on timeout. mem_gb: address-space limit
    (not for ASan binaries, which reserve terabytes of virtual memory)."""
    try:
        p = subprocess.run(cmd, cwd=cwd, input=inp, capture_output=True, timeout=timeout, env=env,
                           shell=isinstance(cmd, str), preexec_fn=_limits(mem_gb, _stack_for(cmd)))
        return p.returncode, p.stdout.decode("utf-8", "replace"), p.stderr.decode("utf-8", "replace")
    except subprocess.TimeoutExpired as e:
        out = (e.stdout or b"").decode("utf-8", "replace")
        err = (e.stderr or b"").decode("utf-8", "replace")
        return -9, out, err + "\n[timeout after %ss]" % timeout


def sha(*parts):
    h = hashlib.sha256()
    for p in parts:
        if isinstance(p, str):
            p = p.encode()
        h.update(p)
        h.update(b"\0")
    return h.hexdigest()[:20]


def file_bytes(path):
    with open(path, "rb") as f:
        return f.read()


# ------------------------------------------------------------------------------------------------
# implementation build


def repo_headers_key(repo=None):
    repo = repo or REPO
    hs = sorted(glob.glob(os.path.join(repo, "include", "*.hpp")) + glob.glob(os.path.join(repo, "external", "*.hpp")))
    return sha(*[os.path.basename(h) + ":" + hashlib.sha256(file_bytes(h)).hexdigest() for h in hs])


def _compile_one(args):
    comp, flags, src, obj, incs = args
    if os.path.exists(obj):
        return (src, 0, "")
    tmp = obj + ".tmp%d" % os.getpid()
    cmd = [comp] + flags + incs + ["-c", src, "-o", tmp]
    rc, out, err = sh(cmd, timeout=1500)
    if rc == 0:
        os.replace(tmp, obj)
    return (src, rc, err)


def build_impl(flavour="plain", repo=None, extra_key=""):
    """Compile repo/src/*.cpp (hooks ON) with per-TU caching; return list of object files."""
    repo = repo or REPO
    comp, flags = FLAVOURS[flavour]
    objdir = os.path.join(WORK, "obj", flavour)
    os.makedirs(objdir, exist_ok=True)
    hk = repo_headers_key(repo)
    incs = ["-I" + os.path.join(repo, "include"), "-I" + os.path.join(repo, "external")]
    jobs, objs = [], []
    for src in sorted(glob.glob(os.path.join(repo, "src", "*.cpp"))):
        key = sha(comp, " ".join(flags), hk, file_bytes(src), extra_key)
        obj = os.path.join(objdir, os.path.basename(src)[:-4] + "-" + key + ".o")
        objs.append(obj)
        jobs.append((comp, flags, src, obj, incs))
    # biggest first
    jobs.sort(key=lambda j: -os.path.getsize(j[2]))
    t0 = time.time()
    with cf.ThreadPoolExecutor(max_workers=NPROC) as ex:
        res = list(ex.map(_compile_one, jobs))
    bad = [(s, e) for (s, rc, e) in res if rc != 0]
    if bad:
        raise BuildError("implementation does not compile:\n" + "\n".join(s + ":\n" + e[-3000:] for s, e in bad))
    _prune(objdir, keep=set(objs), max_files=80)
    log("impl objects (%s) ready in %.1fs" % (flavour, time.time() - t0))
    return objs


class BuildError(Exception):
    pass


def _prune(d, keep, max_files, min_age_s=3600):
    """drop the oldest cache entries beyond max_files, but never one younger than min_age_s
    (another check running concurrently may still be using it)"""
    now = time.time()
    files = sorted(glob.glob(os.path.join(d, "*")), key=os.path.getmtime)
    extra = [f for f in files if f not in keep]
    while len(extra) + len(keep) > max_files and extra:
        f = extra.pop(0)
        try:
            if now - os.path.getmtime(f) < min_age_s:
                break
            os.remove(f)
        except OSError:
            pass


def build_oracle(flavour="plain", repo=None):
    """Build nifly_oracle (harness/*.cpp + implementation objects). Returns the binary path."""
    repo = repo or REPO
    comp, flags = FLAVOURS[flavour]
    objs = build_impl(flavour, repo)
    hk = repo_headers_key(repo)
    hdir = os.path.join(WORK, "hobj", flavour)
    os.makedirs(hdir, exist_ok=True)
    hh = sha(*[file_bytes(h) for h in sorted(glob.glob(os.path.join(HARNESS, "*.hpp")))])
    incs = ["-I" + os.path.join(repo, "include"), "-I" + os.path.join(repo, "external"), "-I" + os.path.join(repo, "src"), "-I" + HARNESS]
    jobs, hobjs = [], []
    for src in sorted(glob.glob(os.path.join(HARNESS, "*.cpp"))):
        key = sha(comp, " ".join(flags), hk, hh, file_bytes(src))
        obj = os.path.join(hdir, os.path.basename(src)[:-4] + "-" + key + ".o")
        hobjs.append(obj)
        jobs.append((comp, flags, src, obj, incs))
    with cf.ThreadPoolExecutor(max_workers=NPROC) as ex:
        res = list(ex.map(_compile_one, jobs))
    bad = [(s, e) for (s, rc, e) in res if rc != 0]
    if bad:
        raise BuildError("oracle harness does not compile against the current tree:\n" + "\n".join(s + ":\n" + e[-3000:] for s, e in bad))
    _prune(hdir, keep=set(hobjs), max_files=60)
    bindir = os.path.join(WORK, "bin")
    os.makedirs(bindir, exist_ok=True)
    key = sha(*(objs + hobjs))
    binp = os.path.join(bindir, "nifly_oracle-%s-%s" % (flavour, key))
    if not os.path.exists(binp):
        link_flags = [f for f in flags if f.startswith("-fsanitize") or f.startswith("-fno-sanitize")]
        tmpb = "%s.tmp%d" % (binp, os.getpid())
        rc, out, err = sh([comp] + link_flags + hobjs + objs + ["-o", tmpb, "-lpthread"], timeout=600)
        if rc != 0:
            raise BuildError("link failed:\n" + err[-3000:])
        os.replace(tmpb, binp)
    else:
        try:
            os.utime(binp)          # in use now: keeps it out of a concurrent run's pruning
        except OSError:
            pass
    _prune(bindir, keep={binp}, max_files=6, min_age_s=4 * 3600)
    return binp


# ------------------------------------------------------------------------------------------------
# Coq


FORBIDDEN = re.compile(r"\b(Admitted|admit|Axiom|Axioms|Parameter|Parameters|Conjecture|Conjectures|Abort)\b|Unset\s+Guard|bypass_check|-type-in-type|impredicative-set|Unset\s+Universe|Unset\s+Positivity|Admit\s+Obligations")


def coq_hygiene():
    """grep the development for anything that would declare an axiom or switch off a kernel check"""
    hits = []
    for v in sorted(glob.glob(os.path.join(COQ, "**", "*.v"), recursive=True)):
        txt = open(v, encoding="utf-8").read()
        # strip comments
        txt2 = _strip_coq_comments(txt)
        for m in FORBIDDEN.finditer(txt2):
            line = txt2.count("\n", 0, m.start()) + 1
            hits.append("%s:%d:%s" % (os.path.relpath(v, ROOT), line, m.group(0)))
        # Variable / Hypothesis outside a section
        depth = 0
        for ln, l in enumerate(txt2.split("\n"), 1):
            s = l.strip()
            if re.match(r"(Section|Module Type|Module)\s+\w+", s) and not s.startswith("Module Import") and ":=" not in s:
                depth += 1
            elif re.match(r"End\s+\w+\s*\.", s):
                depth = max(0, depth - 1)
            elif depth == 0 and re.match(r"(Variable|Variables|Hypothesis|Hypotheses|Context)\b", s):
                hits.append("%s:%d:%s outside a section" % (os.path.relpath(v, ROOT), ln, s.split()[0]))
    return hits


def _strip_coq_comments(txt):
    out, depth, i, n = [], 0, 0, len(txt)
    instr = False
    while i < n:
        if not instr and txt.startswith("(*", i):
            depth += 1
            i += 2
            continue
        if not instr and depth > 0 and txt.startswith("*)", i):
            depth -= 1
            i += 2
            continue
        c = txt[i]
        if depth == 0:
            if c == '"':
                instr = not instr
            out.append(c)
        elif c == "\n":
            out.append(c)
        i += 1
    return "".join(out)


def write_if_changed(path, content):
    try:
        if open(path).read() == content:
            return False
    except OSError:
        pass
    os.makedirs(os.path.dirname(path), exist_ok=True)
    tmp = "%s.tmp%d" % (path, os.getpid())
    with open(tmp, "w") as f:
        f.write(content)
    os.replace(tmp, path)
    return True


def gen_project():
    """_CoqProject lists every .v under coq/ except Extract/ (extraction runs from ocaml/)."""
    vs = sorted(os.path.relpath(v, COQ) for v in glob.glob(os.path.join(COQ, "**", "*.v"), recursive=True))
    vs = [v for v in vs if not v.startswith("Extract/") and not v.startswith("Gen/Q")]   # Gen/Q*.v: scratch queries
    write_if_changed(os.path.join(COQ, "_CoqProject"), "-Q . NiflyVerif\n" + "\n".join(vs) + "\n")


def gen_extract():
    """returns (Extract.v text, main.ml text, module names, family list). Extract.v is assembled from the
    per-family fragments coq/Extract/*.names (line 1: modules to import, remaining lines: constants)."""
    mods, names = [], []
    only = [x for x in os.environ.get("VERIF_FAMILIES", "").split(",") if x]   # development aid: build a subset
    for f in sorted(glob.glob(os.path.join(COQ, "Extract", "*.names"))):
        if only and os.path.basename(f)[:-6] not in only:
            continue
        lines = [l.strip() for l in open(f) if l.strip() and not l.startswith("#")]
        mods += lines[0].split()
        for l in lines[1:]:
            names += l.split()
    mods = list(dict.fromkeys(mods))
    names = list(dict.fromkeys(names))
    txt = ("(* GENERATED by tools/vlib.py from coq/Extract/*.names -- do not edit.\n"
           "   All extraction happens here. Only ExtrOcamlBasic is used: bool, option, prod, list, unit,\n"
           "   sumbool map to OCaml's; nat, positive, N, Z stay the extracted inductive types.\n"
           "   No Extract Constant / Extract Inductive directives of our own. *)\n"
           "From Coq Require Extraction.\nFrom Coq Require Import ExtrOcamlBasic.\n"
           "From NiflyVerif Require Import " + " ".join(mods) + ".\n\n"
           "Extraction Language OCaml.\nExtraction \"model.ml\"\n  " + "\n  ".join(names) + ".\n")
    # main.ml dispatches on the family name = suffix of d_<family>.ml
    fams = sorted(os.path.basename(f)[2:-3] for f in glob.glob(os.path.join(OCAML, "d_*.ml")))
    if only:
        fams = [f for f in fams if f in only]
    main = ("(* GENERATED by tools/vlib.py *)\nlet () =\n"
            "  if Array.length Sys.argv < 2 then (prerr_endline \"usage: model_oracle <family> < cases\"; exit 2);\n"
            "  match Sys.argv.(1) with\n"
            + "".join("  | \"%s\" -> D_%s.main ()\n" % (f, f) for f in fams)
            + "  | f -> prerr_endline (\"unknown family \" ^ f); exit 2\n")
    return txt, main, mods, fams


def gen_ir(tags=("Cur",)):
    """(re)generate the SyncIR model(s) of the source tree(s); cached on the tree's content"""
    sys.path.insert(0, os.path.join(ROOT, "tools"))
    import gen_ir as G
    out = {}
    for t in tags:
        out[t] = G.generate(REPO if t == "Cur" else os.path.join(ROOT, "reference"), t)
    return out


def coq_makefile():
    if not os.path.exists(os.path.join(COQ, "Gen", "IRCur.v")) or not os.path.exists(os.path.join(COQ, "Gen", "IRRef.v")):
        gen_ir(("Cur",))
    gen_project()
    mk = os.path.join(COQ, "Makefile")
    proj = os.path.join(COQ, "_CoqProject")
    if not os.path.exists(mk) or os.path.getmtime(mk) < os.path.getmtime(proj):
        rc, out, err = sh(["coq_makefile", "-f", "_CoqProject", "-o", "Makefile"], cwd=COQ, timeout=120)
        if rc != 0:
            raise BuildError("coq_makefile failed: " + err)


def coq_make(targets, timeout=1500):
    """make -k the given .vo targets. Returns (rc, log)."""
    coq_makefile()
    cmd = ["make", "-k", "-j%d" % NPROC] + list(targets)
    rc, out, err = sh(cmd, cwd=COQ, timeout=timeout)
    return rc, out + err


def coq_property(pid, extra_targets=(), timeout=1500):
    """Re-check Properties/Properties_<pid>.v (always recompiled) and report its obligations.

    Returns dict: theorems (names, in order), assumptions {name: [axioms]}, ok (bool), log, cmd,
    failed (names of theorems not checked)."""
    rel = "Properties/Properties_%s.v" % pid
    path = os.path.join(COQ, rel)
    src = _strip_coq_comments(open(path, encoding="utf-8").read())
    theorems = re.findall(r"^\s*(?:Theorem|Corollary)\s+(\w+)", src, re.M)
    printed = re.findall(r"Print Assumptions\s+(\w+)", src)
    # dependencies first (cached by make), then the property file itself, forced
    deps_rc, deps_log = coq_make([rel + "o"] + list(extra_targets), timeout=timeout)
    vo = path + "o"
    cmd = ["coqc", "-Q", ".", "NiflyVerif", rel]
    t0 = time.time()
    rc, out, err = sh(cmd, cwd=COQ, timeout=timeout)
    res = {"theorems": theorems, "assumptions": {}, "ok": rc == 0, "log": (deps_log if deps_rc != 0 else "") + out + err,
           "cmd": "cd coq && make -k -j%d %so && %s" % (NPROC, rel, " ".join(cmd)), "failed": [], "wall": time.time() - t0}
    # parse Print Assumptions blocks in order
    blocks = re.split(r"(?m)^(?=Closed under the global context|Axioms:)", out)
    blocks = [b for b in blocks if b.startswith("Closed") or b.startswith("Axioms:")]
    for name, b in zip(printed, blocks):
        if b.startswith("Closed"):
            res["assumptions"][name] = []
        else:
            axs = re.findall(r"(?m)^([\w.']+)\s*:", b)
            res["assumptions"][name] = axs
    if rc != 0:
        m = re.search(r'line (\d+), characters', err)
        failing_line = int(m.group(1)) if m else 0
        # theorems declared at or after the failing position are not discharged
        full = open(path, encoding="utf-8").read().split("\n")
        done = set()
        for name in theorems:
            for ln, l in enumerate(full, 1):
                if re.match(r"\s*(Theorem|Corollary)\s+%s\b" % re.escape(name), l):
                    # a theorem is done if its Qed comes before the failing line
                    q = next((k for k in range(ln, len(full) + 1) if re.search(r"\b(Qed|Defined)\.", full[k - 1])), None)
                    if failing_line and q and q < failing_line:
                        done.add(name)
                    break
        res["failed"] = [t for t in theorems if t not in done]
    return res


def build_model_oracle(timeout=900):
    """Extract and build model_oracle in a private scratch directory (several checks may build at the
    same time). Returns the path of the binary, cached on the content of everything that goes in."""
    gen_ir(("Cur",))
    ext_txt, main_txt, mods, fams = gen_extract()
    coq_makefile()
    vfiles = {os.path.basename(v)[:-2]: os.path.relpath(v, COQ) for v in glob.glob(os.path.join(COQ, "**", "*.v"), recursive=True)}
    targets = [vfiles[n] + "o" for n in mods if n in vfiles]
    rc, lg = coq_make(targets, timeout=timeout)
    if rc != 0:
        raise BuildError("Coq model files do not compile:\n" + lg[-4000:])
    drivers = ["d_%s.ml" % f for f in fams]
    key = sha(ext_txt, main_txt, *[file_bytes(os.path.join(COQ, vfiles[n])) for n in mods if n in vfiles],
              file_bytes(os.path.join(OCAML, "conv.ml")), *[file_bytes(os.path.join(OCAML, d)) for d in drivers])
    bindir = os.path.join(WORK, "bin")
    os.makedirs(bindir, exist_ok=True)
    binp = os.path.join(bindir, "model_oracle-" + key)
    if os.path.exists(binp):
        return binp
    tmp = os.path.join(WORK, "ocamlbuild", "%s.%d" % (key, os.getpid()))
    os.makedirs(tmp, exist_ok=True)
    try:
        open(os.path.join(tmp, "Extract.v"), "w").write(ext_txt)
        open(os.path.join(tmp, "main.ml"), "w").write(main_txt)
        for f in ["conv.ml"] + drivers:
            shutil.copy(os.path.join(OCAML, f), os.path.join(tmp, f))
        rc, out, err = sh(["coqc", "-Q", COQ, "NiflyVerif", "Extract.v"], cwd=tmp, timeout=timeout)
        if rc != 0:
            raise BuildError("extraction failed:\n" + (out + err)[-4000:])
        mls = ["model.mli", "model.ml", "conv.ml"] + drivers + ["main.ml"]
        rc, out, err = sh(["ocamlfind", "ocamlopt", "-w", "-a"] + mls + ["-o", "model_oracle"], cwd=tmp, timeout=timeout)
        if rc != 0:
            raise BuildError("ocaml build failed:\n" + (out + err)[-4000:])
        os.replace(os.path.join(tmp, "model_oracle"), binp)
        # keep a readable copy of what was extracted
        try:
            shutil.copy(os.path.join(tmp, "Extract.v"), os.path.join(COQ, "Extract", "Extract.v"))
        except OSError:
            pass
    finally:
        shutil.rmtree(tmp, ignore_errors=True)
    for f in glob.glob(os.path.join(bindir, "model_oracle-*")):
        if f != binp:
            try:
                if time.time() - os.path.getmtime(f) > 3600:
                    os.remove(f)
            except OSError:
                pass
    return binp


# ------------------------------------------------------------------------------------------------
# running oracles


def run_lines(binp, args, cases, timeout=600, env=None, mem_gb=None):
    """Feed case lines on stdin; returns (rc, output lines, stderr)."""
    inp = ("\n".join(cases) + "\n").encode()
    e = dict(os.environ)
    e.setdefault("ASAN_OPTIONS", "detect_leaks=0:abort_on_error=0:allocator_may_return_null=1")
    e.setdefault("UBSAN_OPTIONS", "print_stacktrace=1")
    if env:
        e.update(env)
    rc, out, err = sh([binp] + list(args), inp=inp, timeout=timeout, env=e, mem_gb=mem_gb)
    return rc, out.split("\n")[:-1] if out.endswith("\n") else out.split("\n"), err


def run_cases_robust(binp, args, cases, timeout_per_batch=600, batch=2000, env=None, mem_gb=None, single_timeout=None, warnings=None):
    """Run cases in batches; when a batch crashes or hangs, bisect to the crashing case.
    Returns list of (case, output or None, crashinfo or None)."""
    results = []

    def go(chunk, tmo):
        rc, lines, err = run_lines(binp, args, chunk, timeout=tmo, env=env, mem_gb=mem_gb)
        if rc == 0 and len(lines) == len(chunk):
            for c, l in zip(chunk, lines):
                results.append((c, l, None))
            if warnings is not None and "runtime error:" in err:
                # recoverable UBSan reports (bool/enum loads): the run went on, the text is kept
                warnings.append((list(chunk), err[-4000:]))
            return
        if len(chunk) == 1:
            results.append((chunk[0], lines[0] if lines else None, {"rc": rc, "stderr": err[-3000:]}))
            return
        # outputs before the crash are valid
        k = min(len(lines), len(chunk) - 1)
        for c, l in zip(chunk[:k], lines[:k]):
            results.append((c, l, None))
        go([chunk[k]], single_timeout or max(20, tmo // 4))
        if k + 1 < len(chunk):
            go(chunk[k + 1:], tmo)

    for i in range(0, len(cases), batch):
        go(cases[i:i + batch], timeout_per_batch)
    return results


# ------------------------------------------------------------------------------------------------
# known findings, violations, evidence


def load_known():
    p = os.path.join(ROOT, "known_findings.json")
    if not os.path.exists(p):
        return []
    return json.load(open(p))["findings"]


class Reporter:
    def __init__(self, pid, tier, seed):
        self.pid, self.tier, self.seed = pid, tier, seed
        self.t0 = time.time()
        self.violations = []
        self.known_hits = {}
        self.known = [k for k in load_known() if k.get("property") == pid and k.get("status") == "known"]
        self.rdir = os.path.join(WORK, "replays")
        os.makedirs(self.rdir, exist_ok=True)

    def known_finding(self, kid, detail=""):
        self.known_hits.setdefault(kid, []).append(detail)

    def violation(self, what, replay, found_input=True):
        """replay: dict describing the failing case (self-contained)."""
        n = len(self.violations)
        path = os.path.join(self.rdir, "%s-%s-%d-%d.json" % (self.pid, self.tier, self.seed, n))
        replay = dict(replay)
        replay.update({"property": self.pid, "what": what, "seed": self.seed, "tier": self.tier})
        with open(path, "w") as f:
            json.dump(replay, f, indent=1)
        self.violations.append((what, path, found_input))

    def finish(self, coverage, assumptions, level="proof"):
        for k in self.known:
            if k["id"] in self.known_hits:
                print("KNOWN-FINDING: property=%s %s [%s; %d case(s) this run]" % (self.pid, k["what"], k["id"], len(self.known_hits[k["id"]])))
        # at most a handful of lines, one per distinct message
        seen = set()
        for what, path, found in self.violations:
            if what in seen:
                continue
            seen.add(what)
            if len(seen) > 8:
                break
            print("VIOLATION property=%s replay=%s %s%s" % (self.pid, path, what, "" if found else " no-failing-input-found"))
        ev = {"property_id": self.pid, "tier": self.tier, "seed": self.seed, "level": level,
              "coverage": coverage, "assumptions": assumptions, "wall_s": round(time.time() - self.t0, 2),
              "violations": len(self.violations)}
        os.makedirs(os.path.join(ROOT, "evidence"), exist_ok=True)
        with open(os.path.join(ROOT, "evidence", self.pid + ".json"), "w") as f:
            json.dump(ev, f, indent=1)
        sys.stdout.flush()
        return 1 if self.violations else 0


BASE_TRUSTED = [
    "Coq 8.16.1 kernel (coqc); vm_compute used for finite per-case obligations; no native_compute",
    "development declares no Axiom/Parameter/Conjecture/Admitted (grepped on every run, see coverage.hygiene_hits)",
    "extraction: Require Extraction + ExtrOcamlBasic only (bool, option, prod, list, unit, sumbool -> OCaml's); nat/positive/N/Z stay extracted inductives; no Extract Constant / Extract Inductive directives of our own",
    "OCaml glue ocaml/conv.ml, ocaml/d_*.ml, ocaml/main.ml (case parsing and printing only)",
    "correspondence harness: harness/*.cpp (nifly_oracle), tools/*.py generators, canonicalisers, diff",
    "g++ 12.2 / libstdc++ for the implementation side; AddressSanitizer/UBSan as the observer of memory errors",
]


def proof_coverage(pr, hygiene):
    """coverage fragment from a coq_property() result"""
    obligations = len(pr["theorems"])
    discharged = obligations - len(pr["failed"]) if not pr["ok"] else obligations
    axioms = sorted({a for l in pr["assumptions"].values() for a in l})
    return {
        "obligations": obligations,
        "discharged": discharged,
        "theorems": pr["theorems"],
        "failed_obligations": pr["failed"],
        "print_assumptions": {k: (v if v else "Closed under the global context") for k, v in pr["assumptions"].items()},
        "axioms_used": axioms,
        "checker_cmd": pr["cmd"],
        "hygiene_hits": hygiene,
    }
