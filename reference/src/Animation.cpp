/*
nifly
C++ NIF library for the Gamebryo/NetImmerse File Format
See the included GPLv3 LICENSE file
*/

#include "Animation.hpp"

using namespace nifly;

void NiKeyframeData::Sync(NiStreamReversible& stream) {
	uint32_t numRotationKeys = 0;

	if (stream.GetMode() == NiStreamReversible::Mode::Writing) {
		if (rotationType == XYZ_ROTATION_KEY)
			numRotationKeys = 1;
		else
			numRotationKeys = static_cast<uint32_t>(quaternionKeys.size());
	}

	stream.Sync(numRotationKeys);

	if (numRotationKeys > 0) {
		stream.Sync(rotationType);

		if (rotationType != XYZ_ROTATION_KEY) {
			quaternionKeys.resize(numRotationKeys);

			for (uint32_t i = 0; i < numRotationKeys; i++) {
				stream.Sync(quaternionKeys[i].time);
				stream.Sync(quaternionKeys[i].value);

				if (rotationType == TBC_KEY)
					stream.Sync(quaternionKeys[i].tbc);
			}
		}
		else {
			xRotations.Sync(stream);
			yRotations.Sync(stream);
			zRotations.Sync(stream);
		}
	}

	translations.Sync(stream);
	scales.Sync(stream);
}


void NiPosData::Sync(NiStreamReversible& stream) {
	data.Sync(stream);
}


void NiBoolData::Sync(NiStreamReversible& stream) {
	data.Sync(stream);
}


void NiFloatData::Sync(NiStreamReversible& stream) {
	data.Sync(stream);
}


void NiBSplineData::Sync(NiStreamReversible& stream) {
	floatControlPoints.Sync(stream);
	shortControlPoints.Sync(stream);
}


void NiBSplineBasisData::Sync(NiStreamReversible& stream) {
	stream.Sync(numControlPoints);
}


void NiTimeController::Sync(NiStreamReversible& stream) {
	nextControllerRef.Sync(stream);
	stream.Sync(flags);
	stream.Sync(frequency);
	stream.Sync(phase);
	stream.Sync(startTime);
	stream.Sync(stopTime);
	targetRef.Sync(stream);
}

void NiTimeController::GetChildRefs(std::set<NiRef*>& refs) {
	NiObject::GetChildRefs(refs);

	refs.insert(&nextControllerRef);
}

void NiTimeController::GetChildIndices(std::vector<uint32_t>& indices) {
	NiObject::GetChildIndices(indices);

	indices.push_back(nextControllerRef.index);
}

void NiTimeController::GetPtrs(std::set<NiPtr*>& ptrs) {
	NiObject::GetPtrs(ptrs);

	ptrs.insert(&targetRef);
}


void NiLookAtController::Sync(NiStreamReversible& stream) {
	stream.Sync(lookAtFlags);
	lookAtNodePtr.Sync(stream);
}

void NiLookAtController::GetPtrs(std::set<NiPtr*>& ptrs) {
	NiTimeController::GetPtrs(ptrs);

	ptrs.insert(&lookAtNodePtr);
}


void NiPathController::Sync(NiStreamReversible& stream) {
	stream.Sync(pathFlags);
	stream.Sync(bankDir);
	stream.Sync(maxBankAngle);
	stream.Sync(smoothing);
	stream.Sync(followAxis);
	pathDataRef.Sync(stream);
	percentDataRef.Sync(stream);
}

void NiPathController::GetChildRefs(std::set<NiRef*>& refs) {
	NiTimeController::GetChildRefs(refs);

	refs.insert(&pathDataRef);
	refs.insert(&percentDataRef);
}

void NiPathController::GetChildIndices(std::vector<uint32_t>& indices) {
	NiTimeController::GetChildIndices(indices);

	indices.push_back(pathDataRef.index);
	indices.push_back(percentDataRef.index);
}


void NiUVData::Sync(NiStreamReversible& stream) {
	uTrans.Sync(stream);
	vTrans.Sync(stream);
	uScale.Sync(stream);
	vScale.Sync(stream);
}


void NiUVController::Sync(NiStreamReversible& stream) {
	stream.Sync(textureSet);
	dataRef.Sync(stream);
}

void NiUVController::GetChildRefs(std::set<NiRef*>& refs) {
	NiTimeController::GetChildRefs(refs);

	refs.insert(&dataRef);
}

void NiUVController::GetChildIndices(std::vector<uint32_t>& indices) {
	NiTimeController::GetChildIndices(indices);

	indices.push_back(dataRef.index);
}


void BSFrustumFOVController::Sync(NiStreamReversible& stream) {
	interpolatorRef.Sync(stream);
}

void BSFrustumFOVController::GetChildRefs(std::set<NiRef*>& refs) {
	NiTimeController::GetChildRefs(refs);

	refs.insert(&interpolatorRef);
}

void BSFrustumFOVController::GetChildIndices(std::vector<uint32_t>& indices) {
	NiTimeController::GetChildIndices(indices);

	indices.push_back(interpolatorRef.index);
}


void BSLagBoneController::Sync(NiStreamReversible& stream) {
	stream.Sync(linearVelocity);
	stream.Sync(linearRotation);
	stream.Sync(maxDistance);
}


void BSProceduralLightningController::Sync(NiStreamReversible& stream) {
	generationInterpRef.Sync(stream);
	mutationInterpRef.Sync(stream);
	subdivisionInterpRef.Sync(stream);
	numBranchesInterpRef.Sync(stream);
	numBranchesVarInterpRef.Sync(stream);
	lengthInterpRef.Sync(stream);
	lengthVarInterpRef.Sync(stream);
	widthInterpRef.Sync(stream);
	arcOffsetInterpRef.Sync(stream);

	stream.Sync(subdivisions);
	stream.Sync(numBranches);
	stream.Sync(numBranchesPerVariation);

	stream.Sync(length);
	stream.Sync(lengthVariation);
	stream.Sync(width);
	stream.Sync(childWidthMult);
	stream.Sync(arcOffset);

	stream.Sync(fadeMainBolt);
	stream.Sync(fadeChildBolts);
	stream.Sync(animateArcOffset);

	shaderPropertyRef.Sync(stream);
}

void BSProceduralLightningController::GetChildRefs(std::set<NiRef*>& refs) {
	NiTimeController::GetChildRefs(refs);

	refs.insert(&generationInterpRef);
	refs.insert(&mutationInterpRef);
	refs.insert(&subdivisionInterpRef);
	refs.insert(&numBranchesInterpRef);
	refs.insert(&numBranchesVarInterpRef);
	refs.insert(&lengthInterpRef);
	refs.insert(&lengthVarInterpRef);
	refs.insert(&widthInterpRef);
	refs.insert(&arcOffsetInterpRef);
	refs.insert(&shaderPropertyRef);
}

void BSProceduralLightningController::GetChildIndices(std::vector<uint32_t>& indices) {
	NiTimeController::GetChildIndices(indices);

	indices.push_back(generationInterpRef.index);
	indices.push_back(mutationInterpRef.index);
	indices.push_back(subdivisionInterpRef.index);
	indices.push_back(numBranchesInterpRef.index);
	indices.push_back(numBranchesVarInterpRef.index);
	indices.push_back(lengthInterpRef.index);
	indices.push_back(lengthVarInterpRef.index);
	indices.push_back(widthInterpRef.index);
	indices.push_back(arcOffsetInterpRef.index);
	indices.push_back(shaderPropertyRef.index);
}


void NiBoneLODController::Sync(NiStreamReversible& stream) {
	stream.Sync(lod);
	stream.Sync(numLODs);

	boneArrays.Sync(stream);
}

void NiBoneLODController::GetPtrs(std::set<NiPtr*>& ptrs) {
	NiTimeController::GetPtrs(ptrs);

	for (auto& bp : boneArrays)
		bp.GetIndexPtrs(ptrs);
}


void NiMorphData::Sync(NiStreamReversible& stream) {
	stream.Sync(numMorphs);
	stream.Sync(numVertices);
	stream.Sync(relativeTargets);

	morphs.resize(numMorphs);
	for (uint32_t i = 0; i < numMorphs; i++)
		morphs[i].Sync(stream, numVertices);
}

void NiMorphData::GetStringRefs(std::vector<NiStringRef*>& refs) {
	NiObject::GetStringRefs(refs);

	for (auto& m : morphs)
		m.GetStringRefs(refs);
}

std::vector<Morph> NiMorphData::GetMorphs() const {
	return morphs;
}

void NiMorphData::SetMorphs(const uint32_t numVerts, const std::vector<Morph>& m) {
	numVertices = numVerts;
	numMorphs = static_cast<uint32_t>(m.size());
	morphs = m;

	for (auto& morph : morphs)
		morph.vectors.resize(numVertices);
}


void NiInterpController::Sync(NiStreamReversible& stream) {
	if (stream.GetVersion().File() >= V10_1_0_104 && stream.GetVersion().File() <= V10_1_0_108)
		stream.Sync(managerControlled);
}


void NiGeomMorpherController::Sync(NiStreamReversible& stream) {
	stream.Sync(morpherFlags);
	dataRef.Sync(stream);
	stream.Sync(alwaysUpdate);

	if (stream.GetVersion().File() >= V10_1_0_106 && stream.GetVersion().File() <= V20_1_0_3)
		interpolatorRefs.Sync(stream);

	if (stream.GetVersion().File() >= V10_2_0_0 && stream.GetVersion().File() <= V20_0_0_5 && stream.GetVersion().Stream() > 9)
		unknownInts.Sync(stream);

	if (stream.GetVersion().File() >= V20_1_0_3)
		interpWeights.Sync(stream);
}

void NiGeomMorpherController::GetChildRefs(std::set<NiRef*>& refs) {
	NiInterpController::GetChildRefs(refs);

	refs.insert(&dataRef);

	interpolatorRefs.GetIndexPtrs(refs);

	for (auto& m : interpWeights)
		m.GetChildRefs(refs);
}

void NiGeomMorpherController::GetChildIndices(std::vector<uint32_t>& indices) {
	NiInterpController::GetChildIndices(indices);

	indices.push_back(dataRef.index);

	interpolatorRefs.GetIndices(indices);

	for (auto& m : interpWeights)
		m.GetChildIndices(indices);
}


void NiSingleInterpController::Sync(NiStreamReversible& stream) {
	if (stream.GetVersion().File() >= V10_1_0_104)
		interpolatorRef.Sync(stream);
}

void NiSingleInterpController::GetChildRefs(std::set<NiRef*>& refs) {
	NiInterpController::GetChildRefs(refs);

	refs.insert(&interpolatorRef);
}

void NiSingleInterpController::GetChildIndices(std::vector<uint32_t>& indices) {
	NiInterpController::GetChildIndices(indices);

	indices.push_back(interpolatorRef.index);
}


void NiRollController::Sync(NiStreamReversible& stream) {
	dataRef.Sync(stream);
}

void NiRollController::GetChildRefs(std::set<NiRef*>& refs) {
	NiSingleInterpController::GetChildRefs(refs);

	refs.insert(&dataRef);
}

void NiRollController::GetChildIndices(std::vector<uint32_t>& indices) {
	NiSingleInterpController::GetChildIndices(indices);

	indices.push_back(dataRef.index);
}


void NiPoint3InterpController::Sync(NiStreamReversible& stream) {
	stream.Sync(targetColor);
}


void NiFloatExtraDataController::Sync(NiStreamReversible& stream) {
	extraData.Sync(stream);
}

void NiFloatExtraDataController::GetStringRefs(std::vector<NiStringRef*>& refs) {
	NiExtraDataController::GetStringRefs(refs);

	refs.emplace_back(&extraData);
}


void NiVisData::Sync(NiStreamReversible& stream) {
	keys.Sync(stream);
}


void NiFlipController::Sync(NiStreamReversible& stream) {
	stream.Sync(textureSlot);
	sourceRefs.Sync(stream);
}

void NiFlipController::GetChildRefs(std::set<NiRef*>& refs) {
	NiFloatInterpController::GetChildRefs(refs);

	sourceRefs.GetIndexPtrs(refs);
}

void NiFlipController::GetChildIndices(std::vector<uint32_t>& indices) {
	NiFloatInterpController::GetChildIndices(indices);

	sourceRefs.GetIndices(indices);
}


void NiTextureTransformController::Sync(NiStreamReversible& stream) {
	stream.Sync(shaderMap);
	stream.Sync(textureSlot);
	stream.Sync(operation);
}


void NiKeyframeController::Sync(NiStreamReversible& stream) {
	if (stream.GetVersion().File() < V10_1_0_104)
		dataRef.Sync(stream);
}

void NiKeyframeController::GetChildRefs(std::set<NiRef*>& refs) {
	NiSingleInterpController::GetChildRefs(refs);

	refs.insert(&dataRef);
}

void NiKeyframeController::GetChildIndices(std::vector<uint32_t>& indices) {
	NiSingleInterpController::GetChildIndices(indices);

	indices.push_back(dataRef.index);
}


void BSLightingShaderPropertyColorController::Sync(NiStreamReversible& stream) {
	stream.Sync(typeOfControlledColor);
}


void BSLightingShaderPropertyFloatController::Sync(NiStreamReversible& stream) {
	stream.Sync(typeOfControlledVariable);
}


void BSLightingShaderPropertyUShortController::Sync(NiStreamReversible& stream) {
	stream.Sync(typeOfControlledVariable);
}


void BSEffectShaderPropertyColorController::Sync(NiStreamReversible& stream) {
	stream.Sync(typeOfControlledColor);
}


void BSEffectShaderPropertyFloatController::Sync(NiStreamReversible& stream) {
	stream.Sync(typeOfControlledVariable);
}


void NiMultiTargetTransformController::Sync(NiStreamReversible& stream) {
	targetRefs.SetKeepEmptyRefs();
	targetRefs.Sync(stream);
}

void NiMultiTargetTransformController::GetPtrs(std::set<NiPtr*>& ptrs) {
	NiInterpController::GetPtrs(ptrs);

	targetRefs.GetIndexPtrs(ptrs);
}


void NiPSysModifierCtlr::Sync(NiStreamReversible& stream) {
	modifierName.Sync(stream);
}

void NiPSysModifierCtlr::GetStringRefs(std::vector<NiStringRef*>& refs) {
	NiSingleInterpController::GetStringRefs(refs);

	refs.emplace_back(&modifierName);
}


void NiBSplineInterpolator::Sync(NiStreamReversible& stream) {
	stream.Sync(startTime);
	stream.Sync(stopTime);
	splineDataRef.Sync(stream);
	basisDataRef.Sync(stream);
}

void NiBSplineInterpolator::GetChildRefs(std::set<NiRef*>& refs) {
	NiInterpolator::GetChildRefs(refs);

	refs.insert(&splineDataRef);
	refs.insert(&basisDataRef);
}

void NiBSplineInterpolator::GetChildIndices(std::vector<uint32_t>& indices) {
	NiInterpolator::GetChildIndices(indices);

	indices.push_back(splineDataRef.index);
	indices.push_back(basisDataRef.index);
}


void NiBSplineCompFloatInterpolator::Sync(NiStreamReversible& stream) {
	stream.Sync(base);
	stream.Sync(offset);
	stream.Sync(bias);
	stream.Sync(multiplier);
}


void NiBSplinePoint3Interpolator::Sync(NiStreamReversible& stream) {
	stream.Sync(value);
	stream.Sync(handle);
}


void NiBSplineCompPoint3Interpolator::Sync(NiStreamReversible& stream) {
	stream.Sync(positionOffset);
	stream.Sync(positionHalfRange);
}


void NiBSplineTransformInterpolator::Sync(NiStreamReversible& stream) {
	stream.Sync(translation);
	stream.Sync(rotation);
	stream.Sync(scale);

	stream.Sync(translationOffset);
	stream.Sync(rotationOffset);
	stream.Sync(scaleOffset);
}


void NiBSplineCompTransformInterpolator::Sync(NiStreamReversible& stream) {
	stream.Sync(translationBias);
	stream.Sync(translationMultiplier);
	stream.Sync(rotationBias);
	stream.Sync(rotationMultiplier);
	stream.Sync(scaleBias);
	stream.Sync(scaleMultiplier);
}


void InterpBlendItem::Sync(NiStreamReversible& stream) {
	interpolatorRef.Sync(stream);
	stream.Sync(weight);
	stream.Sync(normalizedWeight);
	if (stream.GetVersion().File() < V10_1_0_110)
		stream.Sync(priorityInt);
	else
		stream.Sync(priority);
	stream.Sync(easeSpinner);
}


void NiBlendInterpolator::Sync(NiStreamReversible& stream) {
	if (stream.GetVersion().File() >= V10_1_0_112)
		stream.Sync(flags);

	if (stream.GetVersion().File() < V10_1_0_110) {
		stream.Sync(arraySize);
	}
	else {
		uint8_t arraySizeByte = 0;
		if (stream.GetMode() == NiStreamReversible::Mode::Writing)
			arraySizeByte = static_cast<uint8_t>(arraySize);

		stream.Sync(arraySizeByte);

		if (stream.GetMode() == NiStreamReversible::Mode::Reading)
			arraySize = arraySizeByte;
	}

	if (stream.GetVersion().File() < V10_1_0_110)
		stream.Sync(arrayGrowBy);

	if (stream.GetVersion().File() >= V10_1_0_112)
		stream.Sync(weightThreshold);

	if (stream.GetVersion().File() >= V10_1_0_112) {
		if ((flags & INTERP_BLEND_MANAGER_CONTROLLED) == 0) {
			uint8_t interpCountByte = 0;
			if (stream.GetMode() == NiStreamReversible::Mode::Writing)
				interpCountByte = static_cast<uint8_t>(interpCount);

			stream.Sync(interpCountByte);

			if (stream.GetMode() == NiStreamReversible::Mode::Reading)
				interpCount = interpCountByte;

			stream.Sync(singleIndex);
			stream.Sync(highPriority);
			stream.Sync(nextHighPriority);
			stream.Sync(singleTime);
			stream.Sync(highWeightsSum);
			stream.Sync(nextHighWeightsSum);
			stream.Sync(highEaseSpinner);

			interpItems.resize(arraySize);
			for (auto& item : interpItems)
				item.Sync(stream);
		}
	}
	else {
		interpItems.resize(arraySize);
		for (auto& item : interpItems)
			item.Sync(stream);

		stream.Sync(managerControlled);
		stream.Sync(weightThreshold);
		stream.Sync(onlyUseHighestWeight);
	}

	if (stream.GetVersion().File() < V10_1_0_110) {
		stream.Sync(interpCount);
		stream.Sync(singleIndexShort);
	}

	if (stream.GetVersion().File() >= V10_1_0_110 && stream.GetVersion().File() < V10_1_0_112) {
		uint8_t interpCountByte = 0;
		if (stream.GetMode() == NiStreamReversible::Mode::Writing)
			interpCountByte = static_cast<uint8_t>(interpCount);

		stream.Sync(interpCountByte);

		if (stream.GetMode() == NiStreamReversible::Mode::Reading)
			interpCount = interpCountByte;

		stream.Sync(singleIndex);
	}

	if (stream.GetVersion().File() >= V10_1_0_108 && stream.GetVersion().File() < V10_1_0_112) {
		singleInterpolatorRef.Sync(stream);
		stream.Sync(singleTime);
	}

	if (stream.GetVersion().File() < V10_1_0_110) {
		stream.Sync(highPriorityInt);
		stream.Sync(nextHighPriorityInt);
	}

	if (stream.GetVersion().File() >= V10_1_0_110 && stream.GetVersion().File() < V10_1_0_112) {
		stream.Sync(highPriority);
		stream.Sync(nextHighPriority);
	}
}

void NiBlendInterpolator::GetChildRefs(std::set<NiRef*>& refs) {
	NiInterpolator::GetChildRefs(refs);

	for (auto& item : interpItems)
		refs.insert(&item.interpolatorRef);

	refs.insert(&singleInterpolatorRef);
}

void NiBlendInterpolator::GetChildIndices(std::vector<uint32_t>& indices) {
	NiInterpolator::GetChildIndices(indices);

	for (auto& item : interpItems)
		indices.push_back(item.interpolatorRef.index);

	indices.push_back(singleInterpolatorRef.index);
}


void NiBlendBoolInterpolator::Sync(NiStreamReversible& stream) {
	stream.Sync(value);
}


void NiBlendFloatInterpolator::Sync(NiStreamReversible& stream) {
	stream.Sync(value);
}


void NiBlendPoint3Interpolator::Sync(NiStreamReversible& stream) {
	stream.Sync(point);
}


void NiBlendTransformInterpolator::Sync(NiStreamReversible& stream) {
	if (stream.GetVersion().File() < V10_1_0_110)
		value.Sync(stream);
}


void NiBoolInterpolator::Sync(NiStreamReversible& stream) {
	stream.Sync(boolValue);
	dataRef.Sync(stream);
}

void NiBoolInterpolator::GetChildRefs(std::set<NiRef*>& refs) {
	NiKeyBasedInterpolator::GetChildRefs(refs);

	refs.insert(&dataRef);
}

void NiBoolInterpolator::GetChildIndices(std::vector<uint32_t>& indices) {
	NiKeyBasedInterpolator::GetChildIndices(indices);

	indices.push_back(dataRef.index);
}


void NiFloatInterpolator::Sync(NiStreamReversible& stream) {
	stream.Sync(floatValue);
	dataRef.Sync(stream);
}

void NiFloatInterpolator::GetChildRefs(std::set<NiRef*>& refs) {
	NiKeyBasedInterpolator::GetChildRefs(refs);

	refs.insert(&dataRef);
}

void NiFloatInterpolator::GetChildIndices(std::vector<uint32_t>& indices) {
	NiKeyBasedInterpolator::GetChildIndices(indices);

	indices.push_back(dataRef.index);
}


void NiTransformInterpolator::Sync(NiStreamReversible& stream) {
	stream.Sync(translation);
	stream.Sync(rotation);
	stream.Sync(scale);
	dataRef.Sync(stream);
}

void NiTransformInterpolator::GetChildRefs(std::set<NiRef*>& refs) {
	NiKeyBasedInterpolator::GetChildRefs(refs);

	refs.insert(&dataRef);
}

void NiTransformInterpolator::GetChildIndices(std::vector<uint32_t>& indices) {
	NiKeyBasedInterpolator::GetChildIndices(indices);

	indices.push_back(dataRef.index);
}


void NiPoint3Interpolator::Sync(NiStreamReversible& stream) {
	stream.Sync(point3Value);
	dataRef.Sync(stream);
}

void NiPoint3Interpolator::GetChildRefs(std::set<NiRef*>& refs) {
	NiKeyBasedInterpolator::GetChildRefs(refs);

	refs.insert(&dataRef);
}

void NiPoint3Interpolator::GetChildIndices(std::vector<uint32_t>& indices) {
	NiKeyBasedInterpolator::GetChildIndices(indices);

	indices.push_back(dataRef.index);
}


void NiPathInterpolator::Sync(NiStreamReversible& stream) {
	stream.Sync(pathFlags);
	stream.Sync(bankDir);
	stream.Sync(maxBankAngle);
	stream.Sync(smoothing);
	stream.Sync(followAxis);
	pathDataRef.Sync(stream);
	percentDataRef.Sync(stream);
}

void NiPathInterpolator::GetChildRefs(std::set<NiRef*>& refs) {
	NiKeyBasedInterpolator::GetChildRefs(refs);

	refs.insert(&pathDataRef);
	refs.insert(&percentDataRef);
}

void NiPathInterpolator::GetChildIndices(std::vector<uint32_t>& indices) {
	NiKeyBasedInterpolator::GetChildIndices(indices);

	indices.push_back(pathDataRef.index);
	indices.push_back(percentDataRef.index);
}


void NiLookAtInterpolator::Sync(NiStreamReversible& stream) {
	stream.Sync(flags);
	lookAtRef.Sync(stream);
	lookAtName.Sync(stream);
	transform.Sync(stream);
	translateInterpRef.Sync(stream);
	rollInterpRef.Sync(stream);
	scaleInterpRef.Sync(stream);
}

void NiLookAtInterpolator::GetStringRefs(std::vector<NiStringRef*>& refs) {
	NiInterpolator::GetStringRefs(refs);

	refs.emplace_back(&lookAtName);
}

void NiLookAtInterpolator::GetChildRefs(std::set<NiRef*>& refs) {
	NiInterpolator::GetChildRefs(refs);

	refs.insert(&translateInterpRef);
	refs.insert(&rollInterpRef);
	refs.insert(&scaleInterpRef);
}

void NiLookAtInterpolator::GetChildIndices(std::vector<uint32_t>& indices) {
	NiInterpolator::GetChildIndices(indices);

	indices.push_back(translateInterpRef.index);
	indices.push_back(rollInterpRef.index);
	indices.push_back(scaleInterpRef.index);
}

void NiLookAtInterpolator::GetPtrs(std::set<NiPtr*>& ptrs) {
	NiInterpolator::GetPtrs(ptrs);

	ptrs.insert(&lookAtRef);
}


void BSTreadTransfInterpolator::Sync(NiStreamReversible& stream) {
	treadTransforms.Sync(stream);
	dataRef.Sync(stream);
}

void BSTreadTransfInterpolator::GetStringRefs(std::vector<NiStringRef*>& refs) {
	NiInterpolator::GetStringRefs(refs);

	for (auto& tt : treadTransforms)
		tt.GetStringRefs(refs);
}

void BSTreadTransfInterpolator::GetChildRefs(std::set<NiRef*>& refs) {
	NiInterpolator::GetChildRefs(refs);

	refs.insert(&dataRef);
}

void BSTreadTransfInterpolator::GetChildIndices(std::vector<uint32_t>& indices) {
	NiInterpolator::GetChildIndices(indices);

	indices.push_back(dataRef.index);
}


void NiStringPalette::Sync(NiStreamReversible& stream) {
	palette.Sync(stream, 4);
	length = static_cast<uint32_t>(palette.length());
	stream.Sync(length);
}


void NiSequence::Sync(NiStreamReversible& stream) {
	name.Sync(stream);

	uint32_t sz = controlledBlocks.SyncSize(stream);

	if (stream.GetVersion().File() >= V10_1_0_106)
		stream.Sync(arrayGrowBy);

	controlledBlocks.SyncData(stream, sz);
}

void NiSequence::GetStringRefs(std::vector<NiStringRef*>& refs) {
	NiObject::GetStringRefs(refs);

	refs.emplace_back(&name);
	controlledBlocks.GetStringRefs(refs);
}

void NiSequence::GetChildRefs(std::set<NiRef*>& refs) {
	NiObject::GetChildRefs(refs);

	controlledBlocks.GetChildRefs(refs);
}

void NiSequence::GetChildIndices(std::vector<uint32_t>& indices) {
	NiObject::GetChildIndices(indices);

	controlledBlocks.GetChildIndices(indices);
}


void BSAnimNote::Sync(NiStreamReversible& stream) {
	stream.Sync(type);
	stream.Sync(time);

	if (type == ANT_GRABIK)
		stream.Sync(arm);

	if (type != ANT_INVALID) {
		stream.Sync(gain);
		stream.Sync(state);
	}
}


void BSAnimNotes::Sync(NiStreamReversible& stream) {
	animNoteRefs.Sync(stream);
}

void BSAnimNotes::GetChildRefs(std::set<NiRef*>& refs) {
	NiObject::GetChildRefs(refs);

	animNoteRefs.GetIndexPtrs(refs);
}

void BSAnimNotes::GetChildIndices(std::vector<uint32_t>& indices) {
	NiObject::GetChildIndices(indices);

	animNoteRefs.GetIndices(indices);
}


void NiControllerSequence::Sync(NiStreamReversible& stream) {
	if (stream.GetVersion().File() >= V10_1_0_106) {
		stream.Sync(weight);
		textKeyRef.Sync(stream);
		stream.Sync(cycleType);
		stream.Sync(frequency);

		if (stream.GetVersion().File() <= V10_4_0_1)
			stream.Sync(phase);

		stream.Sync(startTime);
		stream.Sync(stopTime);

		if (stream.GetVersion().File() == V10_1_0_106)
			stream.Sync(playBackwards);

		managerRef.Sync(stream);
		accumRootName.Sync(stream);
	}

	if (stream.GetVersion().File() >= V10_1_0_113 && stream.GetVersion().File() < V20_1_0_1)
		stringPaletteRef.Sync(stream);

	if (stream.GetVersion().Stream() >= 24 && stream.GetVersion().Stream() <= 28)
		animNotesRef.Sync(stream);
	else if (stream.GetVersion().Stream() > 28)
		animNotesRefs.Sync(stream);
}

void NiControllerSequence::GetStringRefs(std::vector<NiStringRef*>& refs) {
	NiSequence::GetStringRefs(refs);

	refs.emplace_back(&accumRootName);
}

void NiControllerSequence::GetChildRefs(std::set<NiRef*>& refs) {
	NiSequence::GetChildRefs(refs);

	refs.insert(&textKeyRef);
	refs.insert(&stringPaletteRef);
	refs.insert(&animNotesRef);
	animNotesRefs.GetIndexPtrs(refs);
}

void NiControllerSequence::GetChildIndices(std::vector<uint32_t>& indices) {
	NiSequence::GetChildIndices(indices);

	indices.push_back(textKeyRef.index);
	indices.push_back(stringPaletteRef.index);
	indices.push_back(animNotesRef.index);
	animNotesRefs.GetIndices(indices);
}

void NiControllerSequence::GetPtrs(std::set<NiPtr*>& ptrs) {
	NiSequence::GetPtrs(ptrs);

	ptrs.insert(&managerRef);
}


void NiControllerManager::Sync(NiStreamReversible& stream) {
	stream.Sync(cumulative);

	controllerSequenceRefs.Sync(stream);
	objectPaletteRef.Sync(stream);
}

void NiControllerManager::GetChildRefs(std::set<NiRef*>& refs) {
	NiTimeController::GetChildRefs(refs);

	controllerSequenceRefs.GetIndexPtrs(refs);
	refs.insert(&objectPaletteRef);
}

void NiControllerManager::GetChildIndices(std::vector<uint32_t>& indices) {
	NiTimeController::GetChildIndices(indices);

	controllerSequenceRefs.GetIndices(indices);
	indices.push_back(objectPaletteRef.index);
}
