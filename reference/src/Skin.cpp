/*
nifly
C++ NIF library for the Gamebryo/NetImmerse File Format
See the included GPLv3 LICENSE file
*/

#include "Skin.hpp"
#include "NifUtil.hpp"

#include <unordered_map>

using namespace nifly;

void NiSkinData::Sync(NiStreamReversible& stream) {
	stream.Sync(skinTransform.rotation);
	stream.Sync(skinTransform.translation);
	stream.Sync(skinTransform.scale);
	stream.Sync(numBones);
	stream.Sync(hasVertWeights);

	if (hasVertWeights > 1)
		hasVertWeights = 1;

	bones.resize(numBones);
	for (uint32_t i = 0; i < numBones; i++) {
		auto& boneData = bones[i];
		stream.Sync(boneData.boneTransform.rotation);
		stream.Sync(boneData.boneTransform.translation);
		stream.Sync(boneData.boneTransform.scale);
		stream.Sync(boneData.bounds);

		uint16_t numVerts = boneData.numVertices;
		if (!hasVertWeights)
			numVerts = 0;

		stream.Sync(numVerts);

		if (!hasVertWeights)
			numVerts = 0;

		if (stream.GetMode() == NiStreamReversible::Mode::Reading)
			boneData.numVertices = numVerts;

		if (hasVertWeights) {
			boneData.vertexWeights.resize(numVerts);

			// Num Verts * 6 bytes (index + weight)
			stream.Sync((char*) boneData.vertexWeights.data(),
						static_cast<std::streamsize>(numVerts) * sizeof(SkinWeight));
		}
	}
}

void NiSkinData::notifyVerticesDelete(const std::vector<uint16_t>& vertIndices) {
	uint16_t highestRemoved = vertIndices.back();
	uint16_t mapSize = highestRemoved + 1;
	std::vector<int> indexCollapse = GenerateIndexCollapseMap(vertIndices, mapSize);

	NiObject::notifyVerticesDelete(vertIndices);

	uint16_t ival = 0;
	for (auto& b : bones) {
		for (uint16_t i = b.numVertices - 1; i != static_cast<uint16_t>(-1); i--) {
			ival = b.vertexWeights[i].index;
			if (b.vertexWeights[i].index > highestRemoved) {
				b.vertexWeights[i].index -= static_cast<uint16_t>(vertIndices.size());
			}
			else if (indexCollapse[ival] == -1) {
				b.vertexWeights.erase(b.vertexWeights.begin() + i);
				b.numVertices--;
			}
			else
				b.vertexWeights[i].index = static_cast<uint16_t>(indexCollapse[ival]);
		}
	}
}


void NiSkinPartition::Sync(NiStreamReversible& stream) {
	stream.Sync(numPartitions);
	partitions.resize(numPartitions);

	if (stream.GetVersion().User() >= 12 && stream.GetVersion().Stream() == 100) {
		if (stream.GetMode() == NiStreamReversible::Mode::Reading)
			bMappedIndices = false;

		if (stream.GetMode() == NiStreamReversible::Mode::Writing)
			dataSize = vertexSize * numVertices;

		stream.Sync(dataSize);
		stream.Sync(vertexSize);
		vertexDesc.Sync(stream);

		if (dataSize > 0) {
			if (stream.GetMode() == NiStreamReversible::Mode::Reading)
				numVertices = vertexSize > 0 ? dataSize / vertexSize : 0;

			vertData.resize(numVertices);

			uint32_t vertexMainSize = vertexDesc.GetVertexMainSize();
			for (uint32_t i = 0; i < numVertices; i++) {
				auto& vertex = vertData[i];
				if (HasVertices() && vertexMainSize <= 16) {
					if (IsFullPrecision()) {
						// Full precision (vert + bitangentX = 16 bytes)
						stream.Sync((char*) &vertex.vert, sizeof(vertex.vert) + sizeof(vertex.bitangentX));
					}
					else {
						// Half precision (vert + bitangentX = 8 bytes)
						stream.SyncHalf(vertex.vert.x);
						stream.SyncHalf(vertex.vert.y);
						stream.SyncHalf(vertex.vert.z);

						stream.SyncHalf(vertex.bitangentX);
					}
				}
				else if (vertexMainSize > 16) {
					// Full precision (vert = 12 bytes)
					stream.Sync((char*) &vertex.vert, sizeof(vertex.vert));

					// Variable length extra float elements
					uint32_t vertexExtraCount = (vertexMainSize - 16) / 4;
					if (vertexExtraCount > 0) {
						vertex.extra.resize(vertexExtraCount);
						for (uint32_t e = 0; e < vertexExtraCount; e++)
							stream.Sync(vertex.extra[e]);
					}

					// BitangentX after extra floats (bitangentX = 4 bytes)
					stream.Sync(vertex.bitangentX);
				}

				if (HasUVs()) {
					stream.SyncHalf(vertex.uv.u);
					stream.SyncHalf(vertex.uv.v);
				}

				if (HasNormals()) {
					// 3 normals + bitangentY = 4 bytes
					stream.Sync((char*) &vertex.normal, sizeof(vertex.normal) + sizeof(vertex.bitangentY));

					if (HasTangents()) {
						// 3 tangents + bitangentZ = 4 bytes
						stream.Sync((char*) &vertex.tangent,
									sizeof(vertex.tangent) + sizeof(vertex.bitangentZ));
					}
				}

				if (HasVertexColors()) {
					// 4 vertex colors = 4 bytes
					stream.Sync((char*) &vertex.colorData, sizeof(vertex.colorData));
				}

				if (IsSkinned()) {
					// 4 weights = 8 bytes
					for (float& weight : vertex.weights)
						stream.SyncHalf(weight);

					// 4 bones = 4 bytes
					stream.Sync((char*) &vertex.weightBones, sizeof(vertex.weightBones));
				}

				if (HasEyeData())
					stream.Sync(vertex.eyeData);
			}
		}
	}

	// This call of PrepareVertexMapsAndTriangles should be completely unnecessary.
	// But it doesn't hurt to be safe.
	if (stream.GetMode() == NiStreamReversible::Mode::Writing)
		PrepareVertexMapsAndTriangles();

	for (uint32_t p = 0; p < numPartitions; p++) {
		auto& partition = partitions[p];
		stream.Sync(partition.numVertices);
		stream.Sync(partition.numTriangles);
		stream.Sync(partition.numBones);
		stream.Sync(partition.numStrips);
		stream.Sync(partition.numWeightsPerVertex);

		partition.bones.resize(partition.numBones);
		stream.Sync((char*) partition.bones.data(), partition.numBones * sizeof(uint16_t));

		stream.Sync(partition.hasVertexMap);
		if (partition.hasVertexMap) {
			partition.vertexMap.resize(partition.numVertices);
			stream.Sync((char*) partition.vertexMap.data(), partition.numVertices * sizeof(uint16_t));
		}

		stream.Sync(partition.hasVertexWeights);
		if (partition.hasVertexWeights) {
			partition.vertexWeights.resize(partition.numVertices);
			stream.Sync((char*) partition.vertexWeights.data(), partition.numVertices * sizeof(VertexWeight));
		}

		partition.stripLengths.resize(partition.numStrips);
		stream.Sync((char*) partition.stripLengths.data(), partition.numStrips * sizeof(uint16_t));

		stream.Sync(partition.hasFaces);
		if (partition.hasFaces) {
			partition.strips.resize(partition.numStrips);
			for (uint32_t i = 0; i < partition.numStrips; i++) {
				partition.strips[i].resize(partition.stripLengths[i]);
				stream.Sync((char*) partition.strips[i].data(), partition.stripLengths[i] * sizeof(uint16_t));
			}
		}

		if (partition.numStrips == 0 && partition.hasFaces) {
			partition.triangles.resize(partition.numTriangles);
			stream.Sync((char*) partition.triangles.data(), partition.numTriangles * sizeof(Triangle));
		}

		stream.Sync(partition.hasBoneIndices);
		if (partition.hasBoneIndices) {
			partition.boneIndices.resize(partition.numVertices);
			stream.Sync((char*) partition.boneIndices.data(), partition.numVertices * sizeof(BoneIndices));
		}

		if (stream.GetVersion().User() >= 12) {
			stream.Sync(partition.lodLevel);
			stream.Sync(partition.globalVB);
		}

		if (stream.GetVersion().User() >= 12 && stream.GetVersion().Stream() == 100) {
			partition.vertexDesc.Sync(stream);

			partition.trueTriangles.resize(partition.numTriangles);
			stream.Sync((char*) partition.trueTriangles.data(), partition.numTriangles * sizeof(Triangle));
		}
	}
}

void NiSkinPartition::notifyVerticesDelete(const std::vector<uint16_t>& vertIndices) {
	if (vertIndices.empty())
		return;

	NiObject::notifyVerticesDelete(vertIndices);

	// Prepare vertexMap and triangles.
	ConvertStripsToTriangles();
	PrepareVertexMapsAndTriangles();
	triParts.clear();

	// Determine maximum vertex index used so we can make a complete
	// collapse map.  (It would be nice if notifyVerticesDelete had a
	// numVertices parameter so we didn't have to calculate this.)
	uint16_t maxVertInd = 0;
	for (auto& p : partitions) {
		for (auto i : p.vertexMap)
			maxVertInd = std::max(maxVertInd, i);
		if (!bMappedIndices)
			maxVertInd = std::max(maxVertInd, CalcMaxTriangleIndex(p.triangles));
	}

	uint16_t mapSize = maxVertInd + 1;

	// Make collapse map for shape vertex indices
	std::vector<int> indexCollapse = GenerateIndexCollapseMap(vertIndices, mapSize);

	for (auto& p : partitions) {
		const size_t oldNumVertices = p.vertexMap.size();

		// Make list of deleted vertexMap indices
		std::vector<uint32_t> vertexMapDelList;
		for (uint32_t i = 0; i < static_cast<uint32_t>(p.vertexMap.size()); i++)
			if (indexCollapse[p.vertexMap[i]] == -1)
				vertexMapDelList.push_back(i);

		// Erase indices of vertexMap, vertexWeights, and boneIndices
		EraseVectorIndices(p.vertexMap, vertexMapDelList);
		if (p.hasVertexWeights)
			EraseVectorIndices(p.vertexWeights, vertexMapDelList);
		if (p.hasBoneIndices)
			EraseVectorIndices(p.boneIndices, vertexMapDelList);
		p.numVertices = static_cast<uint16_t>(p.vertexMap.size());

		// Compose vertexMap with indexCollapse to get new vertexMap
		for (uint16_t& i : p.vertexMap)
			i = static_cast<uint16_t>(indexCollapse[i]);

		if (!bMappedIndices) {
			// Apply shape vertex index collapse map to true triangles
			ApplyMapToTriangles(p.triangles, indexCollapse);
			p.trueTriangles = p.triangles;
		}
		else {
			// Generate collapse map for indices into (old) vertexMap.
			std::vector<int> mapCollapse = GenerateIndexCollapseMap(vertexMapDelList, oldNumVertices);
			// Apply vertexMap index collapse to mapped triangles
			ApplyMapToTriangles(p.triangles, mapCollapse);
			p.trueTriangles.clear();
		}
		p.numTriangles = static_cast<uint16_t>(p.triangles.size());
	}

	if (!vertData.empty()) {
		EraseVectorIndices(vertData, vertIndices);
		numVertices = static_cast<uint32_t>(vertData.size());
	}
}

void NiSkinPartition::DeletePartitions(const std::vector<uint32_t>& partInds) {
	if (partInds.empty())
		return;

	if (!triParts.empty()) {
		std::vector<int> piMap = GenerateIndexCollapseMap(partInds, numPartitions);
		const auto piMapSize = static_cast<int>(piMap.size());
		for (auto& pi : triParts) {
			if (pi >= 0 && pi < piMapSize)
				pi = piMap[pi];
		}
	}

	EraseVectorIndices(partitions, partInds);
	numPartitions = static_cast<uint32_t>(partitions.size());
}

uint32_t NiSkinPartition::RemoveEmptyPartitions(std::vector<uint32_t>& outDeletedIndices) {
	outDeletedIndices.clear();

	for (uint32_t i = 0; i < static_cast<uint32_t>(partitions.size()); ++i)
		if (partitions[i].numTriangles == 0)
			outDeletedIndices.push_back(i);

	if (!outDeletedIndices.empty())
		DeletePartitions(outDeletedIndices);

	return static_cast<uint32_t>(outDeletedIndices.size());
}

bool NiSkinPartition::PartitionBlock::ConvertStripsToTriangles() {
	if (numStrips == 0)
		return false;

	hasFaces = true;
	triangles = GenerateTrianglesFromStrips(strips);
	numTriangles = static_cast<uint16_t>(triangles.size());
	numStrips = 0;
	strips.clear();
	stripLengths.clear();
	trueTriangles.clear();
	return true;
}

bool NiSkinPartition::ConvertStripsToTriangles() {
	bool triangulated = false;
	for (PartitionBlock& p : partitions) {
		if (p.ConvertStripsToTriangles())
			triangulated = true;
	}
	return triangulated;
}

void NiSkinPartition::PartitionBlock::GenerateTrueTrianglesFromMappedTriangles() {
	if (vertexMap.empty() || triangles.empty()) {
		trueTriangles.clear();
		if (numStrips == 0)
			numTriangles = 0;
		return;
	}

	trueTriangles = triangles;
	ApplyMapToTriangles(trueTriangles, vertexMap);

	for (Triangle& t : trueTriangles)
		t.rot();

	if (triangles.size() != trueTriangles.size()) {
		triangles.clear();
		numTriangles = static_cast<uint16_t>(trueTriangles.size());
	}
}

void NiSkinPartition::PartitionBlock::GenerateMappedTrianglesFromTrueTrianglesAndVertexMap() {
	if (vertexMap.empty() || trueTriangles.empty()) {
		triangles.clear();
		if (numStrips == 0)
			numTriangles = 0;
		return;
	}

	std::vector<uint16_t> invmap(vertexMap.back() + 1);
	for (uint16_t mi = 0; mi < static_cast<uint16_t>(vertexMap.size()); ++mi) {
		if (vertexMap[mi] >= invmap.size())
			invmap.resize(vertexMap[mi] + 1);

		invmap[vertexMap[mi]] = mi;
	}

	triangles = trueTriangles;
	ApplyMapToTriangles(triangles, invmap);

	for (Triangle& t : triangles)
		t.rot();

	if (triangles.size() != trueTriangles.size()) {
		trueTriangles.clear();
		numTriangles = static_cast<uint16_t>(triangles.size());
	}
}

void NiSkinPartition::PartitionBlock::GenerateVertexMapFromTrueTriangles() {
	std::vector<bool> vertUsed(CalcMaxTriangleIndex(trueTriangles) + 1, false);
	for (auto& trueTriangle : trueTriangles) {
		vertUsed[trueTriangle.p1] = true;
		vertUsed[trueTriangle.p2] = true;
		vertUsed[trueTriangle.p3] = true;
	}

	vertexMap.clear();

	for (uint16_t i = 0; i < static_cast<uint16_t>(vertUsed.size()); ++i) {
		if (vertUsed[i])
			vertexMap.push_back(i);
	}

	numVertices = static_cast<uint16_t>(vertexMap.size());
}

void NiSkinPartition::PrepareTrueTriangles() {
	for (PartitionBlock& p : partitions) {
		if (!p.trueTriangles.empty())
			continue;

		if (p.numStrips)
			p.ConvertStripsToTriangles();

		if (bMappedIndices)
			p.GenerateTrueTrianglesFromMappedTriangles();
		else
			p.trueTriangles = p.triangles;
	}
}

void NiSkinPartition::PrepareVertexMapsAndTriangles() {
	for (PartitionBlock& p : partitions) {
		if (p.vertexMap.empty())
			p.GenerateVertexMapFromTrueTriangles();

		if (p.triangles.empty()) {
			if (bMappedIndices)
				p.GenerateMappedTrianglesFromTrueTrianglesAndVertexMap();
			else
				p.triangles = p.trueTriangles;
		}
	}
}

void NiSkinPartition::GenerateTriPartsFromTrueTriangles(const std::vector<Triangle>& shapeTris) {
	triParts.clear();
	triParts.resize(shapeTris.size(), -1);

	// Make a map from Triangles to their indices in shapeTris.
	// The same triangle can occur more than once in a shape.
	std::unordered_map<Triangle, std::vector<int>> shapeTriInds;

	int numTris = static_cast<int>(shapeTris.size());
	for (int triInd = 0; triInd < numTris; ++triInd) {
		Triangle t = shapeTris[triInd];
		t.rot();
		shapeTriInds[t].push_back(triInd);
	}

	// Set triParts for each partition triangle: every copy of a triangle
	// held by a partition claims one shape triangle that is not assigned yet.
	int numParts = static_cast<int>(partitions.size());
	for (int partInd = 0; partInd < numParts; ++partInd) {
		for (const Triangle& pt : partitions[partInd].trueTriangles) {
			Triangle t = pt;
			t.rot();
			auto it = shapeTriInds.find(t);
			if (it == shapeTriInds.end())
				continue;

			for (int triInd : it->second) {
				if (triParts[triInd] < 0) {
					triParts[triInd] = partInd;
					break;
				}
			}
		}
	}
}

void NiSkinPartition::GenerateTrueTrianglesFromTriParts(const std::vector<Triangle>& shapeTris) {
	if (shapeTris.size() != triParts.size())
		return;

	for (PartitionBlock& p : partitions) {
		p.trueTriangles.clear();
		p.triangles.clear();
		p.numStrips = 0;
		p.strips.clear();
		p.stripLengths.clear();
		p.hasFaces = true;
		p.vertexMap.clear();
		p.vertexWeights.clear();
		p.boneIndices.clear();
	}

	for (size_t triInd = 0; triInd < shapeTris.size(); ++triInd) {
		const auto partitionsSize = static_cast<int>(partitions.size());
		const int partInd = triParts[triInd];
		if (partInd >= 0 && partInd < partitionsSize)
			partitions[partInd].trueTriangles.push_back(shapeTris[triInd]);
	}

	for (PartitionBlock& p : partitions)
		p.numTriangles = static_cast<uint16_t>(p.trueTriangles.size());
}

void NiSkinPartition::PrepareTriParts(const std::vector<Triangle>& shapeTris) {
	if (shapeTris.size() == triParts.size())
		return;
	PrepareTrueTriangles();
	GenerateTriPartsFromTrueTriangles(shapeTris);
}


void NiSkinInstance::Sync(NiStreamReversible& stream) {
	dataRef.Sync(stream);

	if (stream.GetVersion().File() >= V10_1_0_101)
		skinPartitionRef.Sync(stream);

	targetRef.Sync(stream);
	boneRefs.Sync(stream);
}

void NiSkinInstance::GetChildRefs(std::set<NiRef*>& refs) {
	NiObject::GetChildRefs(refs);

	refs.insert(&dataRef);
	refs.insert(&skinPartitionRef);
}

void NiSkinInstance::GetChildIndices(std::vector<uint32_t>& indices) {
	NiObject::GetChildIndices(indices);

	indices.push_back(dataRef.index);
	indices.push_back(skinPartitionRef.index);
}

void NiSkinInstance::GetPtrs(std::set<NiPtr*>& ptrs) {
	NiObject::GetPtrs(ptrs);

	ptrs.insert(&targetRef);
	boneRefs.GetIndexPtrs(ptrs);
}


void BSDismemberSkinInstance::Sync(NiStreamReversible& stream) {
	partitions.Sync(stream);
}

void BSDismemberSkinInstance::DeletePartitions(const std::vector<uint32_t>& partInds) {
	if (partInds.empty())
		return;

	EraseVectorIndices(partitions, partInds);
}


void BSSkinBoneData::Sync(NiStreamReversible& stream) {
	stream.Sync(nBones);
	boneXforms.resize(nBones);
	for (uint32_t i = 0; i < nBones; i++) {
		stream.Sync(boneXforms[i].bounds);
		stream.Sync(boneXforms[i].boneTransform.rotation);
		stream.Sync(boneXforms[i].boneTransform.translation);
		stream.Sync(boneXforms[i].boneTransform.scale);
	}
}


void BSSkinInstance::Sync(NiStreamReversible& stream) {
	boneRefs.SetKeepEmptyRefs(stream.GetVersion().IsSF());

	targetRef.Sync(stream);
	dataRef.Sync(stream);
	boneRefs.Sync(stream);
	scales.Sync(stream);
}

void BSSkinInstance::GetChildRefs(std::set<NiRef*>& refs) {
	NiObject::GetChildRefs(refs);

	refs.insert(&dataRef);
}

void BSSkinInstance::GetChildIndices(std::vector<uint32_t>& indices) {
	NiObject::GetChildIndices(indices);

	indices.push_back(dataRef.index);
}

void BSSkinInstance::GetPtrs(std::set<NiPtr*>& ptrs) {
	NiObject::GetPtrs(ptrs);

	ptrs.insert(&targetRef);
	boneRefs.GetIndexPtrs(ptrs);
}
