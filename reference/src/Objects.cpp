/*
nifly
C++ NIF library for the Gamebryo/NetImmerse File Format
See the included GPLv3 LICENSE file
*/

#include "Objects.hpp"
#include "Geometry.hpp"

using namespace nifly;

void NiObjectNET::Sync(NiStreamReversible& stream) {
	if (bBSLightingShaderProperty && stream.GetVersion().User() >= 12 && stream.GetVersion().Stream() <= 139)
		stream.Sync(bslspShaderType);

	name.Sync(stream);

	extraDataRefs.Sync(stream);
	controllerRef.Sync(stream);
}

void NiObjectNET::GetStringRefs(std::vector<NiStringRef*>& refs) {
	NiObject::GetStringRefs(refs);

	refs.emplace_back(&name);
}

void NiObjectNET::GetChildRefs(std::set<NiRef*>& refs) {
	NiObject::GetChildRefs(refs);

	extraDataRefs.GetIndexPtrs(refs);
	refs.insert(&controllerRef);
}

void NiObjectNET::GetChildIndices(std::vector<uint32_t>& indices) {
	NiObject::GetChildIndices(indices);

	extraDataRefs.GetIndices(indices);
	indices.push_back(controllerRef.index);
}


void NiAVObject::Sync(NiStreamReversible& stream) {
	if (HasType<BSTriShape>()) {
		// The order of definition for BSTriShape deviates slightly from previous versions.
		// NiObjectNET -> NiAVObject (duplicated in BSTriShape) -> BSTriShape
		return;
	}

	if (stream.GetVersion().Stream() <= 26) {
		auto flagsShort = static_cast<uint16_t>(flags);
		stream.Sync(flagsShort);
		flags = flagsShort;
	}
	else
		stream.Sync(flags);

	stream.Sync(transform.translation);
	stream.Sync(transform.rotation);
	stream.Sync(transform.scale);

	if (stream.GetVersion().Stream() <= 34)
		propertyRefs.Sync(stream);

	if (stream.GetVersion().File() >= V10_0_1_0)
		collisionRef.Sync(stream);
}

void NiAVObject::GetChildRefs(std::set<NiRef*>& refs) {
	NiObjectNET::GetChildRefs(refs);

	propertyRefs.GetIndexPtrs(refs);
	refs.insert(&collisionRef);
}

void NiAVObject::GetChildIndices(std::vector<uint32_t>& indices) {
	NiObjectNET::GetChildIndices(indices);

	propertyRefs.GetIndices(indices);
	indices.push_back(collisionRef.index);
}


void NiDefaultAVObjectPalette::Sync(NiStreamReversible& stream) {
	sceneRef.Sync(stream);
	objects.Sync(stream);
}

void NiDefaultAVObjectPalette::GetPtrs(std::set<NiPtr*>& ptrs) {
	NiAVObjectPalette::GetPtrs(ptrs);

	ptrs.insert(&sceneRef);
	objects.GetPtrs(ptrs);
}


void NiCamera::Sync(NiStreamReversible& stream) {
	stream.Sync(obsoleteFlags);
	stream.Sync(frustumLeft);
	stream.Sync(frustumRight);
	stream.Sync(frustumTop);
	stream.Sync(frustomBottom);
	stream.Sync(frustumNear);
	stream.Sync(frustumFar);
	stream.Sync(useOrtho);
	stream.Sync(viewportLeft);
	stream.Sync(viewportRight);
	stream.Sync(viewportTop);
	stream.Sync(viewportBottom);
	stream.Sync(lodAdjust);

	sceneRef.Sync(stream);
	stream.Sync(numScreenPolygons);
	stream.Sync(numScreenTextures);
}

void NiCamera::GetChildRefs(std::set<NiRef*>& refs) {
	NiAVObject::GetChildRefs(refs);

	refs.insert(&sceneRef);
}

void NiCamera::GetChildIndices(std::vector<uint32_t>& indices) {
	NiAVObject::GetChildIndices(indices);

	indices.push_back(sceneRef.index);
}


void NiPalette::Sync(NiStreamReversible& stream) {
	stream.Sync(hasAlpha);

	if (stream.GetMode() == NiStreamReversible::Mode::Writing) {
		// Size can only be 16 or 256
		auto numEntries = palette.size();
		if (numEntries != 16 && numEntries != 256) {
			if (numEntries >= 128)
				palette.resize(256);
			else
				palette.resize(16);
		}
	}

	palette.Sync(stream);
}


void TextureRenderData::Sync(NiStreamReversible& stream) {
	stream.Sync(pixelFormat);
	stream.Sync(bitsPerPixel);
	stream.Sync(rendererHint);
	stream.Sync(extraData);
	stream.Sync(flags);
	stream.Sync(pixelTiling);

	for (auto& channel : channels) {
		stream.Sync(channel.type);
		stream.Sync(channel.convention);
		stream.Sync(channel.bitsPerChannel);
		stream.Sync(channel.isSigned);
	}

	paletteRef.Sync(stream);

	uint32_t sz = mipmaps.SyncSize(stream);
	stream.Sync(bytesPerPixel);

	mipmaps.SyncData(stream, sz);
}

void TextureRenderData::GetChildRefs(std::set<NiRef*>& refs) {
	NiObject::GetChildRefs(refs);

	refs.insert(&paletteRef);
}

void TextureRenderData::GetChildIndices(std::vector<uint32_t>& indices) {
	NiObject::GetChildIndices(indices);

	indices.push_back(paletteRef.index);
}


void NiPersistentSrcTextureRendererData::Sync(NiStreamReversible& stream) {
	stream.Sync(numPixels);
	stream.Sync(padNumPixels);
	stream.Sync(numFaces);
	stream.Sync(platform);

	pixelData.resize(numFaces);
	for (uint32_t f = 0; f < numFaces; f++) {
		pixelData[f].resize(numPixels);
		for (uint32_t p = 0; p < numPixels; p++)
			stream.Sync(pixelData[f][p]);
	}
}


void NiPixelData::Sync(NiStreamReversible& stream) {
	stream.Sync(numPixels);
	stream.Sync(numFaces);

	pixelData.resize(numFaces);
	for (uint32_t f = 0; f < numFaces; f++) {
		pixelData[f].resize(numPixels);
		for (uint32_t p = 0; p < numPixels; p++)
			stream.Sync(pixelData[f][p]);
	}
}


void NiSourceTexture::Sync(NiStreamReversible& stream) {
	const NiFileVersion fileVersion = stream.GetVersion().File();

	stream.Sync(useExternal);

	if (fileVersion <= NiFileVersion::V10_0_1_3)
		if (!useExternal)
			stream.Sync(useInternal);

	if (useExternal || fileVersion >= NiFileVersion::V10_1_0_0)
		fileName.Sync(stream);

	if (useExternal) {
		if (fileVersion >= NiFileVersion::V10_1_0_0)
			dataRef.Sync(stream);
	}
	else if (useInternal) {
		if (fileVersion <= NiFileVersion::V10_0_1_3)
			dataRef.Sync(stream);
	}
	else {
		if (fileVersion > NiFileVersion::V10_0_1_3)
			dataRef.Sync(stream);
	}

	stream.Sync(pixelLayout);
	stream.Sync(mipMapFormat);
	stream.Sync(alphaFormat);

	stream.Sync(isStatic);

	if (fileVersion >= NiVersion::ToFile(10, 1, 0, 103))
		stream.Sync(directRender);
	if (fileVersion >= NiVersion::ToFile(20, 2, 0, 4))
		stream.Sync(persistentRenderData);
}

void NiSourceTexture::GetStringRefs(std::vector<NiStringRef*>& refs) {
	NiTexture::GetStringRefs(refs);

	refs.emplace_back(&fileName);
}

void NiSourceTexture::GetChildRefs(std::set<NiRef*>& refs) {
	NiTexture::GetChildRefs(refs);

	refs.insert(&dataRef);
}

void NiSourceTexture::GetChildIndices(std::vector<uint32_t>& indices) {
	NiTexture::GetChildIndices(indices);

	indices.push_back(dataRef.index);
}


void NiDynamicEffect::Sync(NiStreamReversible& stream) {
	if (stream.GetVersion().Stream() < 130) {
		if (stream.GetVersion().File() > NiFileVersion::V10_1_0_101)
			stream.Sync(switchState);

		if (stream.GetVersion().File() <= NiFileVersion::V4_0_0_2 || stream.GetVersion().File() >= NiFileVersion::V10_1_0_0)
			affectedNodes.Sync(stream);
	}
}

void NiDynamicEffect::GetPtrs(std::set<NiPtr*>& ptrs) {
	NiAVObject::GetPtrs(ptrs);

	affectedNodes.GetIndexPtrs(ptrs);
}


void NiTextureEffect::Sync(NiStreamReversible& stream) {
	stream.Sync(modelProjectionMatrix);
	stream.Sync(modelProjectionTranslation);
	stream.Sync(textureFiltering);
	stream.Sync(textureClamping);
	stream.Sync(textureType);
	stream.Sync(coordinateGenerationType);
	sourceTexture.Sync(stream);
	stream.Sync(clippingPlane);
	stream.Sync(plane);
}

void NiTextureEffect::GetChildRefs(std::set<NiRef*>& refs) {
	NiDynamicEffect::GetChildRefs(refs);

	refs.insert(&sourceTexture);
}

void NiTextureEffect::GetChildIndices(std::vector<uint32_t>& indices) {
	NiDynamicEffect::GetChildIndices(indices);

	indices.push_back(sourceTexture.index);
}


void NiLight::Sync(NiStreamReversible& stream) {
	stream.Sync(dimmer);
	stream.Sync(ambientColor);
	stream.Sync(diffuseColor);
	stream.Sync(specularColor);
}


void NiPointLight::Sync(NiStreamReversible& stream) {
	stream.Sync(constantAttenuation);
	stream.Sync(linearAttenuation);
	stream.Sync(quadraticAttenuation);
}


void NiSpotLight::Sync(NiStreamReversible& stream) {
	stream.Sync(outerSpotAngle);
	stream.Sync(innerSpotAngle);
	stream.Sync(exponent);
}
