/*
nifly
C++ NIF library for the Gamebryo/NetImmerse File Format
See the included GPLv3 LICENSE file
*/

#include "Shaders.hpp"

using namespace nifly;

void NiShadeProperty::Sync(NiStreamReversible& stream) {
	stream.Sync(flags);
}


void NiSpecularProperty::Sync(NiStreamReversible& stream) {
	stream.Sync(flags);
}


void NiTexturingProperty::Sync(NiStreamReversible& stream) {
	const NiFileVersion fileVersion = stream.GetVersion().File();

	if (fileVersion <= NiFileVersion::V10_0_1_2)
		stream.Sync(flags);

	if (fileVersion >= NiVersion::ToFile(20, 1, 0, 2))
		stream.Sync(flags); // TexturingFlags

	if (fileVersion >= NiFileVersion::V3_3_0_13 && fileVersion <= NiFileVersion::V20_1_0_1)
		stream.Sync(applyMode);

	stream.Sync(textureCount);

	stream.Sync(hasBaseTex);
	if (hasBaseTex)
		baseTex.Sync(stream);

	stream.Sync(hasDarkTex);
	if (hasDarkTex)
		darkTex.Sync(stream);

	stream.Sync(hasDetailTex);
	if (hasDetailTex)
		detailTex.Sync(stream);

	stream.Sync(hasGlossTex);
	if (hasGlossTex)
		glossTex.Sync(stream);

	stream.Sync(hasGlowTex);
	if (hasGlowTex)
		glowTex.Sync(stream);

	if (textureCount > 5 && fileVersion >= NiFileVersion::V3_3_0_13) {
		stream.Sync(hasBumpTex);
		if (hasBumpTex) {
			bumpTex.Sync(stream);
			stream.Sync(lumaScale);
			stream.Sync(lumaOffset);
			stream.Sync(bumpMatrix);
		}
	}

	if (fileVersion >= NiFileVersion::V20_2_0_5) {
		if (textureCount > 6) {
			stream.Sync(hasNormalTex);
			if (hasNormalTex)
				normalTex.Sync(stream);
		}

		if (textureCount > 7) {
			stream.Sync(hasParallaxTex);
			if (hasParallaxTex) {
				parallaxTex.Sync(stream);
				stream.Sync(parallaxOffset);
			}
		}

		if (textureCount > 8) {
			stream.Sync(hasDecalTex0);
			if (hasDecalTex0)
				decalTex0.Sync(stream);
		}

		if (textureCount > 9) {
			stream.Sync(hasDecalTex1);
			if (hasDecalTex1)
				decalTex1.Sync(stream);
		}

		if (textureCount > 10) {
			stream.Sync(hasDecalTex2);
			if (hasDecalTex2)
				decalTex2.Sync(stream);
		}

		if (textureCount > 11) {
			stream.Sync(hasDecalTex3);
			if (hasDecalTex3)
				decalTex3.Sync(stream);
		}
	}
	else {
		if (textureCount > 6) {
			stream.Sync(hasDecalTex0);
			if (hasDecalTex0)
				decalTex0.Sync(stream);
		}

		if (textureCount > 7) {
			stream.Sync(hasDecalTex1);
			if (hasDecalTex1)
				decalTex1.Sync(stream);
		}

		if (textureCount > 8) {
			stream.Sync(hasDecalTex2);
			if (hasDecalTex2)
				decalTex2.Sync(stream);
		}

		if (textureCount > 9) {
			stream.Sync(hasDecalTex3);
			if (hasDecalTex3)
				decalTex3.Sync(stream);
		}
	}

	if (fileVersion >= NiFileVersion::V10_0_1_0)
		shaderTex.Sync(stream);
}

void NiTexturingProperty::GetChildRefs(std::set<NiRef*>& refs) {
	NiProperty::GetChildRefs(refs);

	baseTex.GetChildRefs(refs);
	darkTex.GetChildRefs(refs);
	detailTex.GetChildRefs(refs);
	glossTex.GetChildRefs(refs);
	glowTex.GetChildRefs(refs);
	bumpTex.GetChildRefs(refs);
	normalTex.GetChildRefs(refs);
	parallaxTex.GetChildRefs(refs);
	decalTex0.GetChildRefs(refs);
	decalTex1.GetChildRefs(refs);
	decalTex2.GetChildRefs(refs);
	decalTex3.GetChildRefs(refs);
	shaderTex.GetChildRefs(refs);
}

void NiTexturingProperty::GetChildIndices(std::vector<uint32_t>& indices) {
	NiProperty::GetChildIndices(indices);

	baseTex.GetChildIndices(indices);
	darkTex.GetChildIndices(indices);
	detailTex.GetChildIndices(indices);
	glossTex.GetChildIndices(indices);
	glowTex.GetChildIndices(indices);
	bumpTex.GetChildIndices(indices);
	normalTex.GetChildIndices(indices);
	parallaxTex.GetChildIndices(indices);
	decalTex0.GetChildIndices(indices);
	decalTex1.GetChildIndices(indices);
	decalTex2.GetChildIndices(indices);
	decalTex3.GetChildIndices(indices);
	shaderTex.GetChildIndices(indices);
}


void NiVertexColorProperty::Sync(NiStreamReversible& stream) {
	stream.Sync(flags);

	if (stream.GetVersion().File() <= NiFileVersion::V20_0_0_5) {
		stream.Sync(vertexMode);
		stream.Sync(lightingMode);
	}
}


void NiDitherProperty::Sync(NiStreamReversible& stream) {
	stream.Sync(flags);
}


void NiFogProperty::Sync(NiStreamReversible& stream) {
	stream.Sync(flags);
	stream.Sync(fogDepth);
	stream.Sync(fogColor);
}


void NiWireframeProperty::Sync(NiStreamReversible& stream) {
	stream.Sync(flags);
}


void NiZBufferProperty::Sync(NiStreamReversible& stream) {
	stream.Sync(flags);

	if (stream.GetVersion().File() >= V4_1_0_12 && stream.GetVersion().File() <= V20_0_0_5)
		stream.Sync(testFunction);
}


void BSShaderProperty::Sync(NiStreamReversible& stream) {
	if (stream.GetVersion().User() == 12 && stream.GetVersion().Stream() > 139) {
		std::string nameStr = stream.GetHeader().GetStringById(name.GetIndex());
		if (!nameStr.empty())
			return;
	}

	if (stream.GetVersion().User() <= 11) {
		stream.Sync(shaderFlags);
		stream.Sync(shaderType);
		stream.Sync(shaderFlags1);
		stream.Sync(shaderFlags2);
		stream.Sync(environmentMapScale);
	}
	else {
		if (stream.GetVersion().Stream() < 132) {
			stream.Sync(shaderFlags1);
			stream.Sync(shaderFlags2);
			stream.Sync(uvOffset);
			stream.Sync(uvScale);
		}
	}
}

uint32_t BSShaderProperty::GetShaderType() const {
	return shaderType;
}

void BSShaderProperty::SetShaderType(uint32_t type) {
	shaderType = static_cast<BSShaderType>(type);
}

bool BSShaderProperty::IsSkinTinted() const {
	return shaderType == SHADER_SKIN;
}

bool BSShaderProperty::IsFaceTinted() const {
	return shaderType == SHADER_SKIN;
}

bool BSShaderProperty::IsSkinned() const {
	return (shaderFlags1 & (1 << 1)) != 0;
}

void BSShaderProperty::SetSkinned(const bool enable) {
	if (enable)
		shaderFlags1 |= 1 << 1;
	else
		shaderFlags1 &= ~(1 << 1);
}

bool BSShaderProperty::IsDoubleSided() const {
	return (shaderFlags2 & (1 << 4)) != 0;
}

void BSShaderProperty::SetDoubleSided(const bool enable) {
	if (enable)
		shaderFlags2 |= 1 << 4;
	else
		shaderFlags2 &= ~(1 << 4);
}

bool BSShaderProperty::IsModelSpace() const {
	return (shaderFlags1 & (1 << 12)) != 0;
}

bool BSShaderProperty::IsEmissive() const {
	return (shaderFlags1 & (1 << 22)) != 0;
}

bool BSShaderProperty::HasSpecular() const {
	return (shaderFlags1 & (1 << 0)) != 0;
}

bool BSShaderProperty::HasVertexColors() const {
	return (shaderFlags2 & (1 << 5)) != 0;
}

void BSShaderProperty::SetVertexColors(const bool enable) {
	if (enable)
		shaderFlags2 |= 1 << 5;
	else
		shaderFlags2 &= ~(1 << 5);
}

bool BSShaderProperty::HasVertexAlpha() const {
	return (shaderFlags1 & (1 << 3)) != 0;
}

void BSShaderProperty::SetVertexAlpha(const bool enable) {
	if (enable)
		shaderFlags1 |= 1 << 3;
	else
		shaderFlags1 &= ~(1 << 3);
}

bool BSShaderProperty::HasBacklight() const {
	// Skyrim
	return (shaderFlags2 & (1 << 27)) != 0;
}

bool BSShaderProperty::HasRimlight() const {
	// Skyrim
	return (shaderFlags2 & (1 << 26)) != 0;
}

bool BSShaderProperty::HasSoftlight() const {
	// Skyrim
	return (shaderFlags2 & (1 << 25)) != 0;
}

bool BSShaderProperty::HasGlowmap() const {
	return (shaderFlags2 & (1 << 6)) != 0;
}

bool BSShaderProperty::HasGreyscaleColor() const {
	return (shaderFlags1 & (1 << 3)) != 0;
}

bool BSShaderProperty::HasEnvironmentMapping() const {
	return (shaderFlags1 & (1 << 7)) != 0;
}

void BSShaderProperty::SetEnvironmentMapping(const bool enable) {
	if (enable)
		shaderFlags1 |= 1 << 7;
	else
		shaderFlags1 &= ~(1 << 7);
}

float BSShaderProperty::GetEnvironmentMapScale() const {
	return environmentMapScale;
}

Vector2 BSShaderProperty::GetUVOffset() const {
	return uvOffset;
}

Vector2 BSShaderProperty::GetUVScale() const {
	return uvScale;
}


void TallGrassShaderProperty::Sync(NiStreamReversible& stream) {
	fileName.Sync(stream, 4);
}


void SkyShaderProperty::Sync(NiStreamReversible& stream) {
	fileName.Sync(stream, 4);
	stream.Sync(skyObjectType);
}


void TileShaderProperty::Sync(NiStreamReversible& stream) {
	fileName.Sync(stream, 4);
}


BSShaderTextureSet::BSShaderTextureSet(NiVersion& version) {
	if (version.User() == 12 && version.Stream() == 155)
		textures.resize(13);
	else if (version.User() == 12 && version.Stream() == 130)
		textures.resize(10);
	else if (version.User() == 12)
		textures.resize(9);
	else
		textures.resize(6);
}

void BSShaderTextureSet::Sync(NiStreamReversible& stream) {
	textures.Sync(stream);
}

BSLightingShaderProperty::BSLightingShaderProperty() {
	NiObjectNET::bBSLightingShaderProperty = true;

	shaderFlags1 = 0x80400203;
	shaderFlags2 = 0x00000081;
}

BSLightingShaderProperty::BSLightingShaderProperty(NiVersion& version)
	: BSLightingShaderProperty() {
	if (version.User() == 12 && version.Stream() >= 120) {
		shaderFlags1 = 0x80400203;
		shaderFlags2 = 0x00000081;
	}
	else {
		shaderFlags1 = 0x82400303;
		shaderFlags2 = 0x00008001;
	}

	if (version.User() == 12 && version.Stream() >= 120)
		glossiness = 1.0f;
	else
		glossiness = 20.0f;
}

void BSLightingShaderProperty::Sync(NiStreamReversible& stream) {
	if (stream.GetVersion().User() == 12 && stream.GetVersion().Stream() > 139) {
		std::string nameStr = stream.GetHeader().GetStringById(name.GetIndex());
		if (!nameStr.empty())
			return;
	}

	if (stream.GetVersion().Stream() > 139) {
		// Adjust shader type to old value internally due to removed Height/Parallax enum value (3)
		if (stream.GetMode() == NiStreamReversible::Mode::Reading) {
			stream.Sync(bslspShaderType);

			if (bslspShaderType > 3)
				bslspShaderType += 1;
		}
		else {
			// Write the value that reading adjusts back to the internal one, leave the member untouched
			uint32_t fileShaderType = bslspShaderType;
			if (fileShaderType > 3)
				fileShaderType -= 1;

			stream.Sync(fileShaderType);
		}
	}

	if (stream.GetVersion().Stream() >= 132) {
		stream.Sync(numSF1);
		SF1.resize(numSF1);
	}

	if (stream.GetVersion().Stream() >= 152) {
		stream.Sync(numSF2);
		SF2.resize(numSF2);
	}

	if (stream.GetVersion().Stream() >= 132) {
		for (uint32_t i = 0; i < numSF1; i++)
			stream.Sync(SF1[i]);
	}

	if (stream.GetVersion().Stream() >= 152) {
		for (uint32_t i = 0; i < numSF2; i++)
			stream.Sync(SF2[i]);
	}

	if (stream.GetVersion().Stream() >= 132) {
		stream.Sync(uvOffset);
		stream.Sync(uvScale);
	}

	textureSetRef.Sync(stream);

	stream.Sync(emissiveColor);
	stream.Sync(emissiveMultiple);

	if (stream.GetVersion().User() == 12 && stream.GetVersion().Stream() >= 130)
		rootMaterialName.Sync(stream);

	if (stream.GetVersion().User() == 12 && stream.GetVersion().Stream() >= 172)
		stream.Sync(unkFloat);

	stream.Sync(textureClampMode);
	stream.Sync(alpha);
	stream.Sync(refractionStrength);
	stream.Sync(glossiness);
	stream.Sync(specularColor);
	stream.Sync(specularStrength);

	if (stream.GetVersion().User() <= 12 && stream.GetVersion().Stream() < 130) {
		stream.Sync(softlighting);
		stream.Sync(rimlightPower);
	}

	if (stream.GetVersion().IsFO4()) {
		stream.Sync(subsurfaceRolloff);
		stream.Sync(rimlightPower2);

		if (rimlightPower2 >= NiFloatMax && rimlightPower2 < NiFloatInf)
			stream.Sync(backlightPower);
	}

	if (stream.GetVersion().User() == 12 && stream.GetVersion().Stream() >= 130) {
		stream.Sync(grayscaleToPaletteScale);
		stream.Sync(fresnelPower);
		stream.Sync(wetnessSpecScale);
		stream.Sync(wetnessSpecPower);
		stream.Sync(wetnessMinVar);

		if (stream.GetVersion().Stream() == 130)
			stream.Sync(wetnessEnvmapScale);

		stream.Sync(wetnessFresnelPower);
		stream.Sync(wetnessMetalness);

		if (stream.GetVersion().Stream() > 130)
			stream.Sync(wetnessUnknown1);
		if (stream.GetVersion().Stream() >= 155)
			stream.Sync(wetnessUnknown2);
	}

	if (stream.GetVersion().User() == 12 && stream.GetVersion().Stream() > 139) {
		stream.Sync(lumEmittance);
		stream.Sync(exposureOffset);
		stream.Sync(finalExposureMin);
		stream.Sync(finalExposureMax);

		if (stream.GetVersion().Stream() < 172) {
			stream.Sync(doTranslucency);
			if (doTranslucency) {
				stream.Sync(subsurfaceColor);
				stream.Sync(transmissiveScale);
				stream.Sync(turbulence);
				stream.Sync(thickObject);
				stream.Sync(mixAlbedo);
			}

			stream.Sync(hasTextureArrays);

			if (hasTextureArrays) {
				stream.Sync(numTextureArrays);

				textureArrays.resize(numTextureArrays);

				for (uint32_t i = 0; i < numTextureArrays; i++)
					textureArrays[i].Sync(stream);
			}
		}
		else {
			stream.Sync(unkFloat1);
			stream.Sync(unkFloat2);
			stream.Sync(unkShort1);
		}
	}

	switch (bslspShaderType) {
		case 1:
			stream.Sync(environmentMapScale);

			if (stream.GetVersion().IsFO4()) {
				stream.Sync(useSSR);
				stream.Sync(wetnessUseSSR);
			}
			break;
		case 5:
			stream.Sync(skinTintColor);

			if (stream.GetVersion().User() == 12 && stream.GetVersion().Stream() >= 130)
				stream.Sync(skinTintAlpha);
			break;
		case 6:
			stream.Sync(hairTintColor);
			break;
		case 7:
			stream.Sync(maxPasses);
			stream.Sync(scale);
			break;
		case 11:
			stream.Sync(parallaxInnerLayerThickness);
			stream.Sync(parallaxRefractionScale);
			stream.Sync(parallaxInnerLayerTextureScale);
			stream.Sync(parallaxEnvmapStrength);
			break;
		case 14: stream.Sync(sparkleParameters); break;
		case 16:
			stream.Sync(eyeCubemapScale);
			stream.Sync(eyeLeftReflectionCenter);
			stream.Sync(eyeRightReflectionCenter);
			break;
	}
}

void BSLightingShaderProperty::GetStringRefs(std::vector<NiStringRef*>& refs) {
	BSShaderProperty::GetStringRefs(refs);

	refs.emplace_back(&rootMaterialName);
}

void BSLightingShaderProperty::GetChildRefs(std::set<NiRef*>& refs) {
	BSShaderProperty::GetChildRefs(refs);

	refs.insert(&textureSetRef);
}

void BSLightingShaderProperty::GetChildIndices(std::vector<uint32_t>& indices) {
	BSShaderProperty::GetChildIndices(indices);

	indices.push_back(textureSetRef.index);
}

bool BSLightingShaderProperty::IsSkinTinted() const {
	return bslspShaderType == BSLSP_SKINTINT;
}

bool BSLightingShaderProperty::IsFaceTinted() const {
	return bslspShaderType == BSLSP_FACE;
}

bool BSLightingShaderProperty::HasGlowmap() const {
	return bslspShaderType == BSLSP_GLOWMAP && BSShaderProperty::HasGlowmap();
}

bool BSLightingShaderProperty::HasEnvironmentMapping() const {
	return bslspShaderType == BSLSP_ENVMAP && BSShaderProperty::HasEnvironmentMapping();
}

uint32_t BSLightingShaderProperty::GetShaderType() const {
	return bslspShaderType;
}

void BSLightingShaderProperty::SetShaderType(const uint32_t type) {
	bslspShaderType = type;
}

Vector3 BSLightingShaderProperty::GetSpecularColor() const {
	return specularColor;
}

void BSLightingShaderProperty::SetSpecularColor(const Vector3& color) {
	specularColor = color;
}

float BSLightingShaderProperty::GetSpecularStrength() const {
	return specularStrength;
}

void BSLightingShaderProperty::SetSpecularStrength(const float strength) {
	specularStrength = strength;
}

float BSLightingShaderProperty::GetGlossiness() const {
	return glossiness;
}

void BSLightingShaderProperty::SetGlossiness(const float gloss) {
	glossiness = gloss;
}

Color4 BSLightingShaderProperty::GetEmissiveColor() const {
	Color4 color;
	color.r = emissiveColor.x;
	color.g = emissiveColor.y;
	color.b = emissiveColor.z;
	return color;
}

void BSLightingShaderProperty::SetEmissiveColor(const Color4& color) {
	emissiveColor.x = color.r;
	emissiveColor.y = color.g;
	emissiveColor.z = color.b;
}

float BSLightingShaderProperty::GetEmissiveMultiple() const {
	return emissiveMultiple;
}

void BSLightingShaderProperty::SetEmissiveMultiple(const float emissive) {
	emissiveMultiple = emissive;
}

float BSLightingShaderProperty::GetAlpha() const {
	return alpha;
}

void BSLightingShaderProperty::SetAlpha(const float alphaValue) {
	alpha = alphaValue;
}

float BSLightingShaderProperty::GetBacklightPower() const {
	return backlightPower;
}

float BSLightingShaderProperty::GetRimlightPower() const {
	return rimlightPower;
}

float BSLightingShaderProperty::GetSoftlight() const {
	return softlighting;
}

float BSLightingShaderProperty::GetSubsurfaceRolloff() const {
	return subsurfaceRolloff;
}

float BSLightingShaderProperty::GetGrayscaleToPaletteScale() const {
	return grayscaleToPaletteScale;
}

float BSLightingShaderProperty::GetFresnelPower() const {
	return fresnelPower;
}

std::string BSLightingShaderProperty::GetWetMaterialName() const {
	return rootMaterialName.get();
}

void BSLightingShaderProperty::SetWetMaterialName(const std::string& matName) {
	rootMaterialName.get() = matName;
}


void BSEffectShaderProperty::Sync(NiStreamReversible& stream) {
	if (stream.GetVersion().User() == 12 && stream.GetVersion().Stream() > 130) {
		std::string nameStr = stream.GetHeader().GetStringById(name.GetIndex());
		if (!nameStr.empty())
			return;
	}

	if (stream.GetVersion().Stream() >= 132) {
		stream.Sync(numSF1);
		SF1.resize(numSF1);
	}

	if (stream.GetVersion().Stream() >= 152) {
		stream.Sync(numSF2);
		SF2.resize(numSF2);
	}

	if (stream.GetVersion().Stream() >= 132) {
		for (uint32_t i = 0; i < numSF1; i++)
			stream.Sync(SF1[i]);
	}

	if (stream.GetVersion().Stream() >= 152) {
		for (uint32_t i = 0; i < numSF2; i++)
			stream.Sync(SF2[i]);
	}

	if (stream.GetVersion().Stream() >= 132) {
		stream.Sync(uvOffset);
		stream.Sync(uvScale);
	}

	sourceTexture.Sync(stream, 4);

	if (stream.GetVersion().Stream() >= 172)
		stream.Sync(unkFloat);

	stream.Sync(textureClampMode);

	stream.Sync(falloffStartAngle);
	stream.Sync(falloffStopAngle);
	stream.Sync(falloffStartOpacity);
	stream.Sync(falloffStopOpacity);

	if (stream.GetVersion().User() == 12 && stream.GetVersion().Stream() > 139 && stream.GetVersion().Stream() < 172)
		stream.Sync(refractionPower);

	stream.Sync(baseColor);
	stream.Sync(baseColorScale);
	stream.Sync(softFalloffDepth);
	greyscaleTexture.Sync(stream, 4);

	if (stream.GetVersion().User() == 12 && stream.GetVersion().Stream() >= 130) {
		envMapTexture.Sync(stream, 4);
		normalTexture.Sync(stream, 4);
		envMaskTexture.Sync(stream, 4);
		stream.Sync(envMapScale);
	}

	if (stream.GetVersion().User() == 12 && stream.GetVersion().Stream() > 139) {
		reflectanceTexture.Sync(stream, 4);
		lightingTexture.Sync(stream, 4);
		stream.Sync(emittanceColor);
		emitGradientTexture.Sync(stream, 4);

		stream.Sync(lumEmittance);
		stream.Sync(exposureOffset);
		stream.Sync(finalExposureMin);
		stream.Sync(finalExposureMax);
	}

	if (stream.GetVersion().User() == 12 && stream.GetVersion().Stream() >= 172) {
		for (uint8_t& b : unkBytes)
			stream.Sync(b);

		for (float& f : unkFloats)
			stream.Sync(f);

		stream.Sync(unkByte1);
	}
}

float BSEffectShaderProperty::GetEnvironmentMapScale() const {
	return envMapScale;
}

Color4 BSEffectShaderProperty::GetEmissiveColor() const {
	return baseColor;
}

void BSEffectShaderProperty::SetEmissiveColor(const Color4& color) {
	baseColor = color;
}

float BSEffectShaderProperty::GetEmissiveMultiple() const {
	return baseColorScale;
}

void BSEffectShaderProperty::SetEmissiveMultiple(const float emissive) {
	baseColorScale = emissive;
}


void BSWaterShaderProperty::Sync(NiStreamReversible& stream) {
	if (stream.GetVersion().User() == 12 && stream.GetVersion().Stream() > 139) {
		std::string nameStr = stream.GetHeader().GetStringById(name.GetIndex());
		if (!nameStr.empty())
			return;
	}

	if (stream.GetVersion().Stream() >= 132) {
		stream.Sync(numSF1);
		SF1.resize(numSF1);
	}

	if (stream.GetVersion().Stream() >= 152) {
		stream.Sync(numSF2);
		SF2.resize(numSF2);
	}

	if (stream.GetVersion().Stream() >= 132) {
		for (uint32_t i = 0; i < numSF1; i++)
			stream.Sync(SF1[i]);
	}

	if (stream.GetVersion().Stream() >= 152) {
		for (uint32_t i = 0; i < numSF2; i++)
			stream.Sync(SF2[i]);
	}

	if (stream.GetVersion().Stream() >= 132) {
		stream.Sync(uvOffset);
		stream.Sync(uvScale);
	}

	stream.Sync(waterFlags);
}


void BSSkyShaderProperty::Sync(NiStreamReversible& stream) {
	if (stream.GetVersion().User() == 12 && stream.GetVersion().Stream() > 139) {
		std::string nameStr = stream.GetHeader().GetStringById(name.GetIndex());
		if (!nameStr.empty())
			return;
	}

	if (stream.GetVersion().Stream() >= 132) {
		stream.Sync(numSF1);
		SF1.resize(numSF1);
	}

	if (stream.GetVersion().Stream() >= 152) {
		stream.Sync(numSF2);
		SF2.resize(numSF2);
	}

	if (stream.GetVersion().Stream() >= 132) {
		for (uint32_t i = 0; i < numSF1; i++)
			stream.Sync(SF1[i]);
	}

	if (stream.GetVersion().Stream() >= 152) {
		for (uint32_t i = 0; i < numSF2; i++)
			stream.Sync(SF2[i]);
	}

	if (stream.GetVersion().Stream() >= 132) {
		stream.Sync(uvOffset);
		stream.Sync(uvScale);
	}

	baseTexture.Sync(stream, 4);
	stream.Sync(skyFlags);
}


void BSShaderLightingProperty::Sync(NiStreamReversible& stream) {
	if (stream.GetVersion().User() <= 11)
		stream.Sync(textureClampMode);
}


void BSShaderPPLightingProperty::Sync(NiStreamReversible& stream) {
	textureSetRef.Sync(stream);

	if (stream.GetVersion().User() == 11 && stream.GetVersion().Stream() > 14) {
		stream.Sync(refractionStrength);
		stream.Sync(refractionFirePeriod);
	}

	if (stream.GetVersion().User() == 11 && stream.GetVersion().Stream() > 24) {
		stream.Sync(parallaxMaxPasses);
		stream.Sync(parallaxScale);
	}

	if (stream.GetVersion().User() >= 12)
		stream.Sync(emissiveColor);
}

void BSShaderPPLightingProperty::GetChildRefs(std::set<NiRef*>& refs) {
	BSShaderLightingProperty::GetChildRefs(refs);

	refs.insert(&textureSetRef);
}

void BSShaderPPLightingProperty::GetChildIndices(std::vector<uint32_t>& indices) {
	BSShaderLightingProperty::GetChildIndices(indices);

	indices.push_back(textureSetRef.index);
}

bool BSShaderPPLightingProperty::IsSkinned() const {
	return (shaderFlags1 & (1 << 1)) != 0;
}

void BSShaderPPLightingProperty::SetSkinned(const bool enable) {
	if (enable)
		shaderFlags1 |= 1 << 1;
	else
		shaderFlags1 &= ~(1 << 1);
}


void BSShaderNoLightingProperty::Sync(NiStreamReversible& stream) {
	baseTexture.Sync(stream, 4);

	if (stream.GetVersion().Stream() > 26) {
		stream.Sync(falloffStartAngle);
		stream.Sync(falloffStopAngle);
		stream.Sync(falloffStartOpacity);
		stream.Sync(falloffStopOpacity);
	}
}

bool BSShaderNoLightingProperty::IsSkinned() const {
	return (shaderFlags1 & (1 << 1)) != 0;
}

void BSShaderNoLightingProperty::SetSkinned(const bool enable) {
	if (enable)
		shaderFlags1 |= 1 << 1;
	else
		shaderFlags1 &= ~(1 << 1);
}


void NiAlphaProperty::Sync(NiStreamReversible& stream) {
	stream.Sync(flags);
	stream.Sync(threshold);
}


void NiMaterialProperty::Sync(NiStreamReversible& stream) {
	const NiFileVersion fileVersion = stream.GetVersion().File();

	if (fileVersion >= NiFileVersion::V3_0 && fileVersion <= NiFileVersion::V10_0_1_2)
		stream.Sync(legacyFlags);

	if (stream.GetVersion().Stream() < 26) {
		stream.Sync(colorAmbient);
		stream.Sync(colorDiffuse);
	}

	stream.Sync(colorSpecular);
	stream.Sync(colorEmissive);
	stream.Sync(glossiness);
	stream.Sync(alpha);

	if (stream.GetVersion().Stream() > 21)
		stream.Sync(emitMulti);
}

bool NiMaterialProperty::IsEmissive() const {
	return !colorEmissive.IsZero();
}

bool NiMaterialProperty::HasSpecular() const {
	return !colorSpecular.IsZero();
}

void NiMaterialProperty::SetSpecularColor(const Vector3& color) {
	colorSpecular = color;
}

Vector3 NiMaterialProperty::GetSpecularColor() const {
	return colorSpecular;
}

float NiMaterialProperty::GetGlossiness() const {
	return glossiness;
}

void NiMaterialProperty::SetGlossiness(const float gloss) {
	glossiness = gloss;
}

Color4 NiMaterialProperty::GetEmissiveColor() const {
	Color4 color;
	color.r = colorEmissive.x;
	color.g = colorEmissive.y;
	color.b = colorEmissive.z;
	return color;
}

void NiMaterialProperty::SetEmissiveColor(const Color4& color) {
	colorEmissive.x = color.r;
	colorEmissive.y = color.g;
	colorEmissive.z = color.b;
}

float NiMaterialProperty::GetEmissiveMultiple() const {
	return emitMulti;
}

void NiMaterialProperty::SetEmissiveMultiple(const float emissive) {
	emitMulti = emissive;
}

float NiMaterialProperty::GetAlpha() const {
	return alpha;
}

void NiMaterialProperty::SetAlpha(const float alphaValue) {
	alpha = alphaValue;
}


void NiStencilProperty::Sync(NiStreamReversible& stream) {
	const NiFileVersion fileVersion = stream.GetVersion().File();

	if (fileVersion >= NiFileVersion::V3_0 && fileVersion <= NiFileVersion::V10_0_1_2)
		stream.Sync(legacyFlags);

	if (fileVersion <= NiFileVersion::V20_0_0_5) {
		stream.Sync(stencilEnabled);
		stream.Sync(stencilFunction);
		stream.Sync(stencilRef);
		stream.Sync(stencilMask);
		stream.Sync(failAction);
		stream.Sync(zFailAction);
		stream.Sync(passAction);
		stream.Sync(drawMode);
	}
	else if (fileVersion >= NiFileVersion::V20_1_0_3) {
		stream.Sync(flags);
		stream.Sync(stencilRef);
		stream.Sync(stencilMask);
	}
}
