#include "Object3d.hpp"
#include <Miniball.hpp>
#include <cmath>

namespace nifly {
float CalcMedianOfFloats(std::vector<float>& data) {
	size_t n = data.size();
	if (n <= 0)
		return 0;

	if (n & 1) { // n is odd
		std::nth_element(data.begin(), data.begin() + n / 2, data.end());
		return data[n / 2];
	}
	// n is even
	std::nth_element(data.begin(), data.begin() + n / 2, data.end());
	std::nth_element(data.begin(), data.begin() + n / 2 - 1, data.begin() + n / 2);
	return (data[n / 2] + data[n / 2 - 1]) / 2;
}

Matrix3 RotVecToMat(const Vector3& v) {
	double angle = std::sqrt(v.x * v.x + v.y * v.y + v.z * v.z);
	double cosang = std::cos(angle);
	double sinang = std::sin(angle);
	double onemcosang = NAN; // One minus cosang
	// Avoid loss of precision from cancellation in calculating onemcosang
	if (cosang > .5)
		onemcosang = sinang * sinang / (1 + cosang);
	else
		onemcosang = 1 - cosang;

	Vector3 n = angle != 0.0 ? v / static_cast<float>(angle) : Vector3(1.0f, 0.0f, 0.0f);
	Matrix3 m;
	m[0][0] = n.x * n.x * static_cast<float>(onemcosang) + static_cast<float>(cosang);
	m[1][1] = n.y * n.y * static_cast<float>(onemcosang) + static_cast<float>(cosang);
	m[2][2] = n.z * n.z * static_cast<float>(onemcosang) + static_cast<float>(cosang);
	m[0][1] = n.x * n.y * static_cast<float>(onemcosang) + n.z * static_cast<float>(sinang);
	m[1][0] = n.x * n.y * static_cast<float>(onemcosang) - n.z * static_cast<float>(sinang);
	m[1][2] = n.y * n.z * static_cast<float>(onemcosang) + n.x * static_cast<float>(sinang);
	m[2][1] = n.y * n.z * static_cast<float>(onemcosang) - n.x * static_cast<float>(sinang);
	m[2][0] = n.z * n.x * static_cast<float>(onemcosang) + n.y * static_cast<float>(sinang);
	m[0][2] = n.z * n.x * static_cast<float>(onemcosang) - n.y * static_cast<float>(sinang);
	return m;
}

Vector3 RotMatToVec(const Matrix3& m) {
	double cosang = (m[0][0] + m[1][1] + m[2][2] - 1) * 0.5;
	if (cosang > 0.5) {
		Vector3 v(m[1][2] - m[2][1], m[2][0] - m[0][2], m[0][1] - m[1][0]);
		double sin2ang = v.length();
		if (sin2ang == 0.0)
			return Vector3();

		return v * static_cast<float>(std::asin(sin2ang * 0.5) / sin2ang);
	}
	if (cosang > -1) {
		Vector3 v(m[1][2] - m[2][1], m[2][0] - m[0][2], m[0][1] - m[1][0]);
		// v is 2*sinang*axis. If it vanishes here (cosang <= 0.5), sinang is 0 and
		// the rotation is a half turn whose trace was rounded to just above -1:
		// normalizing v would return the zero vector, so use the half-turn case below.
		if (!v.IsZero()) {
			v.Normalize();
			return v * static_cast<float>(std::acos(cosang));
		}
	}
	// cosang <= -1 or no skew-symmetric part: sinang == 0, half turn
	double x = (m[0][0] - cosang) * 0.5;
	double y = (m[1][1] - cosang) * 0.5;
	double z = (m[2][2] - cosang) * 0.5;

	// Solve precision issues that would cause NaN
	if (x < 0.0)
		x = 0.0;
	if (y < 0.0)
		y = 0.0;
	if (z < 0.0)
		z = 0.0;

	Vector3 v(static_cast<float>(std::sqrt(x)),
			  static_cast<float>(std::sqrt(y)),
			  static_cast<float>(std::sqrt(z)));
	v.Normalize();

	if (m[1][2] < m[2][1])
		v.x = -v.x;
	if (m[2][0] < m[0][2])
		v.y = -v.y;
	if (m[0][1] < m[1][0])
		v.z = -v.z;
	return v * PI;
}

Matrix3 CalcAverageRotation(const std::vector<Matrix3>& rots) {
	auto n = static_cast<uint32_t>(rots.size());
	if (n == 0)
		return Matrix3();

	// First, calculate an approximate average as a base point in
	// the manifold of rotations.
	Vector3 sum1;
	for (const Matrix3& r : rots)
		sum1 += RotMatToVec(r);

	sum1.x /= n;
	sum1.y /= n;
	sum1.z /= n;

	// Now, rebase each rotation to the base point and average them
	// there.
	Matrix3 base = RotVecToMat(sum1);
	Matrix3 baseinv = base.Transpose();
	Vector3 sum2;
	for (const Matrix3& r : rots)
		sum2 += RotMatToVec(baseinv * r);

	sum2.x /= n;
	sum2.y /= n;
	sum2.z /= n;

	// The result is the new average offset from the base.
	return base * RotVecToMat(sum2);
}

MatTransform CalcAverageMatTransform(const std::vector<MatTransform>& ts) {
	auto n = static_cast<uint32_t>(ts.size());
	if (n == 0)
		return MatTransform();

	std::vector<Matrix3> rots(n);
	Vector3 sumtrans;
	float sumscale = 0.0f;
	for (uint32_t i = 0; i < n; ++i) {
		rots[i] = ts[i].rotation;
		sumtrans += ts[i].translation;
		sumscale += ts[i].scale;
	}

	MatTransform res;
	res.rotation = CalcAverageRotation(rots);
	res.translation.x = sumtrans.x / n;
	res.translation.y = sumtrans.y / n;
	res.translation.z = sumtrans.z / n;
	res.scale = sumscale / n;
	return res;
}

Vector3 CalcMedianOfVector3(const std::vector<Vector3>& data) {
	size_t n = data.size();
	if (n <= 0)
		return Vector3();

	Vector3 res;
	std::vector<float> nums(n);

	for (uint32_t i = 0; i < n; ++i)
		nums[i] = data[i].x;
	res.x = CalcMedianOfFloats(nums);

	for (uint32_t i = 0; i < n; ++i)
		nums[i] = data[i].y;
	res.y = CalcMedianOfFloats(nums);

	for (uint32_t i = 0; i < n; ++i)
		nums[i] = data[i].z;
	res.z = CalcMedianOfFloats(nums);

	return res;
}

Matrix3 CalcMedianRotation(const std::vector<Matrix3>& rots) {
	auto n = static_cast<uint32_t>(rots.size());
	if (n == 0)
		return Matrix3();

	// First, calculate an approximate average as a base point in
	// the manifold of rotations.
	Vector3 sum1;
	for (const Matrix3& r : rots)
		sum1 += RotMatToVec(r);

	sum1.x /= n;
	sum1.y /= n;
	sum1.z /= n;

	// Now, rebase each rotation to the base point.
	std::vector<Vector3> vecs(n);
	Matrix3 base = RotVecToMat(sum1);
	Matrix3 baseinv = base.Transpose();
	for (uint32_t i = 0; i < n; ++i)
		vecs[i] = RotMatToVec(baseinv * rots[i]);

	// Calculate median of the rebased rotation vectors.
	Vector3 mvec = CalcMedianOfVector3(vecs);

	// The result is the median rebased rotation offset from the base.
	return base * RotVecToMat(mvec);
}

MatTransform CalcMedianMatTransform(const std::vector<MatTransform>& ts) {
	size_t n = ts.size();
	if (n <= 0)
		return MatTransform();

	std::vector<Matrix3> rots(n);
	std::vector<Vector3> trans(n);
	std::vector<float> scales(n);
	for (uint32_t i = 0; i < n; ++i) {
		rots[i] = ts[i].rotation;
		trans[i] = ts[i].translation;
		scales[i] = ts[i].scale;
	}

	MatTransform res;
	res.rotation = CalcMedianRotation(rots);
	res.translation = CalcMedianOfVector3(trans);
	res.scale = CalcMedianOfFloats(scales);
	return res;
}
} // namespace nifly


using namespace nifly;

BoundingSphere::BoundingSphere(const std::vector<Vector3>& vertices) {
	if (vertices.empty())
		return;

	// Convert vertices to list of coordinates
	std::list<std::vector<float>> lp;
	for (auto vertice : vertices) {
		lp.push_back({vertice.x, vertice.y, vertice.z});
	}

	Miniball::Miniball<Miniball::CoordAccessor<std::list<std::vector<float>>::const_iterator,
											   std::vector<float>::const_iterator>>
		mb(3, lp.begin(), lp.end());

	const float* pCenter = mb.center();
	center.x = pCenter[0];
	center.y = pCenter[1];
	center.z = pCenter[2];

	radius = std::sqrt(mb.squared_radius());
}

float Matrix3::Determinant() const {
	return rows[0][0] * (rows[1][1] * rows[2][2] - rows[1][2] * rows[2][1])
		   + rows[0][1] * (rows[1][2] * rows[2][0] - rows[1][0] * rows[2][2])
		   + rows[0][2] * (rows[1][0] * rows[2][1] - rows[1][1] * rows[2][0]);
}

bool Matrix3::Invert(Matrix3* inverse) const {
	float det = Determinant();
	if (det == 0.0f)
		return false;
	float idet = 1 / det;
	Matrix3& im = *inverse;
	im[0][0] = (rows[1][1] * rows[2][2] - rows[1][2] * rows[2][1]) * idet;
	im[1][0] = (rows[1][2] * rows[2][0] - rows[1][0] * rows[2][2]) * idet;
	im[2][0] = (rows[1][0] * rows[2][1] - rows[1][1] * rows[2][0]) * idet;
	im[0][1] = (rows[2][1] * rows[0][2] - rows[2][2] * rows[0][1]) * idet;
	im[1][1] = (rows[2][2] * rows[0][0] - rows[2][0] * rows[0][2]) * idet;
	im[2][1] = (rows[2][0] * rows[0][1] - rows[2][1] * rows[0][0]) * idet;
	im[0][2] = (rows[0][1] * rows[1][2] - rows[0][2] * rows[1][1]) * idet;
	im[1][2] = (rows[0][2] * rows[1][0] - rows[0][0] * rows[1][2]) * idet;
	im[2][2] = (rows[0][0] * rows[1][1] - rows[0][1] * rows[1][0]) * idet;
	return true;
}

Matrix3 Matrix3::Inverse() const {
	Matrix3 inv;
	Invert(&inv);
	return inv;
}

Matrix3 Matrix3::MakeRotation(const float yaw, const float pitch, const float roll) {
	float ch = std::cos(yaw);
	float sh = std::sin(yaw);
	float cp = std::cos(pitch);
	float sp = std::sin(pitch);
	float cb = std::cos(roll);
	float sb = std::sin(roll);

	Matrix3 rot;
	rot[0].x = ch * cb + sh * sp * sb;
	rot[0].y = sb * cp;
	rot[0].z = -sh * cb + ch * sp * sb;

	rot[1].x = -ch * sb + sh * sp * cb;
	rot[1].y = cb * cp;
	rot[1].z = sb * sh + ch * sp * cb;

	rot[2].x = sh * cp;
	rot[2].y = -sp;
	rot[2].z = ch * cp;

	return rot;
}

bool Matrix3::ToEulerAngles(float& y, float& p, float& r) const {
	bool canRot = false;

	if (rows[0].z < 1.0f) {
		if (rows[0].z > -1.0f) {
			y = std::atan2(-rows[1].z, rows[2].z);
			p = std::asin(rows[0].z);
			r = std::atan2(-rows[0].y, rows[0].x);
			canRot = true;
		}
		else {
			y = -std::atan2(-rows[1].x, rows[1].y);
			p = -PI / 2.0f;
			r = 0.0f;
		}
	}
	else {
		y = std::atan2(rows[1].x, rows[1].y);
		p = PI / 2.0f;
		r = 0.0f;
	}
	return canRot;
}

MatTransform MatTransform::InverseTransform() const {
	MatTransform inv;
	inv.rotation = rotation.Inverse();
	inv.scale = 1 / scale;
	inv.translation = -inv.scale * (inv.rotation * translation);
	return inv;
}

MatTransform MatTransform::ComposeTransforms(const MatTransform& other) const {
	MatTransform comp;
	comp.rotation = rotation * other.rotation;
	comp.scale = scale * other.scale;
	comp.translation = translation + rotation * (scale * other.translation);
	return comp;
}
