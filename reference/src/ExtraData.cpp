/*
nifly
C++ NIF library for the Gamebryo/NetImmerse File Format
See the included GPLv3 LICENSE file
*/

#include "ExtraData.hpp"

#include <fstream>

using namespace nifly;

void NiExtraData::Sync(NiStreamReversible& stream) {
	name.Sync(stream);
}

void NiExtraData::GetStringRefs(std::vector<NiStringRef*>& refs) {
	NiObject::GetStringRefs(refs);

	refs.emplace_back(&name);
}


void NiBinaryExtraData::Sync(NiStreamReversible& stream) {
	data.Sync(stream);
}


void NiFloatExtraData::Sync(NiStreamReversible& stream) {
	stream.Sync(floatData);
}


void NiFloatsExtraData::Sync(NiStreamReversible& stream) {
	floatsData.Sync(stream);
}


void NiStringsExtraData::Sync(NiStreamReversible& stream) {
	stringsData.Sync(stream);
}


void NiStringExtraData::Sync(NiStreamReversible& stream) {
	stringData.Sync(stream);
}

void NiStringExtraData::GetStringRefs(std::vector<NiStringRef*>& refs) {
	NiExtraData::GetStringRefs(refs);

	refs.emplace_back(&stringData);
}


void NiBooleanExtraData::Sync(NiStreamReversible& stream) {
	stream.Sync(booleanData);
}


void NiIntegerExtraData::Sync(NiStreamReversible& stream) {
	stream.Sync(integerData);
}


void NiIntegersExtraData::Sync(NiStreamReversible& stream) {
	integersData.Sync(stream);
}


void NiVectorExtraData::Sync(NiStreamReversible& stream) {
	stream.Sync(vectorData);
}


void NiColorExtraData::Sync(NiStreamReversible& stream) {
	stream.Sync(colorData);
}


void BSWArray::Sync(NiStreamReversible& stream) {
	data.Sync(stream);
}


void BSPositionData::Sync(NiStreamReversible& stream) {
	data.Sync(stream);
}


void BSEyeCenterExtraData::Sync(NiStreamReversible& stream) {
	data.Sync(stream);
}


void BSPackedGeomData::Sync(NiStreamReversible& stream) {
	stream.Sync(numVertices);

	stream.Sync(lodLevels);
	stream.Sync(triCountLod0);
	stream.Sync(triOffsetLod0);
	stream.Sync(triCountLod1);
	stream.Sync(triOffsetLod1);
	stream.Sync(triCountLod2);
	stream.Sync(triOffsetLod2);

	combined.Sync(stream);

	stream.Sync(vertexDesc);

	vertData.resize(numVertices);

	for (uint32_t i = 0; i < numVertices; i++) {
		auto& vertex = vertData[i];
		if (HasVertices()) {
			if (IsFullPrecision() || stream.GetVersion().Stream() == 100) {
				// Full precision
				stream.Sync(vertex.vert);
				stream.Sync(vertex.bitangentX);
			}
			else {
				// Half precision
				stream.SyncHalf(vertex.vert.x);
				stream.SyncHalf(vertex.vert.y);
				stream.SyncHalf(vertex.vert.z);

				stream.SyncHalf(vertex.bitangentX);
			}
		}

		if (HasUVs()) {
			stream.SyncHalf(vertex.uv.u);
			stream.SyncHalf(vertex.uv.v);
		}

		if (HasNormals()) {
			for (uint8_t& j : vertex.normal)
				stream.Sync(j);

			stream.Sync(vertex.bitangentY);

			if (HasTangents()) {
				for (uint8_t& j : vertex.tangent)
					stream.Sync(j);

				stream.Sync(vertex.bitangentZ);
			}
		}


		if (HasVertexColors())
			for (uint8_t& j : vertex.colorData)
				stream.Sync(j);

		if (IsSkinned()) {
			for (float& weight : vertex.weights)
				stream.SyncHalf(weight);

			for (uint8_t& weightBone : vertex.weightBones)
				stream.Sync(weightBone);
		}

		if (HasEyeData())
			stream.Sync(vertex.eyeData);
	}

	triangles.resize(triCountLod0 + triCountLod1 + triCountLod2);
	for (auto& t : triangles)
		stream.Sync(t);
}

void BSPackedGeomData::SetVertices(const bool enable) {
	if (enable) {
		vertexDesc.SetFlag(VF_VERTEX);
		vertData.resize(numVertices);
	}
	else {
		vertexDesc.RemoveFlag(VF_VERTEX);
		vertData.clear();
		numVertices = 0;

		SetUVs(false);
		SetNormals(false);
		SetTangents(false);
		SetVertexColors(false);
		SetSkinned(false);
	}
}

void BSPackedGeomData::SetUVs(const bool enable) {
	if (enable)
		vertexDesc.SetFlag(VF_UV);
	else
		vertexDesc.RemoveFlag(VF_UV);
}

void BSPackedGeomData::SetSecondUVs(const bool enable) {
	if (enable)
		vertexDesc.SetFlag(VF_UV_2);
	else
		vertexDesc.RemoveFlag(VF_UV_2);
}

void BSPackedGeomData::SetNormals(const bool enable) {
	if (enable)
		vertexDesc.SetFlag(VF_NORMAL);
	else
		vertexDesc.RemoveFlag(VF_NORMAL);
}

void BSPackedGeomData::SetTangents(const bool enable) {
	if (enable)
		vertexDesc.SetFlag(VF_TANGENT);
	else
		vertexDesc.RemoveFlag(VF_TANGENT);
}

void BSPackedGeomData::SetVertexColors(const bool enable) {
	if (enable) {
		if (!vertexDesc.HasFlag(VF_COLORS)) {
			for (auto& v : vertData) {
				v.colorData[0] = 255;
				v.colorData[1] = 255;
				v.colorData[2] = 255;
				v.colorData[3] = 255;
			}
		}

		vertexDesc.SetFlag(VF_COLORS);
	}
	else
		vertexDesc.RemoveFlag(VF_COLORS);
}

void BSPackedGeomData::SetSkinned(const bool enable) {
	if (enable)
		vertexDesc.SetFlag(VF_SKINNED);
	else
		vertexDesc.RemoveFlag(VF_SKINNED);
}

void BSPackedGeomData::SetEyeData(const bool enable) {
	if (enable)
		vertexDesc.SetFlag(VF_EYEDATA);
	else
		vertexDesc.RemoveFlag(VF_EYEDATA);
}

void BSPackedGeomData::SetFullPrecision(const bool enable) {
	if (!CanChangePrecision())
		return;

	if (enable)
		vertexDesc.SetFlag(VF_FULLPREC);
	else
		vertexDesc.RemoveFlag(VF_FULLPREC);
}


void BSPackedCombinedSharedGeomDataExtra::Sync(NiStreamReversible& stream) {
	vertexDesc.Sync(stream);
	stream.Sync(numVertices);
	stream.Sync(numTriangles);
	stream.Sync(unkFlags1);
	stream.Sync(unkFlags2);

	stream.Sync(numData);
	objects.resize(numData);
	data.resize(numData);

	for (uint32_t i = 0; i < numData; i++)
		stream.Sync(objects[i]);

	for (uint32_t i = 0; i < numData; i++)
		data[i].Sync(stream);
}


void BSInvMarker::Sync(NiStreamReversible& stream) {
	stream.Sync(rotationX);
	stream.Sync(rotationY);
	stream.Sync(rotationZ);
	stream.Sync(zoom);
}


void FurniturePosition::Sync(NiStreamReversible& stream) {
	stream.Sync(offset);

	if (stream.GetVersion().User() <= 11) {
		stream.Sync(orientation);
		stream.Sync(posRef1);
		stream.Sync(posRef2);
	}

	if (stream.GetVersion().User() >= 12) {
		stream.Sync(heading);
		stream.Sync(animationType);
		stream.Sync(entryPoints);
	}
}


void BSFurnitureMarker::Sync(NiStreamReversible& stream) {
	positions.Sync(stream);
}

void DecalVectorBlock::Sync(NiStreamReversible& stream) {
	points.Sync(stream);
	normals.SyncData(stream, points.size());
}


void BSDecalPlacementVectorExtraData::Sync(NiStreamReversible& stream) {
	decalVectorBlocks.Sync(stream);
}


void BSBehaviorGraphExtraData::Sync(NiStreamReversible& stream) {
	behaviorGraphFile.Sync(stream);
	stream.Sync(controlsBaseSkel);
}

void BSBehaviorGraphExtraData::GetStringRefs(std::vector<NiStringRef*>& refs) {
	NiExtraData::GetStringRefs(refs);

	refs.emplace_back(&behaviorGraphFile);
}


void BSBound::Sync(NiStreamReversible& stream) {
	stream.Sync(center);
	stream.Sync(halfExtents);
}


void BoneLOD::Sync(NiStreamReversible& stream) {
	stream.Sync(distance);
	boneName.Sync(stream);
}

void BoneLOD::GetStringRefs(std::vector<NiStringRef*>& refs) {
	refs.emplace_back(&boneName);
}


void BSBoneLODExtraData::Sync(NiStreamReversible& stream) {
	boneLODs.Sync(stream);
}

void BSBoneLODExtraData::GetStringRefs(std::vector<NiStringRef*>& refs) {
	NiExtraData::GetStringRefs(refs);

	boneLODs.GetStringRefs(refs);
}


void NiTextKeyExtraData::Sync(NiStreamReversible& stream) {
	textKeys.Sync(stream);
}

void NiTextKeyExtraData::GetStringRefs(std::vector<NiStringRef*>& refs) {
	NiExtraData::GetStringRefs(refs);

	textKeys.GetStringRefs(refs);
}


void BSDistantObjectLargeRefExtraData::Sync(NiStreamReversible& stream) {
	stream.Sync(largeRef);
}


void BSDistantObjectExtraData::Sync(NiStreamReversible& stream) {
	stream.Sync(distantObjectFlags);
}


void BSConnectPoint::Sync(NiStreamReversible& stream) {
	root.Sync(stream, 4);
	variableName.Sync(stream, 4);

	stream.Sync(rotation);
	stream.Sync(translation);
	stream.Sync(scale);
}


void BSConnectPointParents::Sync(NiStreamReversible& stream) {
	connectPoints.Sync(stream);
}


void BSConnectPointChildren::Sync(NiStreamReversible& stream) {
	stream.Sync(skinned);
	targets.Sync(stream);
}


BSClothExtraData::BSClothExtraData(const uint32_t size) {
	data.resize(size);
}

void BSClothExtraData::Sync(NiStreamReversible& stream) {
	data.SyncByteArray(stream);
}


bool BSClothExtraData::ToHKX(const std::string& fileName) {
	std::ofstream file(fileName, std::ios_base::binary);
	if (!file)
		return false;

	file.write(data.data(), data.size());
	return true;
}

bool BSClothExtraData::FromHKX(const std::string& fileName) {
	std::ifstream file(fileName, std::ios::binary | std::ios::ate);
	if (!file)
		return false;

	auto numBytes = static_cast<uint32_t>(file.tellg());
	file.seekg(0, std::ios::beg);

	data.resize(numBytes);
	file.read(data.data(), numBytes);
	return true;
}


void BSCollisionQueryProxyExtraData::Sync(NiStreamReversible& stream) {
	data.SyncByteArray(stream);
}


void SkinAttach::Sync(NiStreamReversible& stream) {
	bones.Sync(stream);
}


void BoneTranslations::Sync(NiStreamReversible& stream) {
	stream.Sync(numTranslations);
	translations.resize(numTranslations);
	for (uint32_t i = 0; i < numTranslations; i++) {
		translations[i].bone.Sync(stream, 4);
		stream.Sync(translations[i].trans);
	}
}
