/*
nifly
C++ NIF library for the Gamebryo/NetImmerse File Format
See the included GPLv3 LICENSE file
*/

#include "NifFile.hpp"
#include "bhk.hpp"
#include "NifUtil.hpp"

#include <fstream>
#include <regex>
#include <set>
#include <unordered_set>
#include <queue>

using namespace nifly;

uint32_t NifFile::GetBlockID(NiObject* block) const {
	auto it = find_if(blocks, [&block](const auto& ptr) { return ptr.get() == block; });

	if (it != blocks.end())
		return static_cast<uint32_t>(std::distance(blocks.begin(), it));

	return NIF_NPOS;
}

NiNode* NifFile::GetParentNode(NiObject* childBlock) const {
	if (childBlock != nullptr) {
		int childId = GetBlockID(childBlock);
		for (auto& block : blocks) {
			auto node = dynamic_cast<NiNode*>(block.get());
			if (node) {
				auto children = node->childRefs;
				for (auto& c : children) {
					if (c == childId)
						return node;
				}
			}
		}
	}

	return nullptr;
}

void NifFile::SetParentNode(NiObject* childBlock, NiNode* newParent) {
	if (!childBlock)
		return;

	if (!newParent) {
		newParent = GetRootNode();

		if (!newParent)
			return;
	}

	if (childBlock == newParent)
		return;

	uint32_t childId = GetBlockID(childBlock);
	for (auto& block : blocks) {
		auto node = dynamic_cast<NiNode*>(block.get());
		if (!node)
			continue;

		auto& children = node->childRefs;
		for (uint32_t ci = 0; ci < children.GetSize(); ++ci) {
			if (childId != children.GetBlockRef(ci))
				continue;

			// We have now found the node's old parent
			if (newParent != node) {
				children.RemoveBlockRef(ci);
				newParent->childRefs.AddBlockRef(childId);
			}

			return;
		}
	}

	// If we get here, the node's old parent was not found.
	newParent->childRefs.AddBlockRef(childId);
}

std::vector<NiNode*> NifFile::GetNodes() const {
	std::vector<NiNode*> outList;
	for (auto& block : blocks) {
		auto node = dynamic_cast<NiNode*>(block.get());
		if (node)
			outList.push_back(node);
	}

	return outList;
}

void NifFile::CopyFrom(const NifFile& other) {
	if (isValid)
		Clear();

	isValid = other.isValid;
	hasUnknown = other.hasUnknown;
	isTerrain = other.isTerrain;

	hdr = NiHeader(other.hdr);

	size_t nBlocks = other.blocks.size();
	blocks.resize(nBlocks);

	for (uint32_t i = 0; i < nBlocks; i++)
		blocks[i] = other.blocks[i]->Clone();

	hdr.SetBlockReference(&blocks);
	LinkGeomData();
}

void NifFile::LinkGeomData() {
	for (auto& block : blocks) {
		if (auto geom = dynamic_cast<NiGeometry*>(block.get())) {
			// NiGeometry refers to geometry data within the nif file
			auto geomData = hdr.GetBlock(geom->DataRef());
			if (geomData)
				geom->SetGeomData(geomData);
			
		}
		// NOTE: BSGeometry is it's own geometry data... need explicit linking here?
	}
}

void NifFile::RemoveInvalidTris() const {
	for (auto& shape : GetShapes()) {
		std::vector<Triangle> tris;
		if (shape->GetTriangles(tris)) {
			uint16_t numVerts = shape->GetNumVertices();
			tris.erase(std::remove_if(tris.begin(),
									  tris.end(),
									  [&](auto& t) {
										  return t.p1 >= numVerts || t.p2 >= numVerts || t.p3 >= numVerts;
									  }),
					   tris.end());

			shape->SetTriangles(tris);
		}
	}
}

size_t NifFile::GetVertexLimit() {
	constexpr size_t maxVertIndex = std::numeric_limits<uint16_t>::max();
	return maxVertIndex;
}

size_t NifFile::GetTriangleLimit() const {
	size_t maxTriIndex = std::numeric_limits<uint32_t>::max();
	if (hdr.GetVersion().User() >= 12 && hdr.GetVersion().Stream() < 130)
		maxTriIndex = std::numeric_limits<uint16_t>::max();

	return maxTriIndex;
}

void NifFile::Create(const NiVersion& version) {
	Clear();
	hdr.SetVersion(version);
	hdr.SetBlockReference(&blocks);

	auto rootNode = std::make_unique<NiNode>();
	rootNode->name.get() = "Scene Root";
	hdr.AddBlock(std::move(rootNode));

	isValid = true;
}

void NifFile::Clear() {
	isValid = false;
	hasUnknown = false;
	isTerrain = false;

	blocks.clear();
	hdr.Clear();
}

int NifFile::Load(const std::filesystem::path& fileName, const NifLoadOptions& options) {
	std::ifstream file(fileName, std::ios::in | std::ios::binary);
	return Load(file, options);
}

int NifFile::Load(std::istream& file, const NifLoadOptions& options) {
	Clear();

	isTerrain = options.isTerrain;

	if (file) {
		NiIStream stream(&file, &hdr);
		hdr.Get(stream);

		if (!hdr.IsValid()) {
			Clear();
			return 1;
		}

		NiVersion& version = hdr.GetVersion();
		if (!(version.IsOB() || version.IsFO3() || version.IsSK() || version.IsSSE() || version.IsFO4() || version.IsFO76() || version.IsSF() || version.IsSpecial())) {
			// Unsupported file version
			Clear();
			return 2;
		}

		uint32_t nBlocks = hdr.GetNumBlocks();
		blocks.resize(nBlocks);

		auto& nifactories = NiFactoryRegister::Get();
		for (uint32_t i = 0; i < nBlocks; i++) {
			std::string blockTypeStr = hdr.GetBlockTypeStringById(i);

			auto nifactory = nifactories.GetFactoryByName(blockTypeStr);
			if (nifactory) {
				blocks[i] = nifactory->Load(stream);
			}
			else {
				if (version.File() < V20_2_0_5) {
					// Loading unknown blocks w/o block sizes isn't possible
					Clear();
					return 3;
				}

				hasUnknown = true;
				blocks[i] = std::make_unique<NiUnknown>(stream, hdr.GetBlockSize(i));
			}
		}

		hdr.SetBlockReference(&blocks);
	}
	else {
		Clear();
		return 1;
	}

	PrepareData();
	isValid = true;
	return 0;
}

void NifFile::SetShapeOrder(const std::vector<std::string>& order) {
	if (hasUnknown)
		return;

	if (order.empty())
		return;

	auto shapes = GetShapes();
	if (order.size() != shapes.size())
		return;

	SortState sortState{};
	sortState.newIndices.resize(hdr.GetNumBlocks());
	for (size_t i = 0; i < sortState.newIndices.size(); i++)
		sortState.newIndices[i] = static_cast<uint32_t>(i);

	for (auto& s : order) {
		auto shape = FindBlockByName<NiShape>(s);
		if (shape)
			sortState.rootShapeOrder.push_back(GetBlockID(shape));
	}

	auto root = GetRootNode();
	if (root)
		SetSortIndices(GetBlockID(root), sortState);

	for (size_t i = 0; i < sortState.newIndices.size(); i++) {
		uint32_t index = static_cast<uint32_t>(i);
		if (sortState.visitedIndices.count(index) == 0) {
			sortState.newIndices[i] = sortState.newIndex++;
			sortState.visitedIndices.insert(index);
		}
	}

	hdr.SetBlockOrder(sortState.newIndices);
}

void NifFile::SetSortIndices(const NiRef& ref, SortState& sortState) {
	SetSortIndices(ref.index, sortState);
}

void NifFile::SetSortIndices(const NiRef* ref, SortState& sortState) {
	if (ref)
		SetSortIndices(ref->index, sortState);
}

void NifFile::SetSortIndices(uint32_t refIndex, SortState& sortState) {
	auto obj = hdr.GetBlock<NiObject>(refIndex);
	if (!obj)
		return;

	bool fullySorted = sortState.visitedIndices.count(refIndex) > 0;

	if (!fullySorted) {
		auto collision = dynamic_cast<NiCollisionObject*>(obj);
		if (collision) {
			SortCollision(collision, refIndex, sortState);
			fullySorted = true;
		}
		else {
			// Assign new sort index
			sortState.newIndices[refIndex] = sortState.newIndex++;
			sortState.visitedIndices.insert(refIndex);
		}
	}

	if (!fullySorted) {
		auto node = dynamic_cast<NiNode*>(obj);
		if (node) {
			SortGraph(node, sortState);
			fullySorted = true;
		}
	}

	if (!fullySorted) {
		auto shape = dynamic_cast<NiShape*>(obj);
		if (shape) {
			SortShape(shape, sortState);
			fullySorted = true;
		}
	}

	if (!fullySorted) {
		auto controller = dynamic_cast<NiTimeController*>(obj);
		if (controller) {
			SortController(controller, sortState);
			fullySorted = true;
		}
	}

	if (!fullySorted) {
		auto shader = dynamic_cast<NiShader*>(obj);
		if (shader) {
			SortNiObjectNET(shader, sortState);
			SetSortIndices(shader->TextureSetRef(), sortState);
			fullySorted = true;
		}
	}

	if (!fullySorted) {
		// Default child sorting
		std::vector<uint32_t> childIndices;
		obj->GetChildIndices(childIndices);

		for (auto& child : childIndices)
			SetSortIndices(child, sortState);

		fullySorted = true;
	}
}

void NifFile::SortNiObjectNET(NiObjectNET* objnet, SortState& sortState) {
	for (auto& r : objnet->extraDataRefs)
		SetSortIndices(r, sortState);

	SetSortIndices(objnet->controllerRef, sortState);

	auto controller = hdr.GetBlock<NiTimeController>(objnet->controllerRef);
	if (controller)
		SortController(controller, sortState);
}

void NifFile::SortAVObject(NiAVObject* avobj, SortState& sortState) {
	SortNiObjectNET(avobj, sortState);

	for (auto& r : avobj->propertyRefs)
		SetSortIndices(r, sortState);

	auto col = hdr.GetBlock<NiCollisionObject>(avobj->collisionRef);
	if (col)
		SortCollision(col, avobj->collisionRef.index, sortState);
}

void NifFile::SortController(NiTimeController* controller, SortState& sortState) {
	std::vector<uint32_t> childIndices;
	controller->GetChildIndices(childIndices);

	for (auto& index : childIndices) {
		SetSortIndices(index, sortState);

		auto controllerSequence = hdr.GetBlock<NiControllerSequence>(index);
		if (controllerSequence) {
			for (auto& cb : controllerSequence->controlledBlocks) {
				auto interp = hdr.GetBlock<NiInterpolator>(cb.interpolatorRef);
				if (interp)
					SetSortIndices(cb.interpolatorRef, sortState);

				auto subController = hdr.GetBlock<NiTimeController>(cb.controllerRef);
				if (subController)
					SetSortIndices(cb.controllerRef, sortState);
			}

			SetSortIndices(controllerSequence->textKeyRef, sortState);

			auto animNotes = hdr.GetBlock<BSAnimNotes>(controllerSequence->animNotesRef);
			if (animNotes) {
				SetSortIndices(controllerSequence->animNotesRef, sortState);

				for (auto& an : animNotes->animNoteRefs)
					SetSortIndices(an, sortState);
			}

			for (auto& ar : controllerSequence->animNotesRefs) {
				animNotes = hdr.GetBlock<BSAnimNotes>(ar);
				if (animNotes) {
					SetSortIndices(ar, sortState);

					for (auto& an : animNotes->animNoteRefs)
						SetSortIndices(an, sortState);
				}
			}
		}
	}
}

void NifFile::SortCollision(NiObject* parent, uint32_t parentIndex, SortState& sortState) {
	// Mark the parent as visited before descending, so that a reference cycle among
	// collision blocks cannot recurse forever. Its sort index is still assigned after
	// the blocks that have to come before it.
	bool assignIndex = sortState.visitedIndices.insert(parentIndex).second;

	auto constraint = dynamic_cast<bhkConstraint*>(parent);
	if (constraint) {
		for (auto& entityId : constraint->entityRefs) {
			auto entity = hdr.GetBlock<NiObject>(entityId);
			if (entity && sortState.visitedIndices.count(entityId.index) == 0)
				SortCollision(entity, entityId.index, sortState);
		}
	}

	auto constraintChain = dynamic_cast<bhkBallSocketConstraintChain*>(parent);
	if (constraintChain) {
		for (auto& entityId : constraintChain->chainedEntityRefs) {
			auto entity = hdr.GetBlock<NiObject>(entityId);
			if (entity && sortState.visitedIndices.count(entityId.index) == 0)
				SortCollision(entity, entityId.index, sortState);
		}

		auto entityA = hdr.GetBlock<NiObject>(constraintChain->entityARef);
		if (entityA && sortState.visitedIndices.count(constraintChain->entityARef.index) == 0)
			SortCollision(entityA, constraintChain->entityARef.index, sortState);

		auto entityB = hdr.GetBlock<NiObject>(constraintChain->entityBRef);
		if (entityB && sortState.visitedIndices.count(constraintChain->entityBRef.index) == 0)
			SortCollision(entityB, constraintChain->entityBRef.index, sortState);
	}

	std::vector<uint32_t> childIndices;
	parent->GetChildIndices(childIndices);

	for (auto& id : childIndices) {
		auto child = hdr.GetBlock<NiObject>(id);
		if (child && sortState.visitedIndices.count(id) == 0) {
			bool childBeforeParent = child->HasType<bhkRefObject>() && !child->HasType<bhkConstraint>()
									 && !child->HasType<bhkBallSocketConstraintChain>();
			if (childBeforeParent)
				SortCollision(child, id, sortState);
		}
	}

	// Assign new sort index
	if (assignIndex)
		sortState.newIndices[parentIndex] = sortState.newIndex++;

	for (auto& id : childIndices) {
		auto child = hdr.GetBlock<NiObject>(id);
		if (child && sortState.visitedIndices.count(id) == 0) {
			bool childBeforeParent = child->HasType<bhkRefObject>() && !child->HasType<bhkConstraint>()
									 && !child->HasType<bhkBallSocketConstraintChain>();
			if (!childBeforeParent)
				SortCollision(child, id, sortState);
		}
	}
}

void NifFile::SortShape(NiShape* shape, SortState& sortState) {
	SortAVObject(shape, sortState);

	SetSortIndices(shape->DataRef(), sortState);
	SetSortIndices(shape->SkinInstanceRef(), sortState);

	auto niSkinInst = hdr.GetBlock<NiSkinInstance>(shape->SkinInstanceRef());
	if (niSkinInst) {
		SetSortIndices(niSkinInst->dataRef, sortState);
		SetSortIndices(niSkinInst->skinPartitionRef, sortState);
	}

	auto bsSkinInst = hdr.GetBlock<BSSkinInstance>(shape->SkinInstanceRef());
	if (bsSkinInst)
		SetSortIndices(bsSkinInst->dataRef, sortState);

	SetSortIndices(shape->ShaderPropertyRef(), sortState);
	SetSortIndices(shape->AlphaPropertyRef(), sortState);

	std::vector<uint32_t> remainingChildIndices;
	shape->GetChildIndices(remainingChildIndices);

	// Sort remaining children
	for (auto& child : remainingChildIndices)
		SetSortIndices(child, sortState);
}

void NifFile::SortGraph(NiNode* root, SortState& sortState) {
	bool isRootNode = GetBlockID(root) == 0;
	SortAVObject(root, sortState);

	std::vector<uint32_t> childIndices;
	root->childRefs.GetIndices(childIndices);

	if (childIndices.empty())
		return;

	bool reorderChildRefs = !root->HasType<BSOrderedNode>();
	if (reorderChildRefs) {
		std::vector<uint32_t> newChildIndices;
		newChildIndices.reserve(childIndices.size());

		NiBlockRefArray<NiAVObject> newChildRefs;

		if (hdr.GetVersion().IsOB() || hdr.GetVersion().IsFO3()) {
			// Order for OB/FO3:
			// 1. Nodes with children
			// 2. Shapes
			// 3. other

			// Add nodes with children
			for (auto& index : childIndices) {
				auto node = hdr.GetBlock<NiNode>(index);
				if (node && node->childRefs.GetSize() > 0) {
					newChildIndices.push_back(index);
					newChildRefs.AddBlockRef(index);
				}
			}

			// Add shapes
			std::vector<uint32_t> shapeIndices;
			for (auto& index : childIndices) {
				auto shape = hdr.GetBlock<NiShape>(index);
				if (shape)
					shapeIndices.push_back(index);
			}

			if (isRootNode) {
				// Reorder shapes on root node if order is provided
				if (sortState.rootShapeOrder.size() == shapeIndices.size()
					&& std::is_permutation(shapeIndices.begin(), shapeIndices.end(), sortState.rootShapeOrder.begin())) {
					std::vector<uint32_t> newShapeIndices(shapeIndices.size());
					for (size_t si = 0; si < sortState.rootShapeOrder.size(); si++) {
						auto it = find(shapeIndices, sortState.rootShapeOrder[si]);
						if (it != shapeIndices.end())
							newShapeIndices[si] = shapeIndices[std::distance(shapeIndices.begin(), it)];
					}
					shapeIndices = newShapeIndices;
				}
			}

			for (auto& index : shapeIndices) {
				newChildIndices.push_back(index);
				newChildRefs.AddBlockRef(index);
			}
		}
		else {
			// Order:
			// 1. Nodes
			// 2. Shapes
			// 3. other

			// Add nodes
			for (auto& index : childIndices) {
				auto node = hdr.GetBlock<NiNode>(index);
				if (node) {
					newChildIndices.push_back(index);
					newChildRefs.AddBlockRef(index);
				}
			}

			// Add shapes
			std::vector<uint32_t> shapeIndices;
			for (auto& index : childIndices) {
				auto shape = hdr.GetBlock<NiShape>(index);
				if (shape)
					shapeIndices.push_back(index);
			}

			if (isRootNode) {
				// Reorder shapes on root node if order is provided
				if (sortState.rootShapeOrder.size() == shapeIndices.size()
					&& std::is_permutation(shapeIndices.begin(), shapeIndices.end(), sortState.rootShapeOrder.begin())) {
					std::vector<uint32_t> newShapeIndices(shapeIndices.size());
					for (size_t si = 0; si < sortState.rootShapeOrder.size(); si++) {
						auto it = find(shapeIndices, sortState.rootShapeOrder[si]);
						if (it != shapeIndices.end())
							newShapeIndices[si] = shapeIndices[std::distance(shapeIndices.begin(), it)];
					}
					shapeIndices = newShapeIndices;
				}
			}

			for (auto& index : shapeIndices) {
				newChildIndices.push_back(index);
				newChildRefs.AddBlockRef(index);
			}
		}

		// Add missing others
		for (auto& index : childIndices) {
			if (!contains(newChildIndices, index)) {
				auto obj = hdr.GetBlock<NiObject>(index);
				if (obj) {
					newChildIndices.push_back(index);
					newChildRefs.AddBlockRef(index);
				}
			}
		}

		// Add empty refs
		for (auto& index : childIndices) {
			if (index == NIF_NPOS) {
				newChildIndices.push_back(index);
				newChildRefs.AddBlockRef(index);
			}
		}

		// Assign child ref array with new order
		root->childRefs = newChildRefs;
	}

	std::vector<uint32_t> remainingChildIndices;
	root->GetChildIndices(remainingChildIndices);

	// Sort remaining children
	for (auto& child : remainingChildIndices)
		SetSortIndices(child, sortState);
}

void NifFile::PrettySortBlocks() {
	if (hasUnknown)
		return;

	SortState sortState{};
	sortState.newIndices.resize(hdr.GetNumBlocks());
	for (size_t i = 0; i < sortState.newIndices.size(); i++)
		sortState.newIndices[i] = static_cast<uint32_t>(i);

	if (sortState.newIndices.empty())
		return;

	for (auto& node : GetNodes()) {
		auto parentNode = GetParentNode(node);
		if (!parentNode) {
			// No parent, node is at the root level
			SetSortIndices(GetBlockID(node), sortState);
		}
	}

	for (size_t i = 0; i < sortState.newIndices.size(); i++) {
		uint32_t index = static_cast<uint32_t>(i);
		if (sortState.visitedIndices.count(index) == 0) {
			sortState.newIndices[i] = sortState.newIndex++;
			sortState.visitedIndices.insert(index);
		}
	}

	hdr.SetBlockOrder(sortState.newIndices);
}

void NifFile::FixBSXFlags() {
	auto bsx = FindBlockByName<BSXFlags>("BSX");
	if (bsx) {
		if (bsx->integerData & BSX_EXTERNAL_EMITTANCE) {
			// BSXFlags external emittance = on. Check if any shaders require that.
			bool flagUnnecessary = true;

			for (auto& block : blocks) {
				auto bssp = dynamic_cast<BSShaderProperty*>(block.get());
				if (bssp) {
					if (bssp->shaderFlags1 & SLSF1_EXTERNAL_EMITTANCE) { // Same flag in SK and FO4
						flagUnnecessary = false;
						break;
					}
				}
			}

			if (flagUnnecessary)
			{
				// Unset unnecessary external emittance flag on BSXFlags
				bsx->integerData &= (~BSX_EXTERNAL_EMITTANCE);
			}
		}
		else {
			// BSXFlags external emittance = off. Check if any shaders have it set regardless.
			bool flagMissing = false;

			for (auto& block : blocks) {
				auto bssp = dynamic_cast<BSShaderProperty*>(block.get());
				if (bssp) {
					if (bssp->shaderFlags1 & SLSF1_EXTERNAL_EMITTANCE) { // Same flag in SK and FO4
						flagMissing = true;
						break;
					}
				}
			}

			if (flagMissing)
			{
				// Set missing external emittance flag on BSXFlags
				bsx->integerData |= BSX_EXTERNAL_EMITTANCE;
			}
		}
	}
}

void NifFile::FixShaderFlags() {
	for (auto& block : blocks) {
		auto bslsp = dynamic_cast<BSLightingShaderProperty*>(block.get());
		if (bslsp) {
			if (bslsp->bslspShaderType != BSLSP_ENVMAP && (bslsp->shaderFlags1 & SLSF1_ENVIRONMENT_MAPPING)) { // Same flag in SK and FO4
				// Shader is no environment shader, remove unused shader flag
				bslsp->shaderFlags1 &= (~SLSF1_ENVIRONMENT_MAPPING);
			}
			else if (bslsp->bslspShaderType == BSLSP_ENVMAP && !(bslsp->shaderFlags1 & SLSF1_ENVIRONMENT_MAPPING)) { // Same flag in SK and FO4
				// Shader is environment shader, add missing shader flag
				bslsp->shaderFlags1 |= SLSF1_ENVIRONMENT_MAPPING;
			}
		}
	}
}

bool NifFile::DeleteUnreferencedNodes(int* deletionCount) {
	if (hasUnknown)
		return false;

	auto root = GetRootNode();
	if (!root)
		return false;

	for (auto& node : GetNodes()) {
		if (node == root)
			continue;

		uint32_t blockId = GetBlockID(node);
		if (blockId == NIF_NPOS)
			continue;

		if (!CanDeleteNode(node))
			continue;

		if (hdr.GetBlockRefCount(blockId) < 2) {
			hdr.DeleteBlock(blockId);

			if (deletionCount)
				(*deletionCount)++;

			// Deleting a block can cause others to become unreferenced
			return DeleteUnreferencedNodes(deletionCount);
		}
	}

	return true;
}

NiNode* NifFile::AddNode(const std::string& nodeName, const MatTransform& xformToParent, NiNode* parent) {
	if (!parent)
		parent = GetRootNode();
	if (!parent)
		return nullptr;

	auto newNode = std::make_unique<NiNode>();
	newNode->name.get() = nodeName;
	newNode->SetTransformToParent(xformToParent);

	uint32_t newNodeId = hdr.AddBlock(std::move(newNode));
	if (newNodeId != NIF_NPOS)
		parent->childRefs.AddBlockRef(newNodeId);

	return hdr.GetBlockUnsafe<NiNode>(newNodeId);
}

void NifFile::DeleteNode(const std::string& nodeName) {
	hdr.DeleteBlock(GetBlockID(FindBlockByName<NiNode>(nodeName)));
}

bool NifFile::CanDeleteNode(NiNode* node) {
	if (!node)
		return false;

	std::set<NiRef*> refs;
	node->GetChildRefs(refs);

	// Only delete if the node has no child refs
	return std::all_of(refs.cbegin(), refs.cend(), [](auto&& ref) { return ref->IsEmpty(); });
}

bool NifFile::CanDeleteNode(const std::string& nodeName) const {
	auto node = FindBlockByName<NiNode>(nodeName);
	return CanDeleteNode(node);
}

std::string NifFile::GetNodeName(const uint32_t blockID) const {
	std::string name;

	auto n = hdr.GetBlock<NiNode>(blockID);
	if (n) {
		name = n->name.get();
		if (name.empty())
			name = "_unnamed_";
	}

	return name;
}

void NifFile::SetNodeName(const uint32_t blockID, const std::string& newName) {
	auto node = hdr.GetBlock<NiNode>(blockID);
	if (!node)
		return;

	node->name.get() = newName;
}

uint32_t NifFile::AssignExtraData(NiAVObject* target, std::unique_ptr<NiExtraData> extraData) {
	uint32_t extraDataId = hdr.AddBlock(std::move(extraData));
	target->extraDataRefs.AddBlockRef(extraDataId);
	return extraDataId;
}

NiShader* NifFile::GetShader(NiShape* shape) const {
	auto shader = hdr.GetBlock<NiShader>(shape->ShaderPropertyRef());
	if (shader)
		return shader;

	for (auto& prop : shape->propertyRefs) {
		auto shaderProp = hdr.GetBlock<NiShader>(prop);
		if (shaderProp) {
			shader = shaderProp;

			// Only return NiMaterialProperty if no other shader blocks are found
			if (!shaderProp->HasType<NiMaterialProperty>())
				return shaderProp;
		}
	}

	return shader;
}

NiMaterialProperty* NifFile::GetMaterialProperty(NiShape* shape) const {
	for (auto& prop : shape->propertyRefs) {
		auto material = hdr.GetBlock<NiMaterialProperty>(prop);
		if (material)
			return material;
	}

	return nullptr;
}

NiStencilProperty* NifFile::GetStencilProperty(NiShape* shape) const {
	for (auto& prop : shape->propertyRefs) {
		auto stencil = hdr.GetBlock<NiStencilProperty>(prop);
		if (stencil)
			return stencil;
	}

	return nullptr;
}

NiTexturingProperty* NifFile::GetTexturingProperty(NiShape* shape) const {
	for (auto& prop : shape->propertyRefs) {
		auto texturingProp = hdr.GetBlock<NiTexturingProperty>(prop);
		if (texturingProp)
			return texturingProp;
	}

	return nullptr;
}


NiGeometryData* NifFile::GetGeometryData(NiShape* shape) const {
	if (shape->HasType<NiTriBasedGeom>()) {
		return hdr.GetBlock<NiGeometryData>(shape->DataRef());
	}
	else if (shape->HasType<BSGeometry>()) {
		return static_cast<BSGeometry*>(shape)->GetGeomData();
	}
	return nullptr;
}

std::vector<std::reference_wrapper<std::string>> NifFile::GetExternalGeometryPathRefs(NiShape* shape) const {
	std::vector<std::reference_wrapper<std::string>> meshPaths;
	auto bsgeo = dynamic_cast<BSGeometry*>(shape);
	if (bsgeo) {
		for (uint8_t i = 0; i < bsgeo->MeshCount(); i++) {
			auto mesh = bsgeo->SelectMesh(i);
			meshPaths.push_back(mesh->meshName.get());
			bsgeo->ReleaseMesh();
		}
	}
	return meshPaths;
}

bool NifFile::LoadExternalShapeData(NiShape* shape, std::istream& infile, uint8_t shapeIndex) {
	auto bsgeo = dynamic_cast<BSGeometry*>(shape);
	if (bsgeo && (shapeIndex < bsgeo->MeshCount())) {
		NiIStream meshStream(&infile, nullptr);
		NiStreamReversible s(&meshStream, nullptr, NiStreamReversible::Mode::Reading);
		auto mesh = bsgeo->SelectMesh(shapeIndex);
		mesh->meshData.Sync(s);
		bsgeo->ReleaseMesh();
	}
	return true;
}

bool NifFile::SaveExternalShapeData(NiShape* shape, std::ostream& outfile, uint8_t shapeIndex) {
	auto bsgeo = dynamic_cast<BSGeometry*>(shape);
	if (bsgeo && (shapeIndex < bsgeo->MeshCount())) {
		NiOStream meshStream(&outfile, nullptr);
		NiStreamReversible s(nullptr, &meshStream,NiStreamReversible::Mode::Reading);
		auto mesh = bsgeo->SelectMesh(shapeIndex);
		mesh->Sync(s);
		bsgeo->ReleaseMesh();
	}
	return true;
}


std::vector<std::reference_wrapper<std::string>> NifFile::GetTexturePathRefs(NiShape* shape) const {
	std::vector<std::reference_wrapper<std::string>> texturePaths;

	auto shader = GetShader(shape);
	if (shader) {
		auto textureSet = hdr.GetBlock(shader->TextureSetRef());
		if (textureSet) {
			for (auto& t : textureSet->textures)
				texturePaths.push_back(t.get());
		}

		auto effectShader = dynamic_cast<BSEffectShaderProperty*>(shader);
		if (effectShader) {
			texturePaths.push_back(effectShader->sourceTexture.get());
			texturePaths.push_back(effectShader->normalTexture.get());
			texturePaths.push_back(effectShader->greyscaleTexture.get());
			texturePaths.push_back(effectShader->envMapTexture.get());
			texturePaths.push_back(effectShader->envMaskTexture.get());
		}
	}

	// Get texture path from referenced NiSourceTexture block
	auto pushSourceTexturePath = [&hdr = hdr, &texturePaths](const NiBlockRef<NiSourceTexture>& sourceRef) {
		auto sourceTexture = hdr.GetBlock(sourceRef);
		if (sourceTexture)
			texturePaths.push_back(sourceTexture->fileName.get());
	};

	// NiTexturingProperty and NiSourceTexture for OB
	auto texturingProp = GetTexturingProperty(shape);
	if (texturingProp) {
		if (texturingProp->hasBaseTex)
			pushSourceTexturePath(texturingProp->baseTex.sourceRef);

		if (texturingProp->hasDarkTex)
			pushSourceTexturePath(texturingProp->darkTex.sourceRef);

		if (texturingProp->hasDetailTex)
			pushSourceTexturePath(texturingProp->detailTex.sourceRef);

		if (texturingProp->hasGlossTex)
			pushSourceTexturePath(texturingProp->glossTex.sourceRef);

		if (texturingProp->hasGlowTex)
			pushSourceTexturePath(texturingProp->glowTex.sourceRef);

		if (texturingProp->hasBumpTex)
			pushSourceTexturePath(texturingProp->bumpTex.sourceRef);

		if (texturingProp->hasDecalTex0)
			pushSourceTexturePath(texturingProp->decalTex0.sourceRef);

		if (texturingProp->hasDecalTex1)
			pushSourceTexturePath(texturingProp->decalTex1.sourceRef);

		if (texturingProp->hasDecalTex2)
			pushSourceTexturePath(texturingProp->decalTex2.sourceRef);

		if (texturingProp->hasDecalTex3)
			pushSourceTexturePath(texturingProp->decalTex3.sourceRef);
	}

	return texturePaths;
}

uint32_t NifFile::GetTextureSlot(NiShape* shape, std::string& outTexFile, uint32_t texIndex) const {
	outTexFile.clear();

	auto shader = GetShader(shape);
	if (shader) {
		auto textureSet = hdr.GetBlock(shader->TextureSetRef());
		if (textureSet && texIndex + 1 <= textureSet->textures.size()) {
			outTexFile = textureSet->textures[texIndex].get();
			return 1;
		}

		if (!textureSet) {
			auto effectShader = dynamic_cast<BSEffectShaderProperty*>(shader);
			if (effectShader) {
				switch (texIndex) {
					case 0: outTexFile = effectShader->sourceTexture.get(); break;
					case 1: outTexFile = effectShader->normalTexture.get(); break;
					case 3: outTexFile = effectShader->greyscaleTexture.get(); break;
					case 4: outTexFile = effectShader->envMapTexture.get(); break;
					case 5: outTexFile = effectShader->envMaskTexture.get(); break;
				}

				return 2;
			}
		}
	}

	// Get texture path from referenced NiSourceTexture block
	auto getSourceTexturePath = [&hdr = hdr](const NiBlockRef<NiSourceTexture>& sourceRef) -> std::string {
		auto sourceTexture = hdr.GetBlock(sourceRef);
		if (sourceTexture)
			return sourceTexture->fileName.get();

		return std::string();
	};

	// NiTexturingProperty and NiSourceTexture for OB
	auto texturingProp = GetTexturingProperty(shape);
	if (texturingProp && texturingProp->textureCount > texIndex) {
		switch (texIndex) {
			case 0:
				if (texturingProp->hasBaseTex)
					outTexFile = getSourceTexturePath(texturingProp->baseTex.sourceRef);
				break;
			case 1:
				if (texturingProp->hasDarkTex)
					outTexFile = getSourceTexturePath(texturingProp->darkTex.sourceRef);
				break;
			case 2:
				if (texturingProp->hasDetailTex)
					outTexFile = getSourceTexturePath(texturingProp->detailTex.sourceRef);
				break;
			case 3:
				if (texturingProp->hasGlossTex)
					outTexFile = getSourceTexturePath(texturingProp->glossTex.sourceRef);
				break;
			case 4:
				if (texturingProp->hasGlowTex)
					outTexFile = getSourceTexturePath(texturingProp->glowTex.sourceRef);
				break;
			case 5:
				if (texturingProp->hasBumpTex)
					outTexFile = getSourceTexturePath(texturingProp->bumpTex.sourceRef);
				break;
			case 6:
				if (texturingProp->hasDecalTex0)
					outTexFile = getSourceTexturePath(texturingProp->decalTex0.sourceRef);
				break;
			case 7:
				if (texturingProp->hasDecalTex1)
					outTexFile = getSourceTexturePath(texturingProp->decalTex1.sourceRef);
				break;
			case 8:
				if (texturingProp->hasDecalTex2)
					outTexFile = getSourceTexturePath(texturingProp->decalTex2.sourceRef);
				break;
			case 9:
				if (texturingProp->hasDecalTex3)
					outTexFile = getSourceTexturePath(texturingProp->decalTex3.sourceRef);
				break;
		}

		if (!outTexFile.empty())
			return 3;
	}

	return 0;
}

void NifFile::SetTextureSlot(NiShape* shape, std::string& inTexFile, uint32_t texIndex) {
	auto shader = GetShader(shape);
	if (shader) {
		auto textureSet = hdr.GetBlock(shader->TextureSetRef());
		if (textureSet && texIndex + 1 <= textureSet->textures.size()) {
			textureSet->textures[texIndex].get() = inTexFile;
			return;
		}

		if (!textureSet) {
			auto effectShader = dynamic_cast<BSEffectShaderProperty*>(shader);
			if (effectShader) {
				switch (texIndex) {
					case 0: effectShader->sourceTexture.get() = inTexFile; break;
					case 1: effectShader->normalTexture.get() = inTexFile; break;
					case 3: effectShader->greyscaleTexture.get() = inTexFile; break;
					case 4: effectShader->envMapTexture.get() = inTexFile; break;
					case 5: effectShader->envMaskTexture.get() = inTexFile; break;
				}
				return;
			}
		}
	}

	// Set texture path in referenced NiSourceTexture block
	auto setSourceTexturePath = [&hdr = hdr](const NiBlockRef<NiSourceTexture>& sourceRef,
											 const std::string& texturePath) {
		auto sourceTexture = hdr.GetBlock(sourceRef);
		if (sourceTexture)
			sourceTexture->fileName.get() = texturePath;
	};

	// NiTexturingProperty and NiSourceTexture for OB
	auto texturingProp = GetTexturingProperty(shape);
	if (texturingProp) {
		texturingProp->textureCount = texIndex + 1;

		switch (texIndex) {
			case 0:
				texturingProp->hasBaseTex = true;
				setSourceTexturePath(texturingProp->baseTex.sourceRef, inTexFile);
				break;
			case 1:
				texturingProp->hasDarkTex = true;
				setSourceTexturePath(texturingProp->darkTex.sourceRef, inTexFile);
				break;
			case 2:
				texturingProp->hasDetailTex = true;
				setSourceTexturePath(texturingProp->detailTex.sourceRef, inTexFile);
				break;
			case 3:
				texturingProp->hasGlossTex = true;
				setSourceTexturePath(texturingProp->glossTex.sourceRef, inTexFile);
				break;
			case 4:
				texturingProp->hasGlowTex = true;
				setSourceTexturePath(texturingProp->glowTex.sourceRef, inTexFile);
				break;
			case 5:
				texturingProp->hasBumpTex = true;
				setSourceTexturePath(texturingProp->bumpTex.sourceRef, inTexFile);
				break;
			case 6:
				texturingProp->hasDecalTex0 = true;
				setSourceTexturePath(texturingProp->decalTex0.sourceRef, inTexFile);
				break;
			case 7:
				texturingProp->hasDecalTex1 = true;
				setSourceTexturePath(texturingProp->decalTex1.sourceRef, inTexFile);
				break;
			case 8:
				texturingProp->hasDecalTex2 = true;
				setSourceTexturePath(texturingProp->decalTex2.sourceRef, inTexFile);
				break;
			case 9:
				texturingProp->hasDecalTex3 = true;
				setSourceTexturePath(texturingProp->decalTex3.sourceRef, inTexFile);
				break;
		}
	}
}

void NifFile::TrimTexturePaths() {
	auto fTrimPath = [&hdr = hdr, &isTerrain = isTerrain](std::string& tex) -> std::string& {
		if (tex.empty())
			return tex;

		// Trim whitespace characters (including newlines)
		trim_whitespace(tex);

		if (tex.empty())
			return tex;

		// Replace every run of slashes and backslashes (also a mixed one like "/\") with one backslash
		tex = std::regex_replace(tex, std::regex("[/\\\\]+"), "\\");

		// Search for the first occurrence of "\textures\" (only if "textures\" isn't at the start)
		std::smatch match;
		std::regex pattern(R"(^(?!textures\\).*?\\textures\\)", std::regex_constants::icase);
	
		// A terrain path that already starts with "Data\textures\" is clean: take its "Data\" off (it is added
		// back below). The search would strip the whole prefix and rebuild it, not always to the same path.
		if (isTerrain)
			tex = std::regex_replace(tex,
									 std::regex("^Data\\\\(?=textures\\\\)", std::regex_constants::icase),
									 "");

		if (std::regex_search(tex, match, pattern))
			tex = tex.substr(match[0].length()); // Remove matched string

		// Remove all backslashes from the front
		tex = std::regex_replace(tex, std::regex("^\\\\+"), "");

		if (!hdr.GetVersion().IsOB() && !hdr.GetVersion().IsSpecial() && is_relative_path(tex)) {
			// If the path doesn't start with "textures\", add it to the front
			tex = std::regex_replace(tex,
									 std::regex("^(?!^textures\\\\)", std::regex_constants::icase),
									 "textures\\");
		}

		// If the path doesn't start with "Data\", add it to the front
		if (isTerrain && is_relative_path(tex)) {
			tex = std::regex_replace(tex, std::regex("^(?!^Data\\\\)", std::regex_constants::icase), "Data\\");
		}
		return tex;
	};

	// Trim texture path in referenced NiSourceTexture block
	auto trimSourceTexturePath = [&hdr = hdr,
								  &fTrimPath = fTrimPath](const NiBlockRef<NiSourceTexture>& sourceRef) {
		auto sourceTexture = hdr.GetBlock(sourceRef);
		if (sourceTexture) {
			std::string tex = sourceTexture->fileName.get();
			sourceTexture->fileName.get() = fTrimPath(tex);
		}
	};

	for (auto& shape : GetShapes()) {
		auto shader = GetShader(shape);
		if (shader) {
			auto textureSet = hdr.GetBlock(shader->TextureSetRef());
			if (textureSet) {
				for (auto& i : textureSet->textures) {
					std::string tex = i.get();
					i.get() = fTrimPath(tex);
				}
			}

			// An effect shader has no texture set: its textures are members of the shader
			auto effectShader = dynamic_cast<BSEffectShaderProperty*>(shader);
			if (effectShader) {
				std::string tex = effectShader->sourceTexture.get();
				effectShader->sourceTexture.get() = fTrimPath(tex);

				tex = effectShader->normalTexture.get();
				effectShader->normalTexture.get() = fTrimPath(tex);

				tex = effectShader->greyscaleTexture.get();
				effectShader->greyscaleTexture.get() = fTrimPath(tex);

				tex = effectShader->envMapTexture.get();
				effectShader->envMapTexture.get() = fTrimPath(tex);

				tex = effectShader->envMaskTexture.get();
				effectShader->envMaskTexture.get() = fTrimPath(tex);
			}
		}

		// NiTexturingProperty and NiSourceTexture for OB
		auto texturingProp = GetTexturingProperty(shape);
		if (texturingProp) {
			if (texturingProp->hasBaseTex)
				trimSourceTexturePath(texturingProp->baseTex.sourceRef);
			if (texturingProp->hasDarkTex)
				trimSourceTexturePath(texturingProp->darkTex.sourceRef);
			if (texturingProp->hasDetailTex)
				trimSourceTexturePath(texturingProp->detailTex.sourceRef);
			if (texturingProp->hasGlossTex)
				trimSourceTexturePath(texturingProp->glossTex.sourceRef);
			if (texturingProp->hasGlowTex)
				trimSourceTexturePath(texturingProp->glowTex.sourceRef);
			if (texturingProp->hasBumpTex)
				trimSourceTexturePath(texturingProp->bumpTex.sourceRef);
			if (texturingProp->hasDecalTex0)
				trimSourceTexturePath(texturingProp->decalTex0.sourceRef);
			if (texturingProp->hasDecalTex1)
				trimSourceTexturePath(texturingProp->decalTex1.sourceRef);
			if (texturingProp->hasDecalTex2)
				trimSourceTexturePath(texturingProp->decalTex2.sourceRef);
			if (texturingProp->hasDecalTex3)
				trimSourceTexturePath(texturingProp->decalTex3.sourceRef);
		}
	}
}

void NifFile::CloneChildren(NiObject* block, NifFile* srcNif) {
	if (!srcNif)
		srcNif = this;

	// Assign new refs and strings, rebind ptrs where possible
	std::function<void(NiObject*, uint32_t, uint32_t)> cloneBlock =
		[&](NiObject* b, uint32_t parentOldId, uint32_t parentNewId) -> void {
		std::set<NiRef*> refs;
		b->GetChildRefs(refs);

		for (auto& r : refs) {
			auto srcChild = srcNif->hdr.GetBlock<NiObject>(r);
			if (srcChild) {
				auto destChildS = srcChild->Clone();
				auto destChild = destChildS.get();
				uint32_t destId = hdr.AddBlock(std::move(destChildS));

				uint32_t oldId = r->index;
				r->index = destId;

				std::vector<NiStringRef*> strRefs;
				destChild->GetStringRefs(strRefs);

				for (auto& str : strRefs) {
					int strId = hdr.AddOrFindStringId(str->get());
					str->SetIndex(strId);
				}

				if (parentOldId != NIF_NPOS) {
					std::set<NiRef*> ptrs;
					destChild->GetPtrs(ptrs);

					for (auto& p : ptrs)
						if (p->index == parentOldId)
							p->index = parentNewId;

					cloneBlock(destChild, parentOldId, parentNewId);
				}
				else
					cloneBlock(destChild, oldId, destId);
			}
		}
	};

	cloneBlock(block, NIF_NPOS, NIF_NPOS);
}

NiShape* NifFile::CloneShape(NiShape* srcShape, const std::string& destShapeName, NifFile* srcNif) {
	if (!srcNif)
		srcNif = this;

	if (!srcShape)
		return nullptr;

	auto rootNode = GetRootNode();
	auto srcRootNode = srcNif->GetRootNode();

	// Geometry
	auto destShapeS = srcShape->Clone();
	auto destShape = destShapeS.get();
	destShape->name.get() = destShapeName;

	int destId = hdr.AddBlock(std::move(destShapeS));
	if (srcNif == this) {
		// Assign copied geometry to the same parent
		auto parentNode = GetParentNode(srcShape);
		if (parentNode)
			parentNode->childRefs.AddBlockRef(destId);
	}
	else if (rootNode)
		rootNode->childRefs.AddBlockRef(destId);

	// Children
	CloneChildren(destShape, srcNif);

	// Geometry Data
	auto destGeomData = hdr.GetBlock<NiTriBasedGeomData>(destShape->DataRef());
	if (destGeomData)
		destShape->SetGeomData(destGeomData);

	// Shader
	auto destShader = GetShader(destShape);
	if (destShader) {
		if (hdr.GetVersion().IsSK() || hdr.GetVersion().IsSSE()) {
			// Kill normals and tangents
			if (destShader->IsModelSpace()) {
				destShape->SetNormals(false);
				destShape->SetTangents(false);
			}
		}
	}

	// Bones
	std::vector<std::string> srcBoneList;
	srcNif->GetShapeBoneList(srcShape, srcBoneList);

	auto destBoneCont = hdr.GetBlock(destShape->SkinInstanceRef());
	if (destBoneCont)
		destBoneCont->boneRefs.Clear();

	// Within the same file every node already is where it belongs
	if (rootNode && srcRootNode && srcNif != this) {
		std::function<void(NiNode*)> cloneNodes = [&](NiNode* srcNode) -> void {
			std::string boneName = srcNode->name.get();

			// Insert as root child by default
			NiNode* nodeParent = rootNode;

			// Look for existing node to use as parent instead
			auto srcNodeParent = srcNif->GetParentNode(srcNode);
			if (srcNodeParent) {
				auto parent = FindBlockByName<NiNode>(srcNodeParent->name.get());
				if (parent)
					nodeParent = parent;
			}

			auto node = FindBlockByName<NiNode>(boneName);
			uint32_t boneID = GetBlockID(node);
			if (!node) {
				// Clone missing node into the right parent
				boneID = CloneNamedNode(boneName, srcNif);
				nodeParent->childRefs.AddBlockRef(boneID);
			}
			else {
				// Move existing node to non-root parent
				auto oldParent = GetParentNode(node);
				if (oldParent && oldParent != nodeParent && nodeParent != rootNode) {
					MatTransform xformToParent;
					srcNif->GetNodeTransformToParent(boneName, xformToParent);

					std::set<NiRef*> childRefs;
					oldParent->GetChildRefs(childRefs);
					for (auto& ref : childRefs)
						if (ref->index == boneID)
							ref->Clear();

					nodeParent->childRefs.AddBlockRef(boneID);
					SetNodeTransformToParent(boneName, xformToParent);
				}
			}

			// Recurse children
			for (auto& child : srcNode->childRefs) {
				auto childNode = srcNif->hdr.GetBlock<NiNode>(child);
				if (childNode)
					cloneNodes(childNode);
			}
		};

		for (auto& child : srcRootNode->childRefs) {
			auto srcChildNode = srcNif->hdr.GetBlock<NiNode>(child);
			if (srcChildNode)
				cloneNodes(srcChildNode);
		}
	}

	// Add bones to container if used in skin
	if (destBoneCont) {
		for (auto& boneName : srcBoneList) {
			auto node = FindBlockByName<NiNode>(boneName);
			int boneID = GetBlockID(node);
			if (node)
				destBoneCont->boneRefs.AddBlockRef(boneID);
		}
	}
	return destShape;
}

uint32_t NifFile::CloneNamedNode(const std::string& nodeName, NifFile* srcNif) {
	if (!srcNif)
		srcNif = this;

	auto srcNode = srcNif->FindBlockByName<NiNode>(nodeName);
	if (!srcNode)
		return NIF_NPOS;

	auto destNode = srcNode->Clone();
	destNode->name.get() = nodeName;
	destNode->collisionRef.Clear();
	destNode->controllerRef.Clear();
	destNode->childRefs.Clear();
	destNode->effectRefs.Clear();

	if (srcNif != this) {
		// Whatever else the node references (extra data, properties, ...) is a block index of the source file
		std::set<NiRef*> refs;
		destNode->GetChildRefs(refs);
		destNode->GetPtrs(refs);
		for (auto& r : refs)
			r->Clear();
	}

	return hdr.AddBlock(std::move(destNode));
}

int NifFile::Save(const std::filesystem::path& fileName, const NifSaveOptions& options) {
	std::ofstream file(fileName, std::ios::out | std::ios::binary);
	return Save(file, options);
}

int NifFile::Save(std::ostream& file, const NifSaveOptions& options) {
	if (file) {
		NiOStream stream(&file, &hdr);
		FinalizeData();

		if (options.optimize)
			Optimize();

		if (options.sortBlocks)
			PrettySortBlocks();

		hdr.Put(stream);
		stream.InitBlockSize();

		// Retrieve block sizes from NiStream while writing
		std::vector<std::streamsize> blockSizes(hdr.GetNumBlocks());
		for (uint32_t i = 0; i < hdr.GetNumBlocks(); i++) {
			blocks[i]->Put(stream);
			blockSizes[i] = stream.GetBlockSize();
			stream.InitBlockSize();
		}

		uint32_t endPad = 1;
		stream << endPad;
		endPad = 0;
		stream << endPad;

		// Get previous stream pos of block size array and overwrite
		std::streampos blockSizePos = hdr.GetBlockSizeStreamPos();
		if (blockSizePos != std::streampos()) {
			file.seekp(blockSizePos);

			for (uint32_t i = 0; i < hdr.GetNumBlocks(); i++)
				stream << static_cast<uint32_t>(blockSizes[i]);

			hdr.ResetBlockSizeStreamPos();
		}
	}
	else
		return 1;

	return 0;
}

void NifFile::Optimize() {
	for (auto& s : GetShapes())
		s->UpdateBounds();

	DeleteUnreferencedBlocks();
}

OptResult NifFile::OptimizeFor(OptOptions& options) {
	OptResult result;

	const bool toSSE = options.targetVersion.IsSSE() && hdr.GetVersion().IsSK();
	const bool toLE = options.targetVersion.IsSK() && hdr.GetVersion().IsSSE();

	if (!toSSE && !toLE) {
		result.versionMismatch = true;
		return result;
	}

	if (!isTerrain)
		result.dupesRenamed = RenameDuplicateShapes();

	hdr.SetVersion(options.targetVersion);

	auto shapes = GetShapes();
	if (toSSE) {
		for (auto* shape : shapes) {
			std::string shapeName = shape->name.get();

			auto geomData = hdr.GetBlock<NiGeometryData>(shape->DataRef());

			if (!geomData)
				continue;

			bool removeVertexColors = true;
			bool hasTangents = geomData->HasTangents();
			std::vector<Vector3>* vertices = &geomData->vertices;
			std::vector<Vector3>* normals = &geomData->normals;
			const std::vector<Color4>& colors = geomData->vertexColors;
			std::vector<Vector2>* uvs = nullptr;
			if (!geomData->uvSets.empty())
				uvs = &geomData->uvSets[0];

			std::vector<Triangle> triangles;
			geomData->GetTriangles(triangles);

			if (!options.removeParallax)
				removeVertexColors = false;

			// Only remove vertex colors if all are 0xFFFFFFFF
			if (removeVertexColors) {
				Color4 white(1.0f, 1.0f, 1.0f, 1.0f);
				for (auto& c : colors) {
					if (white != c) {
						removeVertexColors = false;
						break;
					}
				}
			}

			bool headPartEyes = false;
			NiShader* shader = GetShader(shape);
			if (shader) {
				auto bslsp = dynamic_cast<BSLightingShaderProperty*>(shader);
				if (bslsp) {
					// Remember eyes flag for later
					if ((bslsp->shaderFlags1 & (1 << 17)) != 0)
						headPartEyes = true;

					// No normals and tangents with model space maps
					if (bslsp->IsModelSpace()) {
						if (!normals->empty())
							result.shapesNormalsRemoved.push_back(shapeName);

						normals = nullptr;
					}

					// Check tree anim flag
					if ((bslsp->shaderFlags2 & (1 << 29)) != 0)
						removeVertexColors = false;

					// Disable flags if vertex colors were removed
					if (removeVertexColors) {
						bslsp->SetVertexColors(false);
						bslsp->SetVertexAlpha(false);
					}

					if (options.removeParallax) {
						if (bslsp->GetShaderType() == BSLSP_PARALLAX) {
							// Change type from parallax to default
							bslsp->SetShaderType(BSLSP_DEFAULT);

							// Remove parallax flag
							bslsp->shaderFlags1 &= ~(1 << 11);

							// Remove parallax texture from set
							auto textureSet = hdr.GetBlock(shader->TextureSetRef());
							if (textureSet && textureSet->textures.size() >= 4)
								textureSet->textures[3].clear();

							result.shapesParallaxRemoved.push_back(shapeName);
						}
					}
				}

				auto bsesp = dynamic_cast<BSEffectShaderProperty*>(shader);
				if (bsesp) {
					// Remember eyes flag for later
					if ((bsesp->shaderFlags1 & (1 << 17)) != 0)
						headPartEyes = true;

					// Check tree anim flag
					if ((bsesp->shaderFlags2 & (1 << 29)) != 0)
						removeVertexColors = false;

					// Disable flags if vertex colors were removed
					if (removeVertexColors) {
						bsesp->SetVertexColors(false);
						bsesp->SetVertexAlpha(false);
					}
				}
			}

			if (!colors.empty() && removeVertexColors)
				result.shapesVColorsRemoved.push_back(shapeName);

			std::unique_ptr<BSTriShape> bsOptShape = nullptr;

			auto bsSegmentShape = dynamic_cast<BSSegmentedTriShape*>(shape);
			if (bsSegmentShape) {
				bsOptShape = std::make_unique<BSSubIndexTriShape>();
			}
			else {
				if (options.headParts)
					bsOptShape = std::make_unique<BSDynamicTriShape>();
				else
					bsOptShape = std::make_unique<BSTriShape>();
			}

			bsOptShape->name.get() = shape->name.get();
			bsOptShape->controllerRef = shape->controllerRef;

			if (shape->HasSkinInstance())
				bsOptShape->SkinInstanceRef()->index = shape->SkinInstanceRef()->index;

			if (shape->HasShaderProperty())
				bsOptShape->ShaderPropertyRef()->index = shape->ShaderPropertyRef()->index;

			if (shape->HasAlphaProperty())
				bsOptShape->AlphaPropertyRef()->index = shape->AlphaPropertyRef()->index;

			bsOptShape->collisionRef = shape->collisionRef;
			bsOptShape->propertyRefs = shape->propertyRefs;
			bsOptShape->extraDataRefs = shape->extraDataRefs;

			bsOptShape->SetTransformToParent(shape->GetTransformToParent());

			bsOptShape->Create(hdr.GetVersion(), vertices, &triangles, uvs, normals);
			bsOptShape->flags = shape->flags;

			// Move segments to new shape
			if (bsSegmentShape) {
				auto bsSITS = static_cast<BSSubIndexTriShape*>(bsOptShape.get());
				bsSITS->SetSegments(bsSegmentShape->GetSegments());
			}

			// Restore old bounds for static meshes or when calc bounds is off
			if (!shape->IsSkinned() || !options.calcBounds)
				bsOptShape->SetBounds(geomData->GetBounds());

			// Vertex Colors
			if (bsOptShape->GetNumVertices() > 0) {
				if (!removeVertexColors && !colors.empty()) {
					bsOptShape->SetVertexColors(true);
					for (uint16_t i = 0; i < bsOptShape->GetNumVertices(); i++) {
						auto& vertex = bsOptShape->vertData[i];

						float f = std::max(0.0f, std::min(1.0f, colors[i].r));
						vertex.colorData[0] = static_cast<uint8_t>(std::floor(f == 1.0f ? 255 : f * 256.0));

						f = std::max(0.0f, std::min(1.0f, colors[i].g));
						vertex.colorData[1] = static_cast<uint8_t>(std::floor(f == 1.0f ? 255 : f * 256.0));

						f = std::max(0.0f, std::min(1.0f, colors[i].b));
						vertex.colorData[2] = static_cast<uint8_t>(std::floor(f == 1.0f ? 255 : f * 256.0));

						f = std::max(0.0f, std::min(1.0f, colors[i].a));
						vertex.colorData[3] = static_cast<uint8_t>(std::floor(f == 1.0f ? 255 : f * 256.0));
					}
				}

				// Find NiOptimizeKeep string
				for (auto& extraData : bsOptShape->extraDataRefs) {
					auto stringData = hdr.GetBlock<NiStringExtraData>(extraData);
					if (stringData) {
						if (stringData->stringData.get().find("NiOptimizeKeep") != std::string::npos) {
							bsOptShape->particleDataSize = bsOptShape->GetNumVertices() * 6
														   + static_cast<uint32_t>(triangles.size()) * 3;
							bsOptShape->particleVerts = *vertices;

							bsOptShape->particleNorms.resize(vertices->size(), Vector3(1.0f, 0.0f, 0.0f));
							if (normals && normals->size() == vertices->size())
								bsOptShape->particleNorms = *normals;

							bsOptShape->particleTris = triangles;
						}
					}
				}

				// Skinning and partitions
				if (shape->IsSkinned()) {
					bsOptShape->SetSkinned(true);

					auto skinInst = hdr.GetBlock<NiSkinInstance>(shape->SkinInstanceRef());
					if (skinInst) {
						auto skinPart = hdr.GetBlock(skinInst->skinPartitionRef);
						if (skinPart) {
							bool triangulated = skinPart->ConvertStripsToTriangles();
							if (triangulated)
								result.shapesPartTriangulated.push_back(shapeName);

							for (uint32_t partID = 0; partID < skinPart->numPartitions; partID++) {
								NiSkinPartition::PartitionBlock& part = skinPart->partitions[partID];

								for (uint32_t i = 0; i < part.numVertices; i++) {
									const uint16_t v = part.vertexMap[i];

									if (bsOptShape->vertData.size() > v) {
										auto& vertex = bsOptShape->vertData[v];

										if (part.hasVertexWeights) {
											auto& weights = part.vertexWeights[i];
											vertex.weights[0] = weights.w1;
											vertex.weights[1] = weights.w2;
											vertex.weights[2] = weights.w3;
											vertex.weights[3] = weights.w4;
										}

										if (part.hasBoneIndices) {
											// Bone indices of a partition can point past its bone list
											auto partBone = [&part](const uint8_t boneIndex) -> uint8_t {
												if (boneIndex < part.bones.size())
													return static_cast<uint8_t>(part.bones[boneIndex]);

												return 0;
											};

											auto& boneIndices = part.boneIndices[i];
											vertex.weightBones[0] = partBone(boneIndices.i1);
											vertex.weightBones[1] = partBone(boneIndices.i2);
											vertex.weightBones[2] = partBone(boneIndices.i3);
											vertex.weightBones[3] = partBone(boneIndices.i4);
										}
									}
								}

								part.GenerateTrueTrianglesFromMappedTriangles();
								part.triangles = part.trueTriangles;
							}
							skinPart->bMappedIndices = false;
						}
					}
				}
				else
					bsOptShape->SetSkinned(false);
			}
			else
				bsOptShape->SetVertices(false);

			// Check if tangents were added
			if (!hasTangents && bsOptShape->HasTangents())
				result.shapesTangentsAdded.push_back(shapeName);

			// Enable eye data flag
			if (!bsSegmentShape) {
				if (options.headParts) {
					if (headPartEyes)
						bsOptShape->SetEyeData(true);
				}
			}

			auto bsOptShapeObserver = bsOptShape.get();
			hdr.ReplaceBlock(GetBlockID(shape), std::move(bsOptShape));
			UpdateSkinPartitions(bsOptShapeObserver);
		}

		DeleteUnreferencedBlocks();

		// For files without a root node, remove the leftover data blocks anyway
		hdr.DeleteBlockByType("NiTriStripsData", true);
		hdr.DeleteBlockByType("NiTriShapeData", true);
	}
	else {
		for (auto* shape : shapes) {
			std::string shapeName = shape->name.get();

			auto bsTriShape = dynamic_cast<BSTriShape*>(shape);
			if (!bsTriShape)
				continue;

			bool removeVertexColors = true;
			bool removeNormals = false;
			bool hasTangents = bsTriShape->HasTangents();
			const std::vector<Vector3>& vertices = bsTriShape->UpdateRawVertices();
			const std::vector<Vector3>& normals = bsTriShape->UpdateRawNormals();
			const std::vector<Color4>& colors = bsTriShape->UpdateRawColors();
			const std::vector<Vector2>& uvs = bsTriShape->UpdateRawUvs();

			std::vector<Triangle> triangles;
			bsTriShape->GetTriangles(triangles);

			if (!options.removeParallax)
				removeVertexColors = false;

			// Only remove vertex colors if all are 0xFFFFFFFF
			if (bsTriShape->HasVertexColors() && removeVertexColors) {
				Color4 white(1.0f, 1.0f, 1.0f, 1.0f);
				for (auto& c : colors) {
					if (white != c) {
						removeVertexColors = false;
						break;
					}
				}
			}

			NiShader* shader = GetShader(shape);
			if (shader) {
				auto bslsp = dynamic_cast<BSLightingShaderProperty*>(shader);
				if (bslsp) {
					// No normals and tangents with model space maps
					if (bslsp->IsModelSpace()) {
						if (!normals.empty())
							result.shapesNormalsRemoved.push_back(shapeName);

						removeNormals = true;
					}

					// Check tree anim flag
					if ((bslsp->shaderFlags2 & (1 << 29)) != 0)
						removeVertexColors = false;

					// Disable flags if vertex colors were removed
					if (removeVertexColors) {
						bslsp->SetVertexColors(false);
						bslsp->SetVertexAlpha(false);
					}

					// this flag breaks LE headparts
					if (options.headParts) {
						bslsp->shaderFlags2 &= ~SLSF2_PACKED_TANGENT;
					}

					if (options.removeParallax) {
						if (bslsp->GetShaderType() == BSLSP_PARALLAX) {
							// Change type from parallax to default
							bslsp->SetShaderType(BSLSP_DEFAULT);

							// Remove parallax flag
							bslsp->shaderFlags1 &= ~(1 << 11);

							// Remove parallax texture from set
							auto textureSet = hdr.GetBlock(shader->TextureSetRef());
							if (textureSet && textureSet->textures.size() >= 4)
								textureSet->textures[3].clear();

							result.shapesParallaxRemoved.push_back(shapeName);
						}
					}
				}

				auto bsesp = dynamic_cast<BSEffectShaderProperty*>(shader);
				if (bsesp) {
					// Check tree anim flag
					if ((bsesp->shaderFlags2 & (1 << 29)) != 0)
						removeVertexColors = false;

					// Disable flags if vertex colors were removed
					if (removeVertexColors) {
						bsesp->SetVertexColors(false);
						bsesp->SetVertexAlpha(false);
					}
				}
			}

			if (!colors.empty() && removeVertexColors)
				result.shapesVColorsRemoved.push_back(shapeName);

			std::unique_ptr<NiTriShape> bsOptShape = nullptr;
			auto [bsOptShapeDataS, bsOptShapeData] = make_unique<NiTriShapeData>();
			auto bsSITS = dynamic_cast<BSSubIndexTriShape*>(shape);
			if (bsSITS)
				bsOptShape = std::make_unique<BSSegmentedTriShape>();
			else
				bsOptShape = std::make_unique<NiTriShape>();

			int dataId = hdr.AddBlock(std::move(bsOptShapeDataS));
			bsOptShape->DataRef()->index = dataId;
			bsOptShape->SetGeomData(bsOptShapeData);
			bsOptShapeData->Create(hdr.GetVersion(),
								   &vertices,
								   &triangles,
								   &uvs,
								   !removeNormals ? &normals : nullptr);

			bsOptShape->name.get() = shape->name.get();

			if (shape->HasSkinInstance())
				bsOptShape->SkinInstanceRef()->index = shape->SkinInstanceRef()->index;

			if (shape->HasShaderProperty())
				bsOptShape->ShaderPropertyRef()->index = shape->ShaderPropertyRef()->index;

			if (shape->HasAlphaProperty())
				bsOptShape->AlphaPropertyRef()->index = shape->AlphaPropertyRef()->index;

			bsOptShape->controllerRef = shape->controllerRef;
			bsOptShape->collisionRef = shape->collisionRef;
			bsOptShape->propertyRefs = shape->propertyRefs;
			bsOptShape->extraDataRefs = shape->extraDataRefs;

			bsOptShape->SetTransformToParent(shape->GetTransformToParent());
			bsOptShape->flags = shape->flags;

			// Move segments to new shape
			if (bsSITS) {
				auto bsSegmentShape = static_cast<BSSegmentedTriShape*>(bsOptShape.get());
				bsSegmentShape->SetSegments(bsSITS->GetSegments());
			}

			// Restore old bounds for static meshes or when calc bounds is off
			if (!shape->IsSkinned() || !options.calcBounds)
				bsOptShape->SetBounds(bsTriShape->GetBounds());

			// Vertex Colors
			if (bsOptShape->GetNumVertices() > 0) {
				if (!removeVertexColors && !colors.empty()) {
					bsOptShape->SetVertexColors(true);
					for (uint16_t i = 0; i < bsOptShape->GetNumVertices(); i++)
						bsOptShapeData->vertexColors[i] = colors[i];
				}

				// Skinning and partitions
				if (shape->IsSkinned()) {
					auto skinInst = hdr.GetBlock<NiSkinInstance>(shape->SkinInstanceRef());
					if (skinInst) {
						auto skinPart = hdr.GetBlock(skinInst->skinPartitionRef);
						if (skinPart) {
							bool triangulated = skinPart->ConvertStripsToTriangles();
							if (triangulated)
								result.shapesPartTriangulated.push_back(shapeName);

							for (uint32_t partID = 0; partID < skinPart->numPartitions; partID++) {
								NiSkinPartition::PartitionBlock& part = skinPart->partitions[partID];

								part.GenerateMappedTrianglesFromTrueTrianglesAndVertexMap();
							}
							skinPart->bMappedIndices = true;
						}
					}
				}
			}
			else
				bsOptShape->SetVertices(false);

			// Check if tangents were added
			if (!hasTangents && bsOptShape->HasTangents())
				result.shapesTangentsAdded.push_back(shapeName);

			auto bsOptShapeObserver = bsOptShape.get();
			hdr.ReplaceBlock(GetBlockID(shape), std::move(bsOptShape));
			UpdateSkinPartitions(bsOptShapeObserver);
		}

		DeleteUnreferencedBlocks();
		PrettySortBlocks();
	}

	if (options.fixBSXFlags)
		FixBSXFlags();

	if (options.fixShaderFlags)
		FixShaderFlags();

	return result;
}

void NifFile::PrepareData() {
	hdr.FillStringRefs();
	LinkGeomData();
	TrimTexturePaths();

	for (auto& shape : GetShapes()) {
		// Move triangle and vertex data from partition to shape
		if (hdr.GetVersion().IsSSE()) {
			auto* bsTriShape = dynamic_cast<BSTriShape*>(shape);
			if (!bsTriShape)
				continue;

			auto skinInst = hdr.GetBlock<NiSkinInstance>(shape->SkinInstanceRef());
			if (!skinInst)
				continue;

			auto skinPart = hdr.GetBlock(skinInst->skinPartitionRef);
			if (!skinPart)
				continue;

			bsTriShape->SetVertexData(skinPart->vertData);

			std::vector<Triangle> tris;
			for (int pi = 0; pi < static_cast<int>(skinPart->partitions.size()); ++pi)
				for (auto& tri : skinPart->partitions[pi].trueTriangles) {
					tris.push_back(tri);
					skinPart->triParts.push_back(pi);
				}

			bsTriShape->SetTriangles(tris);

			auto dynamicShape = dynamic_cast<BSDynamicTriShape*>(bsTriShape);
			if (dynamicShape) {
				for (uint16_t i = 0; i < dynamicShape->GetNumVertices(); i++) {
					dynamicShape->vertData[i].vert.x = dynamicShape->dynamicData[i].x;
					dynamicShape->vertData[i].vert.y = dynamicShape->dynamicData[i].y;
					dynamicShape->vertData[i].vert.z = dynamicShape->dynamicData[i].z;
					dynamicShape->vertData[i].bitangentX = dynamicShape->dynamicData[i].w;
				}
			}
		}

		// Move tangents and bitangents from binary extra data to shape
		if (hdr.GetVersion().IsOB()) {
			std::vector<Vector3> tangents;
			std::vector<Vector3> bitangents;
			if (GetBinaryTangentData(shape, &tangents, &bitangents)) {
				SetTangentsForShape(shape, tangents);
				SetBitangentsForShape(shape, bitangents);
			}
		}
	}

	RemoveInvalidTris();
}

void NifFile::FinalizeData() {
	for (auto& shape : GetShapes()) {
		auto bsTriShape = dynamic_cast<BSTriShape*>(shape);
		if (bsTriShape) {
			auto bsDynTriShape = dynamic_cast<BSDynamicTriShape*>(shape);
			if (bsDynTriShape)
				bsDynTriShape->CalcDynamicData();

			bsTriShape->CalcDataSizes(hdr.GetVersion());

			if (hdr.GetVersion().IsSSE()) {
				// Move triangle and vertex data from shape to partition
				auto skinInst = hdr.GetBlock<NiSkinInstance>(shape->SkinInstanceRef());
				if (skinInst) {
					auto skinPart = hdr.GetBlock(skinInst->skinPartitionRef);
					if (skinPart) {
						skinPart->numVertices = bsTriShape->GetNumVertices();
						skinPart->dataSize = bsTriShape->dataSize;
						skinPart->vertexSize = bsTriShape->vertexSize;
						skinPart->vertData = bsTriShape->vertData;
						skinPart->vertexDesc = bsTriShape->vertexDesc;

						for (uint32_t partInd = 0; partInd < skinPart->numPartitions; ++partInd) {
							NiSkinPartition::PartitionBlock& part = skinPart->partitions[partInd];

							// Copy relevant data from shape to each partition
							part.vertexDesc = bsTriShape->vertexDesc;
						}
					}
				}
			}
		}

		if (hdr.GetVersion().IsOB()) {
			// Move tangents and bitangents from shape back to binary extra data
			if (shape->HasTangents()) {
				auto tangents = GetTangentsForShape(shape);
				auto bitangents = GetBitangentsForShape(shape);
				SetBinaryTangentData(shape, tangents, bitangents);
			}
			else
				DeleteBinaryTangentData(shape);
		}
	}

	hdr.UpdateHeaderStrings(hasUnknown);
}

bool NifFile::IsSSECompatible() const {
	auto shapes = GetShapes();
	return std::all_of(shapes.cbegin(), shapes.cend(), [this](auto&& shape) {
		return IsSSECompatible(shape);
	});
}

bool NifFile::IsSSECompatible(NiShape* shape) const {
	// Check if shape has strips in the geometry or skin partition
	if (shape->HasType<NiTriStrips>())
		return false;

	auto skinInst = hdr.GetBlock<NiSkinInstance>(shape->SkinInstanceRef());
	if (skinInst) {
		auto skinPart = hdr.GetBlock(skinInst->skinPartitionRef);
		if (skinPart) {
			for (auto& partition : skinPart->partitions) {
				if (partition.numStrips > 0)
					return false;
			}
		}
	}

	return true;
}

NiShape* NifFile::CreateShapeFromData(const std::string& shapeName,
									  const std::vector<Vector3>* v,
									  const std::vector<Triangle>* t,
									  const std::vector<Vector2>* uv,
									  const std::vector<Vector3>* norms) {
	auto rootNode = GetRootNode();
	if (!rootNode)
		return nullptr;

	const NiVersion& version = hdr.GetVersion();

	NiShape* shapeResult = nullptr;
	if (version.IsSSE()) {
		auto triShape = std::make_unique<BSTriShape>();
		triShape->Create(hdr.GetVersion(), v, t, uv, norms);
		triShape->SetSkinned(false);

		auto nifTexset = std::make_unique<BSShaderTextureSet>(hdr.GetVersion());

		auto nifShader = std::make_unique<BSLightingShaderProperty>(hdr.GetVersion());
		nifShader->TextureSetRef()->index = hdr.AddBlock(std::move(nifTexset));
		nifShader->SetSkinned(false);

		triShape->name.get() = shapeName;

		int shaderID = hdr.AddBlock(std::move(nifShader));
		triShape->ShaderPropertyRef()->index = shaderID;

		shapeResult = triShape.get();

		int shapeID = hdr.AddBlock(std::move(triShape));
		rootNode->childRefs.AddBlockRef(shapeID);
	}
	else if (version.IsFO4() || version.IsFO76()) {
		auto nifBSTriShape = std::make_unique<BSSubIndexTriShape>();
		nifBSTriShape->Create(hdr.GetVersion(), v, t, uv, norms);
		nifBSTriShape->SetSkinned(false);

		auto nifTexset = std::make_unique<BSShaderTextureSet>(hdr.GetVersion());

		auto nifShader = std::make_unique<BSLightingShaderProperty>(hdr.GetVersion());
		nifShader->TextureSetRef()->index = hdr.AddBlock(std::move(nifTexset));

		std::string wetShaderName = "template/OutfitTemplate_Wet.bgsm";
		nifShader->SetWetMaterialName(wetShaderName);
		nifShader->SetSkinned(false);

		nifBSTriShape->name.get() = shapeName;

		int shaderID = hdr.AddBlock(std::move(nifShader));
		nifBSTriShape->ShaderPropertyRef()->index = shaderID;

		shapeResult = nifBSTriShape.get();

		int shapeID = hdr.AddBlock(std::move(nifBSTriShape));
		rootNode->childRefs.AddBlockRef(shapeID);
	}
	else {
		auto nifTexset = std::make_unique<BSShaderTextureSet>(hdr.GetVersion());

		int shaderID{};
		std::unique_ptr<BSLightingShaderProperty> nifShader = nullptr;
		std::unique_ptr<BSShaderPPLightingProperty> nifShaderPP = nullptr;

		if (version.IsSK()) {
			nifShader = std::make_unique<BSLightingShaderProperty>(hdr.GetVersion());
			nifShader->TextureSetRef()->index = hdr.AddBlock(std::move(nifTexset));
			nifShader->SetSkinned(false);
			shaderID = hdr.AddBlock(std::move(nifShader));
		}
		else {
			nifShaderPP = std::make_unique<BSShaderPPLightingProperty>();
			nifShaderPP->TextureSetRef()->index = hdr.AddBlock(std::move(nifTexset));
			nifShaderPP->SetSkinned(false);
			shaderID = hdr.AddBlock(std::move(nifShaderPP));
		}

		auto nifTriShape = std::make_unique<NiTriShape>();
		if (version.IsSK())
			nifTriShape->ShaderPropertyRef()->index = shaderID;
		else
			nifTriShape->propertyRefs.AddBlockRef(shaderID);

		nifTriShape->name.get() = shapeName;

		auto nifShapeData = std::make_unique<NiTriShapeData>();
		nifShapeData->Create(hdr.GetVersion(), v, t, uv, norms);
		nifTriShape->SetGeomData(nifShapeData.get());

		int dataID = hdr.AddBlock(std::move(nifShapeData));
		nifTriShape->DataRef()->index = dataID;
		nifTriShape->SetSkinned(false);

		shapeResult = nifTriShape.get();

		int shapeID = hdr.AddBlock(std::move(nifTriShape));
		rootNode->childRefs.AddBlockRef(shapeID);
	}

	return shapeResult;
}

std::vector<std::string> NifFile::GetShapeNames() const {
	std::vector<std::string> outList;
	for (auto& block : blocks) {
		auto shape = dynamic_cast<NiShape*>(block.get());
		if (shape)
			outList.push_back(shape->name.get());
	}
	return outList;
}

std::vector<NiShape*> NifFile::GetShapes() const {
	std::vector<NiShape*> outList;
	for (auto& block : blocks) {
		auto shape = dynamic_cast<NiShape*>(block.get());
		if (shape)
			outList.push_back(shape);
	}
	return outList;
}

bool NifFile::RenameShape(NiShape* shape, const std::string& newName) {
	if (shape) {
		shape->name.get() = newName;
		return true;
	}

	return false;
}

bool NifFile::RenameDuplicateShapes() {
	auto countDupes = [this](NiNode* parent, const std::string& name) {
		if (name.empty())
			return ptrdiff_t(0);

		std::vector<std::string> names;
		std::set<int> uniqueRefs;
		for (auto& child : parent->childRefs) {
			auto obj = hdr.GetBlock<NiAVObject>(child);
			if (obj) {
				if (uniqueRefs.find(child.index) == uniqueRefs.end()) {
					names.push_back(obj->name.get());
					uniqueRefs.insert(child.index);
				}
			}
		}

		return std::count(names.begin(), names.end(), name);
	};

	bool renamed = false;
	auto nodes = GetChildren<NiNode>();

	auto root = GetRootNode();
	if (root)
		nodes.push_back(root);

	for (auto& node : nodes) {
		int dupCount = 0;

		for (auto& child : node->childRefs) {
			auto shape = hdr.GetBlock<NiShape>(child);
			if (shape) {
				// Skip first child
				if (dupCount == 0) {
					dupCount++;
					continue;
				}

				std::string shapeName = shape->name.get();

				bool duped = countDupes(node, shapeName) > 1;
				if (duped) {
					std::string dup = "_" + std::to_string(dupCount);

					while (countDupes(node, shapeName + dup) > 0) {
						dupCount++;
						dup = "_" + std::to_string(dupCount);
					}

					shape->name.get() = shapeName + dup;
					dupCount++;
					renamed = true;
				}
			}
		}
	}

	return renamed;
}

void NifFile::TriangulateShape(NiShape* shape) {
	if (shape->HasType<NiTriStrips>()) {
		auto stripsData = hdr.GetBlock<NiTriStripsData>(shape->DataRef());
		if (stripsData) {
			std::vector<Triangle> tris = stripsData->StripsToTris();

			if (!tris.empty()) {
				auto [triShapeS, triShape] = make_unique<NiTriShape>();
				*static_cast<NiTriBasedGeom*>(triShape) = *static_cast<NiTriBasedGeom*>(shape);
				hdr.ReplaceBlock(GetBlockID(shape), std::move(triShapeS));

				auto [triShapeDataS, triShapeData] = make_unique<NiTriShapeData>();
				*static_cast<NiTriBasedGeomData*>(triShapeData) = *static_cast<NiTriBasedGeomData*>(
					stripsData);
				triShapeData->SetTriangles(tris);
				hdr.ReplaceBlock(GetBlockID(stripsData), std::move(triShapeDataS));
				triShape->SetGeomData(triShapeData);
			}
		}
	}
}

NiNode* NifFile::GetRootNode() const {
	// Check if block at index 0 is a node
	auto root = hdr.GetBlock<NiNode>(0u);
	if (!root) {
		// Not a node, look for first node block
		for (auto& block : blocks) {
			auto node = dynamic_cast<NiNode*>(block.get());
			if (node) {
				root = node;
				break;
			}
		}
	}
	return root;
}

void NifFile::GetTree(std::vector<NiObject*>& result, NiObject* parent) const {
	if (parent == nullptr) {
		parent = GetRootNode();
		if (parent == nullptr)
			return;
	}

	result.push_back(parent);

	std::vector<uint32_t> indices;
	parent->GetChildIndices(indices);

	for (auto& i : indices) {
		auto child = hdr.GetBlock<NiObject>(i);
		if (child && !contains(result, child))
			GetTree(result, child);
	}
}

bool NifFile::GetNodeTransformToParent(const std::string& nodeName, MatTransform& outTransform) const {
	for (auto& block : blocks) {
		auto node = dynamic_cast<NiNode*>(block.get());
		if (node && node->name == nodeName) {
			outTransform = node->GetTransformToParent();
			return true;
		}
	}
	return false;
}

bool NifFile::GetNodeTransformToGlobal(const std::string& nodeName, MatTransform& outTransform) const {
	for (auto& block : blocks) {
		auto* node = dynamic_cast<NiNode*>(block.get());
		if (!node || node->name != nodeName)
			continue;

		MatTransform xform = node->GetTransformToParent();
		NiNode* parent = GetParentNode(node);
		// Stop when a parent repeats: a cycle in the node graph must not hang the walk
		std::set<NiNode*> visited{node};
		while (parent && visited.insert(parent).second) {
			xform = parent->GetTransformToParent().ComposeTransforms(xform);
			parent = GetParentNode(parent);
		}
		outTransform = xform;
		return true;
	}

	return false;
}

bool NifFile::SetNodeTransformToParent(const std::string& nodeName,
									   const MatTransform& inTransform,
									   const bool rootChildrenOnly) {
	if (rootChildrenOnly) {
		auto root = GetRootNode();
		if (root) {
			for (auto& child : root->childRefs) {
				auto node = hdr.GetBlock<NiNode>(child);
				if (node) {
					if (node->name == nodeName) {
						node->SetTransformToParent(inTransform);
						return true;
					}
				}
			}
		}
	}
	else {
		for (auto& block : blocks) {
			auto node = dynamic_cast<NiNode*>(block.get());
			if (node && node->name == nodeName) {
				node->SetTransformToParent(inTransform);
				return true;
			}
		}
	}

	return false;
}

uint32_t NifFile::GetShapeBoneList(NiShape* shape, std::vector<std::string>& outList) const {
	outList.clear();

	if (!shape)
		return 0;

	auto skinInst = hdr.GetBlock<NiBoneContainer>(shape->SkinInstanceRef());
	if (!skinInst)
		return 0;

	for (auto& bone : skinInst->boneRefs) {
		auto node = hdr.GetBlock(bone);
		if (node)
			outList.push_back(node->name.get());
	}

	return static_cast<uint32_t>(outList.size());
}

uint32_t NifFile::GetShapeBoneIDList(NiShape* shape, std::vector<int>& outList) const {
	outList.clear();

	if (!shape)
		return 0;

	auto skinInst = hdr.GetBlock<NiBoneContainer>(shape->SkinInstanceRef());
	if (!skinInst)
		return 0;

	for (auto& bone : skinInst->boneRefs)
		if (!bone.IsEmpty())
			outList.push_back(bone.index);

	return static_cast<uint32_t>(outList.size());
}

void NifFile::SetShapeBoneIDList(NiShape* shape, std::vector<int>& inList) {
	if (!shape)
		return;

	BSSkinBoneData* boneData = nullptr;
	if (shape->HasType<BSTriShape>()) {
		auto skinForBoneRef = hdr.GetBlock<BSSkinInstance>(shape->SkinInstanceRef());
		if (skinForBoneRef)
			boneData = hdr.GetBlock(skinForBoneRef->dataRef);
	}

	auto boneCont = hdr.GetBlock<NiBoneContainer>(shape->SkinInstanceRef());
	if (!boneCont)
		return;

	boneCont->boneRefs.Clear();

	bool feedBoneData = false;
	if (boneData && boneData->nBones != inList.size()) {
		// Clear if size doesn't match
		boneData->nBones = 0;
		boneData->boneXforms.clear();
		feedBoneData = true;
	}

	for (auto& i : inList) {
		boneCont->boneRefs.AddBlockRef(i);
		if (boneData && feedBoneData) {
			boneData->boneXforms.emplace_back();
			boneData->nBones++;
		}
	}

	auto skinInst = dynamic_cast<NiSkinInstance*>(boneCont);
	if (skinInst) {
		auto skinData = hdr.GetBlock(skinInst->dataRef);
		if (skinData) {
			feedBoneData = false;

			if (skinData->numBones != inList.size()) {
				// Clear if size doesn't match
				skinData->numBones = 0;
				skinData->bones.clear();
				feedBoneData = true;
			}

			if (feedBoneData) {
				skinData->bones.resize(inList.size());
				skinData->numBones = static_cast<uint32_t>(skinData->bones.size());
			}
		}
	}
}

uint32_t NifFile::GetShapeBoneWeights(NiShape* shape,
									  const uint32_t boneIndex,
									  std::unordered_map<uint16_t, float>& outWeights) const {
	outWeights.clear();

	if (!shape)
		return 0;

	auto bsTriShape = dynamic_cast<BSTriShape*>(shape);
	if (bsTriShape) {
		outWeights.reserve(bsTriShape->GetNumVertices());
		for (uint16_t vid = 0; vid < bsTriShape->GetNumVertices(); vid++) {
			auto& vertex = bsTriShape->vertData[vid];
			for (size_t i = 0; i < 4; i++) {
				if (vertex.weightBones[i] == boneIndex && vertex.weights[i] != 0.0f)
					outWeights.emplace(vid, vertex.weights[i]);
			}
		}

		return static_cast<uint32_t>(outWeights.size());
	}

	auto skinInst = hdr.GetBlock<NiSkinInstance>(shape->SkinInstanceRef());
	if (!skinInst)
		return 0;

	auto skinData = hdr.GetBlock(skinInst->dataRef);
	if (!skinData || boneIndex >= skinData->numBones)
		return 0;

	NiSkinData::BoneData* bone = &skinData->bones[boneIndex];
	for (auto& sw : bone->vertexWeights) {
		// SkinWeight is packed: copy the members instead of binding references to them
		const uint16_t index = sw.index;
		const float weight = sw.weight;
		if (weight >= EPSILON)
			outWeights.emplace(index, weight);
	}

	return static_cast<uint32_t>(outWeights.size());
}

bool NifFile::CalcShapeTransformGlobalToSkin(NiShape* shape, MatTransform& outTransform) const {
	if (!shape)
		return false;
	if (GetShapeTransformGlobalToSkin(shape, outTransform))
		return true;

	// Now the nif doesn't have this transform, probably because it's
	// a FO4 nif, so we will try to calculate it, since FO4 shapes almost
	// always have a non-identity global-to-skin transform.
	// Ideally, we'd use bone transforms from the skeleton file, but we
	// don't have access to that here.
	std::vector<std::string> bones;
	GetShapeBoneList(shape, bones);
	for (const std::string& bone : bones) {
		MatTransform xformBoneToGlobal;
		if (!GetNodeTransformToGlobal(bone, xformBoneToGlobal))
			continue;
		MatTransform xformSkinToBone;
		if (!GetShapeTransformSkinToBone(shape, bone, xformSkinToBone))
			continue;
		// compose: skin -> bone -> global and invert
		outTransform = xformBoneToGlobal.ComposeTransforms(xformSkinToBone).InverseTransform();
		return true;
	}
	return false;
}

bool NifFile::GetShapeTransformGlobalToSkin(NiShape* shape, MatTransform& outTransform) const {
	if (!shape)
		return false;

	// For FO4 meshes, the skin instance is a BSSkinInstance instead of
	// an NiSkinInstance, so skinInst will be nullptr.  FO4 meshes do not
	// have this transform.
	auto skinInst = hdr.GetBlock<NiSkinInstance>(shape->SkinInstanceRef());
	if (!skinInst)
		return false;

	auto skinData = hdr.GetBlock(skinInst->dataRef);
	if (!skinData)
		return false;

	outTransform = skinData->skinTransform;
	return true;
}

void NifFile::SetShapeTransformGlobalToSkin(NiShape* shape, const MatTransform& inTransform) {
	if (!shape)
		return;

	// For FO4 meshes, the skin instance is a BSSkinInstance instead of
	// an NiSkinInstance, so skinInst will be nullptr.  FO4 meshes do not
	// have this transform.
	auto skinInst = hdr.GetBlock<NiSkinInstance>(shape->SkinInstanceRef());
	if (!skinInst)
		return;

	auto skinData = hdr.GetBlock(skinInst->dataRef);
	if (!skinData)
		return;

	// Set the overall skin transform
	skinData->skinTransform = inTransform;
}

bool NifFile::GetShapeTransformSkinToBone(NiShape* shape,
										  const std::string& boneName,
										  MatTransform& outTransform) const {
	if (!shape)
		return false;

	return GetShapeTransformSkinToBone(shape, shape->GetBoneID(hdr, boneName), outTransform);
}

bool NifFile::GetShapeTransformSkinToBone(NiShape* shape,
										  const uint32_t boneIndex,
										  MatTransform& outTransform) const {
	if (!shape)
		return false;

	auto skinForBoneRef = hdr.GetBlock<BSSkinInstance>(shape->SkinInstanceRef());
	if (skinForBoneRef) {
		auto boneData = hdr.GetBlock(skinForBoneRef->dataRef);
		if (boneData) {
			if (boneIndex >= boneData->nBones)
				return false;

			outTransform = boneData->boneXforms[boneIndex].boneTransform;
			return true;
		}
	}

	auto skinInst = hdr.GetBlock<NiSkinInstance>(shape->SkinInstanceRef());
	if (!skinInst)
		return false;

	auto skinData = hdr.GetBlock(skinInst->dataRef);
	if (!skinData)
		return false;

	if (boneIndex >= skinData->numBones)
		return false;

	NiSkinData::BoneData* bone = &skinData->bones[boneIndex];
	outTransform = bone->boneTransform;
	return true;
}

void NifFile::SetShapeTransformSkinToBone(NiShape* shape,
										  const uint32_t boneIndex,
										  const MatTransform& inTransform) {
	if (!shape)
		return;

	auto skinForBoneRef = hdr.GetBlock<BSSkinInstance>(shape->SkinInstanceRef());
	if (skinForBoneRef) {
		auto bsSkin = hdr.GetBlock(skinForBoneRef->dataRef);
		if (!bsSkin)
			return;

		if (boneIndex >= bsSkin->nBones)
			return;
		bsSkin->boneXforms[boneIndex].boneTransform = inTransform;
		return;
	}

	auto skinInst = hdr.GetBlock<NiSkinInstance>(shape->SkinInstanceRef());
	if (!skinInst)
		return;

	auto skinData = hdr.GetBlock(skinInst->dataRef);
	if (!skinData)
		return;

	if (boneIndex >= skinData->numBones)
		return;

	NiSkinData::BoneData* bone = &skinData->bones[boneIndex];
	bone->boneTransform = inTransform;
}

bool NifFile::GetShapeBoneTransform(NiShape* shape,
									const std::string& boneName,
									MatTransform& outTransform) const {
	if (boneName.empty())
		return GetShapeTransformGlobalToSkin(shape, outTransform);
	return GetShapeTransformSkinToBone(shape, boneName, outTransform);
}

bool NifFile::GetShapeBoneTransform(NiShape* shape,
									const uint32_t boneIndex,
									MatTransform& outTransform) const {
	if (boneIndex == 0xFFFFFFFF)
		return GetShapeTransformGlobalToSkin(shape, outTransform);

	return GetShapeTransformSkinToBone(shape, boneIndex, outTransform);
}

bool NifFile::SetShapeBoneTransform(NiShape* shape, const uint32_t boneIndex, MatTransform& inTransform) {
	if (boneIndex == 0xFFFFFFFF)
		SetShapeTransformGlobalToSkin(shape, inTransform);
	else
		SetShapeTransformSkinToBone(shape, boneIndex, inTransform);
	return true;
}

bool NifFile::SetShapeBoneBounds(const std::string& shapeName,
								 const uint32_t boneIndex,
								 BoundingSphere& inBounds) {
	auto shape = FindBlockByName<NiShape>(shapeName);
	if (!shape)
		return false;

	auto skinForBoneRef = hdr.GetBlock<BSSkinInstance>(shape->SkinInstanceRef());
	if (skinForBoneRef && boneIndex != 0xFFFFFFFF) {
		auto bsSkin = hdr.GetBlock(skinForBoneRef->dataRef);
		if (!bsSkin)
			return false;

		if (boneIndex >= bsSkin->nBones)
			return false;

		bsSkin->boneXforms[boneIndex].bounds = inBounds;
		return true;
	}

	auto skinInst = hdr.GetBlock<NiSkinInstance>(shape->SkinInstanceRef());
	if (!skinInst)
		return false;

	auto skinData = hdr.GetBlock(skinInst->dataRef);
	if (!skinData)
		return false;

	if (boneIndex >= skinData->numBones)
		return false;

	NiSkinData::BoneData* bone = &skinData->bones[boneIndex];
	bone->bounds = inBounds;
	return true;
}

bool NifFile::GetShapeBoneBounds(NiShape* shape, const uint32_t boneIndex, BoundingSphere& outBounds) const {
	if (!shape)
		return false;

	auto skinForBoneRef = hdr.GetBlock<BSSkinInstance>(shape->SkinInstanceRef());
	if (skinForBoneRef) {
		auto boneData = hdr.GetBlock(skinForBoneRef->dataRef);
		if (boneData) {
			if (boneIndex >= boneData->nBones)
				return false;

			outBounds = boneData->boneXforms[boneIndex].bounds;
			return true;
		}
	}

	auto skinInst = hdr.GetBlock<NiSkinInstance>(shape->SkinInstanceRef());
	if (!skinInst)
		return false;

	auto skinData = hdr.GetBlock(skinInst->dataRef);
	if (!skinData)
		return false;

	if (boneIndex >= skinData->numBones)
		return false;

	NiSkinData::BoneData* bone = &skinData->bones[boneIndex];
	outBounds = bone->bounds;
	return true;
}

void NifFile::UpdateShapeBoneID(const std::string& shapeName, const uint32_t oldID, const uint32_t newID) {
	auto shape = FindBlockByName<NiShape>(shapeName);
	if (!shape)
		return;

	auto boneCont = hdr.GetBlock<NiBoneContainer>(shape->SkinInstanceRef());
	if (!boneCont)
		return;

	for (auto& bp : boneCont->boneRefs) {
		if (!bp.IsEmpty() && bp.index == oldID) {
			bp.index = newID;
			return;
		}
	}
}

void NifFile::SetShapeBoneWeights(const std::string& shapeName,
								  const uint32_t boneIndex,
								  std::unordered_map<uint16_t, float>& inWeights) {
	auto shape = FindBlockByName<NiShape>(shapeName);
	if (!shape)
		return;

	auto skinInst = hdr.GetBlock<NiSkinInstance>(shape->SkinInstanceRef());
	if (!skinInst)
		return;

	auto skinData = hdr.GetBlock(skinInst->dataRef);
	if (!skinData)
		return;

	if (boneIndex >= skinData->numBones)
		return;

	skinData->hasVertWeights = true;

	NiSkinData::BoneData* bone = &skinData->bones[boneIndex];
	bone->vertexWeights.clear();
	for (auto& sw : inWeights)
		if (sw.second >= 0.0001f)
			bone->vertexWeights.emplace_back(SkinWeight(sw.first, sw.second));

	bone->numVertices = static_cast<uint16_t>(bone->vertexWeights.size());
}

void NifFile::SetShapeVertWeights(const std::string& shapeName,
								  const uint16_t vertIndex,
								  std::vector<uint8_t>& boneids,
								  std::vector<float>& weights) const {
	auto shape = FindBlockByName<NiShape>(shapeName);
	if (!shape)
		return;

	auto bsTriShape = dynamic_cast<BSTriShape*>(shape);
	if (!bsTriShape)
		return;

	if (vertIndex < 0 || vertIndex >= bsTriShape->vertData.size())
		return;

	auto& vertex = bsTriShape->vertData[vertIndex];
	std::memset(vertex.weights, 0, sizeof(float) * 4);
	std::memset(vertex.weightBones, 0, sizeof(uint8_t) * 4);

	// Sum weights to normalize values
	float sum = 0.0f;
	for (auto weight : weights)
		sum += weight;

	uint32_t num = (weights.size() < 4 ? static_cast<uint32_t>(weights.size()) : 4);

	for (uint32_t i = 0; i < num; i++) {
		vertex.weightBones[i] = boneids[i];
		vertex.weights[i] = weights[i] / sum;
	}
}

void NifFile::ClearShapeVertWeights(const std::string& shapeName) const {
	auto shape = FindBlockByName<NiShape>(shapeName);
	if (!shape)
		return;

	auto bsTriShape = dynamic_cast<BSTriShape*>(shape);
	if (!bsTriShape)
		return;

	for (auto& vertex : bsTriShape->vertData) {
		std::memset(vertex.weights, 0, sizeof(float) * 4);
		std::memset(vertex.weightBones, 0, sizeof(uint8_t) * 4);
	}
}

bool NifFile::GetShapeSegments(NiShape* shape, NifSegmentationInfo& inf, std::vector<int>& triParts) {
	auto bssits = dynamic_cast<BSSubIndexTriShape*>(shape);
	if (!bssits)
		return false;

	bssits->GetSegmentation(inf, triParts);
	return true;
}

void NifFile::SetShapeSegments(NiShape* shape,
							   const NifSegmentationInfo& inf,
							   const std::vector<int>& triParts) {
	auto bssits = dynamic_cast<BSSubIndexTriShape*>(shape);
	if (!bssits)
		return;

	bssits->SetSegmentation(inf, triParts);
}

bool NifFile::GetShapePartitions(NiShape* shape,
								 NiVector<BSDismemberSkinInstance::PartitionInfo>& partitionInfo,
								 std::vector<int>& triParts) const {
	if (!shape)
		return false;

	auto bsdSkinInst = hdr.GetBlock<BSDismemberSkinInstance>(shape->SkinInstanceRef());
	if (bsdSkinInst)
		partitionInfo = bsdSkinInst->partitions;
	else
		partitionInfo.clear();

	auto skinInst = hdr.GetBlock<NiSkinInstance>(shape->SkinInstanceRef());
	if (!skinInst)
		return false;

	auto skinPart = hdr.GetBlock(skinInst->skinPartitionRef);
	if (!skinPart)
		return false;

	// Generate triParts
	std::vector<Triangle> shapeTris;
	shape->GetTriangles(shapeTris);
	skinPart->PrepareTriParts(shapeTris);
	triParts = skinPart->triParts;

	// Make sure every partition has a PartitionInfo
	while (partitionInfo.size() < skinPart->partitions.size()) {
		BSDismemberSkinInstance::PartitionInfo pi;
		pi.flags = PF_EDITOR_VISIBLE;
		pi.partID = hdr.GetVersion().User() >= 12 ? 32 : 0;
		partitionInfo.push_back(pi);
	}

	return true;
}

void NifFile::SetShapePartitions(NiShape* shape,
								 const NiVector<BSDismemberSkinInstance::PartitionInfo>& partitionInfo,
								 const std::vector<int>& triParts,
								 const bool convertSkinInstance) {
	if (!shape)
		return;

	auto skinInst = hdr.GetBlock<NiSkinInstance>(shape->SkinInstanceRef());
	if (!skinInst)
		return;

	auto skinPart = hdr.GetBlock(skinInst->skinPartitionRef);
	if (!skinPart)
		return;

	// Calculate new number of partitions.  This code assumes we might have
	// misassigned or unassigned triangles, though it's unclear whether
	// it's even possible to have misassigned or unassigned triangles.
	uint32_t numParts = static_cast<uint32_t>(partitionInfo.size());
	bool hasUnassignedTris = false;
	for (auto pi : triParts) {
		if (pi >= static_cast<int>(numParts))
			numParts = pi + 1;
		if (pi < 0)
			hasUnassignedTris = true;
	}
	if (hasUnassignedTris)
		++numParts;

	// Copy triParts and assign unassigned triangles to a partition
	skinPart->triParts = triParts;
	if (hasUnassignedTris) {
		for (int& pi : skinPart->triParts) {
			if (pi < 0)
				pi = static_cast<int>(numParts) - 1;
		}
	}

	// Resize NiSkinPartition partition list
	skinPart->numPartitions = numParts;
	skinPart->partitions.resize(numParts);
	for (uint32_t i = 0; i < numParts; i++)
		skinPart->partitions[i].hasVertexMap = true;

	// Regenerate trueTriangles
	std::vector<Triangle> shapeTris;
	shape->GetTriangles(shapeTris);
	skinPart->GenerateTrueTrianglesFromTriParts(shapeTris);

	// Set BSDismemberSkinInstance partition list
	auto bsdSkinInst = hdr.GetBlock<BSDismemberSkinInstance>(shape->SkinInstanceRef());
	if (!bsdSkinInst && convertSkinInstance && hdr.GetVersion().File() == NiFileVersion::V20_2_0_7) {
		auto newBsdSkinInst = std::make_unique<BSDismemberSkinInstance>();
		bsdSkinInst = newBsdSkinInst.get();

		*static_cast<NiSkinInstance*>(bsdSkinInst) = *static_cast<NiSkinInstance*>(skinInst);
		hdr.ReplaceBlock(GetBlockID(skinInst), std::move(newBsdSkinInst));
	}

	if (bsdSkinInst) {
		bsdSkinInst->partitions = partitionInfo;
		while (bsdSkinInst->partitions.size() < numParts) {
			BSDismemberSkinInstance::PartitionInfo pi;
			pi.flags = PF_EDITOR_VISIBLE;
			pi.partID = hdr.GetVersion().User() >= 12 ? 32 : 0;
			bsdSkinInst->partitions.push_back(pi);
		}
	}
}

void NifFile::SetDefaultPartition(NiShape* shape) {
	std::vector<Triangle> tris;
	shape->GetTriangles(tris);

	uint16_t numVertices = shape->GetNumVertices();
	bool bMappedIndices = !shape->HasType<BSTriShape>();

	auto bsdSkinInst = hdr.GetBlock<BSDismemberSkinInstance>(shape->SkinInstanceRef());
	if (bsdSkinInst) {
		BSDismemberSkinInstance::PartitionInfo partInfo;
		partInfo.flags = PF_EDITOR_VISIBLE;
		partInfo.partID = hdr.GetVersion().User() >= 12 ? 32 : 0;

		bsdSkinInst->partitions.clear();
		bsdSkinInst->partitions.push_back(partInfo);
	}

	auto skinInst = hdr.GetBlock<NiSkinInstance>(shape->SkinInstanceRef());
	if (!skinInst)
		return;

	auto skinPart = hdr.GetBlock(skinInst->skinPartitionRef);
	if (skinPart) {
		NiSkinPartition::PartitionBlock part;
		part.hasFaces = true;
		if (numVertices > 0) {
			part.hasVertexMap = true;
			part.numVertices = numVertices;

			std::vector<uint16_t> vertIndices(part.numVertices);
			for (uint16_t i = 0; i < static_cast<uint16_t>(vertIndices.size()); i++)
				vertIndices[i] = i;

			part.vertexMap = vertIndices;
		}

		if (!tris.empty()) {
			part.numTriangles = static_cast<uint16_t>(tris.size());
			part.trueTriangles = tris;
			if (!bMappedIndices)
				part.triangles = part.trueTriangles;
		}

		skinPart->bMappedIndices = bMappedIndices;
		skinPart->partitions.clear();
		skinPart->partitions.push_back(part);
		skinPart->numPartitions = 1;
		skinPart->triParts.clear();
	}
}

void NifFile::DeletePartitions(NiShape* shape, std::vector<uint32_t>& partInds) {
	if (!shape)
		return;

	auto skinInst = hdr.GetBlock<NiSkinInstance>(shape->SkinInstanceRef());
	if (!skinInst)
		return;

	auto skinPart = hdr.GetBlock(skinInst->skinPartitionRef);
	if (!skinPart)
		return;

	skinPart->DeletePartitions(partInds);

	auto bsdSkinInst = dynamic_cast<BSDismemberSkinInstance*>(skinInst);
	if (bsdSkinInst) {
		bsdSkinInst->DeletePartitions(partInds);
		UpdatePartitionFlags(shape);
	}
}

bool NifFile::ReorderTriangles(NiShape* shape, const std::vector<uint32_t>& triangleIndices) {
	if (!shape)
		return false;

	if (shape->HasType<NiTriStrips>())
		return false;

	return shape->ReorderTriangles(triangleIndices);
}

const std::vector<Vector3>* NifFile::GetVertsForShape(NiShape* shape) {
	if (!shape)
		return nullptr;

	if (auto geomData = GetGeometryData(shape)) {
		if (geomData)
			return &geomData->vertices;
	}
	else if (shape->HasType<BSTriShape>()) {
		auto bsTriShape = dynamic_cast<BSTriShape*>(shape);
		if (bsTriShape)
			return &bsTriShape->UpdateRawVertices();
	}
	return nullptr;
}

const std::vector<Vector3>* NifFile::GetNormalsForShape(NiShape* shape) {
	if (!shape || !shape->HasNormals())
		return nullptr;

	if (auto geomData = GetGeometryData(shape)) {
		if (geomData)
			return &geomData->normals;
	}
	else if (shape->HasType<BSTriShape>()) {
		auto bsTriShape = dynamic_cast<BSTriShape*>(shape);
		if (bsTriShape)
			return &bsTriShape->UpdateRawNormals();
	}

	return nullptr;
}

const std::vector<Vector2>* NifFile::GetUvsForShape(NiShape* shape) {
	if (!shape)
		return nullptr;

	if (auto geomData = GetGeometryData(shape)) {
		if (geomData && !geomData->uvSets.empty())
			return &geomData->uvSets[0];
	}
	else if (shape->HasType<BSTriShape>()) {
		auto bsTriShape = dynamic_cast<BSTriShape*>(shape);
		if (bsTriShape)
			return &bsTriShape->UpdateRawUvs();
	}

	return nullptr;
}

const std::vector<Color4>* NifFile::GetColorsForShape(const std::string& shapeName) {
	auto shape = FindBlockByName<NiShape>(shapeName);
	return GetColorsForShape(shape);
}

const std::vector<Color4>* NifFile::GetColorsForShape(NiShape* shape) {
	if (!shape)
		return nullptr;

	if (auto geomData = GetGeometryData(shape)) {
		if (geomData)
			return &geomData->vertexColors;
	}
	else if (shape->HasType<BSTriShape>()) {
		auto bsTriShape = dynamic_cast<BSTriShape*>(shape);
		if (bsTriShape)
			return &bsTriShape->UpdateRawColors();
	}

	return nullptr;
}

const std::vector<Vector3>* NifFile::GetTangentsForShape(NiShape* shape) {
	if (!shape || !shape->HasTangents())
		return nullptr;

	if (auto geomData = GetGeometryData(shape)) {
		if (geomData)
			return &geomData->tangents;
	}
	else if (shape->HasType<BSTriShape>()) {
		auto bsTriShape = dynamic_cast<BSTriShape*>(shape);
		if (bsTriShape)
			return &bsTriShape->UpdateRawTangents();
	}

	return nullptr;
}

const std::vector<Vector3>* NifFile::GetBitangentsForShape(NiShape* shape) {
	if (!shape || !shape->HasTangents())
		return nullptr;

	if (auto geomData = GetGeometryData(shape)) {
		if (geomData)
			return &geomData->bitangents;
	}
	else if (shape->HasType<BSTriShape>()) {
		auto bsTriShape = dynamic_cast<BSTriShape*>(shape);
		if (bsTriShape)
			return &bsTriShape->UpdateRawBitangents();
	}

	return nullptr;
}

const std::vector<float>* NifFile::GetEyeDataForShape(NiShape* shape) {
	if (!shape)
		return nullptr;

	auto bsTriShape = dynamic_cast<BSTriShape*>(shape);
	if (bsTriShape)
		return &bsTriShape->UpdateRawEyeData();

	return nullptr;
}

bool NifFile::GetVertsForShape(NiShape* shape, std::vector<Vector3>& outVerts) const {
	if (!shape) {
		outVerts.clear();
		return false;
	}

	if (auto geomData = GetGeometryData(shape)) {
		if (geomData && geomData->HasVertices()) {
			outVerts = geomData->vertices;
			return true;
		}
	}
	else if (shape->HasType<BSTriShape>()) {
		auto bsTriShape = dynamic_cast<BSTriShape*>(shape);
		if (bsTriShape) {
			outVerts.resize(bsTriShape->GetNumVertices());

			for (uint16_t i = 0; i < bsTriShape->GetNumVertices(); i++)
				outVerts[i] = bsTriShape->vertData[i].vert;

			return true;
		}
	}

	outVerts.clear();
	return false;
}

bool NifFile::GetUvsForShape(NiShape* shape, std::vector<Vector2>& outUvs) const {
	if (auto geomData = GetGeometryData(shape)) {
		if (geomData && geomData->HasUVs() && !geomData->uvSets.empty()) {
			outUvs = geomData->uvSets[0];
			return true;
		}
	}
	else if (shape->HasType<BSTriShape>()) {
		auto bsTriShape = dynamic_cast<BSTriShape*>(shape);
		if (bsTriShape && bsTriShape->HasUVs()) {
			outUvs.resize(bsTriShape->GetNumVertices());

			for (uint16_t i = 0; i < bsTriShape->GetNumVertices(); i++)
				outUvs[i] = bsTriShape->vertData[i].uv;

			return true;
		}
	}

	return false;
}

bool NifFile::GetColorsForShape(NiShape* shape, std::vector<Color4>& outColors) const {
	if (auto geomData = GetGeometryData(shape)) {
		if (geomData && geomData->HasVertexColors()) {
			outColors = geomData->vertexColors;
			return true;
		}
	}
	else if (shape->HasType<BSTriShape>()) {
		auto bsTriShape = dynamic_cast<BSTriShape*>(shape);
		if (bsTriShape && bsTriShape->HasVertexColors()) {
			outColors.resize(bsTriShape->GetNumVertices());

			for (uint16_t i = 0; i < bsTriShape->GetNumVertices(); i++) {
				outColors[i].r = bsTriShape->vertData[i].colorData[0] / 255.0f;
				outColors[i].g = bsTriShape->vertData[i].colorData[1] / 255.0f;
				outColors[i].b = bsTriShape->vertData[i].colorData[2] / 255.0f;
				outColors[i].a = bsTriShape->vertData[i].colorData[3] / 255.0f;
			}

			return true;
		}
	}

	return false;
}

bool NifFile::GetTangentsForShape(NiShape* shape, std::vector<Vector3>& outTang) const {
	if (auto geomData = GetGeometryData(shape)) {
		if (geomData && geomData->HasTangents()) {
			outTang = geomData->tangents;
			return true;
		}
	}
	else if (shape->HasType<BSTriShape>()) {
		auto bsTriShape = dynamic_cast<BSTriShape*>(shape);
		if (bsTriShape && bsTriShape->HasTangents()) {
			outTang.resize(bsTriShape->GetNumVertices());

			for (uint16_t i = 0; i < bsTriShape->GetNumVertices(); i++) {
				outTang[i].x = ((static_cast<float>(bsTriShape->vertData[i].tangent[0])) / 255.0f) * 2.0f
							   - 1.0f;
				outTang[i].y = ((static_cast<float>(bsTriShape->vertData[i].tangent[1])) / 255.0f) * 2.0f
							   - 1.0f;
				outTang[i].z = ((static_cast<float>(bsTriShape->vertData[i].tangent[2])) / 255.0f) * 2.0f
							   - 1.0f;
			}

			return true;
		}
	}

	return false;
}

bool NifFile::GetBitangentsForShape(NiShape* shape, std::vector<Vector3>& outBitang) const {
	if (auto geomData = GetGeometryData(shape)) {
		if (geomData && geomData->HasTangents()) {
			outBitang = geomData->bitangents;
			return true;
		}
	}
	else if (shape->HasType<BSTriShape>()) {
		auto bsTriShape = dynamic_cast<BSTriShape*>(shape);
		if (bsTriShape && bsTriShape->HasTangents()) {
			outBitang.resize(bsTriShape->GetNumVertices());

			for (uint16_t i = 0; i < bsTriShape->GetNumVertices(); i++) {
				outBitang[i].x = bsTriShape->vertData[i].bitangentX;
				outBitang[i].y = ((static_cast<float>(bsTriShape->vertData[i].bitangentY)) / 255.0f) * 2.0f
								 - 1.0f;
				outBitang[i].z = ((static_cast<float>(bsTriShape->vertData[i].bitangentZ)) / 255.0f) * 2.0f
								 - 1.0f;
			}

			return true;
		}
	}

	return false;
}

bool NifFile::GetEyeDataForShape(NiShape* shape, std::vector<float>& outEyeData) {
	auto bsTriShape = dynamic_cast<BSTriShape*>(shape);
	if (bsTriShape && bsTriShape->HasEyeData()) {
		outEyeData.resize(bsTriShape->GetNumVertices());

		for (uint16_t i = 0; i < bsTriShape->GetNumVertices(); i++)
			outEyeData[i] = bsTriShape->vertData[i].eyeData;

		return true;
	}

	return false;
}

void NifFile::SetVertsForShape(NiShape* shape, const std::vector<Vector3>& verts) {
	if (!shape)
		return;

	if (auto geomData = GetGeometryData(shape)) {
		if (geomData) {
			if (verts.size() != geomData->GetNumVertices())
				geomData->Create(hdr.GetVersion(), &verts, nullptr, nullptr, nullptr);
			else
				geomData->vertices = verts;
		}
	}
	else if (shape->HasType<BSTriShape>()) {
		auto bsTriShape = dynamic_cast<BSTriShape*>(shape);
		if (bsTriShape) {
			if (verts.size() != bsTriShape->GetNumVertices()) {
				bsTriShape->Create(hdr.GetVersion(), &verts, nullptr, nullptr, nullptr);
			}
			else {
				for (uint16_t i = 0; i < bsTriShape->GetNumVertices(); i++)
					bsTriShape->vertData[i].vert = verts[i];
			}
		}
	}
}

void NifFile::SetUvsForShape(NiShape* shape, const std::vector<Vector2>& uvs) {
	if (!shape)
		return;

	if (auto geomData = GetGeometryData(shape)) {
		if (geomData && uvs.size() == geomData->GetNumVertices()) {
			geomData->SetUVs(true);
			geomData->uvSets[0] = uvs;
		}
	}
	else if (shape->HasType<BSTriShape>()) {
		auto bsTriShape = dynamic_cast<BSTriShape*>(shape);
		if (bsTriShape && uvs.size() == bsTriShape->GetNumVertices()) {
			bsTriShape->SetUVs(true);

			for (uint16_t i = 0; i < bsTriShape->GetNumVertices(); i++)
				bsTriShape->vertData[i].uv = uvs[i];
		}
	}
}

void NifFile::SetColorsForShape(NiShape* shape, const std::vector<Color4>& colors) {
	if (!shape)
		return;

	if (auto geomData = GetGeometryData(shape)) {
		if (geomData && colors.size() == geomData->GetNumVertices()) {
			geomData->SetVertexColors(true);
			geomData->vertexColors = colors;
		}
	}
	else if (shape->HasType<BSTriShape>()) {
		auto bsTriShape = dynamic_cast<BSTriShape*>(shape);
		if (bsTriShape && colors.size() == bsTriShape->GetNumVertices()) {
			bsTriShape->SetVertexColors(true);

			for (uint16_t i = 0; i < bsTriShape->GetNumVertices(); i++) {
				auto& vertex = bsTriShape->vertData[i];

				float f = std::max(0.0f, std::min(1.0f, colors[i].r));
				vertex.colorData[0] = static_cast<uint8_t>(std::floor(f == 1.0f ? 255 : f * 256.0));

				f = std::max(0.0f, std::min(1.0f, colors[i].g));
				vertex.colorData[1] = static_cast<uint8_t>(std::floor(f == 1.0f ? 255 : f * 256.0));

				f = std::max(0.0f, std::min(1.0f, colors[i].b));
				vertex.colorData[2] = static_cast<uint8_t>(std::floor(f == 1.0f ? 255 : f * 256.0));

				f = std::max(0.0f, std::min(1.0f, colors[i].a));
				vertex.colorData[3] = static_cast<uint8_t>(std::floor(f == 1.0f ? 255 : f * 256.0));
			}
		}
	}
}

void NifFile::SetColorsForShape(const std::string& shapeName, const std::vector<Color4>& colors) {
	auto shape = FindBlockByName<NiShape>(shapeName);
	if (!shape)
		return;

	SetColorsForShape(shape, colors);
}

void NifFile::SetTangentsForShape(NiShape* shape, const std::vector<Vector3>& tangents) {
	if (!shape)
		return;

	if (auto geomData = GetGeometryData(shape)) {
		if (geomData) {
			geomData->SetTangents(true);
			geomData->tangents = tangents;
		}
	}
	else if (shape->HasType<BSTriShape>()) {
		auto bsTriShape = dynamic_cast<BSTriShape*>(shape);
		if (bsTriShape && tangents.size() == bsTriShape->GetNumVertices())
			bsTriShape->SetTangentData(tangents);
	}
}

void NifFile::SetBitangentsForShape(NiShape* shape, const std::vector<Vector3>& bitangents) {
	if (!shape)
		return;

	if (auto geomData = GetGeometryData(shape)) {
		if (geomData) {
			geomData->SetTangents(true);
			geomData->bitangents = bitangents;
		}
	}
	else if (shape->HasType<BSTriShape>()) {
		auto bsTriShape = dynamic_cast<BSTriShape*>(shape);
		if (bsTriShape && bitangents.size() == bsTriShape->GetNumVertices())
			bsTriShape->SetBitangentData(bitangents);
	}
}

void NifFile::SetEyeDataForShape(NiShape* shape, const std::vector<float>& eyeData) {
	if (!shape)
		return;

	auto bsTriShape = dynamic_cast<BSTriShape*>(shape);
	if (bsTriShape && eyeData.size() == bsTriShape->GetNumVertices())
		bsTriShape->SetEyeData(eyeData);
}

NiBinaryExtraData* NifFile::GetBinaryTangentData(NiShape* shape,
												 std::vector<nifly::Vector3>* outTangents,
												 std::vector<nifly::Vector3>* outBitangents) const {
	if (!shape)
		return nullptr;

	uint16_t numVerts = shape->GetNumVertices();

	for (auto& extraData : shape->extraDataRefs) {
		auto binaryData = hdr.GetBlock<NiBinaryExtraData>(extraData);
		if (binaryData && binaryData->name.get() == "Tangent space (binormal & tangent vectors)") {
			uint32_t dataSize = numVerts * 4 * 3 * 2;
			if (binaryData->data.size() == dataSize) {
				auto vecPtr = reinterpret_cast<Vector3*>(binaryData->data.data());

				if (outTangents) {
					outTangents->resize(numVerts);

					for (uint16_t i = 0; i < numVerts; i++) {
						outTangents->at(i) = (*vecPtr);
						++vecPtr;
					}
				}
				else
					vecPtr += numVerts;

				if (outBitangents) {
					outBitangents->resize(numVerts);

					for (uint16_t i = 0; i < numVerts; i++) {
						outBitangents->at(i) = (*vecPtr);
						++vecPtr;
					}
				}
				else
					vecPtr += numVerts;
			}

			return binaryData;
		}
	}

	return nullptr;
}

void NifFile::SetBinaryTangentData(NiShape* shape,
								   const std::vector<nifly::Vector3>* tangents,
								   const std::vector<nifly::Vector3>* bitangents) {
	if (!shape || !tangents || !bitangents)
		return;

	uint16_t numVerts = shape->GetNumVertices();
	if (tangents->size() != numVerts || bitangents->size() != numVerts)
		return;

	NiBinaryExtraData* binaryData = nullptr;

	for (auto& extraData : shape->extraDataRefs) {
		auto binaryExtraData = hdr.GetBlock<NiBinaryExtraData>(extraData);
		if (binaryExtraData && binaryExtraData->name.get() == "Tangent space (binormal & tangent vectors)") {
			binaryData = binaryExtraData;
			break;
		}
	}

	if (!binaryData) {
		// Add new NiBinaryExtraData block
		NiBinaryExtraData binaryExtraData;
		binaryExtraData.name.get() = "Tangent space (binormal & tangent vectors)";

		uint32_t extraDataId = AssignExtraData(shape, binaryExtraData.Clone());
		binaryData = hdr.GetBlock<NiBinaryExtraData>(extraDataId);
	}

	if (!binaryData)
		return;

	uint32_t dataSize = numVerts * 4 * 3 * 2;
	binaryData->data.resize(dataSize);

	auto vecPtr = reinterpret_cast<Vector3*>(binaryData->data.data());

	for (uint16_t i = 0; i < numVerts; i++) {
		(*vecPtr) = tangents->at(i);
		++vecPtr;
	}

	for (uint16_t i = 0; i < numVerts; i++) {
		(*vecPtr) = bitangents->at(i);
		++vecPtr;
	}
}

void NifFile::DeleteBinaryTangentData(NiShape* shape) {
	if (!shape)
		return;

	for (auto& extraData : shape->extraDataRefs) {
		auto binaryExtraData = hdr.GetBlock<NiBinaryExtraData>(extraData);
		if (binaryExtraData && binaryExtraData->name.get() == "Tangent space (binormal & tangent vectors)")
			hdr.DeleteBlock(extraData);
	}
}

void NifFile::InvertUVsForShape(NiShape* shape, bool invertX, bool invertY) {
	if (!shape)
		return;

	if (auto geomData = GetGeometryData(shape)) {
		if (geomData && !geomData->uvSets.empty()) {
			if (invertX)
				for (auto& i : geomData->uvSets[0])
					i.u = 1.0f - i.u;

			if (invertY)
				for (auto& i : geomData->uvSets[0])
					i.v = 1.0f - i.v;
		}
	}
	else if (shape->HasType<BSTriShape>()) {
		auto bsTriShape = dynamic_cast<BSTriShape*>(shape);
		if (bsTriShape) {
			if (invertX)
				for (auto& i : bsTriShape->vertData)
					i.uv.u = 1.0f - i.uv.u;

			if (invertY)
				for (auto& i : bsTriShape->vertData)
					i.uv.v = 1.0f - i.uv.v;
		}
	}
}

void NifFile::MirrorShape(NiShape* shape, bool mirrorX, bool mirrorY, bool mirrorZ) {
	if (!shape)
		return;

	bool flipTris = false;
	Matrix4 mirrorMat;

	if (mirrorX) {
		mirrorMat.Scale(-1.0f, 1.0f, 1.0f);
		flipTris = !flipTris;
	}

	if (mirrorY) {
		mirrorMat.Scale(1.0f, -1.0f, 1.0f);
		flipTris = !flipTris;
	}

	if (mirrorZ) {
		mirrorMat.Scale(1.0f, 1.0f, -1.0f);
		flipTris = !flipTris;
	}

	if (auto geomData = GetGeometryData(shape)) {
		if (geomData && !geomData->vertices.empty()) {
			for (auto& vertice : geomData->vertices)
				vertice = mirrorMat * vertice;

			for (auto& normal : geomData->normals)
				normal = mirrorMat * normal;

			for (auto& tangent : geomData->tangents)
				tangent = mirrorMat * tangent;

			for (auto& bitangent : geomData->bitangents)
				bitangent = mirrorMat * bitangent;
		}
	}
	else if (shape->HasType<BSTriShape>()) {
		auto bsTriShape = dynamic_cast<BSTriShape*>(shape);
		if (bsTriShape) {
			for (auto& i : bsTriShape->vertData)
				i.vert = mirrorMat * i.vert;

			if (bsTriShape->HasNormals()) {
				bsTriShape->UpdateRawNormals();

				for (auto& normal : bsTriShape->rawNormals)
					normal = mirrorMat * normal;

				bsTriShape->SetNormals(bsTriShape->rawNormals);

				if (bsTriShape->HasTangents())
					bsTriShape->CalcTangentSpace();
			}
		}
	}

	if (flipTris) {
		std::vector<Triangle> tris;
		shape->GetTriangles(tris);

		for (auto& tri : tris)
			std::swap(tri.p1, tri.p3);

		shape->SetTriangles(tris);
	}
}

void NifFile::SetNormalsForShape(NiShape* shape, const std::vector<Vector3>& norms) {
	if (!shape)
		return;

	if (auto geomData = GetGeometryData(shape)) {
		if (geomData) {
			geomData->SetNormals(true);
			geomData->normals = norms;
		}
	}
	else if (shape->HasType<BSTriShape>()) {
		auto bsTriShape = dynamic_cast<BSTriShape*>(shape);
		if (bsTriShape)
			bsTriShape->SetNormals(norms);
	}
}

void NifFile::CalcNormalsForShape(NiShape* shape,
								  const bool force,
								  const bool smooth,
								  const float smoothThresh) {
	if (!shape)
		return;

	if (hdr.GetVersion().IsSK() || hdr.GetVersion().IsSSE()) {
		NiShader* shader = GetShader(shape);
		if (shader && shader->IsModelSpace() && !force)
			return;
	}

	std::unordered_set<uint32_t> lockedIndices;

	for (auto& extraDataRef : shape->extraDataRefs) {
		auto integersExtraData = hdr.GetBlock<NiIntegersExtraData>(extraDataRef);
		if (integersExtraData && integersExtraData->name == "LOCKEDNORM")
			for (auto& i : integersExtraData->integersData)
				lockedIndices.insert(i);
	}

	if (auto geomData = GetGeometryData(shape)) {
		if (geomData)
			geomData->RecalcNormals(smooth, smoothThresh, lockedIndices.empty() ? nullptr : &lockedIndices);
	}
	else if (shape->HasType<BSTriShape>()) {
		auto bsTriShape = dynamic_cast<BSTriShape*>(shape);
		if (bsTriShape)
			bsTriShape->RecalcNormals(smooth, smoothThresh, lockedIndices.empty() ? nullptr : &lockedIndices);
	}
}

void NifFile::CalcTangentsForShape(NiShape* shape) {
	if (!shape)
		return;

	if (auto geomData = GetGeometryData(shape)) {
		if (geomData)
			geomData->CalcTangentSpace();
	}
	else if (shape->HasType<BSTriShape>()) {
		auto bsTriShape = dynamic_cast<BSTriShape*>(shape);
		if (bsTriShape)
			bsTriShape->CalcTangentSpace();
	}
}

int NifFile::ApplyNormalsFromFile(NifFile& srcNif, const std::string& shapeName) {
	auto shape = FindBlockByName<NiShape>(shapeName);
	if (!shape)
		return -1;

	auto srcShape = srcNif.FindBlockByName<NiShape>(shapeName);
	if (!srcShape)
		return -2;

	std::unordered_set<uint32_t> lockedNormalIndices;

	// Get LOCKEDNORM from source
	NiIntegersExtraData* integersExtraData = nullptr;

	for (auto& extraDataRef : srcShape->extraDataRefs) {
		integersExtraData = srcNif.GetHeader().GetBlock<NiIntegersExtraData>(extraDataRef);
		if (integersExtraData && integersExtraData->name == "LOCKEDNORM")
			for (auto& i : integersExtraData->integersData)
				lockedNormalIndices.insert(i);
	}

	if (lockedNormalIndices.empty())
		return -3;

	// Get normals of target
	auto norms = GetNormalsForShape(shape);
	if (!norms)
		return -4;

	// Get normals of source
	auto srcNorms = srcNif.GetNormalsForShape(srcShape);
	if (!srcNorms)
		return -5;

	// Vertex count needs to match up
	if (norms->size() != srcNorms->size())
		return -6;

	auto workNorms = (*norms);

	// Copy locked normals of the source into the target
	for (auto& i : lockedNormalIndices) {
		auto& sn = srcNorms->at(i);
		workNorms[i] = sn;
	}

	SetNormalsForShape(shape, workNorms);

	for (auto& extraDataRef : shape->extraDataRefs) {
		auto oldIntegersExtraData = hdr.GetBlock<NiIntegersExtraData>(extraDataRef);
		if (oldIntegersExtraData && oldIntegersExtraData->name == "LOCKEDNORM")
			hdr.DeleteBlock(extraDataRef);
	}

	AssignExtraData(shape, integersExtraData->Clone());
	return 0;
}

void NifFile::GetRootTranslation(Vector3& outVec) const {
	auto root = GetRootNode();
	if (root)
		outVec = root->GetTransformToParent().translation;
	else
		outVec.Zero();
}

void NifFile::MoveVertex(NiShape* shape, const Vector3& pos, const int id) {
	if (!shape)
		return;

	if (auto geomData = GetGeometryData(shape)) {
		if (geomData && geomData->GetNumVertices() > id)
			geomData->vertices[id] = pos;
	}
	else if (shape->HasType<BSTriShape>()) {
		auto bsTriShape = dynamic_cast<BSTriShape*>(shape);
		if (bsTriShape && bsTriShape->GetNumVertices() > id)
			bsTriShape->vertData[id].vert = pos;
	}
}

void NifFile::OffsetShape(NiShape* shape, const Vector3& offset, std::unordered_map<uint16_t, float>* mask) {
	if (!shape)
		return;

	if (auto geomData = GetGeometryData(shape)) {
		if (geomData) {
			for (uint16_t i = 0; i < geomData->GetNumVertices(); i++) {
				if (mask) {
					float maskFactor = 1.0f;
					Vector3 diff = offset;
					if (mask->find(i) != mask->end()) {
						maskFactor = 1.0f - (*mask)[i];
						diff *= maskFactor;
					}
					geomData->vertices[i] += diff;
				}
				else
					geomData->vertices[i] += offset;
			}
		}
	}
	else if (shape->HasType<BSTriShape>()) {
		auto bsTriShape = dynamic_cast<BSTriShape*>(shape);
		if (bsTriShape) {
			for (uint16_t i = 0; i < bsTriShape->GetNumVertices(); i++) {
				if (mask) {
					float maskFactor = 1.0f;
					Vector3 diff = offset;
					if (mask->find(i) != mask->end()) {
						maskFactor = 1.0f - (*mask)[i];
						diff *= maskFactor;
					}
					bsTriShape->vertData[i].vert += diff;
				}
				else
					bsTriShape->vertData[i].vert += offset;
			}
		}
	}
}

void NifFile::ScaleShape(NiShape* shape, const Vector3& scale, std::unordered_map<uint16_t, float>* mask) {
	if (!shape)
		return;

	Vector3 root;
	GetRootTranslation(root);

	if (auto geomData = GetGeometryData(shape)) {
		if (!geomData)
			return;

		std::unordered_map<uint16_t, Vector3> diff;
		for (uint16_t i = 0; i < geomData->GetNumVertices(); i++) {
			Vector3 target = geomData->vertices[i] - root;
			target.x *= scale.x;
			target.y *= scale.y;
			target.z *= scale.z;
			diff[i] = geomData->vertices[i] - target;

			if (mask) {
				float maskFactor = 1.0f;
				if (mask->find(i) != mask->end()) {
					maskFactor = 1.0f - (*mask)[i];
					diff[i] *= maskFactor;
					target = geomData->vertices[i] - root + diff[i];
				}
			}
			geomData->vertices[i] = target;
		}
	}
	else if (shape->HasType<BSTriShape>()) {
		auto bsTriShape = dynamic_cast<BSTriShape*>(shape);
		if (!bsTriShape)
			return;

		std::unordered_map<uint16_t, Vector3> diff;
		for (uint16_t i = 0; i < bsTriShape->GetNumVertices(); i++) {
			Vector3 target = bsTriShape->vertData[i].vert - root;
			target.x *= scale.x;
			target.y *= scale.y;
			target.z *= scale.z;
			diff[i] = bsTriShape->vertData[i].vert - target;

			if (mask) {
				float maskFactor = 1.0f;
				if (mask->find(i) != mask->end()) {
					maskFactor = 1.0f - (*mask)[i];
					diff[i] *= maskFactor;
					target = bsTriShape->vertData[i].vert - root + diff[i];
				}
			}
			bsTriShape->vertData[i].vert = target;
		}
	}
}

void NifFile::RotateShape(NiShape* shape, const Vector3& angle, std::unordered_map<uint16_t, float>* mask) {
	if (!shape)
		return;

	Vector3 root;
	GetRootTranslation(root);

	if (auto geomData = GetGeometryData(shape)) {
		if (!geomData)
			return;

		std::unordered_map<uint16_t, Vector3> diff;
		for (uint16_t i = 0; i < geomData->GetNumVertices(); i++) {
			Vector3 target = geomData->vertices[i] - root;
			Matrix4 mat;
			mat.Rotate(angle.x * DEG2RAD, Vector3(1.0f, 0.0f, 0.0f));
			mat.Rotate(angle.y * DEG2RAD, Vector3(0.0f, 1.0f, 0.0f));
			mat.Rotate(angle.z * DEG2RAD, Vector3(0.0f, 0.0f, 1.0f));
			target = mat * target;
			diff[i] = geomData->vertices[i] - target;

			if (mask) {
				float maskFactor = 1.0f;
				if (mask->find(i) != mask->end()) {
					maskFactor = 1.0f - (*mask)[i];
					diff[i] *= maskFactor;
					target = geomData->vertices[i] - root + diff[i];
				}
			}
			geomData->vertices[i] = target;
		}
	}
	else if (shape->HasType<BSTriShape>()) {
		auto bsTriShape = dynamic_cast<BSTriShape*>(shape);
		if (!bsTriShape)
			return;

		std::unordered_map<uint16_t, Vector3> diff;
		for (uint16_t i = 0; i < bsTriShape->GetNumVertices(); i++) {
			Vector3 target = bsTriShape->vertData[i].vert - root;
			Matrix4 mat;
			mat.Rotate(angle.x * DEG2RAD, Vector3(1.0f, 0.0f, 0.0f));
			mat.Rotate(angle.y * DEG2RAD, Vector3(0.0f, 1.0f, 0.0f));
			mat.Rotate(angle.z * DEG2RAD, Vector3(0.0f, 0.0f, 1.0f));
			target = mat * target;
			diff[i] = bsTriShape->vertData[i].vert - target;

			if (mask) {
				float maskFactor = 1.0f;
				if (mask->find(i) != mask->end()) {
					maskFactor = 1.0f - (*mask)[i];
					diff[i] *= maskFactor;
					target = bsTriShape->vertData[i].vert - root + diff[i];
				}
			}
			bsTriShape->vertData[i].vert = target;
		}
	}
}

NiAlphaProperty* NifFile::GetAlphaProperty(NiShape* shape) const {
	if (shape->HasAlphaProperty())
		return hdr.GetBlock(shape->AlphaPropertyRef());

	for (auto& prop : shape->propertyRefs) {
		auto alphaProp = hdr.GetBlock<NiAlphaProperty>(prop);
		if (alphaProp)
			return alphaProp;
	}

	return nullptr;
}

uint32_t NifFile::AssignAlphaProperty(NiShape* shape, std::unique_ptr<NiAlphaProperty> alphaProp) {
	RemoveAlphaProperty(shape);

	NiShader* shader = GetShader(shape);
	if (shader) {
		int alphaRef = hdr.AddBlock(std::move(alphaProp));
		if (shader->HasType<BSShaderPPLightingProperty>() || shader->HasType<NiMaterialProperty>())
			shape->propertyRefs.AddBlockRef(alphaRef);
		else if (shape->AlphaPropertyRef())
			shape->AlphaPropertyRef()->index = alphaRef;

		return alphaRef;
	}

	return NIF_NPOS;
}

void NifFile::RemoveAlphaProperty(NiShape* shape) {
	auto alpha = hdr.GetBlock(shape->AlphaPropertyRef());
	if (alpha) {
		hdr.DeleteBlock(*shape->AlphaPropertyRef());
		shape->AlphaPropertyRef()->Clear();
	}

	for (uint32_t i = 0; i < shape->propertyRefs.GetSize(); i++) {
		alpha = hdr.GetBlock<NiAlphaProperty>(shape->propertyRefs.GetBlockRef(i));
		if (alpha) {
			hdr.DeleteBlock(shape->propertyRefs.GetBlockRef(i));
			i--;
			continue;
		}
	}
}

void NifFile::DeleteShape(NiShape* shape) {
	if (!shape)
		return;

	if (shape->HasData()) {
		// The data block can be shared: other shapes keep a cached pointer to it
		if (hdr.GetBlockRefCount(shape->DataRef()->index, false) == 1)
			hdr.DeleteBlock(*shape->DataRef());
	}

	if (shape->HasShaderProperty()) {
		if (hdr.GetBlockRefCount(shape->ShaderPropertyRef()->index, false) == 1)
			DeleteShader(shape);
	}

	DeleteSkinning(shape);

	for (int i = shape->propertyRefs.GetSize() - 1; i >= 0; --i)
		hdr.DeleteBlock(shape->propertyRefs.GetBlockRef(i));

	for (int i = shape->extraDataRefs.GetSize() - 1; i >= 0; --i)
		hdr.DeleteBlock(shape->extraDataRefs.GetBlockRef(i));

	int shapeID = GetBlockID(shape);
	hdr.DeleteBlock(shapeID);
}

void NifFile::DeleteShader(NiShape* shape) {
	auto shader = hdr.GetBlock(shape->ShaderPropertyRef());
	if (shader) {
		if (shader->HasTextureSet()) {
			if (hdr.GetBlockRefCount(shader->TextureSetRef()->index, false) == 1)
				hdr.DeleteBlock(*shader->TextureSetRef());
		}

		hdr.DeleteBlock(shader->controllerRef);
		hdr.DeleteBlock(*shape->ShaderPropertyRef());
		shape->ShaderPropertyRef()->Clear();
	}

	RemoveAlphaProperty(shape);

	for (uint32_t i = 0; i < shape->propertyRefs.GetSize(); i++) {
		shader = hdr.GetBlock<NiShader>(shape->propertyRefs.GetBlockRef(i));
		if (shader) {
			if (shader->HasType<BSShaderPPLightingProperty>() || shader->HasType<NiMaterialProperty>()) {
				if (shader->HasTextureSet()) {
					if (hdr.GetBlockRefCount(shader->TextureSetRef()->index, false) == 1)
						hdr.DeleteBlock(*shader->TextureSetRef());
				}

				hdr.DeleteBlock(shader->controllerRef);
				hdr.DeleteBlock(shape->propertyRefs.GetBlockRef(i));
				i--;
				continue;
			}
		}
	}
}

void NifFile::DeleteSkinning(NiShape* shape) {
	auto skinInst = hdr.GetBlock<NiSkinInstance>(shape->SkinInstanceRef());
	if (skinInst) {
		hdr.DeleteBlock(skinInst->dataRef);
		hdr.DeleteBlock(skinInst->skinPartitionRef);

		if (shape->HasSkinInstance()) {
			hdr.DeleteBlock(*shape->SkinInstanceRef());
			shape->SkinInstanceRef()->Clear();
		}
	}

	auto bsSkinInst = hdr.GetBlock<BSSkinInstance>(shape->SkinInstanceRef());
	if (bsSkinInst) {
		hdr.DeleteBlock(bsSkinInst->dataRef);

		if (shape->HasSkinInstance()) {
			hdr.DeleteBlock(*shape->SkinInstanceRef());
			shape->SkinInstanceRef()->Clear();
		}
	}

	shape->SetSkinned(false);

	NiShader* shader = GetShader(shape);
	if (shader)
		shader->SetSkinned(false);
}

void NifFile::RemoveEmptyPartitions(NiShape* shape) {
	if (!shape)
		return;

	auto skinInst = hdr.GetBlock<NiSkinInstance>(shape->SkinInstanceRef());
	if (skinInst) {
		auto skinPartition = hdr.GetBlock(skinInst->skinPartitionRef);
		if (skinPartition) {
			std::vector<uint32_t> emptyIndices;
			if (skinPartition->RemoveEmptyPartitions(emptyIndices)) {
				auto bsdSkinInst = dynamic_cast<BSDismemberSkinInstance*>(skinInst);
				if (bsdSkinInst) {
					bsdSkinInst->DeletePartitions(emptyIndices);
					UpdatePartitionFlags(shape);
				}
			}
		}
	}
}

bool NifFile::DeleteVertsForShape(NiShape* shape, const std::vector<uint16_t>& indices) {
	if (indices.empty())
		return false;

	if (!shape)
		return false;

	bool allVertsDeleted = false;

	auto geomData = hdr.GetBlock<NiTriBasedGeomData>(shape->DataRef());
	if (geomData) {
		geomData->notifyVerticesDelete(indices);
		if (geomData->GetNumVertices() == 0 || geomData->GetNumTriangles() == 0) {
			// Deleted all verts or tris
			allVertsDeleted = true;
		}
	}

	auto bsTriShape = dynamic_cast<BSTriShape*>(shape);
	if (bsTriShape) {
		bsTriShape->notifyVerticesDelete(indices);
		if (bsTriShape->GetNumVertices() == 0 || bsTriShape->GetNumTriangles() == 0) {
			// Deleted all verts or tris
			allVertsDeleted = true;
		}
	}

	auto skinInst = hdr.GetBlock<NiSkinInstance>(shape->SkinInstanceRef());
	if (skinInst) {
		auto skinData = hdr.GetBlock(skinInst->dataRef);
		if (skinData)
			skinData->notifyVerticesDelete(indices);

		auto skinPartition = hdr.GetBlock(skinInst->skinPartitionRef);
		if (skinPartition) {
			skinPartition->notifyVerticesDelete(indices);

			std::vector<uint32_t> emptyIndices;
			if (skinPartition->RemoveEmptyPartitions(emptyIndices)) {
				auto bsdSkinInst = dynamic_cast<BSDismemberSkinInstance*>(skinInst);
				if (bsdSkinInst) {
					bsdSkinInst->DeletePartitions(emptyIndices);
					UpdatePartitionFlags(shape);
				}
			}
		}
	}

	for (auto& extraDataRef : shape->extraDataRefs) {
		auto integersExtraData = hdr.GetBlock<NiIntegersExtraData>(extraDataRef);
		if (integersExtraData && integersExtraData->name == "LOCKEDNORM") {
			auto integersData = integersExtraData->integersData;
			std::sort(integersData.begin(), integersData.end());

			uint16_t highestRemoved = indices.back();
			uint16_t mapSize = highestRemoved + 1;
			std::vector<int> indexCollapse = GenerateIndexCollapseMap(indices, mapSize);

			for (uint32_t i = integersData.size() - 1; i != NIF_NPOS; i--) {
				auto& val = integersData[i];
				if (val > highestRemoved) {
					val -= static_cast<uint32_t>(indices.size());
				}
				else if (indexCollapse[val] == -1) {
					integersData.erase(i);
				}
				else
					val = indexCollapse[val];
			}

			integersExtraData->integersData = std::move(integersData);
		}
	}

	return allVertsDeleted;
}

int NifFile::CalcShapeDiff(NiShape* shape,
						   const std::vector<Vector3>* targetData,
						   std::unordered_map<uint16_t, Vector3>& outDiffData,
						   float scale) {
	outDiffData.clear();

	const std::vector<Vector3>* myData = GetVertsForShape(shape);
	if (!myData)
		return 1;

	if (!targetData)
		return 2;

	if (myData->size() != targetData->size())
		return 3;

	for (uint16_t i = 0; i < static_cast<uint16_t>(myData->size()); i++) {
		auto& target = targetData->at(i);
		auto& src = myData->at(i);

		Vector3 v;
		v.x = (target.x * scale) - src.x;
		v.y = (target.y * scale) - src.y;
		v.z = (target.z * scale) - src.z;

		if (v.IsZero(true))
			continue;

		outDiffData[i] = v;
	}

	return 0;
}

int NifFile::CalcUVDiff(NiShape* shape,
						const std::vector<Vector2>* targetData,
						std::unordered_map<uint16_t, Vector3>& outDiffData,
						float scale) {
	outDiffData.clear();

	const std::vector<Vector2>* myData = GetUvsForShape(shape);
	if (!myData)
		return 1;

	if (!targetData)
		return 2;

	if (myData->size() != targetData->size())
		return 3;

	for (uint16_t i = 0; i < static_cast<uint16_t>(myData->size()); i++) {
		Vector3 v;
		v.x = (targetData->at(i).u - myData->at(i).u) * scale;
		v.y = (targetData->at(i).v - myData->at(i).v) * scale;

		if (v.IsZero(true))
			continue;

		outDiffData[i] = v;
	}

	return 0;
}

void NifFile::UpdateSkinPartitions(NiShape* shape) {
	NiSkinData* skinData = nullptr;
	NiSkinPartition* skinPart = nullptr;
	auto skinInst = hdr.GetBlock<NiSkinInstance>(shape->SkinInstanceRef());
	if (skinInst) {
		skinData = hdr.GetBlock(skinInst->dataRef);
		skinPart = hdr.GetBlock(skinInst->skinPartitionRef);

		if (!skinData || !skinPart)
			return;
	}
	else
		return;

	std::vector<Triangle> tris;
	if (!shape->GetTriangles(tris))
		return;

	auto bsdSkinInst = dynamic_cast<BSDismemberSkinInstance*>(skinInst);
	auto bsTriShape = dynamic_cast<BSTriShape*>(shape);
	if (bsTriShape)
		bsTriShape->CalcDataSizes(hdr.GetVersion());

	// Align triangles for comparisons
	for (auto& t : tris)
		t.rot();

	// Make maps of vertices to bones and weights
	std::unordered_map<uint16_t, std::vector<SkinWeight>> vertBoneWeights;
	uint16_t boneIndex = 0;
	for (auto& bone : skinData->bones) {
		for (auto& bw : bone.vertexWeights)
			vertBoneWeights[bw.index].push_back(SkinWeight(boneIndex, bw.weight));

		boneIndex++;
	}

	// Sort weights and corresponding bones
	for (auto& bw : vertBoneWeights)
		sort(bw.second.begin(), bw.second.end(), BoneWeightsSort());

	// Enforce maximum vertex bone weight count
	const uint16_t maxBonesPerVertex = 4;

	for (auto& bw : vertBoneWeights)
		if (bw.second.size() > maxBonesPerVertex)
			bw.second.resize(maxBonesPerVertex);

	skinPart->PrepareTriParts(tris);
	std::vector<int>& triParts = skinPart->triParts;

	uint16_t maxBonesPerPartition = std::numeric_limits<uint16_t>::max();
	if (hdr.GetVersion().IsOB() || hdr.GetVersion().IsFO3())
		maxBonesPerPartition = 18;
	else if (hdr.GetVersion().IsSSE())
		maxBonesPerPartition = 80;

	// Make a list of the bones used by each partition.  If any partition
	// has too many bones, split it.
	std::vector<std::set<int>> partBones(skinPart->partitions.size());
	for (size_t triIndex = 0; triIndex < tris.size(); ++triIndex) {
		int partInd = triParts[triIndex];
		if (partInd < 0)
			continue;

		Triangle tri = tris[triIndex];

		// Get associated bones for the current tri
		std::set<int> triBones;
		for (uint32_t i = 0; i < 3; i++)
			for (auto& tb : vertBoneWeights[tri[i]])
				triBones.insert(tb.index);

		// How many new bones are in the tri's bone list?
		uint16_t newBoneCount = 0;
		for (auto& tb : triBones)
			if (partBones[partInd].find(tb) == partBones[partInd].end())
				newBoneCount++;

		const auto partBonesSize = static_cast<uint16_t>(partBones[partInd].size());
		if (partBonesSize + newBoneCount > maxBonesPerPartition) {
			// Too many bones for this partition, make a new partition starting with this triangle
			for (size_t j = 0; j < tris.size(); ++j)
				if (triParts[j] > partInd || (j >= triIndex && triParts[j] >= partInd))
					++triParts[j];

			partBones.insert(partBones.begin() + partInd + 1, std::set<int>());

			if (bsdSkinInst) {
				BSDismemberSkinInstance::PartitionInfo info;
				info.flags = PF_EDITOR_VISIBLE;
				info.partID = bsdSkinInst->partitions[partInd].partID;
				bsdSkinInst->partitions.insert(partInd + 1, info);
			}

			++partInd;
		}

		partBones[partInd].insert(triBones.begin(), triBones.end());
	}

	// Re-create partitions
	std::vector<NiSkinPartition::PartitionBlock> partitions(partBones.size());
	for (size_t partInd = 0; partInd < partBones.size(); partInd++) {
		NiSkinPartition::PartitionBlock& part = partitions[partInd];
		part.hasBoneIndices = true;
		part.hasFaces = true;
		part.hasVertexMap = true;
		part.hasVertexWeights = true;
		part.numWeightsPerVertex = maxBonesPerVertex;
	}
	skinPart->numPartitions = static_cast<uint32_t>(partitions.size());
	skinPart->partitions = std::move(partitions);

	// Re-create trueTriangles, vertexMap, and triangles for each partition
	skinPart->GenerateTrueTrianglesFromTriParts(tris);
	skinPart->PrepareVertexMapsAndTriangles();

	for (uint32_t partInd = 0; partInd < skinPart->numPartitions; ++partInd) {
		NiSkinPartition::PartitionBlock& part = skinPart->partitions[partInd];

		// Copy relevant data from shape to partition
		if (bsTriShape)
			part.vertexDesc = bsTriShape->vertexDesc;

		std::unordered_map<int, uint8_t> boneLookup;
		boneLookup.reserve(partBones[partInd].size());
		part.numBones = static_cast<uint16_t>(partBones[partInd].size());
		part.bones.reserve(part.numBones);

		for (auto& b : partBones[partInd]) {
			part.bones.push_back(static_cast<uint16_t>(b));
			boneLookup[b] = static_cast<uint8_t>(part.bones.size() - 1);
		}

		for (auto& v : part.vertexMap) {
			BoneIndices b;
			VertexWeight vw;

			uint8_t* pb = &b.i1;
			float* pw = &vw.w1;

			float tot = 0.0f;
			for (size_t bi = 0; bi < vertBoneWeights[v].size(); bi++) {
				if (bi == 4)
					break;

				pb[bi] = boneLookup[vertBoneWeights[v][bi].index];
				pw[bi] = vertBoneWeights[v][bi].weight;
				tot += pw[bi];
			}

			if (tot != 0.0f)
				for (int bi = 0; bi < 4; bi++)
					pw[bi] /= tot;

			part.boneIndices.push_back(b);
			part.vertexWeights.push_back(vw);
		}
	}

	if (bsTriShape) {
		skinPart->numVertices = bsTriShape->GetNumVertices();
		skinPart->dataSize = bsTriShape->dataSize;
		skinPart->vertexSize = bsTriShape->vertexSize;
		skinPart->vertData = bsTriShape->vertData;
		skinPart->vertexDesc = bsTriShape->vertexDesc;
	}

	UpdatePartitionFlags(shape);
}

void NifFile::UpdatePartitionFlags(NiShape* shape) {
	auto bsdSkinInst = hdr.GetBlock<BSDismemberSkinInstance>(shape->SkinInstanceRef());
	if (!bsdSkinInst)
		return;

	auto skinPart = hdr.GetBlock(bsdSkinInst->skinPartitionRef);
	if (!skinPart)
		return;

	for (uint32_t i = 0; i < bsdSkinInst->partitions.size(); i++) {
		PartitionFlags flags = PF_NONE;

		if (hdr.GetVersion().IsFO3()) {
			// Don't make FO3/NV meat caps visible
			if (bsdSkinInst->partitions[i].partID < 100 || bsdSkinInst->partitions[i].partID >= 1000)
				flags = PartitionFlags(flags | PF_EDITOR_VISIBLE);
		}
		else
			flags = PartitionFlags(flags | PF_EDITOR_VISIBLE);

		if (i != 0) {
			// Start a new set if the previous bones are different
			if (skinPart->partitions[i].bones != skinPart->partitions[i - 1].bones)
				flags = PartitionFlags(flags | PF_START_NET_BONESET);
		}
		else
			flags = PartitionFlags(flags | PF_START_NET_BONESET);

		bsdSkinInst->partitions[i].flags = flags;
	}
}

void NifFile::CreateSkinning(NiShape* shape) {
	if (shape->HasType<NiTriShape>() || shape->HasType<NiTriStrips>()) {
		if (shape->SkinInstanceRef()->IsEmpty()) {
			int skinDataID = hdr.AddBlock(std::make_unique<NiSkinData>());
			int partID = hdr.AddBlock(std::make_unique<NiSkinPartition>());

			NiSkinInstance* skinInst;
			int skinInstID;

			if (hdr.GetVersion().File() == NiFileVersion::V20_2_0_7) {
				auto [nifDismemberInstS, nifDismemberInst] = make_unique<BSDismemberSkinInstance>();
				skinInstID = hdr.AddBlock(std::move(nifDismemberInstS));
				skinInst = nifDismemberInst;
			}
			else {
				auto [nifSkinInstS, nifSkinInst] = make_unique<NiSkinInstance>();
				skinInstID = hdr.AddBlock(std::move(nifSkinInstS));
				skinInst = nifSkinInst;
			}

			skinInst->dataRef.index = skinDataID;
			skinInst->skinPartitionRef.index = partID;
			skinInst->targetRef.index = GetBlockID(GetRootNode());
			shape->SkinInstanceRef()->index = skinInstID;
			shape->SetSkinned(true);

			SetDefaultPartition(shape);
		}
	}
	else if (shape->HasType<BSTriShape>()) {
		if (shape->SkinInstanceRef()->IsEmpty()) {
			int skinInstID = 0;
			if (hdr.GetVersion().Stream() == 100) {
				int skinDataID = hdr.AddBlock(std::make_unique<NiSkinData>());

				auto nifSkinPartition = std::make_unique<NiSkinPartition>();
				nifSkinPartition->bMappedIndices = false;
				int partID = hdr.AddBlock(std::move(nifSkinPartition));

				auto nifDismemberInst = std::make_unique<BSDismemberSkinInstance>();

				nifDismemberInst->dataRef.index = skinDataID;
				nifDismemberInst->skinPartitionRef.index = partID;
				nifDismemberInst->targetRef.index = GetBlockID(GetRootNode());

				skinInstID = hdr.AddBlock(std::move(nifDismemberInst));

				shape->SkinInstanceRef()->index = skinInstID;
				shape->SetSkinned(true);

				SetDefaultPartition(shape);
				UpdateSkinPartitions(shape);
			}
			else {
				auto [newSkinInstS, newSkinInst] = make_unique<BSSkinInstance>();
				skinInstID = hdr.AddBlock(std::move(newSkinInstS));

				int boneDataRef = hdr.AddBlock(std::make_unique<BSSkinBoneData>());

				newSkinInst->targetRef.index = GetBlockID(GetRootNode());
				newSkinInst->dataRef.index = boneDataRef;

				shape->SkinInstanceRef()->index = skinInstID;
				shape->SetSkinned(true);
			}
		}
	}

	NiShader* shader = GetShader(shape);
	if (shader)
		shader->SetSkinned(true);
}

void NifFile::SetShapeDynamic(const std::string& shapeName) {
	auto shape = FindBlockByName<NiShape>(shapeName);
	if (!shape)
		return;

	// Set consistency flag to mutable
	auto geomData = hdr.GetBlock<NiGeometryData>(shape->DataRef());
	if (geomData)
		geomData->consistencyFlags = CT_MUTABLE;
}
