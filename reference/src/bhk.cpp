/*
nifly
C++ NIF library for the Gamebryo/NetImmerse File Format
See the included GPLv3 LICENSE file
*/

#include "bhk.hpp"

using namespace nifly;

void NiCollisionObject::Sync(NiStreamReversible& stream) {
	targetRef.Sync(stream);
}

void NiCollisionObject::GetPtrs(std::set<NiPtr*>& ptrs) {
	NiObject::GetPtrs(ptrs);

	ptrs.insert(&targetRef);
}


void BoundingVolume::Sync(NiStreamReversible& stream) {
	stream.Sync(collisionType);

	switch (collisionType) {
		case SPHERE_BV: stream.Sync(bvSphere); break;
		case BOX_BV: stream.Sync(bvBox); break;
		case CAPSULE_BV: stream.Sync(bvCapsule); break;
		case UNION_BV: bvUnion->Sync(stream); break;
		case HALFSPACE_BV: stream.Sync(bvHalfSpace); break;
		default: break;
	}
}


void NiCollisionData::Sync(NiStreamReversible& stream) {
	stream.Sync(propagationMode);
	stream.Sync(collisionMode);
	stream.Sync(useABV);

	if (useABV)
		boundingVolume.Sync(stream);
}


void bhkNiCollisionObject::Sync(NiStreamReversible& stream) {
	stream.Sync(flags);
	bodyRef.Sync(stream);
}

void bhkNiCollisionObject::GetChildRefs(std::set<NiRef*>& refs) {
	NiCollisionObject::GetChildRefs(refs);

	refs.insert(&bodyRef);
}

void bhkNiCollisionObject::GetChildIndices(std::vector<uint32_t>& indices) {
	NiCollisionObject::GetChildIndices(indices);

	indices.push_back(bodyRef.index);
}


void bhkNPCollisionObject::Sync(NiStreamReversible& stream) {
	stream.Sync(bodyID);
}


void bhkBlendCollisionObject::Sync(NiStreamReversible& stream) {
	stream.Sync(heirGain);
	stream.Sync(velGain);
}


bhkPhysicsSystem::bhkPhysicsSystem(const uint32_t size) {
	data.resize(size);
}

void bhkPhysicsSystem::Sync(NiStreamReversible& stream) {
	data.SyncByteArray(stream);
}


bhkRagdollSystem::bhkRagdollSystem(const uint32_t size) {
	data.resize(size);
}

void bhkRagdollSystem::Sync(NiStreamReversible& stream) {
	data.SyncByteArray(stream);
}


void bhkBlendController::Sync(NiStreamReversible& stream) {
	stream.Sync(keys);
}


void bhkHeightFieldShape::Sync(NiStreamReversible& stream) {
	stream.Sync(material);
}


void bhkPlaneShape::Sync(NiStreamReversible& stream) {
	stream.Sync(unkVec);
	stream.Sync(plane);
	stream.Sync(halfExtents);
	stream.Sync(center);
}


void bhkSphereRepShape::Sync(NiStreamReversible& stream) {
	stream.Sync(material);
}


void bhkConvexShape::Sync(NiStreamReversible& stream) {
	stream.Sync(radius);
}


void bhkMultiSphereShape::Sync(NiStreamReversible& stream) {
	stream.Sync(shapeProperty);
	spheres.Sync(stream);
}


void bhkConvexListShape::Sync(NiStreamReversible& stream) {
	shapeRefs.Sync(stream);
	stream.Sync(material);
	stream.Sync(radius);
	stream.Sync(unkInt1);
	stream.Sync(unkFloat1);
	stream.Sync(childShapeProp);
	stream.Sync(useCachedAABB);
	stream.Sync(closestPointMinDistance);
}

void bhkConvexListShape::GetChildRefs(std::set<NiRef*>& refs) {
	bhkShape::GetChildRefs(refs);

	shapeRefs.GetIndexPtrs(refs);
}

void bhkConvexListShape::GetChildIndices(std::vector<uint32_t>& indices) {
	bhkShape::GetChildIndices(indices);

	shapeRefs.GetIndices(indices);
}


void bhkConvexVerticesShape::Sync(NiStreamReversible& stream) {
	stream.Sync(vertsProp);
	stream.Sync(normalsProp);
	verts.Sync(stream);
	normals.Sync(stream);
}


void bhkBoxShape::Sync(NiStreamReversible& stream) {
	stream.Sync(padding);
	stream.Sync(dimensions);
	stream.Sync(radius2);
}


void bhkCylinderShape::Sync(NiStreamReversible& stream) {
	stream.Sync(reinterpret_cast<char*>(unused1), 8);
	stream.Sync(vertexA);
	stream.Sync(vertexB);
	stream.Sync(cylinderRadius);
	stream.Sync(reinterpret_cast<char*>(unused2), 12);
}


void bhkTransformShape::Sync(NiStreamReversible& stream) {
	shapeRef.Sync(stream);
	stream.Sync(material);
	stream.Sync(radius);
	stream.Sync(padding);
	stream.Sync(xform);
}

void bhkTransformShape::GetChildRefs(std::set<NiRef*>& refs) {
	bhkShape::GetChildRefs(refs);

	refs.insert(&shapeRef);
}

void bhkTransformShape::GetChildIndices(std::vector<uint32_t>& indices) {
	bhkShape::GetChildIndices(indices);

	indices.push_back(shapeRef.index);
}


void bhkCapsuleShape::Sync(NiStreamReversible& stream) {
	stream.Sync(padding);
	stream.Sync(point1);
	stream.Sync(radius1);
	stream.Sync(point2);
	stream.Sync(radius2);
}


void bhkMoppBvTreeShape::Sync(NiStreamReversible& stream) {
	shapeRef.Sync(stream);
	stream.Sync(userData);
	stream.Sync(shapeCollection);
	stream.Sync(code);
	stream.Sync(scale);
	uint32_t sz = data.SyncSize(stream);
	stream.Sync(offset);

	if (stream.GetVersion().User() >= 12)
		stream.Sync(buildType);

	data.SyncData(stream, sz);
}

void bhkMoppBvTreeShape::GetChildRefs(std::set<NiRef*>& refs) {
	bhkBvTreeShape::GetChildRefs(refs);

	refs.insert(&shapeRef);
}

void bhkMoppBvTreeShape::GetChildIndices(std::vector<uint32_t>& indices) {
	bhkBvTreeShape::GetChildIndices(indices);

	indices.push_back(shapeRef.index);
}


void bhkNiTriStripsShape::Sync(NiStreamReversible& stream) {
	stream.Sync(material);
	stream.Sync(radius);
	stream.Sync(unused1);
	stream.Sync(unused2);
	stream.Sync(unused3);
	stream.Sync(unused4);
	stream.Sync(unused5);
	stream.Sync(growBy);
	stream.Sync(scale);

	partRefs.Sync(stream);
	filters.Sync(stream);
}

void bhkNiTriStripsShape::GetChildRefs(std::set<NiRef*>& refs) {
	bhkShape::GetChildRefs(refs);

	partRefs.GetIndexPtrs(refs);
}

void bhkNiTriStripsShape::GetChildIndices(std::vector<uint32_t>& indices) {
	bhkShape::GetChildIndices(indices);

	partRefs.GetIndices(indices);
}


void bhkListShape::Sync(NiStreamReversible& stream) {
	subShapeRefs.Sync(stream);

	stream.Sync(material);
	stream.Sync(childShapeProp);
	stream.Sync(childFilterProp);

	filters.Sync(stream);
}

void bhkListShape::GetChildRefs(std::set<NiRef*>& refs) {
	bhkShapeCollection::GetChildRefs(refs);

	subShapeRefs.GetIndexPtrs(refs);
}

void bhkListShape::GetChildIndices(std::vector<uint32_t>& indices) {
	bhkShapeCollection::GetChildIndices(indices);

	subShapeRefs.GetIndices(indices);
}


void hkPackedNiTriStripsData::Sync(NiStreamReversible& stream) {
	stream.Sync(keyCount);

	if (stream.GetVersion().Stream() > 11) {
		triData.resize(keyCount);
		for (uint32_t i = 0; i < keyCount; i++)
			stream.Sync(triData[i]);
	}
	else {
		triNormData.resize(keyCount);
		for (uint32_t i = 0; i < keyCount; i++)
			stream.Sync(triNormData[i]);
	}

	stream.Sync(numVerts);

	if (stream.GetVersion().Stream() > 11)
		stream.Sync(compressed);

	compressedVertData.resize(numVerts);
	for (uint32_t i = 0; i < numVerts; i++)
		stream.Sync(compressedVertData[i]);

	if (stream.GetVersion().Stream() > 11)
		subPartData.Sync(stream);
}


void bhkPackedNiTriStripsShape::Sync(NiStreamReversible& stream) {
	if (stream.GetVersion().Stream() <= 11)
		subPartData.Sync(stream);

	stream.Sync(userData);
	stream.Sync(unused1);
	stream.Sync(radius);
	stream.Sync(unused2);
	stream.Sync(scaling);
	stream.Sync(radius2);
	stream.Sync(scaling2);
	dataRef.Sync(stream);
}

void bhkPackedNiTriStripsShape::GetChildRefs(std::set<NiRef*>& refs) {
	bhkShapeCollection::GetChildRefs(refs);

	refs.insert(&dataRef);
}

void bhkPackedNiTriStripsShape::GetChildIndices(std::vector<uint32_t>& indices) {
	bhkShapeCollection::GetChildIndices(indices);

	indices.push_back(dataRef.index);
}


void bhkLiquidAction::Sync(NiStreamReversible& stream) {
	stream.Sync(userData);
	stream.Sync(unkInt1);
	stream.Sync(unkInt2);
	stream.Sync(initialStickForce);
	stream.Sync(stickStrength);
	stream.Sync(neighborDistance);
	stream.Sync(neighborStrength);
}


void bhkOrientHingedBodyAction::Sync(NiStreamReversible& stream) {
	bodyRef.Sync(stream);
	stream.Sync(unkInt1);
	stream.Sync(unkInt2);
	stream.Sync(padding);
	stream.Sync(hingeAxisLS);
	stream.Sync(forwardLS);
	stream.Sync(strength);
	stream.Sync(damping);
	stream.Sync(padding2);
}

void bhkOrientHingedBodyAction::GetPtrs(std::set<NiPtr*>& ptrs) {
	bhkSerializable::GetPtrs(ptrs);

	ptrs.insert(&bodyRef);
}


void bhkWorldObject::Sync(NiStreamReversible& stream) {
	shapeRef.Sync(stream);
	stream.Sync(collisionFilter);
	stream.Sync(unkInt1);
	stream.Sync(broadPhaseType);
	stream.Sync(reinterpret_cast<char*>(unkBytes), 3);
	stream.Sync(prop);
}

void bhkWorldObject::GetChildRefs(std::set<NiRef*>& refs) {
	bhkSerializable::GetChildRefs(refs);

	refs.insert(&shapeRef);
}

void bhkWorldObject::GetChildIndices(std::vector<uint32_t>& indices) {
	bhkSerializable::GetChildIndices(indices);

	indices.push_back(shapeRef.index);
}


void bhkSimpleShapePhantom::Sync(NiStreamReversible& stream) {
	stream.Sync(padding);
	stream.Sync(transform);
}


void bhkAabbPhantom::Sync(NiStreamReversible& stream) {
	stream.Sync(padding);
	stream.Sync(aabbMin);
	stream.Sync(aabbMax);
}


void bhkRigidBody::Sync(NiStreamReversible& stream) {
	stream.Sync(collisionResponse);
	stream.Sync(unusedByte1);
	stream.Sync(processContactCallbackDelay);
	stream.Sync(unkInt1);

	stream.Sync(collisionFilterCopy);
	stream.Sync(reinterpret_cast<char*>(unkShorts2), 12);

	stream.Sync(translation);
	stream.Sync(rotation);
	stream.Sync(linearVelocity);
	stream.Sync(angularVelocity);
	stream.Sync(reinterpret_cast<char*>(inertiaMatrix), 48);
	stream.Sync(center);
	stream.Sync(mass);
	stream.Sync(linearDamping);
	stream.Sync(angularDamping);

	if (stream.GetVersion().Stream() > 34) {
		if (stream.GetVersion().Stream() < 130)
			stream.Sync(timeFactor);

		stream.Sync(gravityFactor);
	}

	stream.Sync(friction);

	if (stream.GetVersion().Stream() > 34)
		stream.Sync(rollingFrictionMult);

	stream.Sync(restitution);
	stream.Sync(maxLinearVelocity);
	stream.Sync(maxAngularVelocity);
	stream.Sync(penetrationDepth);
	stream.Sync(motionSystem);
	stream.Sync(deactivatorType);
	stream.Sync(solverDeactivation);
	stream.Sync(qualityType);

	if (stream.GetVersion().Stream() > 34) {
		stream.Sync(autoRemoveLevel);
		stream.Sync(responseModifierFlag);
		stream.Sync(numShapeKeysInContactPointProps);
		stream.Sync(forceCollideOntoPpu);
	}

	if (stream.GetVersion().IsFO4())
		stream.Sync(reinterpret_cast<char*>(unusedBytes2), 3);
	else
		stream.Sync(reinterpret_cast<char*>(unusedInts1), 12);

	constraintRefs.Sync(stream);

	if (stream.GetVersion().Stream() < 76)
		stream.Sync(bodyFlagsInt);
	else
		stream.Sync(bodyFlags);
}

void bhkRigidBody::GetChildRefs(std::set<NiRef*>& refs) {
	bhkEntity::GetChildRefs(refs);

	constraintRefs.GetIndexPtrs(refs);
}

void bhkRigidBody::GetChildIndices(std::vector<uint32_t>& indices) {
	bhkEntity::GetChildIndices(indices);

	constraintRefs.GetIndices(indices);
}


void bhkConstraint::Sync(NiStreamReversible& stream) {
	entityRefs.SetKeepEmptyRefs();
	entityRefs.SetSize(2);
	entityRefs.Sync(stream);

	stream.Sync(priority);
}

void bhkConstraint::GetPtrs(std::set<NiPtr*>& ptrs) {
	bhkSerializable::GetPtrs(ptrs);

	entityRefs.GetIndexPtrs(ptrs);
}


void bhkHingeConstraint::Sync(NiStreamReversible& stream) {
	hinge.Sync(stream);
}


void bhkLimitedHingeConstraint::Sync(NiStreamReversible& stream) {
	limitedHinge.Sync(stream);
}


void ConstraintData::Sync(NiStreamReversible& stream) {
	stream.Sync(type);

	entityRefs.SetKeepEmptyRefs();
	entityRefs.SetSize(2);
	entityRefs.Sync(stream);
	stream.Sync(priority);

	switch (type) {
		case BallAndSocket: stream.Sync(reinterpret_cast<char*>(&desc1), 32); break;
		case Hinge: desc2.Sync(stream); break;
		case LimitedHinge: desc3.Sync(stream); break;
		case Prismatic: desc4.Sync(stream); break;
		case Ragdoll: desc5.Sync(stream); break;
		case StiffSpring: stream.Sync(reinterpret_cast<char*>(&desc6), 36); break;
	}

	if (stream.GetVersion().File() <= NiFileVersion::V20_0_0_5) {
		stream.Sync(tau);
		stream.Sync(damping);
	}
	else if (stream.GetVersion().File() >= NiFileVersion::V20_2_0_7)
		stream.Sync(strength);
}

void ConstraintData::GetPtrs(std::set<NiPtr*>& ptrs) {
	entityRefs.GetIndexPtrs(ptrs);
}


void bhkBreakableConstraint::Sync(NiStreamReversible& stream) {
	subConstraint.Sync(stream);
	stream.Sync(removeWhenBroken);
}

void bhkBreakableConstraint::GetPtrs(std::set<NiPtr*>& ptrs) {
	bhkConstraint::GetPtrs(ptrs);

	subConstraint.GetPtrs(ptrs);
}


void bhkRagdollConstraint::Sync(NiStreamReversible& stream) {
	if (stream.GetVersion().Stream() <= 16) {
		// OB/FO3
		stream.Sync(ragdoll.pivotA);
		stream.Sync(ragdoll.planeA);
		stream.Sync(ragdoll.twistA);
		stream.Sync(ragdoll.pivotB);
		stream.Sync(ragdoll.planeB);
		stream.Sync(ragdoll.twistB);
	}
	else {
		// FO3 and later
		stream.Sync(ragdoll.twistA);
		stream.Sync(ragdoll.planeA);
		stream.Sync(ragdoll.motorA);
		stream.Sync(ragdoll.pivotA);
		stream.Sync(ragdoll.twistB);
		stream.Sync(ragdoll.planeB);
		stream.Sync(ragdoll.motorB);
		stream.Sync(ragdoll.pivotB);
	}

	stream.Sync(ragdoll.coneMaxAngle);
	stream.Sync(ragdoll.planeMinAngle);
	stream.Sync(ragdoll.planeMaxAngle);
	stream.Sync(ragdoll.twistMinAngle);
	stream.Sync(ragdoll.twistMaxAngle);
	stream.Sync(ragdoll.maxFriction);

	if (stream.GetVersion().Stream() > 16)
		ragdoll.motorDesc.Sync(stream);
}


void bhkStiffSpringConstraint::Sync(NiStreamReversible& stream) {
	stream.Sync(stiffSpring.pivotA);
	stream.Sync(stiffSpring.pivotB);
	stream.Sync(stiffSpring.length);
}


void bhkPrismaticConstraint::Sync(NiStreamReversible& stream) {
	prismatic.Sync(stream);
}


void bhkMalleableConstraint::Sync(NiStreamReversible& stream) {
	subConstraint.Sync(stream);
}

void bhkMalleableConstraint::GetPtrs(std::set<NiPtr*>& ptrs) {
	bhkConstraint::GetPtrs(ptrs);

	subConstraint.GetPtrs(ptrs);
}


void bhkBallAndSocketConstraint::Sync(NiStreamReversible& stream) {
	stream.Sync(ballAndSocket.translationA);
	stream.Sync(ballAndSocket.translationB);
}


void bhkBallSocketConstraintChain::Sync(NiStreamReversible& stream) {
	pivots.Sync(stream);

	stream.Sync(tau);
	stream.Sync(damping);
	stream.Sync(cfm);
	stream.Sync(maxErrorDistance);

	chainedEntityRefs.Sync(stream);

	numEntities = 2;
	stream.Sync(numEntities);
	numEntities = 2;

	entityARef.Sync(stream);
	entityBRef.Sync(stream);
	stream.Sync(priority);
}

void bhkBallSocketConstraintChain::GetPtrs(std::set<NiPtr*>& ptrs) {
	bhkSerializable::GetPtrs(ptrs);

	chainedEntityRefs.GetIndexPtrs(ptrs);
	ptrs.insert(&entityARef);
	ptrs.insert(&entityBRef);
}


void bhkCompressedMeshShapeData::Sync(NiStreamReversible& stream) {
	stream.Sync(bitsPerIndex);
	stream.Sync(bitsPerWIndex);
	stream.Sync(maskWIndex);
	stream.Sync(maskIndex);
	stream.Sync(error);
	stream.Sync(aabbBoundMin);
	stream.Sync(aabbBoundMax);
	stream.Sync(weldingType);
	stream.Sync(materialType);

	mat32.Sync(stream);
	mat16.Sync(stream);
	mat8.Sync(stream);

	materials.Sync(stream);

	stream.Sync(numNamedMat);

	transforms.Sync(stream);
	bigVerts.Sync(stream);

	bigTris.Sync(stream);
	chunks.Sync(stream);

	stream.Sync(numConvexPieceA);
}


void bhkCompressedMeshShape::Sync(NiStreamReversible& stream) {
	targetRef.Sync(stream);
	stream.Sync(userData);
	stream.Sync(radius);
	stream.Sync(unkFloat);
	stream.Sync(scaling);
	stream.Sync(radius2);
	stream.Sync(scaling2);
	dataRef.Sync(stream);
}

void bhkCompressedMeshShape::GetChildRefs(std::set<NiRef*>& refs) {
	bhkShape::GetChildRefs(refs);

	refs.insert(&dataRef);
}

void bhkCompressedMeshShape::GetChildIndices(std::vector<uint32_t>& indices) {
	bhkShape::GetChildIndices(indices);

	indices.push_back(dataRef.index);
}

void bhkCompressedMeshShape::GetPtrs(std::set<NiPtr*>& ptrs) {
	bhkShape::GetPtrs(ptrs);

	ptrs.insert(&targetRef);
}


void bhkPoseArray::Sync(NiStreamReversible& stream) {
	bones.Sync(stream);
	poses.Sync(stream);
}

void bhkPoseArray::GetStringRefs(std::vector<NiStringRef*>& refs) {
	NiObject::GetStringRefs(refs);

	for (auto& b : bones)
		refs.emplace_back(&b);
}


void bhkRagdollTemplate::Sync(NiStreamReversible& stream) {
	boneRefs.Sync(stream);
}

void bhkRagdollTemplate::GetChildRefs(std::set<NiRef*>& refs) {
	NiExtraData::GetChildRefs(refs);

	boneRefs.GetIndexPtrs(refs);
}

void bhkRagdollTemplate::GetChildIndices(std::vector<uint32_t>& indices) {
	NiExtraData::GetChildIndices(indices);

	boneRefs.GetIndices(indices);
}


void bhkRagdollTemplateData::Sync(NiStreamReversible& stream) {
	name.Sync(stream);
	stream.Sync(mass);
	stream.Sync(restitution);
	stream.Sync(friction);
	stream.Sync(radius);
	stream.Sync(material);
	constraints.Sync(stream);
}

void bhkRagdollTemplateData::GetStringRefs(std::vector<NiStringRef*>& refs) {
	NiObject::GetStringRefs(refs);

	refs.emplace_back(&name);
}

void bhkRagdollTemplateData::GetPtrs(std::set<NiPtr*>& ptrs) {
	NiObject::GetPtrs(ptrs);

	for (auto& constraint : constraints)
		constraint.GetPtrs(ptrs);
}
