/*
nifly
C++ NIF library for the Gamebryo/NetImmerse File Format
See the included GPLv3 LICENSE file
*/

#pragma once

#include "NifUtil.hpp"

namespace nifly {

void trim_whitespace(std::string& str) {
	if (str.empty())
		return;

	std::string::size_type i, j;
	i = 0;

	while (i < str.size() && isspace(str[i]))
		++i;

	if (i == str.size()) {
		str.clear();
		return;
	}

	j = str.size() - 1;

	while (isspace(str[j]))
		--j;

	str = str.substr(i, j - i + 1);
}

} // namespace nifly