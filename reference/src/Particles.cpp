/*
nifly
C++ NIF library for the Gamebryo/NetImmerse File Format
See the included GPLv3 LICENSE file
*/

#include "Particles.hpp"

using namespace nifly;

NiParticlesData::NiParticlesData() {
	NiGeometryData::isPSys = true;
}

void NiParticlesData::Sync(NiStreamReversible& stream) {
	stream.Sync(hasRadii);
	if (hasRadii && stream.GetVersion().File() != V20_2_0_7) {
		radii.resize(numVertices);
		for (float& r : radii)
			stream.Sync(r);
	}

	stream.Sync(numActive);

	stream.Sync(hasSizes);
	if (hasSizes && stream.GetVersion().File() != V20_2_0_7) {
		sizes.resize(numVertices);
		for (float& s : sizes)
			stream.Sync(s);
	}

	stream.Sync(hasRotations);
	if (hasRotations && stream.GetVersion().File() != V20_2_0_7) {
		rotations.resize(numVertices);
		for (Quaternion& q : rotations)
			stream.Sync(q);
	}

	stream.Sync(hasRotationAngles);
	if (hasRotationAngles && stream.GetVersion().File() != V20_2_0_7) {
		rotationAngles.resize(numVertices);
		for (float& a : rotationAngles)
			stream.Sync(a);
	}

	stream.Sync(hasRotationAxes);
	if (hasRotationAxes && stream.GetVersion().File() != V20_2_0_7) {
		rotationAxes.resize(numVertices);
		for (Vector3& a : rotationAxes)
			stream.Sync(a);
	}

	if (stream.GetVersion().File() == V20_2_0_7) {
		stream.Sync(hasTextureIndices);

		uint32_t sz = 0;

		if (stream.GetVersion().User() >= 12) {
			sz = subtexOffsets.SyncSize(stream);
		}
		else {
			uint8_t numOffsets = subtexOffsets.size() > 255 ? 255 : static_cast<uint8_t>(subtexOffsets.size());
			stream.Sync(numOffsets);
			sz = numOffsets;
		}

		subtexOffsets.SyncData(stream, sz);

		if (stream.GetVersion().User() >= 12) {
			stream.Sync(aspectRatio);
			stream.Sync(aspectFlags);
			stream.Sync(speedToAspectAspect2);
			stream.Sync(speedToAspectSpeed1);
			stream.Sync(speedToAspectSpeed2);
		}
	}
}


void NiParticleMeshesData::Sync(NiStreamReversible& stream) {
	dataRef.Sync(stream);
}

void NiParticleMeshesData::GetChildRefs(std::set<NiRef*>& refs) {
	NiRotatingParticlesData::GetChildRefs(refs);

	refs.insert(&dataRef);
}

void NiParticleMeshesData::GetChildIndices(std::vector<uint32_t>& indices) {
	NiRotatingParticlesData::GetChildIndices(indices);

	indices.push_back(dataRef.index);
}


void NiPSysData::Sync(NiStreamReversible& stream) {
	if (stream.GetVersion().File() != V20_2_0_7) {
		particleInfo.resize(numVertices);
		for (auto& pi : particleInfo)
			pi.Sync(stream);
	}

	if (stream.GetVersion().Stream() > 130)
		stream.Sync(unknownVector);

	if (stream.GetVersion().File() == V20_2_4_7)
		stream.Sync(unknownQQSpeedByte1);

	if (stream.GetVersion().File() >= V20_0_0_2) {
		stream.Sync(hasRotationSpeeds);

		if (hasRotationSpeeds && stream.GetVersion().File() != V20_2_0_7) {
			rotationSpeeds.resize(numVertices);
			for (auto& rs : rotationSpeeds)
				stream.Sync(rs);
		}
	}

	if (stream.GetVersion().File() != V20_2_0_7) {
		stream.Sync(numAddedParticles);
		stream.Sync(addedParticlesBase);
	}

	if (stream.GetVersion().File() == V20_2_4_7)
		stream.Sync(unknownQQSpeedByte2);
}


void NiMeshPSysData::Sync(NiStreamReversible& stream) {
	stream.Sync(defaultPoolSize);
	stream.Sync(fillPoolsOnLoad);

	generationPoolSize.Sync(stream);
	nodeRef.Sync(stream);
}

void NiMeshPSysData::GetChildRefs(std::set<NiRef*>& refs) {
	NiPSysData::GetChildRefs(refs);

	refs.insert(&nodeRef);
}

void NiMeshPSysData::GetChildIndices(std::vector<uint32_t>& indices) {
	NiPSysData::GetChildIndices(indices);

	indices.push_back(nodeRef.index);
}


void BSStripPSysData::Sync(NiStreamReversible& stream) {
	stream.Sync(maxPointCount);
	stream.Sync(startCapSize);
	stream.Sync(endCapSize);
	stream.Sync(doZPrepass);
}


void NiPSysEmitterCtlrData::Sync(NiStreamReversible& stream) {
	floatKeys.Sync(stream);
	visibilityKeys.Sync(stream);
}


void NiPSysEmitterCtlr::Sync(NiStreamReversible& stream) {
	if (stream.GetVersion().File() < V10_1_0_104)
		dataRef.Sync(stream);
	else
		visInterpolatorRef.Sync(stream);
}

void NiPSysEmitterCtlr::GetChildRefs(std::set<NiRef*>& refs) {
	NiPSysModifierCtlr::GetChildRefs(refs);

	refs.insert(&dataRef);
	refs.insert(&visInterpolatorRef);
}

void NiPSysEmitterCtlr::GetChildIndices(std::vector<uint32_t>& indices) {
	NiPSysModifierCtlr::GetChildIndices(indices);

	indices.push_back(dataRef.index);
	indices.push_back(visInterpolatorRef.index);
}


void BSPSysMultiTargetEmitterCtlr::Sync(NiStreamReversible& stream) {
	stream.Sync(maxEmitters);
	masterParticleSystemRef.Sync(stream);
}

void BSPSysMultiTargetEmitterCtlr::GetPtrs(std::set<NiPtr*>& ptrs) {
	NiPSysEmitterCtlr::GetPtrs(ptrs);

	ptrs.insert(&masterParticleSystemRef);
}


void NiPSysModifier::Sync(NiStreamReversible& stream) {
	name.Sync(stream);

	stream.Sync(order);
	targetRef.Sync(stream);
	stream.Sync(isActive);
}

void NiPSysModifier::GetStringRefs(std::vector<NiStringRef*>& refs) {
	NiObject::GetStringRefs(refs);

	refs.emplace_back(&name);
}

void NiPSysModifier::GetPtrs(std::set<NiPtr*>& ptrs) {
	NiObject::GetPtrs(ptrs);

	ptrs.insert(&targetRef);
}


void BSPSysStripUpdateModifier::Sync(NiStreamReversible& stream) {
	stream.Sync(updateDeltaTime);
}


void NiPSysSpawnModifier::Sync(NiStreamReversible& stream) {
	stream.Sync(numSpawnGenerations);
	stream.Sync(percentSpawned);
	stream.Sync(minSpawned);
	stream.Sync(maxSpawned);
	stream.Sync(spawnSpeedVariation);
	stream.Sync(spawnDirVariation);
	stream.Sync(lifeSpan);
	stream.Sync(lifeSpanVariation);
}


void NiPSysAgeDeathModifier::Sync(NiStreamReversible& stream) {
	stream.Sync(spawnOnDeath);
	spawnModifierRef.Sync(stream);
}

void NiPSysAgeDeathModifier::GetChildRefs(std::set<NiRef*>& refs) {
	NiPSysModifier::GetChildRefs(refs);

	refs.insert(&spawnModifierRef);
}

void NiPSysAgeDeathModifier::GetChildIndices(std::vector<uint32_t>& indices) {
	NiPSysModifier::GetChildIndices(indices);

	indices.push_back(spawnModifierRef.index);
}


void BSPSysLODModifier::Sync(NiStreamReversible& stream) {
	stream.Sync(lodBeginDistance);
	stream.Sync(lodEndDistance);
	stream.Sync(endEmitScale);
	stream.Sync(endSize);
}


void BSPSysSimpleColorModifier::Sync(NiStreamReversible& stream) {
	stream.Sync(fadeInPercent);
	stream.Sync(fadeOutPercent);
	stream.Sync(color1EndPercent);
	stream.Sync(color2StartPercent);
	stream.Sync(color2EndPercent);
	stream.Sync(color3StartPercent);
	stream.Sync(color1);
	stream.Sync(color2);
	stream.Sync(color3);

	if (stream.GetVersion().Stream() > 130) {
		for (uint16_t& unknownShort : unknownShorts)
			stream.Sync(unknownShort);
	}
}


void NiPSysRotationModifier::Sync(NiStreamReversible& stream) {
	stream.Sync(initialSpeed);
	stream.Sync(initialSpeedVariation);

	if (stream.GetVersion().Stream() > 130) {
		stream.Sync(unknownVector);
		stream.Sync(unknownByte);
	}

	stream.Sync(initialAngle);
	stream.Sync(initialAngleVariation);
	stream.Sync(randomSpeedSign);
	stream.Sync(randomInitialAxis);
	stream.Sync(initialAxis);
}


void BSPSysScaleModifier::Sync(NiStreamReversible& stream) {
	floats.Sync(stream);
}


void NiPSysGravityModifier::Sync(NiStreamReversible& stream) {
	gravityObjRef.Sync(stream);
	stream.Sync(gravityAxis);
	stream.Sync(decay);
	stream.Sync(strength);
	stream.Sync(forceType);
	stream.Sync(turbulence);
	stream.Sync(turbulenceScale);

	if (stream.GetVersion().Stream() > 16)
		stream.Sync(worldAligned);
}

void NiPSysGravityModifier::GetPtrs(std::set<NiPtr*>& ptrs) {
	NiPSysModifier::GetPtrs(ptrs);

	ptrs.insert(&gravityObjRef);
}


void NiPSysBoundUpdateModifier::Sync(NiStreamReversible& stream) {
	stream.Sync(updateSkip);
}


void NiPSysDragModifier::Sync(NiStreamReversible& stream) {
	parentRef.Sync(stream);
	stream.Sync(dragAxis);
	stream.Sync(percentage);
	stream.Sync(range);
	stream.Sync(rangeFalloff);
}

void NiPSysDragModifier::GetPtrs(std::set<NiPtr*>& ptrs) {
	NiPSysModifier::GetPtrs(ptrs);

	ptrs.insert(&parentRef);
}


void BSPSysInheritVelocityModifier::Sync(NiStreamReversible& stream) {
	targetNodeRef.Sync(stream);
	stream.Sync(changeToInherit);
	stream.Sync(velocityMult);
	stream.Sync(velocityVar);
}

void BSPSysInheritVelocityModifier::GetPtrs(std::set<NiPtr*>& ptrs) {
	NiPSysModifier::GetPtrs(ptrs);

	ptrs.insert(&targetNodeRef);
}


void BSPSysSubTexModifier::Sync(NiStreamReversible& stream) {
	stream.Sync(startFrame);
	stream.Sync(startFrameVariation);
	stream.Sync(endFrame);
	stream.Sync(loopStartFrame);
	stream.Sync(loopStartFrameVariation);
	stream.Sync(frameCount);
	stream.Sync(frameCountVariation);
}


void NiPSysBombModifier::Sync(NiStreamReversible& stream) {
	bombNodeRef.Sync(stream);
	stream.Sync(bombAxis);
	stream.Sync(decay);
	stream.Sync(deltaV);
	stream.Sync(decayType);
	stream.Sync(symmetryType);
}

void NiPSysBombModifier::GetPtrs(std::set<NiPtr*>& ptrs) {
	NiPSysModifier::GetPtrs(ptrs);

	ptrs.insert(&bombNodeRef);
}


void NiColorData::Sync(NiStreamReversible& stream) {
	data.Sync(stream);
}


void NiPSysColorModifier::Sync(NiStreamReversible& stream) {
	dataRef.Sync(stream);
}

void NiPSysColorModifier::GetChildRefs(std::set<NiRef*>& refs) {
	NiPSysModifier::GetChildRefs(refs);

	refs.insert(&dataRef);
}

void NiPSysColorModifier::GetChildIndices(std::vector<uint32_t>& indices) {
	NiPSysModifier::GetChildIndices(indices);

	indices.push_back(dataRef.index);
}


void NiPSysGrowFadeModifier::Sync(NiStreamReversible& stream) {
	stream.Sync(growTime);
	stream.Sync(growGeneration);
	stream.Sync(fadeTime);
	stream.Sync(fadeGeneration);

	if (stream.GetVersion().Stream() >= 34)
		stream.Sync(baseScale);
}


void NiPSysMeshUpdateModifier::Sync(NiStreamReversible& stream) {
	meshRefs.Sync(stream);
}

void NiPSysMeshUpdateModifier::GetChildRefs(std::set<NiRef*>& refs) {
	NiPSysModifier::GetChildRefs(refs);

	meshRefs.GetIndexPtrs(refs);
}

void NiPSysMeshUpdateModifier::GetChildIndices(std::vector<uint32_t>& indices) {
	NiPSysModifier::GetChildIndices(indices);

	meshRefs.GetIndices(indices);
}


void NiPSysFieldModifier::Sync(NiStreamReversible& stream) {
	fieldObjectRef.Sync(stream);
	stream.Sync(magnitude);
	stream.Sync(attenuation);
	stream.Sync(useMaxDistance);
	stream.Sync(maxDistance);
}

void NiPSysFieldModifier::GetChildRefs(std::set<NiRef*>& refs) {
	NiPSysModifier::GetChildRefs(refs);

	refs.insert(&fieldObjectRef);
}

void NiPSysFieldModifier::GetChildIndices(std::vector<uint32_t>& indices) {
	NiPSysModifier::GetChildIndices(indices);

	indices.push_back(fieldObjectRef.index);
}


void NiPSysVortexFieldModifier::Sync(NiStreamReversible& stream) {
	stream.Sync(direction);
}


void NiPSysGravityFieldModifier::Sync(NiStreamReversible& stream) {
	stream.Sync(direction);
}


void NiPSysDragFieldModifier::Sync(NiStreamReversible& stream) {
	stream.Sync(useDirection);
	stream.Sync(direction);
}


void NiPSysTurbulenceFieldModifier::Sync(NiStreamReversible& stream) {
	stream.Sync(frequency);
}


void NiPSysAirFieldModifier::Sync(NiStreamReversible& stream) {
	stream.Sync(direction);
	stream.Sync(airFriction);
	stream.Sync(inheritVelocity);
	stream.Sync(inheritRotation);
	stream.Sync(componentOnly);
	stream.Sync(enableSpread);
	stream.Sync(spread);
}


void NiPSysRadialFieldModifier::Sync(NiStreamReversible& stream) {
	stream.Sync(radialType);
}


void BSWindModifier::Sync(NiStreamReversible& stream) {
	stream.Sync(strength);
}


void BSPSysRecycleBoundModifier::Sync(NiStreamReversible& stream) {
	stream.Sync(boundOffset);
	stream.Sync(boundExtent);
	targetNodeRef.Sync(stream);
}

void BSPSysRecycleBoundModifier::GetPtrs(std::set<NiPtr*>& ptrs) {
	NiPSysModifier::GetPtrs(ptrs);

	ptrs.insert(&targetNodeRef);
}


void BSPSysHavokUpdateModifier::Sync(NiStreamReversible& stream) {
	nodeRefs.Sync(stream);
	modifierRef.Sync(stream);
}

void BSPSysHavokUpdateModifier::GetChildRefs(std::set<NiRef*>& refs) {
	NiPSysModifier::GetChildRefs(refs);

	nodeRefs.GetIndexPtrs(refs);
	refs.insert(&modifierRef);
}

void BSPSysHavokUpdateModifier::GetChildIndices(std::vector<uint32_t>& indices) {
	NiPSysModifier::GetChildIndices(indices);

	nodeRefs.GetIndices(indices);
	indices.push_back(modifierRef.index);
}


void BSParentVelocityModifier::Sync(NiStreamReversible& stream) {
	stream.Sync(damping);
}


void BSMasterParticleSystem::Sync(NiStreamReversible& stream) {
	stream.Sync(maxEmitterObjs);
	particleSysRefs.Sync(stream);
}

void BSMasterParticleSystem::GetChildRefs(std::set<NiRef*>& refs) {
	NiNode::GetChildRefs(refs);

	particleSysRefs.GetIndexPtrs(refs);
}

void BSMasterParticleSystem::GetChildIndices(std::vector<uint32_t>& indices) {
	NiNode::GetChildIndices(indices);

	particleSysRefs.GetIndices(indices);
}


void NiParticleSystem::Sync(NiStreamReversible& stream) {
	if (stream.GetVersion().Stream() >= 100) {
		stream.Sync(bounds);

		if (stream.GetVersion().Stream() > 139)
			for (float& i : boundMinMax)
				stream.Sync(i);

		skinInstanceRef.Sync(stream);
		shaderPropertyRef.Sync(stream);
		alphaPropertyRef.Sync(stream);
		stream.Sync(vertFlags1);
		stream.Sync(vertFlags2);
		stream.Sync(vertFlags3);
		stream.Sync(vertFlags4);
		stream.Sync(vertFlags5);
		stream.Sync(vertFlags6);
		stream.Sync(vertFlags7);
		stream.Sync(vertFlags8);
	}
	else {
		dataRef.Sync(stream);
		psysDataRef.index = dataRef.index;
		skinInstanceRef.Sync(stream);

		if (stream.GetVersion().File() >= V10_0_1_0 && stream.GetVersion().File() <= V20_1_0_3) {
			stream.Sync(hasShader);
			if (hasShader) {
				shaderName.Sync(stream);
				stream.Sync(shaderExtraData);
			}
		}

		if (stream.GetVersion().File() >= V20_2_0_5) {
			uint32_t numMaterials = materialNames.Sync(stream);
			materialExtraData.SyncData(stream, numMaterials);

			stream.Sync(activeMaterial);
		}

		if (stream.GetVersion().File() >= V20_2_0_7)
			stream.Sync(defaultMatNeedsUpdate);

		if (stream.GetVersion().User() >= 12) {
			shaderPropertyRef.Sync(stream);
			alphaPropertyRef.Sync(stream);
		}
	}

	if (stream.GetVersion().User() >= 12) {
		stream.Sync(farBegin);
		stream.Sync(farEnd);
		stream.Sync(nearBegin);
		stream.Sync(nearEnd);

		if (stream.GetVersion().Stream() >= 100) {
			psysDataRef.Sync(stream);
			dataRef.index = psysDataRef.index;
		}
	}

	stream.Sync(isWorldSpace);
	modifierRefs.Sync(stream);
}

void NiParticleSystem::GetStringRefs(std::vector<NiStringRef*>& refs) {
	NiAVObject::GetStringRefs(refs);

	refs.emplace_back(&shaderName);

	for (auto& mn : materialNames)
		refs.emplace_back(&mn);
}

void NiParticleSystem::GetChildRefs(std::set<NiRef*>& refs) {
	NiAVObject::GetChildRefs(refs);

	refs.insert(&dataRef);
	refs.insert(&skinInstanceRef);
	refs.insert(&shaderPropertyRef);
	refs.insert(&alphaPropertyRef);
	refs.insert(&psysDataRef);
	modifierRefs.GetIndexPtrs(refs);
}

void NiParticleSystem::GetChildIndices(std::vector<uint32_t>& indices) {
	NiAVObject::GetChildIndices(indices);

	indices.push_back(dataRef.index);
	indices.push_back(skinInstanceRef.index);
	indices.push_back(shaderPropertyRef.index);
	indices.push_back(alphaPropertyRef.index);
	indices.push_back(psysDataRef.index);
	modifierRefs.GetIndices(indices);
}


void NiPSysCollider::Sync(NiStreamReversible& stream) {
	stream.Sync(bounce);
	stream.Sync(spawnOnCollide);
	stream.Sync(dieOnCollide);
	spawnModifierRef.Sync(stream);
	managerRef.Sync(stream);
	nextColliderRef.Sync(stream);
	colliderNodeRef.Sync(stream);
}

void NiPSysCollider::GetChildRefs(std::set<NiRef*>& refs) {
	NiObject::GetChildRefs(refs);

	refs.insert(&spawnModifierRef);
	refs.insert(&nextColliderRef);
}

void NiPSysCollider::GetChildIndices(std::vector<uint32_t>& indices) {
	NiObject::GetChildIndices(indices);

	indices.push_back(spawnModifierRef.index);
	indices.push_back(nextColliderRef.index);
}

void NiPSysCollider::GetPtrs(std::set<NiPtr*>& ptrs) {
	NiObject::GetPtrs(ptrs);

	ptrs.insert(&managerRef);
	ptrs.insert(&colliderNodeRef);
}


void NiPSysSphericalCollider::Sync(NiStreamReversible& stream) {
	stream.Sync(radius);
}


void NiPSysPlanarCollider::Sync(NiStreamReversible& stream) {
	stream.Sync(width);
	stream.Sync(height);
	stream.Sync(xAxis);
	stream.Sync(yAxis);
}


void NiPSysColliderManager::Sync(NiStreamReversible& stream) {
	colliderRef.Sync(stream);
}

void NiPSysColliderManager::GetChildRefs(std::set<NiRef*>& refs) {
	NiPSysModifier::GetChildRefs(refs);

	refs.insert(&colliderRef);
}

void NiPSysColliderManager::GetChildIndices(std::vector<uint32_t>& indices) {
	NiPSysModifier::GetChildIndices(indices);

	indices.push_back(colliderRef.index);
}


void NiPSysEmitter::Sync(NiStreamReversible& stream) {
	stream.Sync(speed);
	stream.Sync(speedVariation);
	stream.Sync(declination);
	stream.Sync(declinationVariation);
	stream.Sync(planarAngle);
	stream.Sync(planarAngleVariation);
	stream.Sync(color);
	stream.Sync(radius);
	stream.Sync(radiusVariation);
	stream.Sync(lifeSpan);
	stream.Sync(lifeSpanVariation);
}


void NiPSysVolumeEmitter::Sync(NiStreamReversible& stream) {
	emitterNodeRef.Sync(stream);
}

void NiPSysVolumeEmitter::GetPtrs(std::set<NiPtr*>& ptrs) {
	NiPSysEmitter::GetPtrs(ptrs);

	ptrs.insert(&emitterNodeRef);
}


void NiPSysSphereEmitter::Sync(NiStreamReversible& stream) {
	stream.Sync(radius);
}


void NiPSysCylinderEmitter::Sync(NiStreamReversible& stream) {
	stream.Sync(radius);
	stream.Sync(height);
}


void NiPSysBoxEmitter::Sync(NiStreamReversible& stream) {
	stream.Sync(width);
	stream.Sync(height);
	stream.Sync(depth);
}


void NiPSysMeshEmitter::Sync(NiStreamReversible& stream) {
	meshRefs.Sync(stream);

	stream.Sync(velocityType);
	stream.Sync(emissionType);
	stream.Sync(emissionAxis);
}

void NiPSysMeshEmitter::GetPtrs(std::set<NiPtr*>& ptrs) {
	NiPSysEmitter::GetPtrs(ptrs);

	meshRefs.GetIndexPtrs(ptrs);
}
