/*
nifly
C++ NIF library for the Gamebryo/NetImmerse File Format
See the included GPLv3 LICENSE file
*/

#include "Nodes.hpp"

using namespace nifly;

void NiNode::Sync(NiStreamReversible& stream) {
	childRefs.Sync(stream);

	if (stream.GetVersion().User() <= 12 && stream.GetVersion().Stream() < 130)
		effectRefs.Sync(stream);
}

void NiNode::GetChildRefs(std::set<NiRef*>& refs) {
	NiAVObject::GetChildRefs(refs);

	childRefs.GetIndexPtrs(refs);
	effectRefs.GetIndexPtrs(refs);
}

void NiNode::GetChildIndices(std::vector<uint32_t>& indices) {
	NiAVObject::GetChildIndices(indices);

	childRefs.GetIndices(indices);
	effectRefs.GetIndices(indices);
}


void BSValueNode::Sync(NiStreamReversible& stream) {
	stream.Sync(value);
	stream.Sync(valueFlags);
}


void BSTreeNode::Sync(NiStreamReversible& stream) {
	bones1.Sync(stream);
	bones2.Sync(stream);
}

void BSTreeNode::GetChildRefs(std::set<NiRef*>& refs) {
	NiNode::GetChildRefs(refs);

	bones1.GetIndexPtrs(refs);
	bones2.GetIndexPtrs(refs);
}

void BSTreeNode::GetChildIndices(std::vector<uint32_t>& indices) {
	NiNode::GetChildIndices(indices);

	bones1.GetIndices(indices);
	bones2.GetIndices(indices);
}


void BSOrderedNode::Sync(NiStreamReversible& stream) {
	stream.Sync(alphaSortBound);
	stream.Sync(isStaticBound);
}


void BSMultiBoundOBB::Sync(NiStreamReversible& stream) {
	stream.Sync(center);
	stream.Sync(size);
	stream.Sync(rotation);
}


void BSMultiBoundAABB::Sync(NiStreamReversible& stream) {
	stream.Sync(center);
	stream.Sync(halfExtent);
}


void BSMultiBoundSphere::Sync(NiStreamReversible& stream) {
	stream.Sync(center);
	stream.Sync(radius);
}


void BSMultiBound::Sync(NiStreamReversible& stream) {
	dataRef.Sync(stream);
}

void BSMultiBound::GetChildRefs(std::set<NiRef*>& refs) {
	NiObject::GetChildRefs(refs);

	refs.insert(&dataRef);
}

void BSMultiBound::GetChildIndices(std::vector<uint32_t>& indices) {
	NiObject::GetChildIndices(indices);

	indices.push_back(dataRef.index);
}


void BSMultiBoundNode::Sync(NiStreamReversible& stream) {
	multiBoundRef.Sync(stream);

	if (stream.GetVersion().User() >= 12)
		stream.Sync(cullingMode);
}

void BSMultiBoundNode::GetChildRefs(std::set<NiRef*>& refs) {
	NiNode::GetChildRefs(refs);

	refs.insert(&multiBoundRef);
}

void BSMultiBoundNode::GetChildIndices(std::vector<uint32_t>& indices) {
	NiNode::GetChildIndices(indices);

	indices.push_back(multiBoundRef.index);
}


void BSDistantObjectInstancedNode::Sync(NiStreamReversible& stream) {
	instances.Sync(stream);

	for (int i = 0; i < 3; i++)
		textureArrays[i].Sync(stream);
}


void BSRangeNode::Sync(NiStreamReversible& stream) {
	stream.Sync(min);
	stream.Sync(max);
	stream.Sync(current);
}


void UnkMaterialStruct::Sync(NiStreamReversible& stream) {
	stream.Sync(biomeFormID);
	stream.Sync(dirHash);
	stream.Sync(fileHash);
	stream.SyncString(mat);
}

void BSWaterReferenceStruct::Sync(NiStreamReversible& stream) {
	stream.Sync(transform);
	stream.Sync(resourceID);
	stream.Sync(unkInt1);
	material.Sync(stream, 4);
}

void BSWeakReference::Sync(NiStreamReversible& stream) {
	if (stream.GetVersion().Stream() >= 173)
		stream.Sync(formID);

	stream.Sync(resourceID);
	stream.Sync(numTransforms);
	transforms.resize(numTransforms);
	for (uint32_t i = 0; i < numTransforms; i++)
		stream.Sync(transforms[i]);

	stream.Sync(numMaterials);
	unkMaterials.resize(numMaterials);
	for (uint32_t i = 0; i < numMaterials; i++)
		unkMaterials[i].Sync(stream);
}

void BSWeakReferenceNode::Sync(NiStreamReversible& stream) {
	stream.Sync(numWeakRefs);
	weakRefs.resize(numWeakRefs);
	for (uint32_t i = 0; i < numWeakRefs; i++)
		weakRefs[i].Sync(stream);

	stream.Sync(unkInt1);
	stream.Sync(numWaterRefs);
	waterRefs.resize(numWaterRefs);
	for (uint32_t i = 0; i < numWaterRefs; i++)
		waterRefs[i].Sync(stream);
}


void BSFaceGenNiNode::Sync(NiStreamReversible& stream) {
	stream.Sync(unkShort);
}


void NiBillboardNode::Sync(NiStreamReversible& stream) {
	stream.Sync(billboardMode);
}


void NiSwitchNode::Sync(NiStreamReversible& stream) {
	stream.Sync(flags);
	stream.Sync(index);
}


void NiRangeLODData::Sync(NiStreamReversible& stream) {
	stream.Sync(lodCenter);
	lodLevels.Sync(stream);
}


void NiScreenLODData::Sync(NiStreamReversible& stream) {
	stream.Sync(boundCenter);
	stream.Sync(boundRadius);
	stream.Sync(worldCenter);
	stream.Sync(worldRadius);
	proportionLevels.Sync(stream);
}


void NiLODNode::Sync(NiStreamReversible& stream) {
	lodLevelData.Sync(stream);
}

void NiLODNode::GetChildRefs(std::set<NiRef*>& refs) {
	NiSwitchNode::GetChildRefs(refs);

	refs.insert(&lodLevelData);
}

void NiLODNode::GetChildIndices(std::vector<uint32_t>& indices) {
	NiSwitchNode::GetChildIndices(indices);

	indices.push_back(lodLevelData.index);
}


void NiSortAdjustNode::Sync(NiStreamReversible& stream) {
	stream.Sync(sortingMode);
}
