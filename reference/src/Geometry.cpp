/*
nifly
C++ NIF library for the Gamebryo/NetImmerse File Format
See the included GPLv3 LICENSE file
*/

#include "Geometry.hpp"
#include "Nodes.hpp"
#include "Skin.hpp"

#include "KDMatcher.hpp"
#include "NifUtil.hpp"

#include <array>

using namespace nifly;

void NiAdditionalGeometryData::Sync(NiStreamReversible& stream) {
	stream.Sync(numVertices);

	blockInfos.Sync(stream);
	blocks.Sync(stream);
}


void BSPackedAdditionalGeometryData::Sync(NiStreamReversible& stream) {
	stream.Sync(numVertices);

	blockInfos.Sync(stream);
	blocks.Sync(stream);
}


void NiGeometryData::Sync(NiStreamReversible& stream) {
	if (stream.GetVersion().File() >= NiFileVersion::V10_1_0_114)
		stream.Sync(groupID);

	stream.Sync(numVertices);

	if (stream.GetVersion().File() >= NiFileVersion::V10_1_0_0) {
		stream.Sync(keepFlags);
		stream.Sync(compressFlags);
	}

	stream.Sync(hasVertices);

	if (hasVertices && (!isPSys || stream.GetVersion().File() < V20_2_0_7)) {
		vertices.resize(numVertices);
		for (uint16_t i = 0; i < numVertices; i++)
			stream.Sync(vertices[i]);
	}

	// Disable tangent flag for OB
	if (stream.GetVersion().IsOB())
		dataFlags &= ~(1 << 12);

	if (stream.GetVersion().File() >= NiFileVersion::V10_0_1_0)
		stream.Sync(dataFlags);

	uint16_t nbtMethod = dataFlags & 0xF000;
	uint8_t numTextureSets = dataFlags & 0x3F;
	if (stream.GetVersion().Stream() >= 34)
		numTextureSets = dataFlags & 0x1;

	if (stream.GetVersion().File() == NiFileVersion::V20_2_0_7 && stream.GetVersion().Stream() > 34)
		stream.Sync(materialCRC);

	stream.Sync(hasNormals);
	if (hasNormals && (!isPSys || stream.GetVersion().File() < V20_2_0_7)) {
		normals.resize(numVertices);

		for (uint16_t i = 0; i < numVertices; i++)
			stream.Sync(normals[i]);

		if (nbtMethod) {
			tangents.resize(numVertices);
			bitangents.resize(numVertices);

			for (uint16_t i = 0; i < numVertices; i++)
				stream.Sync(tangents[i]);

			for (uint16_t i = 0; i < numVertices; i++)
				stream.Sync(bitangents[i]);
		}
	}

	stream.Sync(bounds);

	stream.Sync(hasVertexColors);
	if (hasVertexColors && (!isPSys || stream.GetVersion().File() < V20_2_0_7)) {
		vertexColors.resize(numVertices);
		for (uint16_t i = 0; i < numVertices; i++)
			stream.Sync(vertexColors[i]);
	}

	if (numTextureSets > 0 && (!isPSys || stream.GetVersion().File() < V20_2_0_7)) {
		uvSets.resize(numTextureSets);
		for (uint32_t i = 0; i < numTextureSets; i++) {
			uvSets[i].resize(numVertices);
			for (uint16_t j = 0; j < numVertices; j++)
				stream.Sync(uvSets[i][j]);
		}
	}

	stream.Sync(consistencyFlags);

	if (stream.GetVersion().File() >= NiFileVersion::V20_0_0_4)
		additionalDataRef.Sync(stream);
}

void NiGeometryData::GetChildRefs(std::set<NiRef*>& refs) {
	NiObject::GetChildRefs(refs);

	refs.insert(&additionalDataRef);
}

void NiGeometryData::GetChildIndices(std::vector<uint32_t>& indices) {
	NiObject::GetChildIndices(indices);

	indices.push_back(additionalDataRef.index);
}

uint16_t NiGeometryData::GetNumVertices() const {
	return numVertices;
}

void NiGeometryData::SetVertices(const bool enable) {
	hasVertices = enable;
	if (enable) {
		vertices.resize(numVertices);
	}
	else {
		vertices.clear();
		numVertices = 0;

		SetNormals(false);
		SetVertexColors(false);
		SetUVs(false);
		SetTangents(false);
	}
}

void NiGeometryData::SetNormals(const bool enable) {
	hasNormals = enable;
	if (enable)
		normals.resize(numVertices);
	else
		normals.clear();
}

void NiGeometryData::SetVertexColors(const bool enable) {
	hasVertexColors = enable;
	if (enable)
		vertexColors.resize(numVertices, Color4(1.0f, 1.0f, 1.0f, 1.0f));
	else
		vertexColors.clear();
}

void NiGeometryData::SetUVs(const bool enable) {
	if (enable) {
		dataFlags |= 1 << 0;
		uvSets.resize(1);
		uvSets[0].resize(numVertices);
	}
	else {
		dataFlags &= ~(1 << 0);
		uvSets.clear();
	}
}

void NiGeometryData::SetTangents(const bool enable) {
	if (enable) {
		dataFlags |= 1 << 12;
		tangents.resize(numVertices);
		bitangents.resize(numVertices);
	}
	else {
		dataFlags &= ~(1 << 12);
		tangents.clear();
		bitangents.clear();
	}
}

uint32_t NiGeometryData::GetNumTriangles() const {
	return 0;
}
bool NiGeometryData::GetTriangles(std::vector<Triangle>&) const {
	return false;
}
void NiGeometryData::SetTriangles(const std::vector<Triangle>&){};

void NiGeometryData::UpdateBounds() {
	bounds = BoundingSphere(vertices);
}

void NiGeometryData::Create(NiVersion&,
							const std::vector<Vector3>* verts,
							const std::vector<Triangle>*,
							const std::vector<Vector2>* uvs,
							const std::vector<Vector3>* norms) {
	size_t vertCount = verts->size();
	constexpr uint16_t maxIndex = std::numeric_limits<uint16_t>::max();

	if (vertCount > static_cast<size_t>(maxIndex))
		numVertices = maxIndex;
	else
		numVertices = uint16_t(vertCount);

	vertices.resize(numVertices);
	for (uint16_t v = 0; v < numVertices; v++)
		vertices[v] = (*verts)[v];

	bounds = BoundingSphere(vertices);

	// Keep the vertex color array at the new vertex count
	SetVertexColors(hasVertexColors);

	if (uvs) {
		size_t uvCount = uvs->size();
		if (uvCount == numVertices) {
			SetUVs(true);

			for (size_t uv = 0; uv < uvSets[0].size(); uv++)
				uvSets[0][uv] = (*uvs)[uv];
		}
		else {
			SetUVs(false);
		}
	}
	else {
		SetUVs(false);
	}

	if (norms && norms->size() == numVertices) {
		SetNormals(true);
		normals = (*norms);
		CalcTangentSpace();
	}
	else {
		SetNormals(false);
		SetTangents(false);
	}
}

void NiGeometryData::notifyVerticesDelete(const std::vector<uint16_t>& vertIndices) {
	EraseVectorIndices(vertices, vertIndices);
	numVertices = static_cast<uint16_t>(vertices.size());
	if (!normals.empty())
		EraseVectorIndices(normals, vertIndices);
	if (!tangents.empty())
		EraseVectorIndices(tangents, vertIndices);
	if (!bitangents.empty())
		EraseVectorIndices(bitangents, vertIndices);
	if (!vertexColors.empty())
		EraseVectorIndices(vertexColors, vertIndices);
	for (auto& uvSet : uvSets)
		EraseVectorIndices(uvSet, vertIndices);
}

void NiGeometryData::RecalcNormals(const bool, const float, std::unordered_set<uint32_t>*) {
	SetNormals(true);
}

void NiGeometryData::CalcTangentSpace() {
	SetTangents(true);
}


uint16_t NiShape::GetNumVertices() const {
	auto geomData = GetGeomData();
	if (geomData)
		return geomData->GetNumVertices();

	return 0;
}

void NiShape::SetVertices(const bool enable) {
	auto geomData = GetGeomData();
	if (geomData)
		geomData->SetVertices(enable);
};

bool NiShape::HasVertices() const {
	auto geomData = GetGeomData();
	if (geomData)
		return geomData->HasVertices();

	return false;
};

void NiShape::SetUVs(const bool enable) {
	auto geomData = GetGeomData();
	if (geomData)
		geomData->SetUVs(enable);
};

bool NiShape::HasUVs() const {
	auto geomData = GetGeomData();
	if (geomData)
		return geomData->HasUVs();

	return false;
};

void NiShape::SetNormals(const bool enable) {
	auto geomData = GetGeomData();
	if (geomData)
		geomData->SetNormals(enable);
};

bool NiShape::HasNormals() const {
	auto geomData = GetGeomData();
	if (geomData)
		return geomData->HasNormals();

	return false;
};

void NiShape::SetTangents(const bool enable) {
	auto geomData = GetGeomData();
	if (geomData)
		geomData->SetTangents(enable);
};

bool NiShape::HasTangents() const {
	auto geomData = GetGeomData();
	if (geomData)
		return geomData->HasTangents();

	return false;
};

void NiShape::SetVertexColors(const bool enable) {
	auto geomData = GetGeomData();
	if (geomData)
		geomData->SetVertexColors(enable);
};

bool NiShape::HasVertexColors() const {
	auto geomData = GetGeomData();
	if (geomData)
		return geomData->HasVertexColors();

	return false;
};

void NiShape::SetSkinned(const bool){};
bool NiShape::IsSkinned() const {
	return false;
};

uint32_t NiShape::GetNumTriangles() const {
	auto geomData = GetGeomData();
	if (geomData)
		return geomData->GetNumTriangles();

	return 0;
}

bool NiShape::GetTriangles(std::vector<Triangle>& tris) const {
	auto geomData = GetGeomData();
	if (geomData)
		return geomData->GetTriangles(tris);

	return false;
};

void NiShape::SetTriangles(const std::vector<Triangle>& tris) {
	auto geomData = GetGeomData();
	if (geomData)
		geomData->SetTriangles(tris);
};

void NiShape::SetBounds(const BoundingSphere& bounds) {
	auto geomData = GetGeomData();
	if (geomData)
		geomData->SetBounds(bounds);
}

BoundingSphere NiShape::GetBounds() const {
	auto geomData = GetGeomData();
	if (geomData)
		return geomData->GetBounds();

	return BoundingSphere();
}

void NiShape::UpdateBounds() {
	auto geomData = GetGeomData();
	if (geomData)
		geomData->UpdateBounds();
}

int NiShape::GetBoneID(const NiHeader& hdr, const std::string& boneName) const {
	auto boneCont = hdr.GetBlock(SkinInstanceRef());
	if (boneCont) {
		int i = 0;
		for (auto& bone : boneCont->boneRefs) {
			auto node = hdr.GetBlock(bone);
			if (node && node->name == boneName)
				return i;
			++i;
		}
	}

	return NIF_NPOS;
}

bool NiShape::ReorderTriangles(const std::vector<uint32_t>& triInds) {
	std::vector<Triangle> trisOrdered;
	std::vector<Triangle> tris;
	if (!GetTriangles(tris))
		return false;

	if (tris.size() != triInds.size())
		return false;

	for (uint32_t id : triInds)
		if (id < tris.size())
			trisOrdered.push_back(tris[id]);

	if (trisOrdered.size() != tris.size())
		return false;

	SetTriangles(trisOrdered);
	return true;
}


BSTriShape::BSTriShape() {
	flags = 14;
	vertexDesc.SetFlag(VF_VERTEX);
	vertexDesc.SetFlag(VF_UV);
	vertexDesc.SetFlag(VF_NORMAL);
	vertexDesc.SetFlag(VF_TANGENT);
	vertexDesc.SetFlag(VF_SKINNED);
}

void BSTriShape::Sync(NiStreamReversible& stream) {
	stream.Sync(flags);
	stream.Sync(transform.translation);
	stream.Sync(transform.rotation);
	stream.Sync(transform.scale);

	collisionRef.Sync(stream);

	stream.Sync(bounds);

	if (stream.GetVersion().Stream() > 139)
		for (float& i : boundMinMax)
			stream.Sync(i);

	skinInstanceRef.Sync(stream);
	shaderPropertyRef.Sync(stream);
	alphaPropertyRef.Sync(stream);

	vertexDesc.Sync(stream);

	bool syncVertexData = true;

	if (stream.GetMode() == NiStreamReversible::Mode::Reading) {
		if (stream.GetVersion().User() >= 12 && stream.GetVersion().Stream() < 130) {
			uint16_t numTris = 0;
			stream.Sync(numTris);
			numTriangles = numTris;
		}
		else
			stream.Sync(numTriangles);
	}
	else {
		if (stream.GetVersion().User() >= 12 && stream.GetVersion().Stream() < 130) {
			if (IsSkinned()) {
				// Triangle and vertex data is in partition instead
				uint16_t numUShort = 0;
				uint32_t numUInt = 0;
				stream.Sync(numUShort);

				if (HasType<BSDynamicTriShape>())
					stream.Sync(numVertices);
				else
					stream.Sync(numUShort);

				stream.Sync(numUInt);
				syncVertexData = false;
			}
			else {
				auto numTris = static_cast<uint16_t>(numTriangles);
				stream.Sync(numTris);
			}
		}
		else
			stream.Sync(numTriangles);
	}

	if (syncVertexData) {
		stream.Sync(numVertices);
		stream.Sync(dataSize);

		vertData.resize(numVertices);

		if (dataSize > 0) {
			uint32_t vertexMainSize = vertexDesc.GetVertexMainSize();

			for (uint16_t i = 0; i < numVertices; i++) {
				auto& vertex = vertData[i];
				if (HasVertices() && vertexMainSize <= 16) {
					if (IsFullPrecision() || stream.GetVersion().Stream() == 100) {
						// Full precision (vert + bitangentX = 16 bytes)
						stream.Sync((char*) &vertex.vert, sizeof(vertex.vert) + sizeof(vertex.bitangentX));
					}
					else {
						// Half precision (vert + bitangentX = 8 bytes)
						stream.SyncHalf(vertex.vert.x);
						stream.SyncHalf(vertex.vert.y);
						stream.SyncHalf(vertex.vert.z);

						stream.SyncHalf(vertex.bitangentX);
					}
				}
				else if (vertexMainSize > 16) {
					// Full precision (vert = 12 bytes)
					stream.Sync((char*) &vertex.vert, sizeof(vertex.vert));

					// Variable length extra float elements
					uint32_t vertexExtraCount = (vertexMainSize - 16) / 4;
					if (vertexExtraCount > 0) {
						vertex.extra.resize(vertexExtraCount);
						for (uint32_t e = 0; e < vertexExtraCount; e++)
							stream.Sync(vertex.extra[e]);
					}

					// BitangentX after extra floats (bitangentX = 4 bytes)
					stream.Sync(vertex.bitangentX);
				}

				if (HasUVs()) {
					stream.SyncHalf(vertex.uv.u);
					stream.SyncHalf(vertex.uv.v);
				}

				if (HasNormals()) {
					// 3 normals + bitangentY = 4 bytes
					stream.Sync((char*) &vertex.normal, sizeof(vertex.normal) + sizeof(vertex.bitangentY));

					if (HasTangents()) {
						// 3 tangents + bitangentZ = 4 bytes
						stream.Sync((char*) &vertex.tangent,
									sizeof(vertex.tangent) + sizeof(vertex.bitangentZ));
					}
				}

				if (HasVertexColors()) {
					// 4 vertex colors = 4 bytes
					stream.Sync((char*) &vertex.colorData, sizeof(vertex.colorData));
				}

				if (IsSkinned()) {
					// 4 weights = 8 bytes
					for (float& weight : vertex.weights)
						stream.SyncHalf(weight);

					// 4 bones = 4 bytes
					stream.Sync((char*) &vertex.weightBones, sizeof(vertex.weightBones));
				}

				if (HasEyeData())
					stream.Sync(vertex.eyeData);
			}
		}

		triangles.resize(numTriangles);

		if (dataSize > 0) {
			for (uint32_t i = 0; i < numTriangles; i++)
				stream.Sync(triangles[i]);
		}
	}

	if (stream.GetVersion().User() == 12 && stream.GetVersion().Stream() == 100) {
		stream.Sync(particleDataSize);

		if (particleDataSize > 0) {
			particleVerts.resize(numVertices);
			particleNorms.resize(numVertices);
			particleTris.resize(numTriangles);

			for (uint16_t i = 0; i < numVertices; i++) {
				stream.SyncHalf(particleVerts[i].x);
				stream.SyncHalf(particleVerts[i].y);
				stream.SyncHalf(particleVerts[i].z);
			}

			for (uint16_t i = 0; i < numVertices; i++) {
				stream.SyncHalf(particleNorms[i].x);
				stream.SyncHalf(particleNorms[i].y);
				stream.SyncHalf(particleNorms[i].z);
			}

			for (uint32_t i = 0; i < numTriangles; i++)
				stream.Sync(particleTris[i]);
		}
	}
}

void BSTriShape::notifyVerticesDelete(const std::vector<uint16_t>& vertIndices) {
	deletedTris.clear();

	std::vector<int> indexCollapse = GenerateIndexCollapseMap(vertIndices, vertData.size());

	EraseVectorIndices(vertData, vertIndices);
	numVertices = static_cast<uint16_t>(vertData.size());

	ApplyMapToTriangles(triangles, indexCollapse, &deletedTris);
	numTriangles = static_cast<uint32_t>(triangles.size());

	std::sort(deletedTris.begin(), deletedTris.end(), std::greater<>());
}

void BSTriShape::GetChildRefs(std::set<NiRef*>& refs) {
	NiAVObject::GetChildRefs(refs);

	refs.insert(&skinInstanceRef);
	refs.insert(&shaderPropertyRef);
	refs.insert(&alphaPropertyRef);
}

void BSTriShape::GetChildIndices(std::vector<uint32_t>& indices) {
	NiAVObject::GetChildIndices(indices);

	indices.push_back(skinInstanceRef.index);
	indices.push_back(shaderPropertyRef.index);
	indices.push_back(alphaPropertyRef.index);
}

std::vector<Vector3>& BSTriShape::UpdateRawVertices() {
	rawVertices.resize(numVertices);

	for (uint16_t i = 0; i < numVertices; i++)
		rawVertices[i] = vertData[i].vert;

	return rawVertices;
}

std::vector<Vector3>& BSTriShape::UpdateRawNormals() {
	if (!HasNormals()) {
		rawNormals.clear();
		return rawNormals;
	}

	rawNormals.resize(numVertices);

	for (uint16_t i = 0; i < numVertices; i++) {
		rawNormals[i].x = ((static_cast<float>(vertData[i].normal[0])) / 255.0f) * 2.0f - 1.0f;
		rawNormals[i].y = ((static_cast<float>(vertData[i].normal[1])) / 255.0f) * 2.0f - 1.0f;
		rawNormals[i].z = ((static_cast<float>(vertData[i].normal[2])) / 255.0f) * 2.0f - 1.0f;
	}

	return rawNormals;
}

std::vector<Vector3>& BSTriShape::UpdateRawTangents() {
	if (!HasTangents()) {
		rawTangents.clear();
		return rawTangents;
	}

	rawTangents.resize(numVertices);
	for (uint16_t i = 0; i < numVertices; i++) {
		rawTangents[i].x = ((static_cast<float>(vertData[i].tangent[0])) / 255.0f) * 2.0f - 1.0f;
		rawTangents[i].y = ((static_cast<float>(vertData[i].tangent[1])) / 255.0f) * 2.0f - 1.0f;
		rawTangents[i].z = ((static_cast<float>(vertData[i].tangent[2])) / 255.0f) * 2.0f - 1.0f;
	}

	return rawTangents;
}

std::vector<Vector3>& BSTriShape::UpdateRawBitangents() {
	if (!HasTangents()) {
		rawBitangents.clear();
		return rawBitangents;
	}

	rawBitangents.resize(numVertices);
	for (uint16_t i = 0; i < numVertices; i++) {
		rawBitangents[i].x = vertData[i].bitangentX;
		rawBitangents[i].y = ((static_cast<float>(vertData[i].bitangentY)) / 255.0f) * 2.0f - 1.0f;
		rawBitangents[i].z = ((static_cast<float>(vertData[i].bitangentZ)) / 255.0f) * 2.0f - 1.0f;
	}

	return rawBitangents;
}

std::vector<Vector2>& BSTriShape::UpdateRawUvs() {
	if (!HasUVs()) {
		rawUvs.clear();
		return rawUvs;
	}

	rawUvs.resize(numVertices);

	for (uint16_t i = 0; i < numVertices; i++)
		rawUvs[i] = vertData[i].uv;

	return rawUvs;
}

std::vector<Color4>& BSTriShape::UpdateRawColors() {
	if (!HasVertexColors()) {
		rawColors.clear();
		return rawColors;
	}

	rawColors.resize(numVertices);

	for (uint16_t i = 0; i < numVertices; i++) {
		rawColors[i].r = vertData[i].colorData[0] / 255.0f;
		rawColors[i].g = vertData[i].colorData[1] / 255.0f;
		rawColors[i].b = vertData[i].colorData[2] / 255.0f;
		rawColors[i].a = vertData[i].colorData[3] / 255.0f;
	}

	return rawColors;
}

std::vector<float>& BSTriShape::UpdateRawEyeData() {
	if (!HasEyeData()) {
		rawEyeData.clear();
		return rawEyeData;
	}

	rawEyeData.resize(numVertices);

	for (uint16_t i = 0; i < numVertices; ++i)
		rawEyeData[i] = vertData[i].eyeData;

	return rawEyeData;
}

uint16_t BSTriShape::GetNumVertices() const {
	return numVertices;
}

void BSTriShape::SetVertices(const bool enable) {
	if (enable) {
		vertexDesc.SetFlag(VF_VERTEX);
		vertData.resize(numVertices);
	}
	else {
		vertexDesc.RemoveFlag(VF_VERTEX);
		vertData.clear();
		numVertices = 0;

		SetUVs(false);
		SetNormals(false);
		SetTangents(false);
		SetVertexColors(false);
		SetSkinned(false);
	}
}

void BSTriShape::SetUVs(const bool enable) {
	if (enable)
		vertexDesc.SetFlag(VF_UV);
	else
		vertexDesc.RemoveFlag(VF_UV);
}

void BSTriShape::SetSecondUVs(const bool enable) {
	if (enable)
		vertexDesc.SetFlag(VF_UV_2);
	else
		vertexDesc.RemoveFlag(VF_UV_2);
}

void BSTriShape::SetNormals(const bool enable) {
	if (enable)
		vertexDesc.SetFlag(VF_NORMAL);
	else
		vertexDesc.RemoveFlag(VF_NORMAL);
}

void BSTriShape::SetTangents(const bool enable) {
	if (enable)
		vertexDesc.SetFlag(VF_TANGENT);
	else
		vertexDesc.RemoveFlag(VF_TANGENT);
}

void BSTriShape::SetVertexColors(const bool enable) {
	if (enable) {
		if (!vertexDesc.HasFlag(VF_COLORS)) {
			for (auto& v : vertData) {
				v.colorData[0] = 255;
				v.colorData[1] = 255;
				v.colorData[2] = 255;
				v.colorData[3] = 255;
			}
		}

		vertexDesc.SetFlag(VF_COLORS);
	}
	else
		vertexDesc.RemoveFlag(VF_COLORS);
}

void BSTriShape::SetSkinned(const bool enable) {
	if (enable)
		vertexDesc.SetFlag(VF_SKINNED);
	else
		vertexDesc.RemoveFlag(VF_SKINNED);
}

void BSTriShape::SetEyeData(const bool enable) {
	if (enable)
		vertexDesc.SetFlag(VF_EYEDATA);
	else
		vertexDesc.RemoveFlag(VF_EYEDATA);
}

void BSTriShape::SetFullPrecision(const bool enable) {
	if (!CanChangePrecision())
		return;

	if (enable)
		vertexDesc.SetFlag(VF_FULLPREC);
	else
		vertexDesc.RemoveFlag(VF_FULLPREC);
}

uint32_t BSTriShape::GetNumTriangles() const {
	return numTriangles;
}

bool BSTriShape::GetTriangles(std::vector<Triangle>& tris) const {
	tris = triangles;
	return true;
}

void BSTriShape::SetTriangles(const std::vector<Triangle>& tris) {
	triangles = tris;
	numTriangles = static_cast<uint32_t>(triangles.size());
}

void BSTriShape::UpdateBounds() {
	UpdateRawVertices();
	bounds = BoundingSphere(rawVertices);
}

void BSTriShape::SetVertexData(const std::vector<BSVertexData>& bsVertData) {
	vertData = bsVertData;
	numVertices = static_cast<uint16_t>(vertData.size());
}

void BSTriShape::SetNormals(const std::vector<Vector3>& inNorms) {
	SetNormals(true);

	rawNormals.resize(numVertices);
	for (uint16_t i = 0; i < numVertices; i++) {
		rawNormals[i] = inNorms[i];
		vertData[i].normal[0] = static_cast<uint8_t>(std::round((((inNorms[i].x + 1.0f) / 2.0f) * 255.0f)));
		vertData[i].normal[1] = static_cast<uint8_t>(std::round((((inNorms[i].y + 1.0f) / 2.0f) * 255.0f)));
		vertData[i].normal[2] = static_cast<uint8_t>(std::round((((inNorms[i].z + 1.0f) / 2.0f) * 255.0f)));
	}
}

void BSTriShape::SetTangentData(const std::vector<Vector3>& in) {
	SetTangents(true);

	for (uint16_t i = 0; i < numVertices; i++) {
		vertData[i].tangent[0] = static_cast<uint8_t>(std::round((((in[i].x + 1.0f) / 2.0f) * 255.0f)));
		vertData[i].tangent[1] = static_cast<uint8_t>(std::round((((in[i].y + 1.0f) / 2.0f) * 255.0f)));
		vertData[i].tangent[2] = static_cast<uint8_t>(std::round((((in[i].z + 1.0f) / 2.0f) * 255.0f)));
	}
}

void BSTriShape::SetBitangentData(const std::vector<Vector3>& in) {
	SetTangents(true);

	for (uint16_t i = 0; i < numVertices; i++) {
		vertData[i].bitangentX = in[i].x;
		vertData[i].bitangentY = static_cast<uint8_t>(std::round((((in[i].y + 1.0f) / 2.0f) * 255.0f)));
		vertData[i].bitangentZ = static_cast<uint8_t>(std::round((((in[i].z + 1.0f) / 2.0f) * 255.0f)));
	}
}

void BSTriShape::SetEyeData(const std::vector<float>& in) {
	SetEyeData(true);

	for (uint16_t i = 0; i < numVertices; i++)
		vertData[i].eyeData = in[i];
}

static void CalculateNormals(const std::vector<Vector3>& verts,
							 const std::vector<Triangle>& tris,
							 std::vector<Vector3>& outNorms,
							 const bool smooth,
							 float smoothThresh,
							 std::unordered_set<uint32_t>* lockedIndices = nullptr) {
	std::vector<Vector3> norms;
	norms.resize(verts.size());

	// Face normals
	for (const Triangle& t : tris) {
		Vector3 tn = t.trinormal(verts);
		norms[t.p1] += tn;
		norms[t.p2] += tn;
		norms[t.p3] += tn;
	}

	for (Vector3& n : norms)
		n.Normalize();

	// Smooth normals
	if (smooth) {
		smoothThresh *= DEG2RAD;
		std::vector<Vector3> seamNorms;
		SortingMatcher matcher(verts.data(), static_cast<uint16_t>(verts.size()));
		for (const auto& matchset : matcher.matches) {
			seamNorms.resize(matchset.size());
			for (size_t j = 0; j < matchset.size(); ++j) {
				const Vector3& n = norms[matchset[j]];
				Vector3 sn = n;
				for (size_t k = 0; k < matchset.size(); ++k) {
					if (j == k)
						continue;
					const Vector3& mn = norms[matchset[k]];
					if (n.angle(mn) >= smoothThresh)
						continue;
					sn += mn;
				}
				sn.Normalize();
				seamNorms[j] = sn;
			}
			for (size_t j = 0; j < matchset.size(); ++j)
				norms[matchset[j]] = seamNorms[j];
		}
	}

	if (lockedIndices) {
		outNorms.resize(norms.size());

		// Move normals of indices that aren't locked only
		for (uint32_t i = 0; i < static_cast<uint32_t>(norms.size()); i++) {
			if (lockedIndices->find(i) == lockedIndices->end())
				outNorms[i] = std::move(norms[i]);
		}
	}
	else
		outNorms = std::move(norms);
}

void BSTriShape::RecalcNormals(const bool smooth,
							   const float smoothThresh,
							   std::unordered_set<uint32_t>* lockedIndices) {
	UpdateRawVertices();
	SetNormals(true);

	CalculateNormals(rawVertices, triangles, rawNormals, smooth, smoothThresh, lockedIndices);

	for (uint16_t i = 0; i < numVertices; i++) {
		if (lockedIndices) {
			// Skip locked indices (keep current normal)
			if (lockedIndices->find(i) != lockedIndices->end())
				continue;
		}

		vertData[i].normal[0] = static_cast<uint8_t>(std::round((((rawNormals[i].x + 1.0f) / 2.0f) * 255.0f)));
		vertData[i].normal[1] = static_cast<uint8_t>(std::round((((rawNormals[i].y + 1.0f) / 2.0f) * 255.0f)));
		vertData[i].normal[2] = static_cast<uint8_t>(std::round((((rawNormals[i].z + 1.0f) / 2.0f) * 255.0f)));
	}
}

void BSTriShape::CalcTangentSpace() {
	if (!HasNormals() || !HasUVs())
		return;

	UpdateRawNormals();
	SetTangents(true);

	std::vector<Vector3> tan1;
	std::vector<Vector3> tan2;
	tan1.resize(numVertices);
	tan2.resize(numVertices);

	for (auto& triangle : triangles) {
		int i1 = triangle.p1;
		int i2 = triangle.p2;
		int i3 = triangle.p3;

		if (i1 >= numVertices || i2 >= numVertices || i3 >= numVertices)
			continue;

		Vector3 v1 = vertData[i1].vert;
		Vector3 v2 = vertData[i2].vert;
		Vector3 v3 = vertData[i3].vert;

		Vector2 w1 = vertData[i1].uv;
		Vector2 w2 = vertData[i2].uv;
		Vector2 w3 = vertData[i3].uv;

		float x1 = v2.x - v1.x;
		float x2 = v3.x - v1.x;
		float y1 = v2.y - v1.y;
		float y2 = v3.y - v1.y;
		float z1 = v2.z - v1.z;
		float z2 = v3.z - v1.z;

		float s1 = w2.u - w1.u;
		float s2 = w3.u - w1.u;
		float t1 = w2.v - w1.v;
		float t2 = w3.v - w1.v;

		float r = (s1 * t2 - s2 * t1);
		r = (r >= 0.0f ? +1.0f : -1.0f);

		Vector3 sdir = Vector3((t2 * x1 - t1 * x2) * r, (t2 * y1 - t1 * y2) * r, (t2 * z1 - t1 * z2) * r);
		Vector3 tdir = Vector3((s1 * x2 - s2 * x1) * r, (s1 * y2 - s2 * y1) * r, (s1 * z2 - s2 * z1) * r);

		sdir.Normalize();
		tdir.Normalize();

		tan1[i1] += tdir;
		tan1[i2] += tdir;
		tan1[i3] += tdir;

		tan2[i1] += sdir;
		tan2[i2] += sdir;
		tan2[i3] += sdir;
	}

	rawBitangents.resize(numVertices);
	rawTangents.resize(numVertices);

	for (uint16_t i = 0; i < numVertices; i++) {
		rawTangents[i] = tan1[i];
		rawBitangents[i] = tan2[i];

		if (rawTangents[i].IsZero() || rawBitangents[i].IsZero()) {
			rawTangents[i].x = rawNormals[i].y;
			rawTangents[i].y = rawNormals[i].z;
			rawTangents[i].z = rawNormals[i].x;
			rawBitangents[i] = rawNormals[i].cross(rawTangents[i]);
		}
		else {
			rawTangents[i].Normalize();
			rawTangents[i] = (rawTangents[i] - rawNormals[i] * rawNormals[i].dot(rawTangents[i]));
			rawTangents[i].Normalize();

			rawBitangents[i].Normalize();

			rawBitangents[i] = (rawBitangents[i] - rawNormals[i] * rawNormals[i].dot(rawBitangents[i]));
			rawBitangents[i] = (rawBitangents[i] - rawTangents[i] * rawTangents[i].dot(rawBitangents[i]));

			rawBitangents[i].Normalize();
		}

		vertData[i].tangent[0] = static_cast<uint8_t>(
			std::round((((rawTangents[i].x + 1.0f) / 2.0f) * 255.0f)));
		vertData[i].tangent[1] = static_cast<uint8_t>(
			std::round((((rawTangents[i].y + 1.0f) / 2.0f) * 255.0f)));
		vertData[i].tangent[2] = static_cast<uint8_t>(
			std::round((((rawTangents[i].z + 1.0f) / 2.0f) * 255.0f)));

		vertData[i].bitangentX = rawBitangents[i].x;
		vertData[i].bitangentY = static_cast<uint8_t>(
			std::round((((rawBitangents[i].y + 1.0f) / 2.0f) * 255.0f)));
		vertData[i].bitangentZ = static_cast<uint8_t>(
			std::round((((rawBitangents[i].z + 1.0f) / 2.0f) * 255.0f)));
	}
}

int BSTriShape::CalcDataSizes(NiVersion& version) {
	vertexSize = 0;
	dataSize = 0;

	VertexFlags vf = vertexDesc.GetFlags();
	vertexDesc.ClearAttributeOffsets();

	std::array<uint32_t, VA_COUNT> attributeSizes{};
	if (HasVertices()) {
		if (IsFullPrecision() || version.Stream() == 100)
			attributeSizes[VA_POSITION] = 4;
		else
			attributeSizes[VA_POSITION] = 2;
	}

	if (!vertData.empty() && !vertData.front().extra.empty()) {
		// Add extra float elements to vertex size
		uint8_t extraCount = static_cast<uint8_t>(vertData.front().extra.size());
		if (extraCount > 0)
			attributeSizes[VA_POSITION] += extraCount;
	}

	if (HasUVs())
		attributeSizes[VA_TEXCOORD0] = 1;

	if (HasSecondUVs())
		attributeSizes[VA_TEXCOORD1] = 1;

	if (HasNormals()) {
		attributeSizes[VA_NORMAL] = 1;

		if (HasTangents())
			attributeSizes[VA_BINORMAL] = 1;
	}

	if (HasVertexColors())
		attributeSizes[VA_COLOR] = 1;

	if (IsSkinned())
		attributeSizes[VA_SKINNING] = 3;

	if (HasEyeData())
		attributeSizes[VA_EYEDATA] = 1;

	for (int va = 0; va < VA_COUNT; va++) {
		if (attributeSizes[va] != 0) {
			vertexDesc.SetAttributeOffset(VertexAttribute(va), vertexSize);
			vertexSize += attributeSizes[va] * 4;
		}
	}

	vertexDesc.SetSize(vertexSize);
	vertexDesc.SetFlags(vf);

	if (HasType<BSDynamicTriShape>())
		vertexDesc.MakeDynamic();

	dataSize = vertexSize * numVertices + 6 * numTriangles;

	return dataSize;
}

void BSTriShape::Create(NiVersion& version,
						const std::vector<Vector3>* verts,
						const std::vector<Triangle>* tris,
						const std::vector<Vector2>* uvs,
						const std::vector<Vector3>* normals) {
	constexpr uint16_t maxVertIndex = std::numeric_limits<uint16_t>::max();
	size_t vertCount = verts->size();
	if (vertCount > static_cast<size_t>(maxVertIndex))
		numVertices = maxVertIndex;
	else
		numVertices = uint16_t(vertCount);

	uint32_t maxTriIndex = std::numeric_limits<uint32_t>::max();
	if (version.User() >= 12 && version.Stream() < 130)
		maxTriIndex = std::numeric_limits<uint16_t>::max();

	size_t triCount = tris ? tris->size() : 0;
	if (numVertices == 0)
		numTriangles = 0;
	else if (triCount > static_cast<size_t>(maxTriIndex))
		numTriangles = maxTriIndex;
	else
		numTriangles = uint32_t(triCount);

	vertData.resize(numVertices);

	if (uvs && uvs->size() != numVertices)
		SetUVs(false);

	for (uint16_t i = 0; i < numVertices; i++) {
		auto& vertex = vertData[i];
		vertex.vert = (*verts)[i];

		if (uvs && uvs->size() == numVertices)
			vertex.uv = (*uvs)[i];

		vertex.bitangentX = 0.0f;
		vertex.bitangentY = 0;
		vertex.bitangentZ = 0;
		vertex.normal[0] = vertex.normal[1] = vertex.normal[2] = 0;
		std::memset(vertex.colorData, 255, 4);
		std::memset(vertex.weights, 0, sizeof(float) * 4);
		std::memset(vertex.weightBones, 0, 4);
		vertex.eyeData = 0.0f;
	}

	triangles.resize(numTriangles);
	for (uint32_t i = 0; i < numTriangles; i++)
		triangles[i] = (*tris)[i];

	UpdateRawVertices();
	bounds = BoundingSphere(rawVertices);

	if (normals && normals->size() == numVertices) {
		SetNormals(*normals);
		CalcTangentSpace();
	}
	else {
		SetNormals(false);
		SetTangents(false);
	}
}


void BSSubIndexTriShape::Sync(NiStreamReversible& stream) {
	if (stream.GetVersion().Stream() >= 130 && dataSize > 0) {
		stream.Sync(segmentation.numPrimitives);
		stream.Sync(segmentation.numSegments);
		stream.Sync(segmentation.numTotalSegments);

		segmentation.segments.resize(segmentation.numSegments);
		for (auto& segment : segmentation.segments) {
			stream.Sync(segment.startIndex);
			stream.Sync(segment.numPrimitives);
			stream.Sync(segment.parentArrayIndex);
			stream.Sync(segment.numSubSegments);

			segment.subSegments.resize(segment.numSubSegments);
			for (auto& subSegment : segment.subSegments) {
				stream.Sync(subSegment.startIndex);
				stream.Sync(subSegment.numPrimitives);
				stream.Sync(subSegment.arrayIndex);
				stream.Sync(subSegment.unkInt1);
			}
		}

		if (segmentation.numSegments < segmentation.numTotalSegments) {
			stream.Sync(segmentation.subSegmentData.numSegments);
			stream.Sync(segmentation.subSegmentData.numTotalSegments);

			segmentation.subSegmentData.arrayIndices.resize(segmentation.numSegments);
			for (auto& arrayIndex : segmentation.subSegmentData.arrayIndices)
				stream.Sync(arrayIndex);

			segmentation.subSegmentData.dataRecords.resize(segmentation.numTotalSegments);
			for (auto& dataRecord : segmentation.subSegmentData.dataRecords) {
				stream.Sync(dataRecord.userSlotID);
				stream.Sync(dataRecord.material);
				stream.Sync(dataRecord.numData);

				dataRecord.extraData.resize(dataRecord.numData);
				for (auto& data : dataRecord.extraData)
					stream.Sync(data);
			}

			segmentation.subSegmentData.ssfFile.Sync(stream, 2);
		}
	}
	else if (stream.GetVersion().Stream() == 100) {
		stream.Sync(numSegments);
		segments.resize(numSegments);

		for (auto& segment : segments)
			segment.Sync(stream);
	}
}

void BSSubIndexTriShape::notifyVerticesDelete(const std::vector<uint16_t>& vertIndices) {
	BSTriShape::notifyVerticesDelete(vertIndices);

	//Remove triangles from segments and re-fit lists
	segmentation.numPrimitives -= static_cast<uint32_t>(deletedTris.size());
	for (auto& segment : segmentation.segments) {
		// Delete primitives
		for (auto& id : deletedTris)
			if (segment.numPrimitives > 0 && id >= segment.startIndex / 3
				&& id < segment.startIndex / 3 + segment.numPrimitives)
				segment.numPrimitives--;

		// Align sub segments
		for (auto& subSegment : segment.subSegments)
			for (auto& id : deletedTris)
				if (subSegment.numPrimitives > 0 && id >= subSegment.startIndex / 3
					&& id < subSegment.startIndex / 3 + subSegment.numPrimitives)
					subSegment.numPrimitives--;
	}

	// Align segments
	size_t i = 0;
	for (auto& segment : segmentation.segments) {
		// Align sub segments
		// Triangles owned by the segment itself come before those of its sub segments
		uint32_t numOwnPrimitives = segment.numPrimitives;
		for (auto& subSegment : segment.subSegments)
			numOwnPrimitives -= subSegment.numPrimitives;

		size_t j = 0;
		for (auto& subSegment : segment.subSegments) {
			if (j == 0)
				subSegment.startIndex = segment.startIndex + numOwnPrimitives * 3;

			if (j + 1 >= segment.numSubSegments)
				continue;

			BSSITSSubSegment& nextSubSegment = segment.subSegments[j + 1];
			nextSubSegment.startIndex = subSegment.startIndex + subSegment.numPrimitives * 3;
			j++;
		}

		if (i + 1 >= segmentation.numSegments)
			continue;

		BSSITSSegment& nextSegment = segmentation.segments[i + 1];
		nextSegment.startIndex = segment.startIndex + segment.numPrimitives * 3;

		i++;
	}

	// Remove triangles from SSE segments
	for (auto& segment : segments) {
		for (auto& id : deletedTris)
			if (segment.numTris > 0 && id >= segment.index / 3 && id < segment.index / 3 + segment.numTris)
				segment.numTris--;
	}

	// Align SSE segments
	i = 0;
	for (auto& segment : segments) {
		if (i + 1 >= numSegments)
			continue;

		BSGeometrySegmentData& nextSegment = segments[i + 1];
		nextSegment.index = segment.index + segment.numTris * 3;

		i++;
	}
}

void BSSubIndexTriShape::SetDefaultSegments() {
	segmentation.numPrimitives = numTriangles;
	segmentation.numSegments = 4;
	segmentation.numTotalSegments = 4;

	segmentation.subSegmentData.numSegments = 0;
	segmentation.subSegmentData.numTotalSegments = 0;

	segmentation.subSegmentData.arrayIndices.clear();
	segmentation.subSegmentData.dataRecords.clear();
	segmentation.subSegmentData.ssfFile.clear();

	segmentation.segments.resize(4);
	for (uint32_t i = 0; i < 3; i++) {
		segmentation.segments[i].startIndex = 0;
		segmentation.segments[i].numPrimitives = 0;
		segmentation.segments[i].parentArrayIndex = 0xFFFFFFFF;
		segmentation.segments[i].numSubSegments = 0;
	}

	segmentation.segments[3].startIndex = 0;
	segmentation.segments[3].numPrimitives = numTriangles;
	segmentation.segments[3].parentArrayIndex = 0xFFFFFFFF;
	segmentation.segments[3].numSubSegments = 0;

	numSegments = 0;
	segments.clear();
}

void BSSubIndexTriShape::Create(NiVersion& version,
								const std::vector<Vector3>* verts,
								const std::vector<Triangle>* tris,
								const std::vector<Vector2>* uvs,
								const std::vector<Vector3>* normals) {
	BSTriShape::Create(version, verts, tris, uvs, normals);

	// Skinned most of the time
	SetSkinned(true);
	SetDefaultSegments();
}

std::vector<BSGeometrySegmentData> BSSubIndexTriShape::GetSegments() const {
	return segments;
}

void BSSubIndexTriShape::SetSegments(const std::vector<BSGeometrySegmentData>& sd) {
	segments = sd;
	numSegments = static_cast<uint32_t>(segments.size());
}

void BSSubIndexTriShape::GetSegmentation(NifSegmentationInfo& inf, std::vector<int>& triParts) const {
	inf.segs.clear();
	inf.ssfFile = segmentation.subSegmentData.ssfFile.get();
	inf.segs.resize(segmentation.segments.size());
	triParts.clear();

	uint32_t numTris = GetNumTriangles();
	triParts.resize(numTris, -1);

	int partID = 0;
	int arrayIndex = 0;

	for (size_t i = 0; i < segmentation.segments.size(); ++i) {
		const BSSITSSegment& seg = segmentation.segments[i];
		uint32_t startIndex = seg.startIndex / 3;
		uint32_t endIndex = std::min(numTris, startIndex + seg.numPrimitives);

		for (uint32_t id = startIndex; id < endIndex; id++)
			triParts[id] = partID;

		inf.segs[i].partID = partID++;
		inf.segs[i].subs.resize(seg.subSegments.size());

		for (size_t j = 0; j < seg.subSegments.size(); ++j) {
			const BSSITSSubSegment& sub = seg.subSegments[j];
			startIndex = sub.startIndex / 3;

			endIndex = std::min(numTris, startIndex + sub.numPrimitives);
			for (uint32_t id = startIndex; id < endIndex; id++)
				triParts[id] = partID;

			inf.segs[i].subs[j].partID = partID++;
			arrayIndex++;

			const BSSITSSubSegmentDataRecord& rec = segmentation.subSegmentData.dataRecords[arrayIndex];
			inf.segs[i].subs[j].userSlotID = rec.userSlotID < 30 ? 0 : rec.userSlotID;
			inf.segs[i].subs[j].material = rec.material;
			inf.segs[i].subs[j].extraData = rec.extraData;
		}
		arrayIndex++;
	}
}

void BSSubIndexTriShape::SetSegmentation(const NifSegmentationInfo& inf, const std::vector<int>& inTriParts) {
	uint32_t numTris = GetNumTriangles();
	if (inTriParts.size() != numTris)
		return;

	// Renumber partitions so that the partition IDs are increasing.
	int newPartID = 0;
	std::vector<int> oldToNewPartIDs;
	for (const NifSegmentInfo& seg : inf.segs) {
		if (seg.partID >= static_cast<int>(oldToNewPartIDs.size()))
			oldToNewPartIDs.resize(seg.partID + 1);
		oldToNewPartIDs[seg.partID] = newPartID++;

		for (const NifSubSegmentInfo& sub : seg.subs) {
			if (sub.partID >= static_cast<int>(oldToNewPartIDs.size()))
				oldToNewPartIDs.resize(sub.partID + 1);
			oldToNewPartIDs[sub.partID] = newPartID++;
		}
	}

	std::vector<int> triParts(numTris);
	for (uint32_t i = 0; i < numTris; ++i)
		if (inTriParts[i] >= 0)
			triParts[i] = oldToNewPartIDs[inTriParts[i]];

	// Sort triangles (via index) by partition ID
	std::vector<uint32_t> triInds(numTris);
	for (uint32_t i = 0; i < numTris; ++i)
		triInds[i] = i;

	std::stable_sort(triInds.begin(), triInds.end(), [&triParts](int i, int j) {
		return triParts[i] < triParts[j];
	});

	ReorderTriangles(triInds);
	// Note that triPart's indexing no longer matches triangle indexing.
	// triParts uses the old indexing.  triInds maps from new indexing to old.
	// So triParts[triInds[i]] is now the partition number of triangle i.

	// Find the index of the first triangle of each partition: partTriInds.
	// If p is the partition number, then partTriInds[p] will be the index
	// in tris of the first triangle of partition p.
	// The number of triangles in partition p will be
	// partTriInds[p + 1] - partTriInds[p].
	std::vector<uint32_t> partTriInds(newPartID + 1);
	int nextPartID = 0;
	for (uint32_t i = 0; i < numTris; ++i)
		while (triParts[triInds[i]] >= nextPartID)
			partTriInds[nextPartID++] = i;
	while (nextPartID < static_cast<int>(partTriInds.size()))
		partTriInds[nextPartID++] = numTris;

	segmentation = BSSITSSegmentation();
	uint32_t parentArrayIndex = 0;
	uint32_t segmentIndex = 0;
	int partID = 0;

	for (const NifSegmentInfo& seg : inf.segs) {
		// Create new segment
		segmentation.segments.emplace_back();
		BSSITSSegment& segment = segmentation.segments.back();
		uint32_t childCount = static_cast<uint32_t>(seg.subs.size());
		segment.numPrimitives = partTriInds[partID + childCount + 1] - partTriInds[partID];
		segment.startIndex = partTriInds[partID] * 3;
		segment.numSubSegments = childCount;
		++partID;

		// Create new segment data record
		BSSITSSubSegmentDataRecord segmentDataRecord;
		segmentDataRecord.userSlotID = segmentIndex;
		segmentation.subSegmentData.arrayIndices.push_back(parentArrayIndex);
		segmentation.subSegmentData.dataRecords.push_back(segmentDataRecord);

		uint32_t subSegmentNumber = 1;
		for (const NifSubSegmentInfo& sub : seg.subs) {
			// Create new subsegment
			segment.subSegments.emplace_back();
			BSSITSSubSegment& subSegment = segment.subSegments.back();
			subSegment.arrayIndex = parentArrayIndex;
			subSegment.numPrimitives = partTriInds[partID + 1] - partTriInds[partID];
			subSegment.startIndex = partTriInds[partID] * 3;
			++partID;

			// Create new subsegment data record
			BSSITSSubSegmentDataRecord subSegmentDataRecord;
			if (sub.userSlotID < 30)
				subSegmentDataRecord.userSlotID = subSegmentNumber++;
			else
				subSegmentDataRecord.userSlotID = sub.userSlotID;

			subSegmentDataRecord.material = sub.material;
			subSegmentDataRecord.numData = static_cast<uint32_t>(sub.extraData.size());
			subSegmentDataRecord.extraData = sub.extraData;
			segmentation.subSegmentData.dataRecords.push_back(subSegmentDataRecord);
		}

		parentArrayIndex += childCount + 1;
		++segmentIndex;
	}

	segmentation.numPrimitives = numTris;
	segmentation.numSegments = segmentIndex;
	segmentation.numTotalSegments = parentArrayIndex;
	segmentation.subSegmentData.numSegments = segmentIndex;
	segmentation.subSegmentData.numTotalSegments = parentArrayIndex;
	segmentation.subSegmentData.ssfFile.get() = inf.ssfFile;
}


void BSMeshLODTriShape::Sync(NiStreamReversible& stream) {
	stream.Sync(lodSize0);
	stream.Sync(lodSize1);
	stream.Sync(lodSize2);
}

void BSMeshLODTriShape::notifyVerticesDelete(const std::vector<uint16_t>& vertIndices) {
	BSTriShape::notifyVerticesDelete(vertIndices);

	// Force full LOD (workaround)
	lodSize0 = 0;
	lodSize1 = 0;
	lodSize2 = numTriangles;
}


BSDynamicTriShape::BSDynamicTriShape() {
	vertexDesc.RemoveFlag(VF_VERTEX);
	vertexDesc.SetFlag(VF_FULLPREC);

	dynamicDataSize = 0;
}

void BSDynamicTriShape::Sync(NiStreamReversible& stream) {
	stream.Sync(dynamicDataSize);

	dynamicData.resize(numVertices);
	for (uint16_t i = 0; i < numVertices; i++)
		stream.Sync(dynamicData[i]);
}

void BSDynamicTriShape::notifyVerticesDelete(const std::vector<uint16_t>& vertIndices) {
	BSTriShape::notifyVerticesDelete(vertIndices);

	EraseVectorIndices(dynamicData, vertIndices);
	// Size in bytes (16 per vertex), as in CalcDynamicData
	dynamicDataSize = static_cast<uint32_t>(dynamicData.size()) * 16;
}

void BSDynamicTriShape::CalcDynamicData() {
	dynamicDataSize = numVertices * 16;

	dynamicData.resize(numVertices);
	for (uint16_t i = 0; i < numVertices; i++) {
		auto& vertex = vertData[i];
		dynamicData[i].x = vertex.vert.x;
		dynamicData[i].y = vertex.vert.y;
		dynamicData[i].z = vertex.vert.z;
		dynamicData[i].w = vertex.bitangentX;

		if (dynamicData[i].x > 0.0f)
			vertex.eyeData = 1.0f;
		else
			vertex.eyeData = 0.0f;
	}
}

void BSDynamicTriShape::Create(NiVersion& version,
							   const std::vector<Vector3>* verts,
							   const std::vector<Triangle>* tris,
							   const std::vector<Vector2>* uvs,
							   const std::vector<Vector3>* normals) {
	BSTriShape::Create(version, verts, tris, uvs, normals);

	constexpr uint32_t maxIndex = std::numeric_limits<uint32_t>::max();
	size_t vertCount = verts->size();
	if (vertCount > static_cast<size_t>(maxIndex))
		dynamicDataSize = maxIndex;
	else
		dynamicDataSize = uint32_t(vertCount);

	dynamicData.resize(dynamicDataSize);
	for (uint32_t i = 0; i < dynamicDataSize; i++) {
		dynamicData[i].x = (*verts)[i].x;
		dynamicData[i].y = (*verts)[i].y;
		dynamicData[i].z = (*verts)[i].z;
		dynamicData[i].w = 0.0f;
	}
}

void BSGeometryMeshData::Sync(NiStreamReversible& stream) {
	// verts, normals, vertcolors are always present, though it's possible the counts are 0
	SetVertices(true);
	SetNormals(true);
	SetTangents(true);
	SetVertexColors(true);

	stream.Sync(version);
	if (version > 2)
		return;

	stream.Sync(nTriIndices);
	tris.resize(nTriIndices / 3);
	for (uint32_t t = 0; t < nTriIndices / 3; t++)
		stream.Sync(tris[t]);

	stream.Sync(scale);
	if (scale <= 0.0f)
		return;

	stream.Sync(nWeightsPerVert);

	stream.Sync(nVertices);
	// maybe not a good idea to do the below, in case some meshes have over 65k verts, however since
	// triangles still use 16 bit indices, the total count must still fit under that limit ...
	numVertices = (uint16_t) nVertices;
	vertices.resize(nVertices);
	for (uint32_t v = 0; v < nVertices; v++) {
		if (stream.GetMode() == NiStreamReversible::Mode::Reading) {
			auto unpack = [&](const float posScale) -> float {
				int16_t val;
				stream.Sync(val);
				if (val < 0)
					return static_cast<float>((val / 32768.0) * scale * posScale);
				else
					return static_cast<float>((val / 32767.0) * scale * posScale);
			};

			vertices[v].x = unpack(havokScale);
			vertices[v].y = unpack(havokScale);
			vertices[v].z = unpack(havokScale);
		}
		else {
			auto pack = [&](float component, float posScale) {
				uint16_t factor;
				if (component < 0)
					factor = 32768;
				else
					factor = 32767;

				uint16_t val = (uint16_t) ((component / (scale * posScale)) * factor);
				stream.Sync(val);
			};

			pack(vertices[v].x, havokScale);
			pack(vertices[v].y, havokScale);
			pack(vertices[v].z, havokScale);
		}
	}

	stream.Sync(nUV1);
	if (nUV1 > 0)
		SetUVs(true);

	uvSets.resize(2);

	uvSets[0].resize(nUV1);
	for (uint32_t uv = 0; uv < nUV1; uv++) {
		stream.SyncHalf(uvSets[0][uv].u);
		stream.SyncHalf(uvSets[0][uv].v);
	}

	stream.Sync(nUV2);
	uvSets[1].resize(nUV2);
	for (uint32_t uv = 0; uv < nUV2; uv++) {
		stream.SyncHalf(uvSets[1][uv].u);
		stream.SyncHalf(uvSets[1][uv].v);
	}

	stream.Sync(nColors);
	vColors.resize(nColors);
	for (uint32_t c = 0; c < nColors; c++)
		stream.Sync(vColors[c]);

	stream.Sync(nNormals);
	normals.resize(nNormals);
	for (uint32_t n = 0; n < nNormals; n++)
		stream.SyncUDEC3(normals[n]);

	stream.Sync(nTangents);
	tangents.resize(nTangents);
	for (uint32_t t = 0; t < nTangents; t++) {
		stream.SyncUDEC3(tangents[t]);
		// need to calculate tangent basis and bitangents on read?
	}

	stream.Sync(nTotalWeights);
	if (nWeightsPerVert > 0)
		skinWeights.resize(nTotalWeights / nWeightsPerVert);

	for (auto& vw : skinWeights) {
		vw.resize(nWeightsPerVert);
		for (auto& bw : vw)
			stream.Sync(bw);
	}

	stream.Sync(nLODS);
	lods.resize(nLODS);
	for (auto& lod : lods) {
		uint32_t nLodTriIndices = static_cast<uint32_t>(lod.size() * 3);
		stream.Sync(nLodTriIndices);

		lod.resize(nLodTriIndices / 3);
		for (auto& lodTri : lod)
			stream.Sync(lodTri);
	}

	stream.Sync(nMeshlets);
	meshletList.resize(nMeshlets);
	for (auto& meshlet : meshletList) {
		stream.Sync(meshlet.vertCount);
		stream.Sync(meshlet.vertOffset);
		stream.Sync(meshlet.primCount);
		stream.Sync(meshlet.primOffset);
	}

	stream.Sync(nCullData);
	cullDataList.resize(nCullData);
	for (auto& cullData : cullDataList) {
		stream.Sync(cullData.center);
		stream.Sync(cullData.expand);
	}
}

void BSGeometryMesh::Sync(NiStreamReversible& stream) {
	stream.Sync(triSize);
	stream.Sync(numVerts);
	stream.Sync(flags);
	meshName.Sync(stream, 4);
}

void BSGeometry::Sync(NiStreamReversible& stream) {
	stream.Sync(bounds);

	for (float& i : boundMinMax)
		stream.Sync(i);

	skinInstanceRef.Sync(stream);
	shaderPropertyRef.Sync(stream);
	alphaPropertyRef.Sync(stream);

	if (stream.GetMode() == NiStreamReversible::Mode::Reading)
		meshes.clear();

	size_t meshCount = meshes.size();
	for (uint32_t i = 0; i < 4; i++) {
		uint8_t testByte = i < meshCount;
		stream.Sync(testByte);
		if (testByte) {
			if (stream.GetMode() == NiStreamReversible::Mode::Reading) {
				BSGeometryMesh mesh{};
				meshes.push_back(mesh);
			}
			meshes[i].Sync(stream);
		}
	}
}

void BSGeometry::GetChildRefs(std::set<NiRef*>& refs) {
	NiAVObject::GetChildRefs(refs);

	refs.insert(&skinInstanceRef);
	refs.insert(&shaderPropertyRef);
	refs.insert(&alphaPropertyRef);
}

void BSGeometry::GetChildIndices(std::vector<uint32_t>& indices) {
	NiAVObject::GetChildIndices(indices);

	indices.push_back(skinInstanceRef.index);
	indices.push_back(shaderPropertyRef.index);
	indices.push_back(alphaPropertyRef.index);
}


NiGeometryData* BSGeometry::GetGeomData() const {
	if (meshes.size() > selectedMesh) {
		// Breaking const correctness here to cast to the desired level of the class heirarchy.
		//   Perhaps NiShape GetGeomData should return a const* or it shouldn't be a const function? 
		return dynamic_cast<NiGeometryData*>(const_cast<BSGeometryMeshData*>(&meshes[selectedMesh].meshData));
	}
	return nullptr;
}


bool BSGeometry::GetTriangles(std::vector<Triangle>& tris) const {
	if (meshes.size() > selectedMesh) {
		tris = meshes[selectedMesh].meshData.tris;
		return true;
	}

	return false;
}

void BSGeometry::SetTriangles(const std::vector<Triangle>& tris) {
	if (meshes.size() > selectedMesh) {
		meshes[selectedMesh].meshData.tris = tris;
	}
}


void NiGeometry::Sync(NiStreamReversible& stream) {
	dataRef.Sync(stream);
	skinInstanceRef.Sync(stream);

	if (stream.GetVersion().File() >= V20_2_0_5) {
		uint32_t numMaterials = materialNames.Sync(stream);
		materialExtraData.SyncData(stream, numMaterials);

		stream.Sync(activeMaterial);
	}
	else {
		stream.Sync(shader);

		if (shader) {
			shaderName.Sync(stream);
			stream.Sync(implementation);
		}
	}

	if (stream.GetVersion().File() >= V20_2_0_7)
		stream.Sync(defaultMatNeedsUpdateFlag);

	if (stream.GetVersion().Stream() > 34) {
		shaderPropertyRef.Sync(stream);
		alphaPropertyRef.Sync(stream);
	}
}

void NiGeometry::GetStringRefs(std::vector<NiStringRef*>& refs) {
	NiAVObject::GetStringRefs(refs);

	for (auto& mn : materialNames)
		refs.emplace_back(&mn);
}

void NiGeometry::GetChildRefs(std::set<NiRef*>& refs) {
	NiAVObject::GetChildRefs(refs);

	refs.insert(&dataRef);
	refs.insert(&skinInstanceRef);
	refs.insert(&shaderPropertyRef);
	refs.insert(&alphaPropertyRef);
}

void NiGeometry::GetChildIndices(std::vector<uint32_t>& indices) {
	NiAVObject::GetChildIndices(indices);

	indices.push_back(dataRef.index);
	indices.push_back(skinInstanceRef.index);
	indices.push_back(shaderPropertyRef.index);
	indices.push_back(alphaPropertyRef.index);
}

bool NiGeometry::IsSkinned() const {
	return !skinInstanceRef.IsEmpty();
}


void NiTriBasedGeomData::Sync(NiStreamReversible& stream) {
	stream.Sync(numTriangles);
}

void NiTriBasedGeomData::Create(NiVersion& version,
								const std::vector<Vector3>* verts,
								const std::vector<Triangle>* inTris,
								const std::vector<Vector2>* uvs,
								const std::vector<Vector3>* norms) {
	NiGeometryData::Create(version, verts, inTris, uvs, norms);

	if (inTris) {
		constexpr uint16_t maxIndex = std::numeric_limits<uint16_t>::max();
		size_t triCount = inTris ? inTris->size() : 0;

		if (numVertices == 0)
			numTriangles = 0;
		else if (triCount > static_cast<size_t>(maxIndex))
			numTriangles = maxIndex;
		else
			numTriangles = uint16_t(triCount);
	}
}


void NiTriShapeData::Sync(NiStreamReversible& stream) {
	stream.Sync(numTrianglePoints);
	stream.Sync(hasTriangles);

	if (hasTriangles) {
		triangles.resize(numTriangles);
		for (uint32_t i = 0; i < numTriangles; i++)
			stream.Sync(triangles[i]);
	}

	stream.Sync(numMatchGroups);
	matchGroups.resize(numMatchGroups);

	for (uint32_t i = 0; i < numMatchGroups; i++) {
		auto& mg = matchGroups[i];

		stream.Sync(mg.count);
		mg.matches.resize(mg.count);

		for (uint32_t j = 0; j < mg.count; j++)
			stream.Sync(mg.matches[j]);
	}

	// Not supported yet, so clear it again after reading
	matchGroups.clear();
	numMatchGroups = 0;
}

void NiTriShapeData::Create(NiVersion& version,
							const std::vector<Vector3>* verts,
							const std::vector<Triangle>* inTris,
							const std::vector<Vector2>* uvs,
							const std::vector<Vector3>* norms) {
	NiTriBasedGeomData::Create(version, verts, inTris, uvs, norms);

	if (numTriangles > 0) {
		numTrianglePoints = numTriangles * 3;
		hasTriangles = true;
	}
	else {
		numTrianglePoints = 0;
		hasTriangles = false;
	}

	if (inTris) {
		triangles.resize(numTriangles);
		for (uint16_t t = 0; t < numTriangles; t++)
			triangles[t] = (*inTris)[t];
	}

	numMatchGroups = 0;

	// Calculate again, now with triangles
	CalcTangentSpace();
}

void NiTriShapeData::notifyVerticesDelete(const std::vector<uint16_t>& vertIndices) {
	std::vector<int> indexCollapse = GenerateIndexCollapseMap(vertIndices, vertices.size());
	ApplyMapToTriangles(triangles, indexCollapse);
	numTriangles = static_cast<uint16_t>(triangles.size());
	numTrianglePoints = 3 * numTriangles;

	NiTriBasedGeomData::notifyVerticesDelete(vertIndices);
}

std::vector<MatchGroup> NiTriShapeData::GetMatchGroups() const {
	return matchGroups;
}

void NiTriShapeData::SetMatchGroups(const std::vector<MatchGroup>& mg) {
	matchGroups = mg;
	numMatchGroups = static_cast<uint16_t>(matchGroups.size());
}

uint32_t NiTriShapeData::GetNumTriangles() const {
	return numTriangles;
}

bool NiTriShapeData::GetTriangles(std::vector<Triangle>& tris) const {
	tris = triangles;
	return hasTriangles;
}

void NiTriShapeData::SetTriangles(const std::vector<Triangle>& tris) {
	hasTriangles = true;
	triangles = tris;
	numTriangles = static_cast<uint16_t>(triangles.size());
	numTrianglePoints = numTriangles * 3;
}

void NiTriShapeData::RecalcNormals(const bool smooth,
								   const float smoothThresh,
								   std::unordered_set<uint32_t>* lockedIndices) {
	if (!HasNormals())
		return;

	NiTriBasedGeomData::RecalcNormals();

	CalculateNormals(vertices, triangles, normals, smooth, smoothThresh, lockedIndices);
}

void NiTriShapeData::CalcTangentSpace() {
	if (!HasNormals() || !HasUVs())
		return;

	NiTriBasedGeomData::CalcTangentSpace();

	std::vector<Vector3> tan1;
	std::vector<Vector3> tan2;
	tan1.resize(numVertices);
	tan2.resize(numVertices);

	for (uint32_t i = 0; i < numTriangles; i++) {
		int i1 = triangles[i].p1;
		int i2 = triangles[i].p2;
		int i3 = triangles[i].p3;

		if (i1 >= numVertices || i2 >= numVertices || i3 >= numVertices)
			continue;

		Vector3 v1 = vertices[i1];
		Vector3 v2 = vertices[i2];
		Vector3 v3 = vertices[i3];

		Vector2 w1 = uvSets[0][i1];
		Vector2 w2 = uvSets[0][i2];
		Vector2 w3 = uvSets[0][i3];

		float x1 = v2.x - v1.x;
		float x2 = v3.x - v1.x;
		float y1 = v2.y - v1.y;
		float y2 = v3.y - v1.y;
		float z1 = v2.z - v1.z;
		float z2 = v3.z - v1.z;

		float s1 = w2.u - w1.u;
		float s2 = w3.u - w1.u;
		float t1 = w2.v - w1.v;
		float t2 = w3.v - w1.v;

		float r = (s1 * t2 - s2 * t1);
		r = (r >= 0.0f ? +1.0f : -1.0f);

		Vector3 sdir = Vector3((t2 * x1 - t1 * x2) * r, (t2 * y1 - t1 * y2) * r, (t2 * z1 - t1 * z2) * r);
		Vector3 tdir = Vector3((s1 * x2 - s2 * x1) * r, (s1 * y2 - s2 * y1) * r, (s1 * z2 - s2 * z1) * r);

		sdir.Normalize();
		tdir.Normalize();

		tan1[i1] += sdir;
		tan1[i2] += sdir;
		tan1[i3] += sdir;

		tan2[i1] += tdir;
		tan2[i2] += tdir;
		tan2[i3] += tdir;
	}

	for (uint16_t i = 0; i < numVertices; i++) {
		bitangents[i] = tan1[i];
		tangents[i] = tan2[i];

		if (tangents[i].IsZero() || bitangents[i].IsZero()) {
			tangents[i].x = normals[i].y;
			tangents[i].y = normals[i].z;
			tangents[i].z = normals[i].x;
			bitangents[i] = normals[i].cross(tangents[i]);
		}
		else {
			tangents[i].Normalize();
			tangents[i] = (tangents[i] - normals[i] * normals[i].dot(tangents[i]));
			tangents[i].Normalize();

			bitangents[i].Normalize();

			bitangents[i] = (bitangents[i] - normals[i] * normals[i].dot(bitangents[i]));
			bitangents[i] = (bitangents[i] - tangents[i] * tangents[i].dot(bitangents[i]));

			bitangents[i].Normalize();
		}
	}
}


NiGeometryData* NiTriShape::GetGeomData() const {
	return shapeData;
};

void NiTriShape::SetGeomData(NiGeometryData* geomDataPtr) {
	auto geomData = dynamic_cast<NiTriShapeData*>(geomDataPtr);
	if (geomData)
		shapeData = geomData;
}


void StripsInfo::Sync(NiStreamReversible& stream) {
	stripLengths.Sync(stream);

	if (stream.GetVersion().File() >= NiFileVersion::V10_0_1_3)
		stream.Sync(hasPoints);
	else
		hasPoints = true;

	if (hasPoints) {
		points.resize(stripLengths.size());
		for (uint16_t i = 0; i < stripLengths.size(); i++) {
			points[i].resize(stripLengths[i]);
			for (uint16_t j = 0; j < stripLengths[i]; j++)
				stream.Sync(points[i][j]);
		}
	}
}


void NiTriStripsData::Sync(NiStreamReversible& stream) {
	stripsInfo.Sync(stream);
}

void NiTriStripsData::notifyVerticesDelete(const std::vector<uint16_t>& vertIndices) {
	std::vector<int> indexCollapse = GenerateIndexCollapseMap(vertIndices, vertices.size());

	NiTriBasedGeomData::notifyVerticesDelete(vertIndices);

	// This is not a healthy way to delete strip data. Probably need to restrip the shape.
	for (uint16_t i = 0; i < stripsInfo.stripLengths.size(); i++) {
		for (uint16_t j = 0; j < stripsInfo.stripLengths[i]; j++) {
			if (indexCollapse[stripsInfo.points[i][j]] == -1) {
				stripsInfo.points[i].erase(stripsInfo.points[i].begin() + j);
				stripsInfo.stripLengths[i]--;
				--j;
			}
			else
				stripsInfo.points[i][j] = static_cast<uint16_t>(indexCollapse[stripsInfo.points[i][j]]);
		}
	}

	numTriangles = 0;
	for (auto len : stripsInfo.stripLengths)
		if (len - 2 > 0)
			numTriangles += len - 2;
}

uint32_t NiTriStripsData::GetNumTriangles() const {
	return static_cast<uint32_t>(StripsToTris().size());
}

bool NiTriStripsData::GetTriangles(std::vector<Triangle>& tris) const {
	tris = StripsToTris();
	return stripsInfo.hasPoints;
}

void NiTriStripsData::SetTriangles(const std::vector<Triangle>& /*tris*/) {
	// Not implemented, stripify here
}

std::vector<Triangle> NiTriStripsData::StripsToTris() const {
	return GenerateTrianglesFromStrips(stripsInfo.points);
}

void NiTriStripsData::RecalcNormals(const bool smooth,
									const float smoothThresh,
									std::unordered_set<uint32_t>* lockedIndices) {
	if (!HasNormals())
		return;

	NiTriBasedGeomData::RecalcNormals();

	std::vector<Triangle> tris = StripsToTris();

	CalculateNormals(vertices, tris, normals, smooth, smoothThresh, lockedIndices);
}

void NiTriStripsData::CalcTangentSpace() {
	if (!HasNormals() || !HasUVs())
		return;

	NiTriBasedGeomData::CalcTangentSpace();

	std::vector<Vector3> tan1;
	std::vector<Vector3> tan2;
	tan1.resize(numVertices);
	tan2.resize(numVertices);

	std::vector<Triangle> tris = StripsToTris();

	for (auto& tri : tris) {
		int i1 = tri.p1;
		int i2 = tri.p2;
		int i3 = tri.p3;

		if (i1 >= numVertices || i2 >= numVertices || i3 >= numVertices)
			continue;

		Vector3 v1 = vertices[i1];
		Vector3 v2 = vertices[i2];
		Vector3 v3 = vertices[i3];

		Vector2 w1 = uvSets[0][i1];
		Vector2 w2 = uvSets[0][i2];
		Vector2 w3 = uvSets[0][i3];

		float x1 = v2.x - v1.x;
		float x2 = v3.x - v1.x;
		float y1 = v2.y - v1.y;
		float y2 = v3.y - v1.y;
		float z1 = v2.z - v1.z;
		float z2 = v3.z - v1.z;

		float s1 = w2.u - w1.u;
		float s2 = w3.u - w1.u;
		float t1 = w2.v - w1.v;
		float t2 = w3.v - w1.v;

		float r = (s1 * t2 - s2 * t1);
		r = (r >= 0.0f ? +1.0f : -1.0f);

		Vector3 sdir = Vector3((t2 * x1 - t1 * x2) * r, (t2 * y1 - t1 * y2) * r, (t2 * z1 - t1 * z2) * r);
		Vector3 tdir = Vector3((s1 * x2 - s2 * x1) * r, (s1 * y2 - s2 * y1) * r, (s1 * z2 - s2 * z1) * r);

		sdir.Normalize();
		tdir.Normalize();

		tan1[i1] += sdir;
		tan1[i2] += sdir;
		tan1[i3] += sdir;

		tan2[i1] += tdir;
		tan2[i2] += tdir;
		tan2[i3] += tdir;
	}

	for (uint16_t i = 0; i < numVertices; i++) {
		bitangents[i] = tan1[i];
		tangents[i] = tan2[i];

		if (tangents[i].IsZero() || bitangents[i].IsZero()) {
			tangents[i].x = normals[i].y;
			tangents[i].y = normals[i].z;
			tangents[i].z = normals[i].x;
			bitangents[i] = normals[i].cross(tangents[i]);
		}
		else {
			tangents[i].Normalize();
			tangents[i] = (tangents[i] - normals[i] * normals[i].dot(tangents[i]));
			tangents[i].Normalize();

			bitangents[i].Normalize();

			bitangents[i] = (bitangents[i] - normals[i] * normals[i].dot(bitangents[i]));
			bitangents[i] = (bitangents[i] - tangents[i] * tangents[i].dot(bitangents[i]));

			bitangents[i].Normalize();
		}
	}
}


NiGeometryData* NiTriStrips::GetGeomData() const {
	return stripsData;
};

void NiTriStrips::SetGeomData(NiGeometryData* geomDataPtr) {
	auto geomData = dynamic_cast<NiTriStripsData*>(geomDataPtr);
	if (geomData)
		stripsData = geomData;
}


void NiLinesData::Sync(NiStreamReversible& stream) {
	lineFlags.resize(numVertices);
	for (uint16_t i = 0; i < numVertices; i++)
		stream.Sync(lineFlags[i]);
}

void NiLinesData::notifyVerticesDelete(const std::vector<uint16_t>& vertIndices) {
	NiGeometryData::notifyVerticesDelete(vertIndices);

	EraseVectorIndices(lineFlags, vertIndices);
}


NiGeometryData* NiLines::GetGeomData() const {
	return linesData;
}

void NiLines::SetGeomData(NiGeometryData* geomDataPtr) {
	auto geomData = dynamic_cast<NiLinesData*>(geomDataPtr);
	if (geomData)
		linesData = geomData;
}


void NiScreenElementsData::Sync(NiStreamReversible& stream) {
	stream.Sync(maxPolygons);
	polygons.resize(maxPolygons);
	for (uint32_t i = 0; i < maxPolygons; i++)
		stream.Sync(polygons[i]);

	polygonIndices.resize(maxPolygons);
	for (uint32_t i = 0; i < maxPolygons; i++)
		stream.Sync(polygonIndices[i]);

	stream.Sync(polygonGrowBy);
	stream.Sync(numPolygons);
	stream.Sync(maxVertices);
	stream.Sync(verticesGrowBy);
	stream.Sync(maxIndices);
	stream.Sync(indicesGrowBy);
}

void NiScreenElementsData::notifyVerticesDelete(const std::vector<uint16_t>& vertIndices) {
	NiTriShapeData::notifyVerticesDelete(vertIndices);

	// Clearing as workaround
	maxPolygons = 0;
	polygons.clear();
	polygonIndices.clear();
	numPolygons = 0;
	maxVertices = 0;
	maxIndices = 0;
}


NiGeometryData* NiScreenElements::GetGeomData() const {
	return elemData;
}

void NiScreenElements::SetGeomData(NiGeometryData* geomDataPtr) {
	auto geomData = dynamic_cast<NiScreenElementsData*>(geomDataPtr);
	if (geomData)
		elemData = geomData;
}


void BSLODTriShape::Sync(NiStreamReversible& stream) {
	stream.Sync(level0);
	stream.Sync(level1);
	stream.Sync(level2);
}

NiGeometryData* BSLODTriShape::GetGeomData() const {
	return shapeData;
}

void BSLODTriShape::SetGeomData(NiGeometryData* geomDataPtr) {
	auto geomData = dynamic_cast<NiTriShapeData*>(geomDataPtr);
	if (geomData)
		shapeData = geomData;
}


void BSGeometrySegmentData::Sync(NiStreamReversible& stream) {
	stream.Sync(flags);
	stream.Sync(index);
	stream.Sync(numTris);
}


void BSSegmentedTriShape::Sync(NiStreamReversible& stream) {
	stream.Sync(numSegments);
	segments.resize(numSegments);

	for (auto& segment : segments)
		segment.Sync(stream);
}

std::vector<BSGeometrySegmentData> BSSegmentedTriShape::GetSegments() const {
	return segments;
}

void BSSegmentedTriShape::SetSegments(const std::vector<BSGeometrySegmentData>& sd) {
	segments = sd;
	numSegments = static_cast<uint32_t>(segments.size());
}
