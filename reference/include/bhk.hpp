/*
nifly
C++ NIF library for the Gamebryo/NetImmerse File Format
See the included GPLv3 LICENSE file
*/

#pragma once

#include "Animation.hpp"
#include "BasicTypes.hpp"
#include "ExtraData.hpp"

namespace nifly {
using HavokMaterial = uint32_t;

struct HavokFilter {
	uint8_t layer = 1;
	uint8_t flagsAndParts = 0;
	uint16_t group = 0;
};

struct hkWorldObjCInfoProperty {
	uint32_t data = 0;
	uint32_t size = 0;
	uint32_t capacityAndFlags = 0x80000000;
};

enum MotorType : uint8_t { MOTOR_NONE = 0, MOTOR_POSITION = 1, MOTOR_VELOCITY = 2, MOTOR_SPRING = 3 };

struct bhkLimitedForceConstraintMotor {
	float minForce = -1000000.0f;
	float maxForce = 1000000.0f;
	bool motorEnabled = false;
};

struct bhkPositionConstraintMotor : bhkLimitedForceConstraintMotor {
	float tau = 0.8f;
	float damping = 1.0f;
	float proportionalRecoveryVelocity = 2.0f;
	float constantRecoveryVelocity = 1.0f;

	void Sync(NiStreamReversible& stream) {
		stream.Sync(minForce);
		stream.Sync(maxForce);
		stream.Sync(tau);
		stream.Sync(damping);
		stream.Sync(proportionalRecoveryVelocity);
		stream.Sync(constantRecoveryVelocity);
		stream.Sync(motorEnabled);
	}
};

struct bhkVelocityConstraintMotor : bhkLimitedForceConstraintMotor {
	float tau = 0.0f;
	float velocityTarget = 0.0f;
	bool useVelocityTargetFromConstraintTargets = 0.0f;

	void Sync(NiStreamReversible& stream) {
		stream.Sync(minForce);
		stream.Sync(maxForce);
		stream.Sync(tau);
		stream.Sync(velocityTarget);
		stream.Sync(useVelocityTargetFromConstraintTargets);
		stream.Sync(motorEnabled);
	}
};

struct bhkSpringDamperConstraintMotor : bhkLimitedForceConstraintMotor {
	float springConstant = 0.0f;
	float springDamping = 0.0f;

	void Sync(NiStreamReversible& stream) {
		stream.Sync(minForce);
		stream.Sync(maxForce);
		stream.Sync(springConstant);
		stream.Sync(springDamping);
		stream.Sync(motorEnabled);
	}
};

struct MotorDesc {
	MotorType motorType = MOTOR_NONE;
	bhkPositionConstraintMotor motorPosition;
	bhkVelocityConstraintMotor motorVelocity;
	bhkSpringDamperConstraintMotor motorSpringDamper;

	void Sync(NiStreamReversible& stream) {
		stream.Sync(motorType);

		switch (motorType) {
			case MOTOR_POSITION: motorPosition.Sync(stream); break;
			case MOTOR_VELOCITY: motorVelocity.Sync(stream); break;
			case MOTOR_SPRING: motorSpringDamper.Sync(stream); break;
			case MOTOR_NONE: break;
		}
	}
};

struct HingeDesc {
	Vector4 axleA;
	Vector4 axleInA1;
	Vector4 axleInA2;
	Vector4 pivotA;
	Vector4 axleB;
	Vector4 axleInB1;
	Vector4 axleInB2;
	Vector4 pivotB;

	void Sync(NiStreamReversible& stream) {
		if (stream.GetVersion().File() <= NiFileVersion::V20_0_0_5) {
			stream.Sync(pivotA);
			stream.Sync(axleInA1);
			stream.Sync(axleInA2);
			stream.Sync(pivotB);
			stream.Sync(axleB);
		}
		else if (stream.GetVersion().File() >= NiFileVersion::V20_2_0_7) {
			stream.Sync(axleA);
			stream.Sync(axleInA1);
			stream.Sync(axleInA2);
			stream.Sync(pivotA);
			stream.Sync(axleB);
			stream.Sync(axleInB1);
			stream.Sync(axleInB2);
			stream.Sync(pivotB);
		}
	}
};

struct LimitedHingeDesc {
	Vector4 axleA;
	Vector4 axleInA1;
	Vector4 axleInA2;
	Vector4 pivotA;
	Vector4 axleB;
	Vector4 axleInB1;
	Vector4 axleInB2;
	Vector4 pivotB;
	float minAngle = 0.0f;
	float maxAngle = 0.0f;
	float maxFriction = 0.0f;
	MotorDesc motorDesc;

	void Sync(NiStreamReversible& stream) {
		if (stream.GetVersion().Stream() <= 16) {
			stream.Sync(pivotA);
			stream.Sync(axleA);
			stream.Sync(axleInA1);
			stream.Sync(axleInA2);
			stream.Sync(pivotB);
			stream.Sync(axleB);
			stream.Sync(axleInB2);
		}
		else {
			stream.Sync(axleA);
			stream.Sync(axleInA1);
			stream.Sync(axleInA2);
			stream.Sync(pivotA);
			stream.Sync(axleB);
			stream.Sync(axleInB1);
			stream.Sync(axleInB2);
			stream.Sync(pivotB);
		}

		stream.Sync(minAngle);
		stream.Sync(maxAngle);
		stream.Sync(maxFriction);

		if (stream.GetVersion().File() >= NiFileVersion::V20_2_0_7 && stream.GetVersion().Stream() > 16)
			motorDesc.Sync(stream);
	}
};

struct RagdollDesc {
	Vector4 twistA;
	Vector4 planeA;
	Vector4 motorA;
	Vector4 pivotA;
	Vector4 twistB;
	Vector4 planeB;
	Vector4 motorB;
	Vector4 pivotB;
	float coneMaxAngle = 0.0f;
	float planeMinAngle = 0.0f;
	float planeMaxAngle = 0.0f;
	float twistMinAngle = 0.0f;
	float twistMaxAngle = 0.0f;
	float maxFriction = 0.0f;
	MotorDesc motorDesc;

	void Sync(NiStreamReversible& stream) {
		if (stream.GetVersion().Stream() <= 16) {
			stream.Sync(pivotA);
			stream.Sync(planeA);
			stream.Sync(twistA);
			stream.Sync(pivotB);
			stream.Sync(planeB);
			stream.Sync(twistB);
		}
		else {
			stream.Sync(twistA);
			stream.Sync(planeA);
			stream.Sync(motorA);
			stream.Sync(pivotA);
			stream.Sync(twistB);
			stream.Sync(planeB);
			stream.Sync(motorB);
			stream.Sync(pivotB);
		}

		stream.Sync(coneMaxAngle);
		stream.Sync(planeMinAngle);
		stream.Sync(planeMaxAngle);
		stream.Sync(twistMinAngle);
		stream.Sync(twistMaxAngle);
		stream.Sync(maxFriction);

		if (stream.GetVersion().File() >= NiFileVersion::V20_2_0_7 && stream.GetVersion().Stream() > 16)
			motorDesc.Sync(stream);
	}
};

struct StiffSpringDesc {
	Vector4 pivotA;
	Vector4 pivotB;
	float length = 0.0f;
};

struct BallAndSocketDesc {
	Vector4 translationA;
	Vector4 translationB;
};

struct PrismaticDesc {
	Vector4 slidingA;
	Vector4 rotationA;
	Vector4 planeA;
	Vector4 pivotA;
	Vector4 slidingB;
	Vector4 rotationB;
	Vector4 planeB;
	Vector4 pivotB;
	float minDistance = 0.0f;
	float maxDistance = 0.0f;
	float friction = 0.0f;
	MotorDesc motorDesc;

	void Sync(NiStreamReversible& stream) {
		if (stream.GetVersion().File() <= NiFileVersion::V20_0_0_5) {
			stream.Sync(pivotA);
			stream.Sync(rotationA);
			stream.Sync(planeA);
			stream.Sync(slidingA);
			stream.Sync(slidingB);
			stream.Sync(pivotB);
			stream.Sync(rotationB);
			stream.Sync(planeB);
		}
		else if (stream.GetVersion().File() >= NiFileVersion::V20_2_0_7) {
			stream.Sync(slidingA);
			stream.Sync(rotationA);
			stream.Sync(planeA);
			stream.Sync(pivotA);
			stream.Sync(slidingB);
			stream.Sync(rotationB);
			stream.Sync(planeB);
			stream.Sync(pivotB);
		}

		stream.Sync(minDistance);
		stream.Sync(maxDistance);
		stream.Sync(friction);

		if (stream.GetVersion().File() >= NiFileVersion::V20_2_0_7 && stream.GetVersion().Stream() > 16)
			motorDesc.Sync(stream);
	}
};

enum hkConstraintType : uint32_t {
	BallAndSocket = 0,
	Hinge = 1,
	LimitedHinge = 2,
	Prismatic = 6,
	Ragdoll = 7,
	StiffSpring = 8
};

struct bhkCMSDMaterial {
	HavokMaterial material = 0;
	HavokFilter layer;
};

class bhkCMSDBigTris {
public:
	uint16_t triangle1 = 0;
	uint16_t triangle2 = 0;
	uint16_t triangle3 = 0;
	HavokMaterial material = 0;
	uint16_t weldingInfo = 0;

	void Sync(NiStreamReversible& stream) {
		stream.Sync(triangle1);
		stream.Sync(triangle2);
		stream.Sync(triangle3);
		stream.Sync(material);
		stream.Sync(weldingInfo);
	}
};

struct bhkCMSDTransform {
	Vector4 translation;
	QuaternionXYZW rotation;
};

class bhkCMSDChunk {
public:
	Vector4 translation;
	uint32_t matIndex = 0;
	uint16_t reference = 0;
	uint16_t transformIndex = 0;

	NiVector<uint16_t> verts;
	NiVector<uint16_t> indices;
	NiVector<uint16_t> strips;
	NiVector<uint16_t> weldingInfo;

	void Sync(NiStreamReversible& stream) {
		stream.Sync(translation);
		stream.Sync(matIndex);
		stream.Sync(reference);
		stream.Sync(transformIndex);

		verts.Sync(stream);
		indices.Sync(stream);
		strips.Sync(stream);
		weldingInfo.Sync(stream);
	}
};

class NiAVObject;

class NiCollisionObject : public NiCloneableStreamable<NiCollisionObject, NiObject> {
public:
	NiBlockPtr<NiAVObject> targetRef;

	static constexpr const char* BlockName = "NiCollisionObject";
	const char* GetBlockName() override { return BlockName; }

	void Sync(NiStreamReversible& stream);
	void GetPtrs(std::set<NiPtr*>& ptrs) override;
};

enum PropagationMode : uint32_t {
	PROPAGATE_ON_SUCCESS,
	PROPAGATE_ON_FAILURE,
	PROPAGATE_ALWAYS,
	PROPAGATE_NEVER
};

enum CollisionMode : uint32_t { CM_USE_OBB, CM_USE_TRI, CM_USE_ABV, CM_NOTEST, CM_USE_NIBOUND };

enum BoundVolumeType : uint32_t {
	BASE_BV = 0xFFFFFFFF,
	SPHERE_BV = 0,
	BOX_BV = 1,
	CAPSULE_BV = 2,
	UNION_BV = 4,
	HALFSPACE_BV = 5
};

struct BoxBV {
	Vector3 center;
	Vector3 axis1;
	Vector3 axis2;
	Vector3 axis3;
	float extent1 = 0.0f;
	float extent2 = 0.0f;
	float extent3 = 0.0f;
};

struct CapsuleBV {
	Vector3 center;
	Vector3 origin;
	float extent = 0.0f;
	float radius = 0.0f;
};

struct HalfSpaceBV {
	NiPlane plane;
	Vector3 center;
};

struct UnionBV;

struct BoundingVolume {
	BoundVolumeType collisionType = BASE_BV;
	BoundingSphere bvSphere;
	BoxBV bvBox;
	CapsuleBV bvCapsule;
	std::unique_ptr<UnionBV> bvUnion = std::make_unique<UnionBV>();
	HalfSpaceBV bvHalfSpace;

	BoundingVolume() = default;

	BoundingVolume(const BoundingVolume& other)
		: collisionType(other.collisionType)
		, bvSphere(other.bvSphere)
		, bvBox(other.bvBox)
		, bvCapsule(other.bvCapsule)
		, bvUnion(std::make_unique<UnionBV>(*other.bvUnion))
		, bvHalfSpace(other.bvHalfSpace) {}

	void Sync(NiStreamReversible& stream);
};

struct UnionBV {
	uint32_t numBV = 0;
	std::vector<BoundingVolume> boundingVolumes;

	void Sync(NiStreamReversible& stream) {
		stream.Sync(numBV);
		boundingVolumes.resize(numBV);
		for (uint32_t i = 0; i < numBV; i++)
			boundingVolumes[i].Sync(stream);
	}
};

class NiCollisionData : public NiCloneableStreamable<NiCollisionData, NiCollisionObject> {
public:
	PropagationMode propagationMode = PROPAGATE_ON_SUCCESS;
	CollisionMode collisionMode = CM_USE_OBB;
	bool useABV = false;
	BoundingVolume boundingVolume;

	static constexpr const char* BlockName = "NiCollisionData";
	const char* GetBlockName() override { return BlockName; }

	void Sync(NiStreamReversible& stream);
};

class bhkNiCollisionObject : public NiCloneableStreamable<bhkNiCollisionObject, NiCollisionObject> {
public:
	uint16_t flags = 1;
	NiBlockRef<NiObject> bodyRef;

	static constexpr const char* BlockName = "bhkNiCollisionObject";
	const char* GetBlockName() override { return BlockName; }

	void Sync(NiStreamReversible& stream);
	void GetChildRefs(std::set<NiRef*>& refs) override;
	void GetChildIndices(std::vector<uint32_t>& indices) override;
};

class bhkCollisionObject : public NiCloneable<bhkCollisionObject, bhkNiCollisionObject> {
public:
	static constexpr const char* BlockName = "bhkCollisionObject";
	const char* GetBlockName() override { return BlockName; }
};

class bhkNPCollisionObject : public NiCloneableStreamable<bhkNPCollisionObject, bhkCollisionObject> {
public:
	uint32_t bodyID = 0;

	static constexpr const char* BlockName = "bhkNPCollisionObject";
	const char* GetBlockName() override { return BlockName; }

	void Sync(NiStreamReversible& stream);
};

class bhkPCollisionObject : public NiCloneable<bhkPCollisionObject, bhkNiCollisionObject> {
public:
	static constexpr const char* BlockName = "bhkPCollisionObject";
	const char* GetBlockName() override { return BlockName; }
};

class bhkSPCollisionObject : public NiCloneable<bhkSPCollisionObject, bhkPCollisionObject> {
public:
	static constexpr const char* BlockName = "bhkSPCollisionObject";
	const char* GetBlockName() override { return BlockName; }
};

class bhkBlendCollisionObject : public NiCloneableStreamable<bhkBlendCollisionObject, bhkCollisionObject> {
public:
	float heirGain = 0.0f;
	float velGain = 0.0f;

	static constexpr const char* BlockName = "bhkBlendCollisionObject";
	const char* GetBlockName() override { return BlockName; }

	void Sync(NiStreamReversible& stream);
};

class bhkPhysicsSystem : public NiCloneableStreamable<bhkPhysicsSystem, BSExtraData> {
public:
	NiVector<char> data;

	bhkPhysicsSystem(const uint32_t size = 0);

	static constexpr const char* BlockName = "bhkPhysicsSystem";
	const char* GetBlockName() override { return BlockName; }

	void Sync(NiStreamReversible& stream);
};

class bhkRagdollSystem : public NiCloneableStreamable<bhkRagdollSystem, BSExtraData> {
public:
	NiVector<char> data;

	bhkRagdollSystem(const uint32_t size = 0);

	static constexpr const char* BlockName = "bhkRagdollSystem";
	const char* GetBlockName() override { return BlockName; }

	void Sync(NiStreamReversible& stream);
};

class bhkBlendController : public NiCloneableStreamable<bhkBlendController, NiTimeController> {
public:
	uint32_t keys = 0;

	static constexpr const char* BlockName = "bhkBlendController";
	const char* GetBlockName() override { return BlockName; }

	void Sync(NiStreamReversible& stream);
};

class bhkRefObject : public NiCloneable<bhkRefObject, NiObject> {};

class bhkSerializable : public NiCloneable<bhkSerializable, bhkRefObject> {};

class bhkShape : public NiCloneable<bhkShape, bhkSerializable> {
public:
	virtual HavokMaterial GetMaterial() const { return 0; }
	virtual void SetMaterial(HavokMaterial) {}
};

class bhkHeightFieldShape : public NiCloneableStreamable<bhkHeightFieldShape, bhkShape> {
protected:
	HavokMaterial material = 0;

public:
	void Sync(NiStreamReversible& stream);

	HavokMaterial GetMaterial() const override { return material; }
	void SetMaterial(HavokMaterial mat) override { material = mat; }
};

class bhkPlaneShape : public NiCloneableStreamable<bhkPlaneShape, bhkHeightFieldShape> {
protected:
public:
	Vector3 unkVec;
	NiPlane plane;
	Vector4 halfExtents;
	Vector4 center;

	static constexpr const char* BlockName = "bhkPlaneShape";
	const char* GetBlockName() override { return BlockName; }

	void Sync(NiStreamReversible& stream);
};

class bhkSphereRepShape : public NiCloneableStreamable<bhkSphereRepShape, bhkShape> {
protected:
	HavokMaterial material = 0;

public:
	void Sync(NiStreamReversible& stream);

	HavokMaterial GetMaterial() const override { return material; }
	void SetMaterial(HavokMaterial mat) override { material = mat; }
};

class bhkConvexShape : public NiCloneableStreamable<bhkConvexShape, bhkSphereRepShape> {
public:
	float radius = 0.0f;

	void Sync(NiStreamReversible& stream);
};

class bhkMultiSphereShape : public NiCloneableStreamable<bhkMultiSphereShape, bhkSphereRepShape> {
public:
	hkWorldObjCInfoProperty shapeProperty;
	NiVector<BoundingSphere> spheres;

	static constexpr const char* BlockName = "bhkMultiSphereShape";
	const char* GetBlockName() override { return BlockName; }

	void Sync(NiStreamReversible& stream);
};

class bhkConvexListShape : public NiCloneableStreamable<bhkConvexListShape, bhkShape> {
public:
	NiBlockRefArray<bhkConvexShape> shapeRefs;
	HavokMaterial material = 0;
	float radius = 0.0f;
	uint32_t unkInt1 = 0;
	float unkFloat1 = 0.0f;
	hkWorldObjCInfoProperty childShapeProp;
	bool useCachedAABB = false;
	float closestPointMinDistance = 0.0f;

	static constexpr const char* BlockName = "bhkConvexListShape";
	const char* GetBlockName() override { return BlockName; }

	void Sync(NiStreamReversible& stream);
	void GetChildRefs(std::set<NiRef*>& refs) override;
	void GetChildIndices(std::vector<uint32_t>& indices) override;
};

class bhkConvexVerticesShape : public NiCloneableStreamable<bhkConvexVerticesShape, bhkConvexShape> {
public:
	hkWorldObjCInfoProperty vertsProp;
	hkWorldObjCInfoProperty normalsProp;

	NiVector<Vector4> verts;
	NiVector<Vector4> normals;

	static constexpr const char* BlockName = "bhkConvexVerticesShape";
	const char* GetBlockName() override { return BlockName; }

	void Sync(NiStreamReversible& stream);
};

class bhkBoxShape : public NiCloneableStreamable<bhkBoxShape, bhkConvexShape> {
private:
	uint64_t padding = 0;

public:
	Vector3 dimensions;
	float radius2 = 0.0f;

	static constexpr const char* BlockName = "bhkBoxShape";
	const char* GetBlockName() override { return BlockName; }

	void Sync(NiStreamReversible& stream);
};

class bhkSphereShape : public NiCloneable<bhkSphereShape, bhkConvexShape> {
public:
	static constexpr const char* BlockName = "bhkSphereShape";
	const char* GetBlockName() override { return BlockName; }
};

class bhkCylinderShape : public NiCloneableStreamable<bhkCylinderShape, bhkConvexShape> {
private:
	uint8_t unused1[8]{};
	uint8_t unused2[12]{};

public:
	Vector4 vertexA;
	Vector4 vertexB;
	float cylinderRadius = 0.0f;

	static constexpr const char* BlockName = "bhkCylinderShape";
	const char* GetBlockName() override { return BlockName; }

	void Sync(NiStreamReversible& stream);
};

class bhkTransformShape : public NiCloneableStreamable<bhkTransformShape, bhkShape> {
private:
	uint64_t padding = 0;

public:
	NiBlockRef<bhkShape> shapeRef;
	HavokMaterial material = 0;
	float radius = 0.0f;
	Matrix4 xform;

	static constexpr const char* BlockName = "bhkTransformShape";
	const char* GetBlockName() override { return BlockName; }

	void Sync(NiStreamReversible& stream);
	void GetChildRefs(std::set<NiRef*>& refs) override;
	void GetChildIndices(std::vector<uint32_t>& indices) override;
};

class bhkConvexTransformShape : public NiCloneable<bhkConvexTransformShape, bhkTransformShape> {
public:
	static constexpr const char* BlockName = "bhkConvexTransformShape";
	const char* GetBlockName() override { return BlockName; }
};

class bhkCapsuleShape : public NiCloneableStreamable<bhkCapsuleShape, bhkConvexShape> {
private:
	uint64_t padding = 0;

public:
	Vector3 point1;
	float radius1 = 0.0f;
	Vector3 point2;
	float radius2 = 0.0f;

	static constexpr const char* BlockName = "bhkCapsuleShape";
	const char* GetBlockName() override { return BlockName; }

	void Sync(NiStreamReversible& stream);
};

class bhkBvTreeShape : public NiCloneable<bhkBvTreeShape, bhkShape> {};

class bhkMoppBvTreeShape : public NiCloneableStreamable<bhkMoppBvTreeShape, bhkBvTreeShape> {
public:
	NiBlockRef<bhkShape> shapeRef;
	uint32_t userData = 0;
	uint32_t shapeCollection = 0;
	uint32_t code = 0;
	float scale = 0.0f;
	NiVector<uint8_t> data;
	Vector4 offset;
	uint8_t buildType = 2; // User Version >= 12

	static constexpr const char* BlockName = "bhkMoppBvTreeShape";
	const char* GetBlockName() override { return BlockName; }

	void Sync(NiStreamReversible& stream);
	void GetChildRefs(std::set<NiRef*>& refs) override;
	void GetChildIndices(std::vector<uint32_t>& indices) override;
};

class NiTriStripsData;

class bhkNiTriStripsShape : public NiCloneableStreamable<bhkNiTriStripsShape, bhkShape> {
protected:
	HavokMaterial material = 0;

public:
	float radius = 0.1f;
	uint32_t unused1 = 0;
	uint32_t unused2 = 0;
	uint32_t unused3 = 0;
	uint32_t unused4 = 0;
	uint32_t unused5 = 0;
	uint32_t growBy = 1;
	Vector4 scale = Vector4(1.0f, 1.0f, 1.0f, 1.0f);

	NiBlockRefArray<NiTriStripsData> partRefs;
	NiVector<uint32_t> filters;

	static constexpr const char* BlockName = "bhkNiTriStripsShape";
	const char* GetBlockName() override { return BlockName; }

	void Sync(NiStreamReversible& stream);
	void GetChildRefs(std::set<NiRef*>& refs) override;
	void GetChildIndices(std::vector<uint32_t>& indices) override;

	HavokMaterial GetMaterial() const override { return material; }
	void SetMaterial(HavokMaterial mat) override { material = mat; }
};

class bhkShapeCollection : public NiCloneable<bhkShapeCollection, bhkShape> {};

class bhkListShape : public NiCloneableStreamable<bhkListShape, bhkShapeCollection> {
protected:
	HavokMaterial material = 0;

public:
	NiBlockRefArray<bhkShape> subShapeRefs;
	hkWorldObjCInfoProperty childShapeProp;
	hkWorldObjCInfoProperty childFilterProp;
	NiVector<HavokFilter> filters;

	static constexpr const char* BlockName = "bhkListShape";
	const char* GetBlockName() override { return BlockName; }

	void Sync(NiStreamReversible& stream);
	void GetChildRefs(std::set<NiRef*>& refs) override;
	void GetChildIndices(std::vector<uint32_t>& indices) override;

	HavokMaterial GetMaterial() const override { return material; }
	void SetMaterial(HavokMaterial mat) override { material = mat; }
};

struct hkTriangleData {
	Triangle tri;
	uint16_t weldingInfo = 0;
};

struct hkTriangleNormalData {
	Triangle tri;
	uint16_t weldingInfo = 0;
	Vector3 normal;
};

struct hkSubPartData {
	HavokFilter filter;
	uint32_t numVerts = 0;
	HavokMaterial material = 0;
};

class hkPackedNiTriStripsData : public NiCloneableStreamable<hkPackedNiTriStripsData, bhkShapeCollection> {
public:
	uint32_t keyCount = 0;
	std::vector<hkTriangleData> triData;
	std::vector<hkTriangleNormalData> triNormData;

	uint32_t numVerts = 0;
	bool compressed = false;
	std::vector<Vector3> compressedVertData;

	NiVector<hkSubPartData, uint16_t> subPartData;

	static constexpr const char* BlockName = "hkPackedNiTriStripsData";
	const char* GetBlockName() override { return BlockName; }

	void Sync(NiStreamReversible& stream);
};

class bhkPackedNiTriStripsShape
	: public NiCloneableStreamable<bhkPackedNiTriStripsShape, bhkShapeCollection> {
private:
	uint32_t unused1 = 0;
	uint32_t unused2 = 0;

public:
	NiVector<hkSubPartData, uint16_t> subPartData;

	uint32_t userData = 0;
	float radius = 0.0f;
	Vector4 scaling;
	float radius2 = 0.0f;
	Vector4 scaling2;
	NiBlockRef<hkPackedNiTriStripsData> dataRef;

	static constexpr const char* BlockName = "bhkPackedNiTriStripsShape";
	const char* GetBlockName() override { return BlockName; }

	void Sync(NiStreamReversible& stream);
	void GetChildRefs(std::set<NiRef*>& refs) override;
	void GetChildIndices(std::vector<uint32_t>& indices) override;
};

class bhkLiquidAction : public NiCloneableStreamable<bhkLiquidAction, bhkSerializable> {
public:
	uint32_t userData = 0;
	uint32_t unkInt1 = 0;
	uint32_t unkInt2 = 0;
	float initialStickForce = 0.0f;
	float stickStrength = 0.0f;
	float neighborDistance = 0.0f;
	float neighborStrength = 0.0f;

	static constexpr const char* BlockName = "bhkLiquidAction";
	const char* GetBlockName() override { return BlockName; }

	void Sync(NiStreamReversible& stream);
};

class bhkOrientHingedBodyAction : public NiCloneableStreamable<bhkOrientHingedBodyAction, bhkSerializable> {
private:
	uint64_t padding = 0;
	uint64_t padding2 = 0;

public:
	NiBlockPtr<NiObject> bodyRef;
	uint32_t unkInt1 = 0;
	uint32_t unkInt2 = 0;
	Vector4 hingeAxisLS;
	Vector4 forwardLS;
	float strength = 0.0f;
	float damping = 0.0f;

	static constexpr const char* BlockName = "bhkOrientHingedBodyAction";
	const char* GetBlockName() override { return BlockName; }

	void Sync(NiStreamReversible& stream);
	void GetPtrs(std::set<NiPtr*>& ptrs) override;
};

class bhkWorldObject : public NiCloneableStreamable<bhkWorldObject, bhkSerializable> {
public:
	NiBlockRef<bhkShape> shapeRef;
	HavokFilter collisionFilter;
	int unkInt1 = 0;
	uint8_t broadPhaseType = 0;
	uint8_t unkBytes[3]{};
	hkWorldObjCInfoProperty prop;

	void Sync(NiStreamReversible& stream);
	void GetChildRefs(std::set<NiRef*>& refs) override;
	void GetChildIndices(std::vector<uint32_t>& indices) override;
};

class bhkPhantom : public NiCloneable<bhkPhantom, bhkWorldObject> {};

class bhkShapePhantom : public NiCloneable<bhkShapePhantom, bhkPhantom> {};

class bhkSimpleShapePhantom : public NiCloneableStreamable<bhkSimpleShapePhantom, bhkShapePhantom> {
private:
	uint64_t padding = 0;

public:
	Matrix4 transform;

	static constexpr const char* BlockName = "bhkSimpleShapePhantom";
	const char* GetBlockName() override { return BlockName; }

	void Sync(NiStreamReversible& stream);
};

class bhkAabbPhantom : public NiCloneableStreamable<bhkAabbPhantom, bhkShapePhantom> {
private:
	uint64_t padding = 0;

public:
	Vector4 aabbMin;
	Vector4 aabbMax;

	static constexpr const char* BlockName = "bhkAabbPhantom";
	const char* GetBlockName() override { return BlockName; }

	void Sync(NiStreamReversible& stream);
};

class bhkEntity : public NiCloneable<bhkEntity, bhkWorldObject> {};

enum hkResponseType : uint8_t {
	RESPONSE_INVALID,
	RESPONSE_SIMPLE_CONTACT,
	RESPONSE_REPORTING,
	RESPONSE_NONE
};

class bhkRigidBody : public NiCloneableStreamable<bhkRigidBody, bhkEntity> {
public:
	hkResponseType collisionResponse = RESPONSE_SIMPLE_CONTACT;
	uint8_t unusedByte1 = 0;
	uint16_t processContactCallbackDelay = 0xFFFF;
	uint32_t unkInt1 = 0;
	HavokFilter collisionFilterCopy;
	uint16_t unkShorts2[6]{};
	Vector4 translation;
	QuaternionXYZW rotation;
	Vector4 linearVelocity;
	Vector4 angularVelocity;
	float inertiaMatrix[12]{};
	Vector4 center;
	float mass = 1.0f;
	float linearDamping = 0.1f;
	float angularDamping = 0.05f;
	float timeFactor = 1.0f;	// User Version >= 12
	float gravityFactor = 1.0f; // User Version >= 12
	float friction = 0.5f;
	float rollingFrictionMult = 1.0f; // User Version >= 12
	float restitution = 0.4f;
	float maxLinearVelocity = 104.4f;
	float maxAngularVelocity = 31.57f;
	float penetrationDepth = 0.15f;
	uint8_t motionSystem = 1;
	uint8_t deactivatorType = 1;
	uint8_t solverDeactivation = 1;
	uint8_t qualityType = 1;
	uint8_t autoRemoveLevel = 0;
	uint8_t responseModifierFlag = 0;
	uint8_t numShapeKeysInContactPointProps = 0;
	bool forceCollideOntoPpu = false;
	uint32_t unusedInts1[3]{};
	uint8_t unusedBytes2[3]{};
	NiBlockRefArray<bhkSerializable> constraintRefs;
	uint32_t bodyFlagsInt = 0;
	uint16_t bodyFlags = 0;

	static constexpr const char* BlockName = "bhkRigidBody";
	const char* GetBlockName() override { return BlockName; }

	void Sync(NiStreamReversible& stream);
	void GetChildRefs(std::set<NiRef*>& refs) override;
	void GetChildIndices(std::vector<uint32_t>& indices) override;
};

class bhkRigidBodyT : public NiCloneable<bhkRigidBodyT, bhkRigidBody> {
public:
	static constexpr const char* BlockName = "bhkRigidBodyT";
	const char* GetBlockName() override { return BlockName; }
};

class bhkConstraint : public NiCloneableStreamable<bhkConstraint, bhkSerializable> {
public:
	NiBlockPtrArray<bhkEntity> entityRefs;
	uint32_t priority = 0;

	void Sync(NiStreamReversible& stream);
	void GetPtrs(std::set<NiPtr*>& ptrs) override;
};

class bhkHingeConstraint : public NiCloneableStreamable<bhkHingeConstraint, bhkConstraint> {
public:
	HingeDesc hinge;

	static constexpr const char* BlockName = "bhkHingeConstraint";
	const char* GetBlockName() override { return BlockName; }

	void Sync(NiStreamReversible& stream);
};

class bhkLimitedHingeConstraint : public NiCloneableStreamable<bhkLimitedHingeConstraint, bhkConstraint> {
public:
	LimitedHingeDesc limitedHinge;

	static constexpr const char* BlockName = "bhkLimitedHingeConstraint";
	const char* GetBlockName() override { return BlockName; }

	void Sync(NiStreamReversible& stream);
};

class ConstraintData {
public:
	hkConstraintType type = BallAndSocket;
	NiBlockRefArray<bhkEntity> entityRefs;
	uint32_t priority = 1;

	BallAndSocketDesc desc1;
	HingeDesc desc2;
	LimitedHingeDesc desc3;
	PrismaticDesc desc4;
	RagdollDesc desc5;
	StiffSpringDesc desc6;

	float tau = 0.0f;
	float damping = 0.0f;
	float strength = 0.0f;

	void Sync(NiStreamReversible& stream);
	void GetPtrs(std::set<NiPtr*>& ptrs);
};

class bhkBreakableConstraint : public NiCloneableStreamable<bhkBreakableConstraint, bhkConstraint> {
public:
	ConstraintData subConstraint;
	bool removeWhenBroken = false;

	static constexpr const char* BlockName = "bhkBreakableConstraint";
	const char* GetBlockName() override { return BlockName; }

	void Sync(NiStreamReversible& stream);
	void GetPtrs(std::set<NiPtr*>& ptrs) override;
};

class bhkRagdollConstraint : public NiCloneableStreamable<bhkRagdollConstraint, bhkConstraint> {
public:
	RagdollDesc ragdoll;

	static constexpr const char* BlockName = "bhkRagdollConstraint";
	const char* GetBlockName() override { return BlockName; }

	void Sync(NiStreamReversible& stream);
};

class bhkStiffSpringConstraint : public NiCloneableStreamable<bhkStiffSpringConstraint, bhkConstraint> {
public:
	StiffSpringDesc stiffSpring;

	static constexpr const char* BlockName = "bhkStiffSpringConstraint";
	const char* GetBlockName() override { return BlockName; }

	void Sync(NiStreamReversible& stream);
};

class bhkPrismaticConstraint : public NiCloneableStreamable<bhkPrismaticConstraint, bhkConstraint> {
public:
	PrismaticDesc prismatic;

	static constexpr const char* BlockName = "bhkPrismaticConstraint";
	const char* GetBlockName() override { return BlockName; }

	void Sync(NiStreamReversible& stream);
};

class bhkMalleableConstraint : public NiCloneableStreamable<bhkMalleableConstraint, bhkConstraint> {
public:
	ConstraintData subConstraint;

	static constexpr const char* BlockName = "bhkMalleableConstraint";
	const char* GetBlockName() override { return BlockName; }

	void Sync(NiStreamReversible& stream);
	void GetPtrs(std::set<NiPtr*>& ptrs) override;
};

class bhkBallAndSocketConstraint : public NiCloneableStreamable<bhkBallAndSocketConstraint, bhkConstraint> {
public:
	BallAndSocketDesc ballAndSocket;

	static constexpr const char* BlockName = "bhkBallAndSocketConstraint";
	const char* GetBlockName() override { return BlockName; }

	void Sync(NiStreamReversible& stream);
};

class bhkBallSocketConstraintChain
	: public NiCloneableStreamable<bhkBallSocketConstraintChain, bhkSerializable> {
public:
	NiVector<Vector4> pivots;

	float tau = 1.0f;
	float damping = 0.6f;
	float cfm = 1.1920929e-08f;
	float maxErrorDistance = 0.1f;

	NiBlockPtrArray<bhkRigidBody> chainedEntityRefs;

	uint32_t numEntities = 2; // Always 2
	NiBlockPtr<bhkEntity> entityARef;
	NiBlockPtr<bhkEntity> entityBRef;
	uint32_t priority = 0;

	static constexpr const char* BlockName = "bhkBallSocketConstraintChain";
	const char* GetBlockName() override { return BlockName; }

	void Sync(NiStreamReversible& stream);
	void GetPtrs(std::set<NiPtr*>& ptrs) override;
};

class bhkCompressedMeshShapeData : public NiCloneableStreamable<bhkCompressedMeshShapeData, bhkRefObject> {
public:
	uint32_t bitsPerIndex = 0;
	uint32_t bitsPerWIndex = 0;
	uint32_t maskWIndex = 0;
	uint32_t maskIndex = 0;
	float error = 0.0f;
	Vector4 aabbBoundMin;
	Vector4 aabbBoundMax;
	uint8_t weldingType = 0;
	uint8_t materialType = 0;

	NiVector<uint32_t> mat32;
	NiVector<uint32_t> mat16;
	NiVector<uint32_t> mat8;

	NiVector<bhkCMSDMaterial> materials;

	uint32_t numNamedMat = 0;

	NiVector<bhkCMSDTransform> transforms;
	NiVector<Vector4> bigVerts;

	NiSyncVector<bhkCMSDBigTris> bigTris;
	NiSyncVector<bhkCMSDChunk> chunks;

	uint32_t numConvexPieceA = 0;

	static constexpr const char* BlockName = "bhkCompressedMeshShapeData";
	const char* GetBlockName() override { return BlockName; }

	void Sync(NiStreamReversible& stream);
};

class bhkCompressedMeshShape : public NiCloneableStreamable<bhkCompressedMeshShape, bhkShape> {
public:
	NiBlockPtr<NiAVObject> targetRef;
	uint32_t userData = 0;
	float radius = 0.005f;
	float unkFloat = 0.0f;
	Vector4 scaling = Vector4(1.0f, 1.0f, 1.0f, 1.0f);
	float radius2 = 0.005f;
	Vector4 scaling2 = Vector4(1.0f, 1.0f, 1.0f, 1.0f);
	NiBlockRef<bhkCompressedMeshShapeData> dataRef;

	static constexpr const char* BlockName = "bhkCompressedMeshShape";
	const char* GetBlockName() override { return BlockName; }

	void Sync(NiStreamReversible& stream);
	void GetChildRefs(std::set<NiRef*>& refs) override;
	void GetChildIndices(std::vector<uint32_t>& indices) override;
	void GetPtrs(std::set<NiPtr*>& ptrs) override;
};

struct BoneMatrix {
	Vector3 translation;
	QuaternionXYZW rotation;
	Vector3 scale;
};

class BonePose {
public:
	NiVector<BoneMatrix> matrices;

	void Sync(NiStreamReversible& stream) { matrices.Sync(stream); }
};

class bhkPoseArray : public NiCloneableStreamable<bhkPoseArray, NiObject> {
public:
	NiStringRefVector<> bones;
	NiSyncVector<BonePose> poses;

	static constexpr const char* BlockName = "bhkPoseArray";
	const char* GetBlockName() override { return BlockName; }

	void Sync(NiStreamReversible& stream);
	void GetStringRefs(std::vector<NiStringRef*>& refs) override;
};

class bhkRagdollTemplate : public NiCloneableStreamable<bhkRagdollTemplate, NiExtraData> {
public:
	NiBlockRefArray<NiObject> boneRefs;

	static constexpr const char* BlockName = "bhkRagdollTemplate";
	const char* GetBlockName() override { return BlockName; }

	void Sync(NiStreamReversible& stream);
	void GetChildRefs(std::set<NiRef*>& refs) override;
	void GetChildIndices(std::vector<uint32_t>& indices) override;
};

class bhkRagdollTemplateData : public NiCloneableStreamable<bhkRagdollTemplateData, NiObject> {
public:
	NiStringRef name;
	float mass = 9.0f;
	float restitution = 0.8f;
	float friction = 0.3f;
	float radius = 1.0f;
	HavokMaterial material = 7;
	NiSyncVector<ConstraintData> constraints;

	static constexpr const char* BlockName = "bhkRagdollTemplateData";
	const char* GetBlockName() override { return BlockName; }

	void Sync(NiStreamReversible& stream);
	void GetStringRefs(std::vector<NiStringRef*>& refs) override;
	void GetPtrs(std::set<NiPtr*>& ptrs) override;
};
} // namespace nifly
