/*
nifly
C++ NIF library for the Gamebryo/NetImmerse File Format
See the included GPLv3 LICENSE file
*/

#pragma once

#include "BasicTypes.hpp"

namespace nifly {
class NiTextKey {
public:
	float time = 0.0f;
	NiStringRef value;

	void Sync(NiStreamReversible& stream) {
		stream.Sync(time);
		value.Sync(stream);
	}

	void GetStringRefs(std::vector<NiStringRef*>& refs) { refs.emplace_back(&value); }
};

enum NiKeyType : uint32_t { NO_INTERP, LINEAR_KEY, QUADRATIC_KEY, TBC_KEY, XYZ_ROTATION_KEY, CONST_KEY };

struct TBC {
	float tension = 0.0f;
	float bias = 0.0f;
	float continuity = 0.0f;
};

template<typename T>
class NiAnimationKey {
public:
	NiKeyType type = NiKeyType::NO_INTERP; // no IO, used for Sync condition only

	float time = 0.0f;
	T value{};
	T forward{};
	T backward{};
	TBC tbc;

	void Sync(NiStreamReversible& stream) {
		stream.Sync(time);
		stream.Sync(value);

		switch (type) {
			case NiKeyType::QUADRATIC_KEY:
				stream.Sync(forward);
				stream.Sync(backward);
				break;
			case NiKeyType::TBC_KEY: stream.Sync(tbc); break;
			default: break;
		}
	}
};

template<typename T>
class NiAnimationKeyGroup {
private:
	uint32_t numKeys = 0;
	NiKeyType interpolation = NO_INTERP;
	std::vector<NiAnimationKey<T>> keys;

public:
	void Sync(NiStreamReversible& stream) {
		stream.Sync(numKeys);
		keys.resize(numKeys);

		if (numKeys > 0) {
			stream.Sync(interpolation);

			for (uint32_t i = 0; i < numKeys; i++) {
				auto& key = keys[i];
				key.type = interpolation;
				key.Sync(stream);
			}
		}
	}

	NiKeyType GetInterpolationType() const { return interpolation; }

	void SetInterpolationType(const NiKeyType interp) { interpolation = interp; }

	uint32_t GetNumKeys() const { return numKeys; }

	NiAnimationKey<T> GetKey(const int id) const { return keys[id]; }

	void SetKey(const int id, const NiAnimationKey<T>& key) { keys[id] = key; }

	void AddKey(const NiAnimationKey<T>& key) {
		keys.push_back(key);
		numKeys++;
	}

	void RemoveKey(const int id) {
		keys.erase(keys.begin() + id);
		numKeys--;
	}

	void ClearKeys() {
		keys.clear();
		numKeys = 0;
	}
};
} // namespace nifly
