/*
nifly
C++ NIF library for the Gamebryo/NetImmerse File Format
See the included GPLv3 LICENSE file
*/

#pragma once

#include "BasicTypes.hpp"
#include "Geometry.hpp"
#include "Nodes.hpp"

namespace nifly {
class NiParticles : public NiCloneable<NiParticles, NiGeometry> {
public:
	static constexpr const char* BlockName = "NiParticles";
	const char* GetBlockName() override { return BlockName; }
};

class NiAutoNormalParticles : public NiCloneable<NiAutoNormalParticles, NiParticles> {
public:
	static constexpr const char* BlockName = "NiAutoNormalParticles";
	const char* GetBlockName() override { return BlockName; }
};

class NiParticleMeshes : public NiCloneable<NiParticleMeshes, NiParticles> {
public:
	static constexpr const char* BlockName = "NiParticleMeshes";
	const char* GetBlockName() override { return BlockName; }
};

class NiRotatingParticles : public NiCloneable<NiRotatingParticles, NiParticles> {
public:
	static constexpr const char* BlockName = "NiRotatingParticles";
	const char* GetBlockName() override { return BlockName; }
};

class NiParticlesData : public NiCloneableStreamable<NiParticlesData, NiGeometryData> {
public:
	bool hasRadii = false;
	std::vector<float> radii;

	uint16_t numActive = 0;

	bool hasSizes = false;
	std::vector<float> sizes;

	bool hasRotations = false;
	std::vector<Quaternion> rotations;

	bool hasRotationAngles = false;
	std::vector<float> rotationAngles;

	bool hasRotationAxes = false;
	std::vector<Vector3> rotationAxes;

	bool hasTextureIndices = false;

	NiVector<Vector4> subtexOffsets;

	float aspectRatio = 0.0f;
	uint16_t aspectFlags = 0;
	float speedToAspectAspect2 = 0.0f;
	float speedToAspectSpeed1 = 0.0f;
	float speedToAspectSpeed2 = 0.0f;

	NiParticlesData();

	static constexpr const char* BlockName = "NiParticlesData";
	const char* GetBlockName() override { return BlockName; }

	void Sync(NiStreamReversible& stream);
};

class NiAutoNormalParticlesData : public NiCloneable<NiAutoNormalParticlesData, NiParticlesData> {
public:
	static constexpr const char* BlockName = "NiAutoNormalParticlesData";
	const char* GetBlockName() override { return BlockName; }
};

class NiRotatingParticlesData : public NiCloneable<NiRotatingParticlesData, NiParticlesData> {
public:
	static constexpr const char* BlockName = "NiRotatingParticlesData";
	const char* GetBlockName() override { return BlockName; }
};

class NiParticleMeshesData : public NiCloneableStreamable<NiParticleMeshesData, NiRotatingParticlesData> {
public:
	NiBlockRef<NiAVObject> dataRef;

	static constexpr const char* BlockName = "NiParticleMeshesData";
	const char* GetBlockName() override { return BlockName; }

	void Sync(NiStreamReversible& stream);
	void GetChildRefs(std::set<NiRef*>& refs) override;
	void GetChildIndices(std::vector<uint32_t>& indices) override;
};

struct NiParticleInfo {
	Vector3 velocity;
	Vector3 rotationAxis;
	float age = 0.0f;
	float lifeSpan = 0.0f;
	float lastUpdate = 0.0f;
	uint16_t spawnGeneration = 0;
	uint16_t code = 0;

	void Sync(NiStreamReversible& stream) {
		stream.Sync(velocity);

		if (stream.GetVersion().File() <= V10_4_0_1)
			stream.Sync(rotationAxis);

		stream.Sync(age);
		stream.Sync(lifeSpan);
		stream.Sync(lastUpdate);
		stream.Sync(spawnGeneration);
		stream.Sync(code);
	}
};

class NiPSysData : public NiCloneableStreamable<NiPSysData, NiRotatingParticlesData> {
public:
	std::vector<NiParticleInfo> particleInfo;

	Vector3 unknownVector;
	uint8_t unknownQQSpeedByte1 = 0;
	bool hasRotationSpeeds = false;

	std::vector<float> rotationSpeeds;
	uint16_t numAddedParticles = 0;
	uint16_t addedParticlesBase = 0;

	uint8_t unknownQQSpeedByte2 = 0;

	static constexpr const char* BlockName = "NiPSysData";
	const char* GetBlockName() override { return BlockName; }

	void Sync(NiStreamReversible& stream);
};

class NiMeshPSysData : public NiCloneableStreamable<NiMeshPSysData, NiPSysData> {
public:
	uint32_t defaultPoolSize = 0;
	bool fillPoolsOnLoad = false;

	NiVector<uint32_t> generationPoolSize;
	NiBlockRef<NiNode> nodeRef;

	static constexpr const char* BlockName = "NiMeshPSysData";
	const char* GetBlockName() override { return BlockName; }

	void Sync(NiStreamReversible& stream);
	void GetChildRefs(std::set<NiRef*>& refs) override;
	void GetChildIndices(std::vector<uint32_t>& indices) override;
};

class BSStripPSysData : public NiCloneableStreamable<BSStripPSysData, NiPSysData> {
public:
	uint16_t maxPointCount = 0;
	uint32_t startCapSize = 0;
	uint32_t endCapSize = 0;
	bool doZPrepass = false;

	static constexpr const char* BlockName = "BSStripPSysData";
	const char* GetBlockName() override { return BlockName; }

	void Sync(NiStreamReversible& stream);
};

class NiPSysEmitterCtlrData : public NiCloneableStreamable<NiPSysEmitterCtlrData, NiObject> {
public:
	NiAnimationKeyGroup<float> floatKeys;
	NiSyncVector<NiAnimationKey<uint8_t>> visibilityKeys;

	static constexpr const char* BlockName = "NiPSysEmitterCtlrData";
	const char* GetBlockName() override { return BlockName; }

	void Sync(NiStreamReversible& stream);
};

class NiPSysEmitterCtlr : public NiCloneableStreamable<NiPSysEmitterCtlr, NiPSysModifierCtlr> {
public:
	NiBlockRef<NiPSysEmitterCtlrData> dataRef;
	NiBlockRef<NiInterpolator> visInterpolatorRef;

	static constexpr const char* BlockName = "NiPSysEmitterCtlr";
	const char* GetBlockName() override { return BlockName; }

	void Sync(NiStreamReversible& stream);
	void GetChildRefs(std::set<NiRef*>& refs) override;
	void GetChildIndices(std::vector<uint32_t>& indices) override;
};

class BSMasterParticleSystem;

class BSPSysMultiTargetEmitterCtlr
	: public NiCloneableStreamable<BSPSysMultiTargetEmitterCtlr, NiPSysEmitterCtlr> {
public:
	uint16_t maxEmitters = 0;
	NiBlockPtr<BSMasterParticleSystem> masterParticleSystemRef;

	static constexpr const char* BlockName = "BSPSysMultiTargetEmitterCtlr";
	const char* GetBlockName() override { return BlockName; }

	void Sync(NiStreamReversible& stream);
	void GetPtrs(std::set<NiPtr*>& ptrs) override;
};

class NiParticleSystem;

class NiPSysModifier : public NiCloneableStreamable<NiPSysModifier, NiObject> {
public:
	NiStringRef name;
	uint32_t order = 0;
	NiBlockPtr<NiParticleSystem> targetRef;
	bool isActive = false;

	void Sync(NiStreamReversible& stream);
	void GetStringRefs(std::vector<NiStringRef*>& refs) override;
	void GetPtrs(std::set<NiPtr*>& ptrs) override;
};

class BSPSysStripUpdateModifier : public NiCloneableStreamable<BSPSysStripUpdateModifier, NiPSysModifier> {
public:
	float updateDeltaTime = 0.0f;

	static constexpr const char* BlockName = "BSPSysStripUpdateModifier";
	const char* GetBlockName() override { return BlockName; }

	void Sync(NiStreamReversible& stream);
};

class NiPSysSpawnModifier : public NiCloneableStreamable<NiPSysSpawnModifier, NiPSysModifier> {
public:
	uint16_t numSpawnGenerations = 0;
	float percentSpawned = 0.0f;
	uint16_t minSpawned = 0;
	uint16_t maxSpawned = 0;
	float spawnSpeedVariation = 0.0f;
	float spawnDirVariation = 0.0f;
	float lifeSpan = 0.0f;
	float lifeSpanVariation = 0.0f;

	static constexpr const char* BlockName = "NiPSysSpawnModifier";
	const char* GetBlockName() override { return BlockName; }

	void Sync(NiStreamReversible& stream);
};

class NiPSysAgeDeathModifier : public NiCloneableStreamable<NiPSysAgeDeathModifier, NiPSysModifier> {
public:
	bool spawnOnDeath = false;
	NiBlockRef<NiPSysSpawnModifier> spawnModifierRef;

	static constexpr const char* BlockName = "NiPSysAgeDeathModifier";
	const char* GetBlockName() override { return BlockName; }

	void Sync(NiStreamReversible& stream);
	void GetChildRefs(std::set<NiRef*>& refs) override;
	void GetChildIndices(std::vector<uint32_t>& indices) override;
};

class BSPSysLODModifier : public NiCloneableStreamable<BSPSysLODModifier, NiPSysModifier> {
public:
	float lodBeginDistance = 0.1f;
	float lodEndDistance = 0.7f;
	float endEmitScale = 0.2f;
	float endSize = 1.0f;

	static constexpr const char* BlockName = "BSPSysLODModifier";
	const char* GetBlockName() override { return BlockName; }

	void Sync(NiStreamReversible& stream);
};

class BSPSysSimpleColorModifier : public NiCloneableStreamable<BSPSysSimpleColorModifier, NiPSysModifier> {
public:
	float fadeInPercent = 0.0f;
	float fadeOutPercent = 0.0f;
	float color1EndPercent = 0.0f;
	float color2StartPercent = 0.0f;
	float color2EndPercent = 0.0f;
	float color3StartPercent = 0.0f;
	Color4 color1;
	Color4 color2;
	Color4 color3;
	uint16_t unknownShorts[26]{};

	static constexpr const char* BlockName = "BSPSysSimpleColorModifier";
	const char* GetBlockName() override { return BlockName; }

	void Sync(NiStreamReversible& stream);
};

class NiPSysRotationModifier : public NiCloneableStreamable<NiPSysRotationModifier, NiPSysModifier> {
public:
	float initialSpeed = 0.0f;
	float initialSpeedVariation = 0.0f;
	Vector4 unknownVector;
	uint8_t unknownByte = 0;
	float initialAngle = 0.0f;
	float initialAngleVariation = 0.0f;
	bool randomSpeedSign = false;
	bool randomInitialAxis = false;
	Vector3 initialAxis;

	static constexpr const char* BlockName = "NiPSysRotationModifier";
	const char* GetBlockName() override { return BlockName; }

	void Sync(NiStreamReversible& stream);
};

class BSPSysScaleModifier : public NiCloneableStreamable<BSPSysScaleModifier, NiPSysModifier> {
public:
	NiVector<float> floats;

	static constexpr const char* BlockName = "BSPSysScaleModifier";
	const char* GetBlockName() override { return BlockName; }

	void Sync(NiStreamReversible& stream);
};

enum ForceType : uint32_t { FORCE_PLANAR, FORCE_SPHERICAL, FORCE_UNKNOWN };

class NiPSysGravityModifier : public NiCloneableStreamable<NiPSysGravityModifier, NiPSysModifier> {
public:
	NiBlockPtr<NiNode> gravityObjRef;
	Vector3 gravityAxis;
	float decay = 0.0f;
	float strength = 0.0f;
	ForceType forceType = FORCE_UNKNOWN;
	float turbulence = 0.0f;
	float turbulenceScale = 1.0f;
	bool worldAligned = false;

	static constexpr const char* BlockName = "NiPSysGravityModifier";
	const char* GetBlockName() override { return BlockName; }

	void Sync(NiStreamReversible& stream);
	void GetPtrs(std::set<NiPtr*>& ptrs) override;
};

class NiPSysPositionModifier : public NiCloneable<NiPSysPositionModifier, NiPSysModifier> {
public:
	static constexpr const char* BlockName = "NiPSysPositionModifier";
	const char* GetBlockName() override { return BlockName; }
};

class NiPSysBoundUpdateModifier : public NiCloneableStreamable<NiPSysBoundUpdateModifier, NiPSysModifier> {
public:
	uint16_t updateSkip = 0;

	static constexpr const char* BlockName = "NiPSysBoundUpdateModifier";
	const char* GetBlockName() override { return BlockName; }

	void Sync(NiStreamReversible& stream);
};

class NiPSysDragModifier : public NiCloneableStreamable<NiPSysDragModifier, NiPSysModifier> {
public:
	NiBlockPtr<NiObject> parentRef;
	Vector3 dragAxis;
	float percentage = 0.0f;
	float range = 0.0f;
	float rangeFalloff = 0.0f;

	static constexpr const char* BlockName = "NiPSysDragModifier";
	const char* GetBlockName() override { return BlockName; }

	void Sync(NiStreamReversible& stream);
	void GetPtrs(std::set<NiPtr*>& ptrs) override;
};

class BSPSysInheritVelocityModifier
	: public NiCloneableStreamable<BSPSysInheritVelocityModifier, NiPSysModifier> {
public:
	NiBlockPtr<NiNode> targetNodeRef;
	float changeToInherit = 0.0f;
	float velocityMult = 0.0f;
	float velocityVar = 0.0f;

	static constexpr const char* BlockName = "BSPSysInheritVelocityModifier";
	const char* GetBlockName() override { return BlockName; }

	void Sync(NiStreamReversible& stream);
	void GetPtrs(std::set<NiPtr*>& ptrs) override;
};

class BSPSysSubTexModifier : public NiCloneableStreamable<BSPSysSubTexModifier, NiPSysModifier> {
public:
	float startFrame = 0.0f;
	float startFrameVariation = 0.0f;
	float endFrame = 0.0f;
	float loopStartFrame = 0.0f;
	float loopStartFrameVariation = 0.0f;
	float frameCount = 0.0f;
	float frameCountVariation = 0.0f;

	static constexpr const char* BlockName = "BSPSysSubTexModifier";
	const char* GetBlockName() override { return BlockName; }

	void Sync(NiStreamReversible& stream);
};

enum DecayType : uint32_t { DECAY_NONE, DECAY_LINEAR, DECAY_EXPONENTIAL };

enum SymmetryType : uint32_t { SYMMETRY_SPHERICAL, SYMMETRY_CYLINDRICAL, SYMMETRY_PLANAR };

class NiPSysBombModifier : public NiCloneableStreamable<NiPSysBombModifier, NiPSysModifier> {
public:
	NiBlockPtr<NiNode> bombNodeRef;
	Vector3 bombAxis;
	float decay = 0.0f;
	float deltaV = 0.0f;
	DecayType decayType = DECAY_NONE;
	SymmetryType symmetryType = SYMMETRY_SPHERICAL;

	static constexpr const char* BlockName = "NiPSysBombModifier";
	const char* GetBlockName() override { return BlockName; }

	void Sync(NiStreamReversible& stream);
	void GetPtrs(std::set<NiPtr*>& ptrs) override;
};

class NiColorData : public NiCloneableStreamable<NiColorData, NiObject> {
public:
	NiAnimationKeyGroup<Color4> data;

	static constexpr const char* BlockName = "NiColorData";
	const char* GetBlockName() override { return BlockName; }

	void Sync(NiStreamReversible& stream);
};

class NiPSysColorModifier : public NiCloneableStreamable<NiPSysColorModifier, NiPSysModifier> {
public:
	NiBlockRef<NiColorData> dataRef;

	static constexpr const char* BlockName = "NiPSysColorModifier";
	const char* GetBlockName() override { return BlockName; }

	void Sync(NiStreamReversible& stream);
	void GetChildRefs(std::set<NiRef*>& refs) override;
	void GetChildIndices(std::vector<uint32_t>& indices) override;
};

class NiPSysGrowFadeModifier : public NiCloneableStreamable<NiPSysGrowFadeModifier, NiPSysModifier> {
public:
	float growTime = 0.0f;
	uint16_t growGeneration = 0;
	float fadeTime = 0.0f;
	uint16_t fadeGeneration = 0;
	float baseScale = 0.0f;

	static constexpr const char* BlockName = "NiPSysGrowFadeModifier";
	const char* GetBlockName() override { return BlockName; }

	void Sync(NiStreamReversible& stream);
};

class NiPSysMeshUpdateModifier : public NiCloneableStreamable<NiPSysMeshUpdateModifier, NiPSysModifier> {
public:
	NiBlockRefArray<NiAVObject> meshRefs;

	static constexpr const char* BlockName = "NiPSysMeshUpdateModifier";
	const char* GetBlockName() override { return BlockName; }

	void Sync(NiStreamReversible& stream);
	void GetChildRefs(std::set<NiRef*>& refs) override;
	void GetChildIndices(std::vector<uint32_t>& indices) override;
};

class NiPSysFieldModifier : public NiCloneableStreamable<NiPSysFieldModifier, NiPSysModifier> {
public:
	NiBlockRef<NiAVObject> fieldObjectRef;
	float magnitude = 0.0f;
	float attenuation = 0.0f;
	bool useMaxDistance = false;
	float maxDistance = 0.0f;

	void Sync(NiStreamReversible& stream);
	void GetChildRefs(std::set<NiRef*>& refs) override;
	void GetChildIndices(std::vector<uint32_t>& indices) override;
};

class NiPSysVortexFieldModifier
	: public NiCloneableStreamable<NiPSysVortexFieldModifier, NiPSysFieldModifier> {
public:
	Vector3 direction;

	static constexpr const char* BlockName = "NiPSysVortexFieldModifier";
	const char* GetBlockName() override { return BlockName; }

	void Sync(NiStreamReversible& stream);
};

class NiPSysGravityFieldModifier
	: public NiCloneableStreamable<NiPSysGravityFieldModifier, NiPSysFieldModifier> {
public:
	Vector3 direction;

	static constexpr const char* BlockName = "NiPSysGravityFieldModifier";
	const char* GetBlockName() override { return BlockName; }

	void Sync(NiStreamReversible& stream);
};

class NiPSysDragFieldModifier : public NiCloneableStreamable<NiPSysDragFieldModifier, NiPSysFieldModifier> {
public:
	bool useDirection = false;
	Vector3 direction;

	static constexpr const char* BlockName = "NiPSysDragFieldModifier";
	const char* GetBlockName() override { return BlockName; }

	void Sync(NiStreamReversible& stream);
};

class NiPSysTurbulenceFieldModifier
	: public NiCloneableStreamable<NiPSysTurbulenceFieldModifier, NiPSysFieldModifier> {
public:
	float frequency = 0.0f;

	static constexpr const char* BlockName = "NiPSysTurbulenceFieldModifier";
	const char* GetBlockName() override { return BlockName; }

	void Sync(NiStreamReversible& stream);
};

class NiPSysAirFieldModifier : public NiCloneableStreamable<NiPSysAirFieldModifier, NiPSysFieldModifier> {
public:
	Vector3 direction;
	float airFriction = 0.0f;
	float inheritVelocity = 0.0f;
	bool inheritRotation = false;
	bool componentOnly = false;
	bool enableSpread = false;
	float spread = 0.0f;

	static constexpr const char* BlockName = "NiPSysAirFieldModifier";
	const char* GetBlockName() override { return BlockName; }

	void Sync(NiStreamReversible& stream);
};

class NiPSysRadialFieldModifier
	: public NiCloneableStreamable<NiPSysRadialFieldModifier, NiPSysFieldModifier> {
public:
	uint32_t radialType = 0;

	static constexpr const char* BlockName = "NiPSysRadialFieldModifier";
	const char* GetBlockName() override { return BlockName; }

	void Sync(NiStreamReversible& stream);
};

class BSWindModifier : public NiCloneableStreamable<BSWindModifier, NiPSysModifier> {
public:
	float strength = 0.0f;

	static constexpr const char* BlockName = "BSWindModifier";
	const char* GetBlockName() override { return BlockName; }

	void Sync(NiStreamReversible& stream);
};

class BSPSysRecycleBoundModifier : public NiCloneableStreamable<BSPSysRecycleBoundModifier, NiPSysModifier> {
public:
	Vector3 boundOffset;
	Vector3 boundExtent;
	NiBlockPtr<NiNode> targetNodeRef;

	static constexpr const char* BlockName = "BSPSysRecycleBoundModifier";
	const char* GetBlockName() override { return BlockName; }

	void Sync(NiStreamReversible& stream);
	void GetPtrs(std::set<NiPtr*>& ptrs) override;
};

class BSPSysHavokUpdateModifier : public NiCloneableStreamable<BSPSysHavokUpdateModifier, NiPSysModifier> {
public:
	NiBlockRefArray<NiNode> nodeRefs;
	NiBlockRef<NiPSysModifier> modifierRef;

	static constexpr const char* BlockName = "BSPSysHavokUpdateModifier";
	const char* GetBlockName() override { return BlockName; }

	void Sync(NiStreamReversible& stream);
	void GetChildRefs(std::set<NiRef*>& refs) override;
	void GetChildIndices(std::vector<uint32_t>& indices) override;
};

class BSParentVelocityModifier : public NiCloneableStreamable<BSParentVelocityModifier, NiPSysModifier> {
public:
	float damping = 0.0f;

	static constexpr const char* BlockName = "BSParentVelocityModifier";
	const char* GetBlockName() override { return BlockName; }

	void Sync(NiStreamReversible& stream);
};

class BSMasterParticleSystem : public NiCloneableStreamable<BSMasterParticleSystem, NiNode> {
public:
	uint16_t maxEmitterObjs = 0;
	NiBlockRefArray<NiAVObject> particleSysRefs;

	static constexpr const char* BlockName = "BSMasterParticleSystem";
	const char* GetBlockName() override { return BlockName; }

	void Sync(NiStreamReversible& stream);

	void GetChildRefs(std::set<NiRef*>& refs) override;
	void GetChildIndices(std::vector<uint32_t>& indices) override;
};

class NiParticleSystem : public NiCloneableStreamable<NiParticleSystem, NiAVObject> {
public:
	NiBlockRef<NiGeometryData> dataRef;
	NiBlockRef<NiObject> skinInstanceRef;
	NiBlockRef<NiProperty> shaderPropertyRef;
	NiBlockRef<NiProperty> alphaPropertyRef;

	bool hasShader = false;
	NiStringRef shaderName;
	int shaderExtraData = 0;

	NiSyncVector<NiStringRef> materialNames;
	NiVector<uint32_t> materialExtraData;

	uint32_t activeMaterial = 0;
	uint8_t defaultMatNeedsUpdate = 0;

	uint8_t vertFlags1 = 81;
	uint8_t vertFlags2 = 0;
	uint8_t vertFlags3 = 0;
	uint8_t vertFlags4 = 4;
	uint8_t vertFlags5 = 0;
	uint8_t vertFlags6 = 32;
	uint8_t vertFlags7 = 64;
	uint8_t vertFlags8 = 8;

	BoundingSphere bounds;
	float boundMinMax[6]{};

	uint16_t farBegin = 0;
	uint16_t farEnd = 0;
	uint16_t nearBegin = 0;
	uint16_t nearEnd = 0;

	NiBlockRef<NiPSysData> psysDataRef;

	bool isWorldSpace = false;
	NiBlockRefArray<NiPSysModifier> modifierRefs;

	static constexpr const char* BlockName = "NiParticleSystem";
	const char* GetBlockName() override { return BlockName; }

	void Sync(NiStreamReversible& stream);
	void GetStringRefs(std::vector<NiStringRef*>& refs) override;
	void GetChildRefs(std::set<NiRef*>& refs) override;
	void GetChildIndices(std::vector<uint32_t>& indices) override;
};

class NiMeshParticleSystem : public NiCloneable<NiMeshParticleSystem, NiParticleSystem> {
public:
	static constexpr const char* BlockName = "NiMeshParticleSystem";
	const char* GetBlockName() override { return BlockName; }
};

class BSStripParticleSystem : public NiCloneable<BSStripParticleSystem, NiParticleSystem> {
public:
	static constexpr const char* BlockName = "BSStripParticleSystem";
	const char* GetBlockName() override { return BlockName; }
};

class NiPSysColliderManager;

class NiPSysCollider : public NiCloneableStreamable<NiPSysCollider, NiObject> {
public:
	float bounce = 0.0f;
	bool spawnOnCollide = false;
	bool dieOnCollide = false;
	NiBlockRef<NiPSysSpawnModifier> spawnModifierRef;
	NiBlockPtr<NiPSysColliderManager> managerRef;
	NiBlockRef<NiPSysCollider> nextColliderRef;
	NiBlockPtr<NiNode> colliderNodeRef;

	void Sync(NiStreamReversible& stream);
	void GetChildRefs(std::set<NiRef*>& refs) override;
	void GetChildIndices(std::vector<uint32_t>& indices) override;
	void GetPtrs(std::set<NiPtr*>& ptrs) override;
};

class NiPSysSphericalCollider : public NiCloneableStreamable<NiPSysSphericalCollider, NiPSysCollider> {
public:
	float radius = 0.0f;

	static constexpr const char* BlockName = "NiPSysSphericalCollider";
	const char* GetBlockName() override { return BlockName; }

	void Sync(NiStreamReversible& stream);
};

class NiPSysPlanarCollider : public NiCloneableStreamable<NiPSysPlanarCollider, NiPSysCollider> {
public:
	float width = 0.0f;
	float height = 0.0f;
	Vector3 xAxis;
	Vector3 yAxis;

	static constexpr const char* BlockName = "NiPSysPlanarCollider";
	const char* GetBlockName() override { return BlockName; }

	void Sync(NiStreamReversible& stream);
};

class NiPSysColliderManager : public NiCloneableStreamable<NiPSysColliderManager, NiPSysModifier> {
public:
	NiBlockRef<NiPSysCollider> colliderRef;

	static constexpr const char* BlockName = "NiPSysColliderManager";
	const char* GetBlockName() override { return BlockName; }

	void Sync(NiStreamReversible& stream);
	void GetChildRefs(std::set<NiRef*>& refs) override;
	void GetChildIndices(std::vector<uint32_t>& indices) override;
};

class NiPSysEmitter : public NiCloneableStreamable<NiPSysEmitter, NiPSysModifier> {
public:
	float speed = 0.0f;
	float speedVariation = 0.0f;
	float declination = 0.0f;
	float declinationVariation = 0.0f;
	float planarAngle = 0.0f;
	float planarAngleVariation = 0.0f;
	Color4 color;
	float radius = 0.0f;
	float radiusVariation = 0.0f;
	float lifeSpan = 0.0f;
	float lifeSpanVariation = 0.0f;

	void Sync(NiStreamReversible& stream);
};

class NiPSysVolumeEmitter : public NiCloneableStreamable<NiPSysVolumeEmitter, NiPSysEmitter> {
public:
	NiBlockPtr<NiNode> emitterNodeRef;

	void Sync(NiStreamReversible& stream);
	void GetPtrs(std::set<NiPtr*>& ptrs) override;
};

class NiPSysSphereEmitter : public NiCloneableStreamable<NiPSysSphereEmitter, NiPSysVolumeEmitter> {
public:
	float radius = 0.0f;

	static constexpr const char* BlockName = "NiPSysSphereEmitter";
	const char* GetBlockName() override { return BlockName; }

	void Sync(NiStreamReversible& stream);
};

class NiPSysCylinderEmitter : public NiCloneableStreamable<NiPSysCylinderEmitter, NiPSysVolumeEmitter> {
public:
	float radius = 0.0f;
	float height = 0.0f;

	static constexpr const char* BlockName = "NiPSysCylinderEmitter";
	const char* GetBlockName() override { return BlockName; }

	void Sync(NiStreamReversible& stream);
};

class NiPSysBoxEmitter : public NiCloneableStreamable<NiPSysBoxEmitter, NiPSysVolumeEmitter> {
public:
	float width = 0.0f;
	float height = 0.0f;
	float depth = 0.0f;

	static constexpr const char* BlockName = "NiPSysBoxEmitter";
	const char* GetBlockName() override { return BlockName; }

	void Sync(NiStreamReversible& stream);
};

class BSPSysArrayEmitter : public NiCloneable<BSPSysArrayEmitter, NiPSysVolumeEmitter> {
public:
	static constexpr const char* BlockName = "BSPSysArrayEmitter";
	const char* GetBlockName() override { return BlockName; }
};

enum VelocityType : uint32_t { VELOCITY_USE_NORMALS, VELOCITY_USE_RANDOM, VELOCITY_USE_DIRECTION };

enum EmitFrom : uint32_t {
	EMIT_FROM_VERTICES,
	EMIT_FROM_FACE_CENTER,
	EMIT_FROM_EDGE_CENTER,
	EMIT_FROM_FACE_SURFACE,
	EMIT_FROM_EDGE_SURFACE
};

class NiPSysMeshEmitter : public NiCloneableStreamable<NiPSysMeshEmitter, NiPSysEmitter> {
public:
	NiBlockPtrArray<NiAVObject> meshRefs;
	VelocityType velocityType = VELOCITY_USE_NORMALS;
	EmitFrom emissionType = EMIT_FROM_VERTICES;
	Vector3 emissionAxis;

	static constexpr const char* BlockName = "NiPSysMeshEmitter";
	const char* GetBlockName() override { return BlockName; }

	void Sync(NiStreamReversible& stream);
	void GetPtrs(std::set<NiPtr*>& ptrs) override;
};
} // namespace nifly
