/*
nifly
C++ NIF library for the Gamebryo/NetImmerse File Format
See the included GPLv3 LICENSE file
*/

#pragma once

#include "Object3d.hpp"
#include <algorithm>
#include <memory>

// A specialized KD tree that finds duplicate vertices in a point cloud.

namespace nifly {
class kd_matcher {
public:
	class kd_node {
	public:
		uint16_t p;
		std::vector<uint16_t> matchset;
		std::unique_ptr<kd_node> less;
		std::unique_ptr<kd_node> more;

		kd_node(const uint16_t point) { p = point; }

		void add(const Vector3* pts, const uint16_t point, const uint32_t depth) {
			Vector3 d = pts[p] - pts[point];

			if (std::fabs(d.x) < EPSILON && std::fabs(d.y) < EPSILON && std::fabs(d.z) < EPSILON) {
				if (matchset.empty())
					matchset.push_back(p);

				matchset.push_back(point);
				return;
			}

			if (d[depth % 3] > 0) {
				if (more)
					more->add(pts, point, depth + 1);
				else
					more = std::make_unique<kd_node>(point);
			}
			else {
				if (less)
					less->add(pts, point, depth + 1);
				else
					less = std::make_unique<kd_node>(point);
			}
		}

		void collect(std::vector<std::vector<uint16_t>>& matches) {
			if (!matchset.empty())
				matches.push_back(std::move(matchset));

			if (more)
				more->collect(matches);
			if (less)
				less->collect(matches);
		}
	};

	std::vector<std::vector<uint16_t>> matches;

	kd_matcher(const Vector3* pts, const uint16_t cnt) {
		if (cnt <= 0)
			return;

		kd_node root(0);
		for (uint16_t i = 1; i < cnt; i++)
			root.add(pts, i, 0);

		root.collect(matches);
	}
};

// SortingMatcher: finds matching points, just like kd_matcher,
// but more robustly and hopefully more efficiently.
class SortingMatcher {
public:
	std::vector<std::vector<uint16_t>> matches;

	SortingMatcher(const Vector3* pts, const uint16_t cnt) {
		if (cnt <= 0)
			return;

		// Determine overall scale of the point set so we can determine a
		// good epsilon
		float scale = 0.0f;
		for (uint16_t i = 0; i < cnt; ++i)
			scale = std::max(scale, std::max(std::fabs(pts[i].x), std::max(std::fabs(pts[i].y), std::fabs(pts[i].z))));
		float epsilon = EPSILON * 0.01f * scale;

		std::vector<uint16_t> inds(cnt);
		for (uint16_t i = 0; i < cnt; ++i)
			inds[i] = i;

		std::sort(inds.begin(), inds.end(), [&pts](uint16_t i, uint16_t j) { return pts[i].x < pts[j].x; });

		std::vector<bool> used(cnt, false);
		for (uint16_t si = 0; si < cnt; ++si) {
			if (used[si])
				continue;

			bool matched = false;
			for (uint16_t mi = si + 1; mi < cnt; ++mi) {
				if (pts[inds[mi]].x - pts[inds[si]].x >= epsilon)
					break;

				if (used[mi])
					continue;
				if (std::fabs(pts[inds[si]].y - pts[inds[mi]].y) >= epsilon)
					continue;
				if (std::fabs(pts[inds[si]].z - pts[inds[mi]].z) >= epsilon)
					continue;

				if (!matched)
					matches.emplace_back(std::vector<uint16_t>(1, inds[si]));

				matched = true;
				matches.back().push_back(inds[mi]);
				used[mi] = true;
			}
		}
	}
};

template<typename index_t>
class kd_query_result {
public:
	const Vector3* v;
	index_t vertex_index;
	float distance;
	bool operator<(const kd_query_result& other) const { return distance < other.distance; }
};

// More general purpose KD tree that assembles a tree from input points and allows nearest neighbor and radius searches on the data.
template<typename index_t>
class kd_tree {
public:
	class kd_node {
	public:
		const Vector3* p = nullptr;
		index_t p_i = 0;
		std::unique_ptr<kd_node> less;
		std::unique_ptr<kd_node> more;

		kd_node(const Vector3* point, const index_t point_index) {
			p = point;
			p_i = point_index;
		}

		void add(const Vector3* point, const index_t point_index, const uint32_t depth) {
			uint32_t axis = depth % 3;
			bool domore = false;
			float dx = p->x - point->x;
			float dy = p->y - point->y;
			float dz = p->z - point->z;

			switch (axis) {
				case 0:
					if (dx > 0)
						domore = true;
					break;
				case 1:
					if (dy > 0)
						domore = true;
					break;
				case 2:
					if (dz > 0)
						domore = true;
					break;
			}
			if (domore) {
				if (more)
					return more->add(point, point_index, depth + 1);
				else
					more = std::make_unique<kd_node>(point, point_index);
			}
			else {
				if (less)
					return less->add(point, point_index, depth + 1);
				else
					less = std::make_unique<kd_node>(point, point_index);
			}
		}

		// Finds the closest point(s) to "querypoint" within the provided radius. If radius is 0, only the single closest point is found.
		// On first call, "mindist" should be set to FLT_MAX and depth set to 0.
		void find_closest(const Vector3* querypoint,
						  std::vector<kd_query_result<index_t>>& queryResult,
						  const float radius,
						  float& mindist,
						  const uint32_t depth = 0) {
			kd_query_result<index_t> kdqr;
			uint32_t axis = depth % 3;		 // Which separating axis to use based on depth
			float dx = p->x - querypoint->x; // Axis sides
			float dy = p->y - querypoint->y;
			float dz = p->z - querypoint->z;
			kd_node* act = less.get(); // Active search branch
			kd_node* opp = more.get(); // Opposite search branch
			float axisdist = 0.0f;	   // Distance from the query point to the separating axis
			float pointdist;		   // Distance from the query point to the node's point

			switch (axis) {
				case 0:
					if (dx > 0.0f) {
						act = more.get();
						opp = less.get();
					}
					axisdist = std::fabs(dx);
					break;
				case 1:
					if (dy > 0.0f) {
						act = more.get();
						opp = less.get();
					}
					axisdist = std::fabs(dy);
					break;
				case 2:
					if (dz > 0.0f) {
						act = more.get();
						opp = less.get();
					}
					axisdist = std::fabs(dz);
					break;
			}

			// The axis choice tells us which branch to search
			if (act)
				act->find_closest(querypoint, queryResult, radius, mindist, depth + 1);

			// On the way back out check current point to see if it's the closest
			// Fix? Might want to use squared distance instead... probably unnecessary.
			pointdist = querypoint->DistanceTo(*p);

			// No opposites
			bool notOpp = true;
			//notOpp = (querypoint->nx * p->nx + querypoint->ny * p->ny + querypoint->nz * p->nz) > 0.0f;

			if (pointdist <= mindist && notOpp) {
				kdqr.v = p;
				kdqr.vertex_index = p_i;
				kdqr.distance = pointdist;
				queryResult.push_back(kdqr);
				mindist = pointdist;
			}
			else if (radius > mindist
					 && notOpp) { // If there's room between the minimum distance and the search radius
				if (pointdist <= radius) { // check to see if the point falls in that space, and if so, add it.
					kdqr.v = p;
					kdqr.vertex_index = p_i;
					kdqr.distance = pointdist;
					queryResult.push_back(kdqr); // This is skipped if radius is 0
				}
			}

			// Check the opposite branch if it exists
			if (opp) {
				if (radius > 0.0f) {
					if (radius >= axisdist) // If separating axis is within the check radius
						opp->find_closest(querypoint, queryResult, radius, mindist, depth + 1);
				}
				else {
					// If separating axis is closer than the current minimum point
					// check if a closer point is on the other side of the axis.
					if (axisdist < mindist)
						opp->find_closest(querypoint, queryResult, radius, mindist, depth + 1);
				}
			}
		}
	};

	std::unique_ptr<kd_node> root;
	std::vector<kd_query_result<index_t>> queryResult;

	kd_tree(const Vector3* points, const index_t count) {
		if (count <= 0)
			return;

		index_t pointIndex = 0;
		root = std::make_unique<kd_node>(&points[0], pointIndex);
		for (index_t i = 1; i < count; i++)
			root->add(&points[i], i, 0);
	}

	index_t kd_nn(const Vector3* querypoint, const float radius) {
		float mindist = std::numeric_limits<float>().max();
		if (radius > 0.0f)
			mindist = radius;

		queryResult.clear();
		root->find_closest(querypoint, queryResult, radius, mindist);
		std::sort(queryResult.begin(), queryResult.end());

		return static_cast<index_t>(queryResult.size());
	}
};
} // namespace nifly
