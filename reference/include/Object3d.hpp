/*
nifly
C++ NIF library for the Gamebryo/NetImmerse File Format
See the included GPLv3 LICENSE file
*/

#pragma once

#include <cstdint>
#include <algorithm>
#include <cmath>
#include <cstring>
#include <vector>

namespace nifly {
constexpr float EPSILON = 0.0001f;

constexpr float PI = 3.141592f;
constexpr float DEG2RAD = PI / 180.0f;

inline bool FloatsAreNearlyEqual(float a, float b) {
	float scale = std::max(std::max(std::fabs(a), std::fabs(b)), 1.0f);
	return std::fabs(a - b) <= EPSILON * scale;
}

float CalcMedianOfFloats(const std::vector<float>& data);

// Vector with 2 float components (uv)
struct Vector2 {
	float u = 0.0f;
	float v = 0.0f;

	Vector2() = default;
	Vector2(float U, float V) {
		u = U;
		v = V;
	}

	bool operator==(const Vector2& other) {
		return u == other.u && v == other.v;
	}
	bool operator!=(const Vector2& other) { return !(*this == other); }

	Vector2& operator-=(const Vector2& other) {
		u -= other.u;
		v -= other.v;
		return (*this);
	}
	Vector2 operator-(const Vector2& other) const {
		Vector2 tmp = (*this);
		tmp -= other;
		return tmp;
	}

	Vector2& operator+=(const Vector2& other) {
		u += other.u;
		v += other.v;
		return (*this);
	}
	Vector2 operator+(const Vector2& other) const {
		Vector2 tmp = (*this);
		tmp += other;
		return tmp;
	}

	Vector2& operator*=(float val) {
		u *= val;
		v *= val;
		return (*this);
	}
	Vector2 operator*(float val) const {
		Vector2 tmp = (*this);
		tmp *= val;
		return tmp;
	}

	Vector2& operator/=(float val) {
		u /= val;
		v /= val;
		return (*this);
	}
	Vector2 operator/(float val) const {
		Vector2 tmp = (*this);
		tmp /= val;
		return tmp;
	}
};

// Vector with 3 float components (xyz)
struct Vector3 {
	float x;
	float y;
	float z;

	constexpr Vector3()
		: x(0.0f)
		, y(0.0f)
		, z(0.0f) {}

	constexpr Vector3(float X, float Y, float Z)
		: x(X)
		, y(Y)
		, z(Z) {}

	constexpr float& operator[](int ind) { return ind ? (ind == 2 ? z : y) : x; }
	constexpr float operator[](int ind) const { return ind ? (ind == 2 ? z : y) : x; }

	void Zero() { x = y = z = 0.0f; }

	// With bUseEpsilon, uses nifly::EPSILON for a nearly zero comparison.
	constexpr bool IsZero(bool bUseEpsilon = false) const {
		if (bUseEpsilon) {
			if (std::fabs(x) < EPSILON && std::fabs(y) < EPSILON && std::fabs(z) < EPSILON)
				return true;
		}
		else {
			if (x == 0.0f && y == 0.0f && z == 0.0f)
				return true;
		}

		return false;
	}

	void Normalize() {
		float d = std::sqrt(x * x + y * y + z * z);
		if (d == 0.0f)
			d = 1.0f;

		x /= d;
		y /= d;
		z /= d;
	}

	uint32_t hash() const {
		static_assert(sizeof(float) == sizeof(uint32_t));
		const uint32_t* h = reinterpret_cast<const uint32_t*>(this);
		uint32_t f = (h[0] + h[1] * 11 - h[2] * 17) & 0x7fffffff;
		return (f >> 22) ^ (f >> 12) ^ (f);
	}

	constexpr bool operator==(const Vector3& other) const {
		return x == other.x && y == other.y && z == other.z;
	}
	constexpr bool operator!=(const Vector3& other) const { return !(*this == other); }

	Vector3& operator-=(const Vector3& other) {
		x -= other.x;
		y -= other.y;
		z -= other.z;
		return (*this);
	}
	constexpr Vector3 operator-(const Vector3& other) const {
		return Vector3(x - other.x, y - other.y, z - other.z);
	}
	Vector3& operator+=(const Vector3& other) {
		x += other.x;
		y += other.y;
		z += other.z;
		return (*this);
	}
	constexpr Vector3 operator+(const Vector3& other) const {
		return Vector3(x + other.x, y + other.y, z + other.z);
	}
	[[deprecated("Replaced by ComponentMultiplyBy; should not have been an operator")]]
	Vector3& operator*=(const Vector3& other) {
		x *= other.x;
		y *= other.y;
		z *= other.z;
		return (*this);
	}
	Vector3& ComponentMultiplyBy(const Vector3& other) {
		x *= other.x;
		y *= other.y;
		z *= other.z;
		return (*this);
	}
	[[deprecated("Replaced by ComponentMultiply; should not have been an operator")]]
	constexpr Vector3 operator*(const Vector3& other) const {
		return Vector3(x * other.x, y * other.y, z * other.z);
	}
	constexpr Vector3 ComponentMultiply(const Vector3& other) const {
		return Vector3(x * other.x, y * other.y, z * other.z);
	}
	[[deprecated("Replaced by ComponentDivideBy; should not have been an operator")]]
	Vector3& operator/=(const Vector3& other) {
		x /= other.x;
		y /= other.y;
		z /= other.z;
		return (*this);
	}
	Vector3& ComponentDivideBy(const Vector3& other) {
		x /= other.x;
		y /= other.y;
		z /= other.z;
		return (*this);
	}
	[[deprecated("Replaced by ComponentDivide; should not have been an operator")]]
	constexpr Vector3 operator/(const Vector3& other) const {
		return Vector3(x / other.x, y / other.y, z / other.z);
	}
	constexpr Vector3 ComponentDivide(const Vector3& other) const {
		return Vector3(x / other.x, y / other.y, z / other.z);
	}

	Vector3& operator*=(float val) {
		x *= val;
		y *= val;
		z *= val;
		return (*this);
	}
	constexpr Vector3 operator*(float val) const {
		return Vector3(x * val, y * val, z * val);
	}
	Vector3& operator/=(float val) {
		x /= val;
		y /= val;
		z /= val;
		return (*this);
	}
	constexpr Vector3 operator/(float val) const {
		return Vector3(x / val, y / val, z / val);
	}

	Vector3& operator*=(int val) {
		auto v = static_cast<float>(val);
		x *= v;
		y *= v;
		z *= v;
		return (*this);
	}
	constexpr Vector3 operator*(int val) const {
		float v = static_cast<float>(val);
		return Vector3(x * v, y * v, z * v);
	}
	Vector3& operator/=(int val) {
		auto v = static_cast<float>(val);
		x /= v;
		y /= v;
		z /= v;
		return (*this);
	}
	constexpr Vector3 operator/(int val) const {
		float v = static_cast<float>(val);
		return Vector3(x / v, y / v, z / v);
	}

	Vector3& operator*=(uint32_t val) {
		auto v = static_cast<float>(val);
		x *= v;
		y *= v;
		z *= v;
		return (*this);
	}
	constexpr Vector3 operator*(uint32_t val) const {
		float v = static_cast<float>(val);
		return Vector3(x * v, y * v, z * v);
	}
	Vector3& operator/=(uint32_t val) {
		auto v = static_cast<float>(val);
		x /= v;
		y /= v;
		z /= v;
		return (*this);
	}
	constexpr Vector3 operator/(uint32_t val) const {
		float v = static_cast<float>(val);
		return Vector3(x / v, y / v, z / v);
	}

	Vector3& operator*=(uint64_t val) {
		auto v = static_cast<float>(val);
		x *= v;
		y *= v;
		z *= v;
		return (*this);
	}
	constexpr Vector3 operator*(uint64_t val) const {
		float v = static_cast<float>(val);
		return Vector3(x * v, y * v, z * v);
	}
	Vector3& operator/=(uint64_t val) {
		auto v = static_cast<float>(val);
		x /= v;
		y /= v;
		z /= v;
		return (*this);
	}
	constexpr Vector3 operator/(uint64_t val) const {
		float v = static_cast<float>(val);
		return Vector3(x / v, y / v, z / v);
	}

	constexpr Vector3 cross(const Vector3& other) const {
		Vector3 tmp;
		tmp.x = y * other.z - z * other.y;
		tmp.y = z * other.x - x * other.z;
		tmp.z = x * other.y - y * other.x;
		return tmp;
	}

	constexpr float dot(const Vector3& other) const { return x * other.x + y * other.y + z * other.z; }

	float DistanceTo(const Vector3& target) const {
		float dx = target.x - x;
		float dy = target.y - y;
		float dz = target.z - z;
		return static_cast<float>(std::sqrt(dx * dx + dy * dy + dz * dz));
	}

	constexpr float DistanceSquaredTo(const Vector3& target) const {
		float dx = target.x - x;
		float dy = target.y - y;
		float dz = target.z - z;
		return static_cast<float>(dx * dx + dy * dy + dz * dz);
	}

	float angle(const Vector3& other) const {
		Vector3 A(x, y, z);
		Vector3 B(other.x, other.y, other.z);
		A.Normalize();
		B.Normalize();

		float dot = A.dot(B);
		if (dot > 1.0f)
			return 0.0f;
		else if (dot < -1.0f)
			return PI;
		else if (dot == 0.0f)
			return PI / 2.0f;

		return std::acos(dot);
	}

	void clampEpsilon() {
		if (std::fabs(x) < EPSILON)
			x = 0.0f;
		if (std::fabs(y) < EPSILON)
			y = 0.0f;
		if (std::fabs(z) < EPSILON)
			z = 0.0f;
	}

	bool IsNearlyEqualTo(const Vector3& other) const {
		return FloatsAreNearlyEqual(x, other.x) && FloatsAreNearlyEqual(y, other.y)
			   && FloatsAreNearlyEqual(z, other.z);
	}

	constexpr float length2() const { return x * x + y * y + z * z; }

	float length() const { return std::sqrt(x * x + y * y + z * z); }

	float DistanceToSegment(const Vector3& p1, const Vector3& p2) const {
		Vector3 segvec(p2 - p1);
		Vector3 diffp1(*this - p1);
		float dp = segvec.dot(diffp1);
		if (dp <= 0)
			return diffp1.length();
		else if (dp >= segvec.length2())
			return (*this - p2).length();
		return segvec.cross(diffp1).length() / segvec.length();
	}
};

inline constexpr Vector3 operator*(float f, const Vector3& v) {
	return Vector3(f * v.x, f * v.y, f * v.z);
}

Vector3 CalcMedianOfVector3(const std::vector<Vector3>& data);

// Vector with 4 float components (xyzw)
struct Vector4 {
	float x = 0.0f;
	float y = 0.0f;
	float z = 0.0f;
	float w = 0.0f;

	constexpr Vector4() = default;
	constexpr Vector4(float X, float Y, float Z, float W)
		: x(X)
		, y(Y)
		, z(Z)
		, w(W) {}
};

// Color with 3 float components (rgb)
struct Color3 {
	float r = 0.0f;
	float g = 0.0f;
	float b = 0.0f;

	constexpr Color3() = default;
	constexpr Color3(float r_, float g_, float b_)
		: r(r_)
		, g(g_)
		, b(b_) {}

	constexpr bool operator==(const Color3& other) {
		return r == other.r && g == other.g && b == other.b;
	}
	constexpr bool operator!=(const Color3& other) { return !(*this == other); }

	Color3& operator*=(float val) {
		r *= val;
		g *= val;
		b *= val;
		return *this;
	}
	constexpr Color3 operator*(float val) const {
		return Color3(r * val, g * val, b * val);
	}

	Color3& operator/=(float val) {
		r /= val;
		g /= val;
		b /= val;
		return *this;
	}
	constexpr Color3 operator/(float val) const {
		return Color3(r / val, g / val, b / val);
	}
};

// Color with 4 float components (rgba)
struct Color4 {
	float r = 0.0f;
	float g = 0.0f;
	float b = 0.0f;
	float a = 0.0f;

	constexpr Color4() = default;
	constexpr Color4(float r_, float g_, float b_, float a_)
		: r(r_)
		, g(g_)
		, b(b_)
		, a(a_) {}

	constexpr bool operator==(const Color4& other) {
		return r == other.r && g == other.g && b == other.b && a == other.a;
	}
	constexpr bool operator!=(const Color4& other) { return !(*this == other); }

	Color4& operator*=(float val) {
		r *= val;
		g *= val;
		b *= val;
		a *= val;
		return *this;
	}
	constexpr Color4 operator*(float val) const {
		return Color4(r * val, g * val, b * val, a * val);
	}

	Color4& operator/=(float val) {
		r /= val;
		g /= val;
		b /= val;
		a /= val;
		return *this;
	}
	constexpr Color4 operator/(float val) const {
		return Color4(r / val, g / val, b / val, a / val);
	}
};

// Color with 3 byte components (rgb)
struct ByteColor3 {
	uint8_t r = 0;
	uint8_t g = 0;
	uint8_t b = 0;

	bool operator==(const ByteColor3& other) { return (r == other.r && g == other.g && b == other.b); }
	bool operator!=(const ByteColor3& other) { return !(*this == other); }
};

// Color with 4 byte components (rgba)
struct ByteColor4 {
	uint8_t r = 0;
	uint8_t g = 0;
	uint8_t b = 0;
	uint8_t a = 0;

	bool operator==(const ByteColor4& other) {
		return (r == other.r && g == other.g && b == other.b && a == other.a);
	}
	bool operator!=(const ByteColor4& other) { return !(*this == other); }
};

class Matrix3 {
	Vector3 rows[3] = {Vector3(1.0f, 0.0f, 0.0f), Vector3(0.0f, 1.0f, 0.0f), Vector3(0.0f, 0.0f, 1.0f)};

public:
	constexpr Matrix3() {}
	constexpr Matrix3(const Vector3& r1, const Vector3& r2, const Vector3& r3)
		: rows{r1, r2, r3} {}
	constexpr Matrix3(float m00, float m01, float m02, float m10, float m11, float m12, float m20, float m21, float m22)
		: rows{Vector3(m00, m01, m02), Vector3(m10, m11, m12), Vector3(m20, m21, m22)} {}

	constexpr Vector3& operator[](int index) { return rows[index]; }

	constexpr const Vector3& operator[](int index) const { return rows[index]; }

	constexpr bool operator==(const Matrix3& other) const {
		return rows[0] == other[0] && rows[1] == other[1] && rows[2] == other[2];
	}

	constexpr bool IsIdentity() { return *this == Matrix3(); }

	Matrix3& Identity() {
		//1.0f, 0.0f, 0.0f
		//0.0f, 1.0f, 0.0f
		//0.0f, 0.0f, 1.0f

		rows[0].Zero();
		rows[1].Zero();
		rows[2].Zero();
		rows[0].x = 1.0f;
		rows[1].y = 1.0f;
		rows[2].z = 1.0f;
		return *this;
	}

	constexpr Matrix3 operator+(const Matrix3& other) const {
		return Matrix3(rows[0] + other[0], rows[1] + other[1], rows[2] + other[2]);
	}

	Matrix3& operator+=(const Matrix3& other) {
		*this = *this + other;
		return *this;
	}

	constexpr Matrix3 operator-(const Matrix3& other) const {
		return Matrix3(rows[0] - other[0], rows[1] - other[1], rows[2] - other[2]);
	}

	Matrix3& operator-=(const Matrix3& other) {
		*this = *this - other;
		return *this;
	}

	Matrix3& operator*=(const Matrix3& other) {
		*this = *this * other;
		return *this;
	}

	constexpr Matrix3 operator*(const Matrix3& o) const {
		Matrix3 res;
		res[0][0] = rows[0][0] * o[0][0] + rows[0][1] * o[1][0] + rows[0][2] * o[2][0];
		res[0][1] = rows[0][0] * o[0][1] + rows[0][1] * o[1][1] + rows[0][2] * o[2][1];
		res[0][2] = rows[0][0] * o[0][2] + rows[0][1] * o[1][2] + rows[0][2] * o[2][2];
		res[1][0] = rows[1][0] * o[0][0] + rows[1][1] * o[1][0] + rows[1][2] * o[2][0];
		res[1][1] = rows[1][0] * o[0][1] + rows[1][1] * o[1][1] + rows[1][2] * o[2][1];
		res[1][2] = rows[1][0] * o[0][2] + rows[1][1] * o[1][2] + rows[1][2] * o[2][2];
		res[2][0] = rows[2][0] * o[0][0] + rows[2][1] * o[1][0] + rows[2][2] * o[2][0];
		res[2][1] = rows[2][0] * o[0][1] + rows[2][1] * o[1][1] + rows[2][2] * o[2][1];
		res[2][2] = rows[2][0] * o[0][2] + rows[2][1] * o[1][2] + rows[2][2] * o[2][2];
		return res;
	}

	constexpr Vector3 operator*(const Vector3& v) const {
		return Vector3(rows[0][0] * v.x + rows[0][1] * v.y + rows[0][2] * v.z,
					   rows[1][0] * v.x + rows[1][1] * v.y + rows[1][2] * v.z,
					   rows[2][0] * v.x + rows[2][1] * v.y + rows[2][2] * v.z);
	}

	constexpr Matrix3 operator*(float f) const {
		return Matrix3(rows[0] * f, rows[1] * f, rows[2] * f);
	}

	Matrix3& operator*=(float f) {
		return *this = *this * f;
	}

	constexpr Matrix3 operator/(float f) const {
		return Matrix3(rows[0] / f, rows[1] / f, rows[2] / f);
	}

	Matrix3& operator/=(float f) {
		return *this = *this / f;
	}

	constexpr Matrix3 Transpose() const {
		Matrix3 res;
		res[0][0] = rows[0][0];
		res[0][1] = rows[1][0];
		res[0][2] = rows[2][0];
		res[1][0] = rows[0][1];
		res[1][1] = rows[1][1];
		res[1][2] = rows[2][1];
		res[2][0] = rows[0][2];
		res[2][1] = rows[1][2];
		res[2][2] = rows[2][2];
		return res;
	}

	float Determinant() const;

	// Invert attempts to invert this matrix, returning the result in
	// inverse.  It returns false if the matrix is not invertible, in
	// which case inverse is not changed.
	bool Invert(Matrix3* inverse) const;

	// Inverse returns the inverse of this matrix if it's invertible.
	// If this matrix is not invertible, the identity matrix is returned.
	Matrix3 Inverse() const;

	// Generate rotation matrix from yaw, pitch and roll (in radians)
	// This is not the inverse of ToEulerAngles; though both functions
	// work with Euler angles, there are many conflicting definitions
	// of "Euler angles" (yaw, pitch, and roll), and these two functions
	// use different definitions.
	static Matrix3 MakeRotation(const float yaw, const float pitch, const float roll);

	// Convert rotation to euler degrees (Yaw, Pitch, Roll)
	// This function assumes that the matrix is a rotation matrix.
	// ToEulerAngles is not the inverse of MakeRotation; though both
	// functions work with Euler angles, there are many conflicting
	// definitions of "Euler angles", and these two functions use
	// different definitions.
	// The return result "canRot" apparently means roll is not zero.
	bool ToEulerAngles(float& y, float& p, float& r) const;
	bool ToEulerDegrees(float& y, float& p, float& r) const {
		bool canRot = ToEulerAngles(y, p, r);
		y *= 180.0f / PI;
		p *= 180.0f / PI;
		r *= 180.0f / PI;
		return canRot;
	}

	bool IsNearlyEqualTo(const Matrix3& other) const {
		return rows[0].IsNearlyEqualTo(other.rows[0]) && rows[1].IsNearlyEqualTo(other.rows[1])
			   && rows[2].IsNearlyEqualTo(other.rows[2]);
	}
};

// RotVecToMat: converts a rotation vector to a rotation matrix.
// (A rotation vector has direction the axis of the rotation
// and magnitude the angle of rotation.)
Matrix3 RotVecToMat(const Vector3& v);

// RotMatToVec: converts a rotation matrix into a rotation vector.
// (A rotation vector has direction the axis of the rotation
// and magnitude the angle of rotation.)
// Note that this function is unstable for angles near pi, but it
// should still work.
Vector3 RotMatToVec(const Matrix3& m);

Matrix3 CalcAverageRotation(const std::vector<Matrix3>& rots);
Matrix3 CalcMedianRotation(const std::vector<Matrix3>& rots);

// 4D Matrix class for calculating and applying transformations.
class Matrix4 {
	float m[16]{};

public:
	constexpr Matrix4(): m{1.0f, 0.0f, 0.0f, 0.0f, 0.0f, 1.0f, 0.0f, 0.0f, 0.0f, 0.0f, 1.0f, 0.0f, 0.0f, 0.0f, 0.0f, 1.0f} {}

	Matrix4(const std::vector<Vector3>& mat33) { Set(mat33); }

	void Set(Vector3 mat33[3]) {
		m[0] = mat33[0].x;
		m[1] = mat33[0].y;
		m[2] = mat33[0].z;
		m[3] = 0;
		m[4] = mat33[1].x;
		m[5] = mat33[1].y;
		m[6] = mat33[1].z;
		m[7] = 0;
		m[8] = mat33[2].x;
		m[9] = mat33[2].y;
		m[10] = mat33[2].z;
		m[11] = 0;
		m[12] = 0;
		m[13] = 0;
		m[14] = 0;
		m[15] = 1;
	}

	void Set(const std::vector<Vector3>& mat33) {
		m[0] = mat33[0].x;
		m[1] = mat33[0].y;
		m[2] = mat33[0].z;
		m[3] = 0;
		m[4] = mat33[1].x;
		m[5] = mat33[1].y;
		m[6] = mat33[1].z;
		m[7] = 0;
		m[8] = mat33[2].x;
		m[9] = mat33[2].y;
		m[10] = mat33[2].z;
		m[11] = 0;
		m[12] = 0;
		m[13] = 0;
		m[14] = 0;
		m[15] = 1;
	}

	void SetRow(int row, const Vector3& inVec) {
		m[row * 4 + 0] = inVec.x;
		m[row * 4 + 1] = inVec.y;
		m[row * 4 + 2] = inVec.z;
	}

	constexpr float& operator[](int index) { return m[index]; }
	constexpr float operator[](int index) const { return m[index]; }

	bool operator==(const Matrix4& other) const { return (std::equal(m, m + sizeof m / sizeof *m, other.m)); }

	bool IsIdentity() { return *this == Matrix4(); }

	Matrix4& Identity() {
		std::memset(m, 0, sizeof(float) * 16);
		m[0] = m[5] = m[10] = m[15] = 1.0f;
		return *this;
	}

	void GetRow(int row, Vector3& outVec) {
		outVec.x = m[row * 4 + 0];
		outVec.y = m[row * 4 + 1];
		outVec.z = m[row * 4 + 2];
	}

	void Get33(float* o, int r = 3, int c = 3) {
		int p = 0;
		for (int i = 0; i < 4; i++) {
			if (i == r)
				continue;
			for (int j = 0; j < 4; j++) {
				if (j == c)
					continue;
				o[p++] = m[4 * i + j];
			}
		}
	}

	Matrix4 Inverse() {
		Matrix4 c;
		float det = Det();
		if (det == 0.0f) {
			c[0] = std::numeric_limits<float>::max();
			return c;
		}
		return (Adjoint() * (1.0f / det));
	}

	Matrix4 Cofactor() {
		Matrix4 c;
		float minor[9];
		for (int i = 0; i < 4; i++) {
			for (int j = 0; j < 4; j++) {
				Get33(minor, i, j);
				c[4 * i + j] = Det33(minor);
			}
		}
		return c;
	}

	//  i&1   j&1	   xor
	//	0000 0101    0 1 0 1
	//	1111 0101    1 0 1 0
	//	0000 0101    0 1 0 1
	//	1111 0101    1 0 1 0
	// Adjoint is the transpose of the cofactor.
	Matrix4 Adjoint() {
		Matrix4 c;
		float minor[9];
		for (int i = 0; i < 4; i++) {
			for (int j = 0; j < 4; j++) {
				Get33(minor, i, j);
				if ((i & 1) ^ (j & 1))
					c[i + j * 4] = -Det33(minor);
				else
					c[i + j * 4] = Det33(minor);
			}
		}
		return c;
	}

	float Det() {
		//  |a	b	c	d|	|0	1	2	3 |
		//	|e	f	g	h|	|4	5	6	7 |
		//	|i	j	k	l|	|8	9	10	11|
		//	|m	n	o	p|	|12 13	14	15|
		float A = m[0]
				  * ((m[5] * m[10] * m[15] + m[6] * m[11] * m[13] + m[7] * m[9] * m[14])
					 - (m[7] * m[10] * m[13] + m[6] * m[9] * m[15] + m[5] * m[11] * m[14]));
		float B = m[1]
				  * ((m[4] * m[10] * m[15] + m[6] * m[11] * m[12] + m[7] * m[8] * m[14])
					 - (m[7] * m[10] * m[12] + m[6] * m[8] * m[15] + m[4] * m[11] * m[14]));
		float C = m[2]
				  * ((m[4] * m[9] * m[15] + m[5] * m[11] * m[12] + m[7] * m[8] * m[13])
					 - (m[7] * m[9] * m[12] + m[5] * m[8] * m[15] + m[4] * m[11] * m[13]));
		float D = m[3]
				  * ((m[4] * m[9] * m[14] + m[5] * m[10] * m[12] + m[6] * m[8] * m[13])
					 - (m[6] * m[9] * m[12] + m[5] * m[8] * m[14] + m[4] * m[10] * m[13]));
		return A - B + C - D;
	}

	float Det33(float* t) {
		//  |a	b  c|	|0	1	2 |
		//	|d	e  f|	|3	4	5 |
		//	|g	h  i|	|6  7	8 |
		//  (aei + bfg + cdh) - (ceg + bdi + afh)
		//  (0*4*8 + 1*5*6 + 2*3*7) - (2*4*6 + 1*3*8 + 0*5*7)
		return ((t[0] * t[4] * t[8] + t[1] * t[5] * t[6] + t[2] * t[3] * t[7])
				- (t[2] * t[4] * t[6] + t[1] * t[3] * t[8] + t[0] * t[5] * t[7]));
	}

	constexpr Matrix4 operator+(const Matrix4& other) const {
		Matrix4 t(*this);
		for (int i = 0; i < 16; i++)
			t[i] += other[i];
		return t;
	}
	Matrix4& operator+=(const Matrix4& other) {
		for (int i = 0; i < 16; i++)
			m[i] += other.m[i];

		return (*this);
	}
	constexpr Matrix4 operator-(const Matrix4& other) const {
		Matrix4 t(*this);
		for (int i = 0; i < 16; i++)
			t[i] -= other[i];
		return t;
	}
	Matrix4& operator-=(const Matrix4& other) {
		for (int i = 0; i < 16; i++)
			m[i] -= other.m[i];

		return (*this);
	}
	constexpr Vector3 operator*(const Vector3& v) const {
		return Vector3(m[0] * v.x + m[1] * v.y + m[2] * v.z + m[3],
					   m[4] * v.x + m[5] * v.y + m[6] * v.z + m[7],
					   m[8] * v.x + m[9] * v.y + m[10] * v.z + m[11]);
	}

	Matrix4& operator*=(const Matrix4& r) {
		float v1, v2, v3, v4;
		for (int n = 0; n < 16; n += 4) {
			v1 = m[n] * r.m[0] + m[n + 1] * r.m[4] + m[n + 2] * r.m[8] + m[n + 3] * r.m[12];
			v2 = m[n] * r.m[1] + m[n + 1] * r.m[5] + m[n + 2] * r.m[9] + m[n + 3] * r.m[13];
			v3 = m[n] * r.m[2] + m[n + 1] * r.m[6] + m[n + 2] * r.m[10] + m[n + 3] * r.m[14];
			v4 = m[n] * r.m[3] + m[n + 1] * r.m[7] + m[n + 2] * r.m[11] + m[n + 3] * r.m[15];
			m[n] = v1;
			m[n + 1] = v2;
			m[n + 2] = v3;
			m[n + 3] = v4;
		}
		return *this;
	}
	Matrix4 operator*(const Matrix4& other) {
		Matrix4 t(*this);
		t *= other;
		return t;
	}
	constexpr Matrix4 operator*(float val) {
		Matrix4 t(*this);
		for (int i = 0; i < 16; i++)
			t[i] *= val;

		return t;
	}

	void PushTranslate(const Vector3& byvec) {
		Matrix4 tmp;
		tmp.Translate(byvec);
		(*this) *= tmp;
	}

	Matrix4& Translate(const Vector3& byVec) { return Translate(byVec.x, byVec.y, byVec.z); }
	Matrix4& Translate(float x, float y, float z) {
		m[3] += x;
		m[7] += y;
		m[11] += z;
		return (*this);
	}

	void PushScale(float x, float y, float z) {
		Matrix4 tmp;
		tmp.Scale(x, y, z);
		(*this) *= tmp;
	}

	Matrix4& Scale(float x, float y, float z) {
		m[0] *= x;
		m[1] *= x;
		m[2] *= x;
		m[3] *= x;
		m[4] *= y;
		m[5] *= y;
		m[6] *= y;
		m[7] *= y;
		m[8] *= z;
		m[9] *= z;
		m[10] *= z;
		m[11] *= z;
		return (*this);
	}

	void PushRotate(float radAngle, const Vector3& axis) {
		Matrix4 tmp;
		tmp.Rotate(radAngle, axis);
		(*this) *= tmp;
	}

	Matrix4& Rotate(float radAngle, const Vector3& axis) { return Rotate(radAngle, axis.x, axis.y, axis.z); }

	Matrix4& Rotate(float radAngle, float x, float y, float z) {
		float c = std::cos(radAngle);
		float s = std::sin(radAngle);

		float xx = x * x;
		float xy = x * y;
		float xz = x * z;
		float yy = y * y;
		float yz = y * z;
		float zz = z * z;

		float ic = 1 - c;

		Matrix4 t;
		t.m[0] = xx * ic + c;
		t.m[1] = xy * ic - z * s;
		t.m[2] = xz * ic + y * s;
		t.m[3] = 0.0f;

		t.m[4] = xy * ic + z * s;
		t.m[5] = yy * ic + c;
		t.m[6] = yz * ic - x * s;
		t.m[7] = 0.0f;

		t.m[8] = xz * ic - y * s;
		t.m[9] = yz * ic + x * s;
		t.m[10] = zz * ic + c;

		t.m[11] = t.m[12] = t.m[13] = t.m[14] = 0.0f;
		t.m[15] = 1.0f;

		*this = t * (*this);

		return (*this);
	}

	Matrix4& Align(const Vector3& sourceVec, const Vector3& destVec) {
		Identity();
		float angle = sourceVec.angle(destVec);
		Vector3 axis = sourceVec.cross(destVec);
		axis.Normalize();

		return Rotate(angle, axis);
	}
};


struct BoundingSphere {
	Vector3 center;
	float radius = 0.0f;

	constexpr BoundingSphere() {}

	constexpr BoundingSphere(const Vector3& center_, const float radius_)
		: center(center_)
		, radius(radius_) {}

	// Miniball algorithm
	BoundingSphere(const std::vector<Vector3>& vertices);
};


// Quaternion using float components (wxyz)
struct Quaternion {
	float w;
	float x;
	float y;
	float z;

	constexpr Quaternion()
		: w(1.0f)
		, x(0.0f)
		, y(0.0f)
		, z(0.0f) {}

	constexpr Quaternion(float w_, float x_, float y_, float z_)
		: w(w_)
		, x(x_)
		, y(y_)
		, z(z_) {}
};

// Quaternion using float components (xyzw)
struct QuaternionXYZW {
	float x;
	float y;
	float z;
	float w;

	constexpr QuaternionXYZW()
		: x(0.0f)
		, y(0.0f)
		, z(0.0f)
		, w(1.0f) {}

	constexpr QuaternionXYZW(float x_, float y_, float z_, float w_)
		: x(x_)
		, y(y_)
		, z(z_)
		, w(w_) {}
};


struct MatTransform {
	/* On MatTransform and coordinate-system (CS) transformations:

	A MatTransform can represent a "similarity transform", where
	it scales, rotates, and moves geometry; or it can represent a
	"coordinate-system transform", where the geometry itself does
	not change, but its representation changes from one CS to another.

	If CS1 is the source CS and CS2 is the target CS, then:
	ApplyTransform(v) converts a point v represented in CS1 to CS2.
	translation is CS1's origin represented in CS2.
	rotation has columns the basis vectors of CS1 represented in CS2.
	scale gives how much farther apart points appear to be in CS2 than in CS1.

	Note that we do not force "rotation" to actually be a rotation
	matrix.  A rotation matrix's inverse is its transpose.  Instead,
	we only assume "rotation" is invertible, which means its inverse
	must be calculated (using Matrix3::Invert).  Even though we always
	treat "rotation" as a general invertible matrix and not a rotation
	matrix, in practice it is always a rotation matrix.
	*/
	Vector3 translation;
	Matrix3 rotation;	// must be invertible
	float scale = 1.0f; // must be nonzero

	void Clear() {
		translation.Zero();
		rotation.Identity();
		scale = 1.0f;
	}

	// Rotation in euler degrees (Yaw, Pitch, Roll)
	bool ToEulerDegrees(float& y, float& p, float& r) const { return rotation.ToEulerDegrees(y, p, r); }

	// Full matrix of translation, rotation and scale
	constexpr Matrix4 ToMatrix() const {
		Matrix4 mat;
		mat[0] = rotation[0].x * scale;
		mat[1] = rotation[0].y * scale;
		mat[2] = rotation[0].z * scale;
		mat[3] = translation.x;
		mat[4] = rotation[1].x * scale;
		mat[5] = rotation[1].y * scale;
		mat[6] = rotation[1].z * scale;
		mat[7] = translation.y;
		mat[8] = rotation[2].x * scale;
		mat[9] = rotation[2].y * scale;
		mat[10] = rotation[2].z * scale;
		mat[11] = translation.z;
		return mat;
	}

	// ToGLMMatrix: turns this transform into a glm::mat4x4.  This is
	// basically the same as ToMatrix above, except glm::mat4x4 stores its
	// data in column-major form instead of row-major like everything else.
	// To call, do xform.ToGLMMatrix<glm::mat4x4>();
	template<typename Mat>
	constexpr Mat ToGLMMatrix() const {
		Mat m;
		m[0][0] = rotation[0][0] * scale;
		m[0][1] = rotation[1][0] * scale;
		m[0][2] = rotation[2][0] * scale;
		m[0][3] = 0.0f;
		m[1][0] = rotation[0][1] * scale;
		m[1][1] = rotation[1][1] * scale;
		m[1][2] = rotation[2][1] * scale;
		m[1][3] = 0.0f;
		m[2][0] = rotation[0][2] * scale;
		m[2][1] = rotation[1][2] * scale;
		m[2][2] = rotation[2][2] * scale;
		m[2][3] = 0.0f;
		m[3][0] = translation.x;
		m[3][1] = translation.y;
		m[3][2] = translation.z;
		m[3][3] = 1.0f;
		return m;
	}

	[[deprecated("Does something nonsensical")]]
	Vector3 GetVector() const { return translation + rotation * Vector3(scale, scale, scale); }

	// ApplyTransform applies this MatTransform to a position vector v by
	// first scaling v, then rotating the result of that, and then
	// translating the result of that.
	constexpr Vector3 ApplyTransform(const Vector3& pos) const {
		return translation + rotation * (pos * scale);
	}

	// ApplyTransformToDiff applies this transform to a position difference
	// (or offset) vector.
	constexpr Vector3 ApplyTransformToDiff(const Vector3& diff) const {
		return rotation * (diff * scale);
	}

	// ApplyTransformToDir applies this transform to a direction unit
	// vector or normal.
	constexpr Vector3 ApplyTransformToDir(const Vector3& dir) const {
		return rotation * dir;
	}

	// ApplyTransformToDist applies this transform to a distance.
	constexpr float ApplyTransformToDist(float d) const {
		return scale * d;
	}

	// Note that InverseTransform will return garbage if "rotation"
	// is not invertible or scale is 0.
	MatTransform InverseTransform() const;

	// ComposeTransforms returns the transform that is the composition
	// of this and other.  That is, if t3 = t1.ComposeTransforms(t2), then
	// t3.ApplyTransform(v) == t1.ApplyTransform(t2.ApplyTransform(v)).
	MatTransform ComposeTransforms(const MatTransform& other) const;

	bool IsNearlyEqualTo(const MatTransform& other) const {
		return translation.IsNearlyEqualTo(other.translation) && rotation.IsNearlyEqualTo(other.rotation)
			   && FloatsAreNearlyEqual(scale, other.scale);
	}
};

MatTransform CalcAverageMatTransform(const std::vector<MatTransform>& ts);
MatTransform CalcMedianMatTransform(const std::vector<MatTransform>& ts);


// Edge with uint16_t point indices
struct Edge {
	uint16_t p1;
	uint16_t p2;

	constexpr Edge(): p1(0), p2(0) {}
	constexpr Edge(uint16_t P1, uint16_t P2): p1(P1), p2(P2) {}

	constexpr bool CompareIndices(const Edge& o) { return (p1 == o.p1 && p2 == o.p2) || (p1 == o.p2 && p2 == o.p1); }
};

// Triangle with uint16_t point indices
struct Triangle {
	uint16_t p1;
	uint16_t p2;
	uint16_t p3;

	constexpr Triangle(): p1(0), p2(0), p3(0) {}
	constexpr Triangle(uint16_t P1, uint16_t P2, uint16_t P3): p1(P1), p2(P2), p3(P3) {}

	void set(uint16_t P1, uint16_t P2, uint16_t P3) {
		p1 = P1;
		p2 = P2;
		p3 = P3;
	}

	void trinormal(const Vector3* vertref, Vector3* outNormal) const {
		*outNormal = trinormal(vertref);
	}

	void trinormal(const std::vector<Vector3>& vertref, Vector3* outNormal) const {
		*outNormal = trinormal(&vertref[0]);
	}

	Vector3 trinormal(const Vector3* vertref) const {
		return (vertref[p2] - vertref[p1]).cross(vertref[p3] - vertref[p1]);
	}

	Vector3 trinormal(const std::vector<Vector3>& vertref) const {
		return trinormal(&vertref[0]);
	}

	void midpoint(const Vector3* vertref, Vector3& outPoint) {
		outPoint = vertref[p1];
		outPoint += vertref[p2];
		outPoint += vertref[p3];
		outPoint /= 3;
	}

	float AxisMidPointY(const Vector3* vertref) const { return (vertref[p1].y + vertref[p2].y + vertref[p3].y) / 3.0f; }

	float AxisMidPointX(const Vector3* vertref) const { return (vertref[p1].x + vertref[p2].x + vertref[p3].x) / 3.0f; }

	float AxisMidPointZ(const Vector3* vertref) const { return (vertref[p1].z + vertref[p2].z + vertref[p3].z) / 3.0f; }

	constexpr Edge GetEdge(int i) const {
		if (i == 0)
			return Edge(p1, p2);
		else if (i == 1)
			return Edge(p2, p3);
		else
			return Edge(p3, p1);
	}

	constexpr bool HasVertex(uint16_t p) const {
		return p == p1 || p == p2 || p == p3;
	}

	constexpr bool HasOrientedEdge(const Edge& e) const {
		return (e.p1 == p1 && e.p2 == p2) || (e.p1 == p2 && e.p2 == p3) || (e.p1 == p3 && e.p2 == p1);
	}

	Edge ClosestEdge(Vector3* vertref, const Vector3& p) const {
		float d1 = p.DistanceToSegment(vertref[p1], vertref[p2]);
		float d2 = p.DistanceToSegment(vertref[p2], vertref[p3]);
		float d3 = p.DistanceToSegment(vertref[p3], vertref[p1]);
		if (d1 <= d2 && d1 <= d3)
			return Edge(p1, p2);
		else if (d2 < d3)
			return Edge(p2, p3);
		return Edge(p3, p1);
	}

	uint16_t ClosestVertex(const Vector3* vertref, const Vector3& p) const {
		float d1 = p.DistanceTo(vertref[p1]);
		float d2 = p.DistanceTo(vertref[p2]);
		float d3 = p.DistanceTo(vertref[p3]);
		if (d1 <= d2 && d1 <= d3)
			return p1;
		else if (d2 <= d3)
			return p2;
		else
			return p3;
	}

	float DistanceToPoint(const Vector3* vertref, const Vector3& p) const {
		// Let pp be the projection of p onto the triangle's plane.
		// If pp is to the right of edge 1, then pp (and therefore p) is
		// closest to edge 1.  The same for edge 2 and edge 3.  Otherwise,
		// pp is inside the triangle.
		const Vector3& v1 = vertref[p1];
		const Vector3& v2 = vertref[p2];
		const Vector3& v3 = vertref[p3];
		Vector3 n = trinormal(vertref);
		if ((p - v1).dot((v2 - v1).cross(n)) >= 0)
			return p.DistanceToSegment(v1, v2);
		if ((p - v2).dot((v3 - v2).cross(n)) >= 0)
			return p.DistanceToSegment(v2, v3);
		if ((p - v3).dot((v1 - v3).cross(n)) >= 0)
			return p.DistanceToSegment(v3, v1);
		n.Normalize();
		return std::fabs((p - v1).dot(n));
	}

	bool IntersectRay(const Vector3* vertref,
					  const Vector3& origin,
					  const Vector3& direction,
					  float* outDistance = nullptr,
					  Vector3* worldPos = nullptr) {
		Vector3 c0(vertref[p1].x, vertref[p1].y, vertref[p1].z);
		Vector3 c1(vertref[p2].x, vertref[p2].y, vertref[p2].z);
		Vector3 c2(vertref[p3].x, vertref[p3].y, vertref[p3].z);

		Vector3 e1 = c1 - c0;
		Vector3 e2 = c2 - c0;
		float u, v;

		Vector3 pvec = direction.cross(e2);
		float det = e1.dot(pvec);

		if (det <= 0.0f)
			return false;

		Vector3 tvec = origin - c0;
		u = tvec.dot(pvec);
		if (u < 0 || u > det)
			return false;

		Vector3 qvec = tvec.cross(e1);
		v = direction.dot(qvec);
		if (v < 0 || u + v > det)
			return false;

		float dist = e2.dot(qvec);
		if (dist < 0)
			return false;

		dist *= (1.0f / det);

		if (outDistance)
			(*outDistance) = dist;
		if (worldPos)
			(*worldPos) = origin + (direction * dist);

		return true;
	}

	// Triangle/Sphere collision psuedocode by Christer Ericson: http://realtimecollisiondetection.net/blog/?p=103
	//   separating axis test on seven features --  3 points, 3 edges, and the tri plane.  For a sphere, this
	//   involves finding the minimum distance to each feature from the sphere origin and comparing it to the sphere radius.
	bool IntersectSphere(const Vector3* vertref, const Vector3& origin, float radius, float* outDistance = nullptr) {
		//A = A - P
		//B = B - P
		//C = C - P

		// Triangle points A,B,C.  translate them so the sphere's origin is their origin
		Vector3 A(vertref[p1].x, vertref[p1].y, vertref[p1].z);
		A = A - origin;
		Vector3 B(vertref[p2].x, vertref[p2].y, vertref[p2].z);
		B = B - origin;
		Vector3 C(vertref[p3].x, vertref[p3].y, vertref[p3].z);
		C = C - origin;

		//rr = r * r
		// Squared radius to avoid sqrts.
		float rr = radius * radius;
		//V = cross(B - A, C - A)

		// first test: tri plane.  Calculate the normal V
		Vector3 AB = B - A;
		Vector3 AC = C - A;
		Vector3 V = AB.cross(AC);
		//d = dot(A, V)
		//e = dot(V, V)
		// optimized distance test of the plane to the sphere -- removing sqrts and divides
		float d = A.dot(V);
		float e = V.dot(V); // e = squared normal vector length -- the normalization factor
		//sep1 = d * d > rr * e
		if (d * d > rr * e)
			return false;

		//aa = dot(A, A)
		//ab = dot(A, B)
		//ac = dot(A, C)
		//bb = dot(B, B)
		//bc = dot(B, C)
		//cc = dot(C, C)

		// second test: tri points.  A sparating axis exists if a point lies outside the sphere, and the other tri points aren't on the other side of the sphere.
		float aa = A.dot(A); // dist to point A
		float ab = A.dot(B);
		float ac = A.dot(C);
		float bb = B.dot(B); // dist to point B
		float bc = B.dot(C);
		float cc = C.dot(C); // dist to point C
		bool sep2 = (aa > rr) && (ab > aa) && (ac > aa);
		bool sep3 = (bb > rr) && (ab > bb) && (bc > bb);
		bool sep4 = (cc > rr) && (ac > cc) && (bc > cc);

		if (sep2 | sep3 | sep4)
			return false;

		//AB = B - A
		Vector3 BC = C - B;
		Vector3 CA = A - C;

		float d1 = ab - aa;
		d1 = A.dot(AB);
		float d2 = bc - bb;
		d2 = B.dot(BC);
		float d3 = ac - cc;
		d3 = C.dot(CA);

		//e1 = dot(AB, AB)
		//e2 = dot(BC, BC)
		//e3 = dot(CA, CA)
		float e1 = AB.dot(AB);
		float e2 = BC.dot(BC);
		float e3 = CA.dot(CA);

		//Q1 = A * e1 - d1 * AB
		//Q2 = B * e2 - d2 * BC
		//Q3 = C * e3 - d3 * CA
		//QC = C * e1 - Q1
		//QA = A * e2 - Q2
		//QB = B * e3 - Q3
		Vector3 Q1 = (A * e1) - (AB * d1);
		Vector3 Q2 = (B * e2) - (BC * d2);
		Vector3 Q3 = (C * e3) - (CA * d3);
		Vector3 QC = (C * e1) - Q1;
		Vector3 QA = (A * e2) - Q2;
		Vector3 QB = (B * e3) - Q3;

		//sep5 = [dot(Q1, Q1) > rr * e1 * e1] & [dot(Q1, QC) > 0]
		//sep6 = [dot(Q2, Q2) > rr * e2 * e2] & [dot(Q2, QA) > 0]
		//sep7 = [dot(Q3, Q3) > rr * e3 * e3] & [dot(Q3, QB) > 0]

		bool sep5 = (Q1.dot(Q1) > (rr * e1 * e1)) && (Q1.dot(QC) > 0);
		bool sep6 = (Q2.dot(Q2) > (rr * e2 * e2)) && (Q2.dot(QA) > 0);
		bool sep7 = (Q3.dot(Q3) > (rr * e3 * e3)) && (Q3.dot(QB) > 0);
		//separated = sep1 | sep2 | sep3 | sep4 | sep5 | sep6 | sep7
		if (sep5 | sep6 | sep7)
			return false;

		// Note that this calculation of outDistance does not give the
		// distance from the triangle to the point "origin"; it gives
		// the distance from "origin" to the nearest vertex of the triangle.
		// If you want the distance from the triangle to "origin",
		// Triangle::DistanceToPoint may be a better choice.
		if (outDistance)
			(*outDistance) = std::min({vertref[p1].DistanceTo(origin),
									   vertref[p2].DistanceTo(origin),
									   vertref[p3].DistanceTo(origin)});

		return true;
	}

	uint16_t& operator[](int ind) { return ind ? (ind == 2 ? p3 : p2) : p1; }
	const uint16_t& operator[](int ind) const { return ind ? (ind == 2 ? p3 : p2) : p1; }

	constexpr bool operator<(const Triangle& other) const {
		int d = 0;
		if (d == 0)
			d = p1 - other.p1;
		if (d == 0)
			d = p2 - other.p2;
		if (d == 0)
			d = p3 - other.p3;
		return d < 0;
	}

	constexpr bool operator==(const Triangle& other) const {
		return (p1 == other.p1 && p2 == other.p2 && p3 == other.p3);
	}

	constexpr bool CompareIndices(const Triangle& other) const {
		return ((p1 == other.p1 || p1 == other.p2 || p1 == other.p3)
				&& (p2 == other.p1 || p2 == other.p2 || p2 == other.p3)
				&& (p3 == other.p1 || p3 == other.p2 || p3 == other.p3));
	}

	void rot() {
		if (p2 < p1 && p2 < p3) {
			set(p2, p3, p1);
		}
		else if (p3 < p1) {
			set(p3, p1, p2);
		}
	}
};

inline constexpr bool operator==(const Edge& t1, const Edge& t2) {
	return ((t1.p1 == t2.p1) && (t1.p2 == t2.p2));
}

// Face with either 3 or 4 point and uv indices
struct Face {
	uint8_t nPoints = 0;
	uint16_t p1 = 0;
	uint16_t uv1 = 0;
	uint16_t p2 = 0;
	uint16_t uv2 = 0;
	uint16_t p3 = 0;
	uint16_t uv3 = 0;
	uint16_t p4 = 0;
	uint16_t uv4 = 0;

	Face(const uint8_t npts = 0, const uint16_t* points = nullptr, const uint16_t* tc = nullptr) {
		nPoints = npts;
		if (npts < 3)
			return;

		p1 = points[0];
		p2 = points[1];
		p3 = points[2];
		uv1 = tc[0];
		uv2 = tc[1];
		uv3 = tc[2];
		if (npts == 4) {
			p4 = points[3];
			uv4 = tc[3];
		}
	}
};

// Rectangle with float components (x1, y1, x2, y2)
struct Rect {
	float x1 = 0.0f;
	float y1 = 0.0f;
	float x2 = 0.0f;
	float y2 = 0.0f;

	Rect() {}

	Rect(float X1, float Y1, float X2, float Y2) {
		x1 = X1;
		y1 = Y1;
		x2 = X2;
		y2 = Y2;
	}

	float GetLeft() { return x1; }
	float GetTop() { return y1; }
	float GetRight() { return x2; }
	float GetBottom() { return y2; }

	Vector2 GetTopLeft() { return Vector2(x1, y1); }
	Vector2 GetBottomRight() { return Vector2(x2, y2); }
	Vector2 GetTopRight() { return Vector2(x2, y1); }
	Vector2 GetBottomLeft() { return Vector2(x1, y2); }

	Vector2 GetCenter() { return Vector2((x1 + x2) / 2, (y1 + y2) / 2); }

	float GetWidth() { return x2 - x1 + 1; }
	float GetHeight() { return y2 - y1 + 1; }
	Vector2 GetSize() { return Vector2(GetWidth(), GetHeight()); }

	void SetLeft(float pos) { x1 = pos; }
	void SetTop(float pos) { y1 = pos; }
	void SetRight(float pos) { x2 = pos; }
	void SetBottom(float pos) { y2 = pos; }

	void SetTopLeft(const Vector2& p) {
		x1 = p.u;
		y1 = p.v;
	}
	void SetBottomRight(const Vector2& p) {
		x2 = p.u;
		y2 = p.v;
	}
	void SetTopRight(const Vector2& p) {
		x2 = p.u;
		y1 = p.v;
	}
	void SetBottomLeft(const Vector2& p) {
		x1 = p.u;
		y2 = p.v;
	}

	void SetWidth(float w) { x2 = x1 + w - 1.0f; }
	void SetHeight(float h) { y2 = y1 + h - 1.0f; }

	Rect Normalized() {
		Rect r;

		if (x2 < x1) {
			r.x1 = x2;
			r.x2 = x1;
		}
		else {
			r.x1 = x1;
			r.x2 = x2;
		}

		if (y2 < y1) {
			r.y1 = y2;
			r.y2 = y1;
		}
		else {
			r.y1 = y1;
			r.y2 = y2;
		}

		return r;
	}

	bool Contains(const Vector2& p) {
		float l = 0.0f;
		float r = 0.0f;

		if (x2 < x1 - 1.0f) {
			l = x2;
			r = x1;
		}
		else {
			l = x1;
			r = x2;
		}

		if (p.u < l || p.u > r)
			return false;

		float t = 0.0f;
		float b = 0.0f;

		if (y2 < y1 - 1.0f) {
			t = y2;
			b = y1;
		}
		else {
			t = y1;
			b = y2;
		}

		if (p.v < t || p.v > b)
			return false;

		return true;
	}
};
} // namespace nifly

namespace std {
using namespace nifly;

template<>
struct hash<Edge> {
	std::size_t operator()(const Edge& t) const {
		return (static_cast<size_t>(t.p2) << 16) | (t.p1 & 0xFFFF);
	}
};

template<>
struct hash<Triangle> {
	std::size_t operator()(const Triangle& t) const {
		auto d = reinterpret_cast<const char*>(&t);
		std::size_t len = sizeof(Triangle);
		std::size_t hash, i;
		for (hash = i = 0; i < len; ++i) {
			hash += static_cast<size_t>(d[i]);
			hash += (hash << 10);
			hash ^= (hash >> 6);
		}
		hash += (hash << 3);
		hash ^= (hash >> 11);
		hash += (hash << 15);
		return hash;
	}
};
} // namespace std
