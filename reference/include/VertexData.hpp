/*
nifly
C++ NIF library for the Gamebryo/NetImmerse File Format
See the included GPLv3 LICENSE file
*/

#pragma once

#include "BasicTypes.hpp"

namespace nifly {
enum VertexAttribute : uint8_t {
	VA_POSITION = 0x0,
	VA_TEXCOORD0 = 0x1,
	VA_TEXCOORD1 = 0x2,
	VA_NORMAL = 0x3,
	VA_BINORMAL = 0x4,
	VA_COLOR = 0x5,
	VA_SKINNING = 0x6,
	VA_LANDDATA = 0x7,
	VA_EYEDATA = 0x8,
	VA_COUNT = 9
};

enum VertexFlags : uint16_t {
	VF_VERTEX = 1 << VA_POSITION,
	VF_UV = 1 << VA_TEXCOORD0,
	VF_UV_2 = 1 << VA_TEXCOORD1,
	VF_NORMAL = 1 << VA_NORMAL,
	VF_TANGENT = 1 << VA_BINORMAL,
	VF_COLORS = 1 << VA_COLOR,
	VF_SKINNED = 1 << VA_SKINNING,
	VF_LANDDATA = 1 << VA_LANDDATA,
	VF_EYEDATA = 1 << VA_EYEDATA,
	VF_FULLPREC = 0x400
};

const uint64_t DESC_MASK_VERT = 0xFFFFFFFFFFFFFFF0;
const uint64_t DESC_MASK_UVS = 0xFFFFFFFFFFFFFF0F;
const uint64_t DESC_MASK_NBT = 0xFFFFFFFFFFFFF0FF;
const uint64_t DESC_MASK_SKCOL = 0xFFFFFFFFFFFF0FFF;
const uint64_t DESC_MASK_DATA = 0xFFFFFFFFFFF0FFFF;
const uint64_t DESC_MASK_OFFSET = 0xFFFFFF0000000000;
const uint64_t DESC_MASK_FLAGS = ~(DESC_MASK_OFFSET);

class VertexDesc {
private:
	uint64_t desc = 0;

public:
	// Sets a specific flag
	void SetFlag(VertexFlags flag) { desc |= Convert(flag); }

	// Removes a specific flag
	void RemoveFlag(VertexFlags flag) { desc &= ~Convert(flag); }

	// Checks for a specific flag
	bool HasFlag(VertexFlags flag) const { return ((desc >> 44) & flag) != 0; }

	// Gets the size of just the main vertex data (position, extra data, bitangentX)
	uint32_t GetVertexMainSize() {
		return ((desc & 0xFF00) >> 8) * 4;
	}

	// Sets the vertex size
	void SetSize(uint32_t size) {
		desc &= DESC_MASK_VERT;
		desc |= static_cast<uint64_t>(size) >> 2;
	}

	// Sets the dynamic vertex size
	void MakeDynamic() {
		desc &= DESC_MASK_UVS;
		desc |= 0x40;
	}

	// Return offset to a specific vertex attribute in the description
	uint32_t GetAttributeOffset(VertexAttribute attr) const {
		return (desc >> (4 * static_cast<uint8_t>(attr) + 2)) & 0x3C;
	}

	// Set offset to a specific vertex attribute in the description
	void SetAttributeOffset(VertexAttribute attr, uint32_t offset) {
		if (attr != VA_POSITION) {
			const uint64_t lhs = static_cast<uint64_t>(offset) << (4 * static_cast<uint8_t>(attr) + 2);
			const uint64_t rhs = desc & ~(static_cast<uint64_t>(15) << (4 * static_cast<uint8_t>(attr) + 4));
			desc = lhs | rhs;
		}
	}

	void ClearAttributeOffsets() { desc &= DESC_MASK_OFFSET; }

	VertexFlags GetFlags() const { return VertexFlags((desc & DESC_MASK_OFFSET) >> 44); }
	void SetFlags(VertexFlags flags) { desc |= Convert(flags) | (desc & DESC_MASK_FLAGS); }

	void Sync(NiStreamReversible& stream) { stream.Sync(desc); }

private:
	uint64_t Convert(VertexFlags flag) { return static_cast<uint64_t>(flag) << 44; }
};

struct BSVertexData {
	Vector3 vert; // Single- or half-precision depending on IsFullPrecision() being true
	float bitangentX = 0.0f; // Maybe the dot product of the vert normal and the z-axis?

	Vector2 uv;

	uint8_t normal[3]{};
	uint8_t bitangentY = 0;
	uint8_t tangent[3]{};
	uint8_t bitangentZ = 0;

	uint8_t colorData[4]{};

	float weights[4]{};
	uint8_t weightBones[4]{};

	float eyeData = 0.0f;
	std::vector<float> extra; // Variable length extra float data for vertex. Aligned before bitangentX in file.
};
} // namespace nifly
