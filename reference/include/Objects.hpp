/*
nifly
C++ NIF library for the Gamebryo/NetImmerse File Format
See the included GPLv3 LICENSE file
*/

#pragma once

#include "Animation.hpp"
#include "BasicTypes.hpp"
#include "ExtraData.hpp"

namespace nifly {
class NiObjectNET : public NiCloneableStreamable<NiObjectNET, NiObject> {
public:
	NiStringRef name;

	bool bBSLightingShaderProperty = false;
	uint32_t bslspShaderType = 0; // BSLightingShaderProperty && User Version >= 12

	NiBlockRef<NiTimeController> controllerRef;
	NiBlockRefArray<NiExtraData> extraDataRefs;

	void Sync(NiStreamReversible& stream);
	void GetStringRefs(std::vector<NiStringRef*>& refs) override;
	void GetChildRefs(std::set<NiRef*>& refs) override;
	void GetChildIndices(std::vector<uint32_t>& indices) override;
};

class NiProperty;
class NiCollisionObject;

class NiAVObject : public NiCloneableStreamable<NiAVObject, NiObjectNET> {
public:
	uint32_t flags = 524302;
	/* "transform" is the coordinate system (CS) transform from this
	object's CS to its parent's CS.
	Recommendation: rename "transform" to "transformToParent". */
	MatTransform transform;

	NiBlockRefArray<NiProperty> propertyRefs;
	NiBlockRef<NiCollisionObject> collisionRef;

	void Sync(NiStreamReversible& stream);
	void GetChildRefs(std::set<NiRef*>& refs) override;
	void GetChildIndices(std::vector<uint32_t>& indices) override;

	const MatTransform& GetTransformToParent() const { return transform; }
	void SetTransformToParent(const MatTransform& t) { transform = t; }
};

class AVObject {
public:
	NiString name;
	NiBlockPtr<NiAVObject> objectRef;

	void Sync(NiStreamReversible& stream) {
		name.Sync(stream, 4);
		objectRef.Sync(stream);
	}

	void GetPtrs(std::set<NiPtr*>& ptrs) { ptrs.insert(&objectRef); }
};

class NiAVObjectPalette : public NiCloneable<NiAVObjectPalette, NiObject> {};

class NiDefaultAVObjectPalette : public NiCloneableStreamable<NiDefaultAVObjectPalette, NiAVObjectPalette> {
public:
	NiBlockPtr<NiAVObject> sceneRef;
	NiSyncVector<AVObject> objects;

	static constexpr const char* BlockName = "NiDefaultAVObjectPalette";
	const char* GetBlockName() override { return BlockName; }

	void Sync(NiStreamReversible& stream);
	void GetPtrs(std::set<NiPtr*>& ptrs) override;
};

class NiCamera : public NiCloneableStreamable<NiCamera, NiAVObject> {
public:
	uint16_t obsoleteFlags = 0;
	float frustumLeft = 0.0f;
	float frustumRight = 0.0f;
	float frustumTop = 0.0f;
	float frustomBottom = 0.0f;
	float frustumNear = 0.0f;
	float frustumFar = 0.0f;
	bool useOrtho = false;
	float viewportLeft = 0.0f;
	float viewportRight = 0.0f;
	float viewportTop = 0.0f;
	float viewportBottom = 0.0f;
	float lodAdjust = 0.0f;

	NiBlockRef<NiAVObject> sceneRef;
	uint32_t numScreenPolygons = 0;
	uint32_t numScreenTextures = 0;

	static constexpr const char* BlockName = "NiCamera";
	const char* GetBlockName() override { return BlockName; }

	void Sync(NiStreamReversible& stream);
	void GetChildRefs(std::set<NiRef*>& refs) override;
	void GetChildIndices(std::vector<uint32_t>& indices) override;
};

class NiSequenceStreamHelper : public NiCloneable<NiSequenceStreamHelper, NiObjectNET> {
public:
	static constexpr const char* BlockName = "NiSequenceStreamHelper";
	const char* GetBlockName() override { return BlockName; }
};

class NiPalette : public NiCloneableStreamable<NiPalette, NiObject> {
public:
	bool hasAlpha = false;
	NiVector<ByteColor4> palette = NiVector<ByteColor4>(256);

	static constexpr const char* BlockName = "NiPalette";
	const char* GetBlockName() override { return BlockName; }

	void Sync(NiStreamReversible& stream);
};

enum PixelFormat : uint32_t {
	PX_FMT_RGB8,
	PX_FMT_RGBA8,
	PX_FMT_PAL8,
	PX_FMT_DXT1 = 4,
	PX_FMT_DXT5 = 5,
	PX_FMT_DXT5_ALT = 6,
};

enum PixelTiling : uint32_t { PX_TILE_NONE, PX_TILE_XENON, PX_TILE_WII, PX_TILE_NV_SWIZZLED };

enum PixelComponent : uint32_t {
	PX_COMP_RED,
	PX_COMP_GREEN,
	PX_COMP_BLUE,
	PX_COMP_ALPHA,
	PX_COMP_COMPRESSED,
	PX_COMP_OFFSET_U,
	PX_COMP_OFFSET_V,
	PX_COMP_OFFSET_W,
	PX_COMP_OFFSET_Q,
	PX_COMP_LUMA,
	PX_COMP_HEIGHT,
	PX_COMP_VECTOR_X,
	PX_COMP_VECTOR_Y,
	PX_COMP_VECTOR_Z,
	PX_COMP_PADDING,
	PX_COMP_INTENSITY,
	PX_COMP_INDEX,
	PX_COMP_DEPTH,
	PX_COMP_STENCIL,
	PX_COMP_EMPTY
};

enum PixelRepresentation : uint32_t {
	PX_REP_NORM_INT,
	PX_REP_HALF,
	PX_REP_FLOAT,
	PX_REP_INDEX,
	PX_REP_COMPRESSED,
	PX_REP_UNKNOWN,
	PX_REP_INT
};

struct PixelFormatComponent {
	PixelComponent type = PX_COMP_RED;
	PixelRepresentation convention = PX_REP_NORM_INT;
	uint8_t bitsPerChannel = 0;
	bool isSigned = false;
};

struct MipMapInfo {
	uint32_t width = 0;
	uint32_t height = 0;
	uint32_t offset = 0;
};

class TextureRenderData : public NiCloneableStreamable<TextureRenderData, NiObject> {
public:
	PixelFormat pixelFormat = PX_FMT_RGB8;
	uint8_t bitsPerPixel = 0;
	uint32_t rendererHint = 0xFFFFFFFF;
	uint32_t extraData = 0;
	uint8_t flags = 0;
	PixelTiling pixelTiling = PX_TILE_NONE;

	PixelFormatComponent channels[4]{};
	NiBlockRef<NiPalette> paletteRef;

	NiVector<MipMapInfo> mipmaps;
	uint32_t bytesPerPixel = 0;

	void Sync(NiStreamReversible& stream);
	void GetChildRefs(std::set<NiRef*>& refs) override;
	void GetChildIndices(std::vector<uint32_t>& indices) override;
};

enum PlatformID : uint32_t { PLAT_ANY, PLAT_XENON, PLAT_PS3, PLAT_DX9, PLAT_WII, PLAT_D3D10 };

class NiPersistentSrcTextureRendererData
	: public NiCloneableStreamable<NiPersistentSrcTextureRendererData, TextureRenderData> {
public:
	uint32_t numPixels = 0;
	uint32_t padNumPixels = 0;
	uint32_t numFaces = 0;
	PlatformID platform = PLAT_ANY;

	std::vector<std::vector<uint8_t>> pixelData;

	static constexpr const char* BlockName = "NiPersistentSrcTextureRendererData";
	const char* GetBlockName() override { return BlockName; }

	void Sync(NiStreamReversible& stream);
};

class NiPixelData : public NiCloneableStreamable<NiPixelData, TextureRenderData> {
public:
	uint32_t numPixels = 0;
	uint32_t numFaces = 0;

	std::vector<std::vector<uint8_t>> pixelData;

	static constexpr const char* BlockName = "NiPixelData";
	const char* GetBlockName() override { return BlockName; }

	void Sync(NiStreamReversible& stream);
};

enum PixelLayout : uint32_t {
	PX_LAY_PALETTIZED_8,
	PX_LAY_HIGH_COLOR_16,
	PX_LAY_TRUE_COLOR_32,
	PX_LAY_COMPRESSED,
	PX_LAY_BUMPMAP,
	PX_LAY_PALETTIZED_4,
	PX_LAY_DEFAULT,
	PX_LAY_SINGLE_COLOR_8,
	PX_LAY_SINGLE_COLOR_16,
	PX_LAY_SINGLE_COLOR_32,
	PX_LAY_DOUBLE_COLOR_32,
	PX_LAY_DOUBLE_COLOR_64,
	PX_LAY_FLOAT_COLOR_32,
	PX_LAY_FLOAT_COLOR_64,
	PX_LAY_FLOAT_COLOR_128,
	PX_LAY_SINGLE_COLOR_4,
	PX_LAY_DEPTH_24_X8,
};

enum MipMapFormat : uint32_t { MIP_FMT_NO, MIP_FMT_YES, MIP_FMT_DEFAULT };

enum AlphaFormat : uint32_t { ALPHA_NONE, ALPHA_BINARY, ALPHA_SMOOTH, ALPHA_DEFAULT };

class NiTexture : public NiCloneable<NiTexture, NiObjectNET> {};

class NiSourceTexture : public NiCloneableStreamable<NiSourceTexture, NiTexture> {
public:
	bool useExternal = true;
	bool useInternal = true;
	NiStringRef fileName;

	// NiPixelData if < 20.2.0.4 or !persistentRenderData
	// else NiPersistentSrcTextureRendererData
	NiBlockRef<TextureRenderData> dataRef;

	PixelLayout pixelLayout = PX_LAY_PALETTIZED_4;
	MipMapFormat mipMapFormat = MIP_FMT_DEFAULT;
	AlphaFormat alphaFormat = ALPHA_DEFAULT;
	bool isStatic = true;
	bool directRender = true;
	bool persistentRenderData = false;

	static constexpr const char* BlockName = "NiSourceTexture";
	const char* GetBlockName() override { return BlockName; }

	void Sync(NiStreamReversible& stream);
	void GetStringRefs(std::vector<NiStringRef*>& refs) override;
	void GetChildRefs(std::set<NiRef*>& refs) override;
	void GetChildIndices(std::vector<uint32_t>& indices) override;
};

class NiSourceCubeMap : public NiCloneable<NiSourceCubeMap, NiSourceTexture> {
public:
	static constexpr const char* BlockName = "NiSourceCubeMap";
	const char* GetBlockName() override { return BlockName; }
};

enum TexFilterMode : uint32_t {
	FILTER_NEAREST,
	FILTER_BILERP,
	FILTER_TRILERP,
	FILTER_NEAREST_MIPNEAREST,
	FILTER_NEAREST_MIPLERP,
	FILTER_BILERP_MIPNEAREST
};

enum TexClampMode : uint32_t { CLAMP_S_CLAMP_T, CLAMP_S_WRAP_T, WRAP_S_CLAMP_T, WRAP_S_WRAP_T };

enum EffectType : uint32_t {
	EFFECT_PROJECTED_LIGHT,
	EFFECT_PROJECTED_SHADOW,
	EFFECT_ENVIRONMENT_MAP,
	EFFECT_FOG_MAP
};

enum CoordGenType : uint32_t {
	CG_WORLD_PARALLEL,
	CG_WORLD_PERSPECTIVE,
	CG_SPHERE_MAP,
	CG_SPECULAR_CUBE_MAP,
	CG_DIFFUSE_CUBE_MAP
};

class NiDynamicEffect : public NiCloneableStreamable<NiDynamicEffect, NiAVObject> {
public:
	bool switchState = true;
	NiBlockPtrArray<NiNode> affectedNodes;

	void Sync(NiStreamReversible& stream);
	void GetPtrs(std::set<NiPtr*>& ptrs) override;
};

class NiTextureEffect : public NiCloneableStreamable<NiTextureEffect, NiDynamicEffect> {
public:
	Matrix3 modelProjectionMatrix;
	Vector3 modelProjectionTranslation;
	TexFilterMode textureFiltering = FILTER_TRILERP;
	TexClampMode textureClamping = WRAP_S_WRAP_T;
	EffectType textureType = EFFECT_ENVIRONMENT_MAP;
	CoordGenType coordinateGenerationType = CG_SPHERE_MAP;
	NiBlockRef<NiSourceTexture> sourceTexture;
	uint8_t clippingPlane = 0;
	NiPlane plane;

	static constexpr const char* BlockName = "NiTextureEffect";
	const char* GetBlockName() override { return BlockName; }

	void Sync(NiStreamReversible& stream);
	void GetChildRefs(std::set<NiRef*>& refs) override;
	void GetChildIndices(std::vector<uint32_t>& indices) override;
};

class NiLight : public NiCloneableStreamable<NiLight, NiDynamicEffect> {
public:
	float dimmer = 0.0f;
	Color3 ambientColor;
	Color3 diffuseColor;
	Color3 specularColor;

	void Sync(NiStreamReversible& stream);
};

class NiAmbientLight : public NiCloneable<NiAmbientLight, NiLight> {
public:
	static constexpr const char* BlockName = "NiAmbientLight";
	const char* GetBlockName() override { return BlockName; }
};

class NiDirectionalLight : public NiCloneable<NiDirectionalLight, NiLight> {
public:
	static constexpr const char* BlockName = "NiDirectionalLight";
	const char* GetBlockName() override { return BlockName; }
};

class NiPointLight : public NiCloneableStreamable<NiPointLight, NiLight> {
public:
	float constantAttenuation = 0.0f;
	float linearAttenuation = 0.0f;
	float quadraticAttenuation = 0.0f;

	static constexpr const char* BlockName = "NiPointLight";
	const char* GetBlockName() override { return BlockName; }

	void Sync(NiStreamReversible& stream);
};

class NiSpotLight : public NiCloneableStreamable<NiSpotLight, NiPointLight> {
public:
	float outerSpotAngle = 0.0f;
	float innerSpotAngle = 0.0f;
	float exponent = 1.0f;

	static constexpr const char* BlockName = "NiSpotLight";
	const char* GetBlockName() override { return BlockName; }

	void Sync(NiStreamReversible& stream);
};
} // namespace nifly
