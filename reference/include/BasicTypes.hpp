/*
nifly
C++ NIF library for the Gamebryo/NetImmerse File Format
See the included GPLv3 LICENSE file
*/

#pragma once

#include "Object3d.hpp"
#include "half.hpp"

#include <algorithm>
#include <iostream>
#include <map>
#include <memory>
#include <optional>
#include <set>
#include <streambuf>
#include <string>
#include <unordered_map>
#include <unordered_set>

namespace nifly {
constexpr auto NIF_NPOS = static_cast<uint32_t>(-1);

#ifdef NIFLY_VERIF_HOOKS
// Verification hooks: no-ops unless a callback is installed (only compiled with -DNIFLY_VERIF_HOOKS).
// mode: 0 = reading, 1 = writing.
struct NiVerifHooks {
	// every primitive stream transfer; on reads it runs after the read and may overwrite the buffer
	void (*onTransfer)(int mode, char* ptr, std::streamsize count) = nullptr;
	// typed transfer (Sync<T>, operator>>): kind 0 = other, 1 = bool, 2 = integral, 3 = enum, 4 = floating point
	void (*onTyped)(int mode, void* ptr, size_t size, int kind) = nullptr;
	// a block reference / string reference passing through Sync
	void (*onRef)(int mode, void* ref) = nullptr;
	void (*onStringRef)(int mode, void* ref) = nullptr;
};
inline NiVerifHooks& niVerifHooks() {
	static NiVerifHooks hooks;
	return hooks;
}
template<typename T>
constexpr int niVerifKind() {
	return std::is_same<T, bool>::value ? 1
		   : std::is_integral<T>::value ? 2
		   : std::is_enum<T>::value ? 3
		   : std::is_floating_point<T>::value ? 4
		   : 0;
}
#endif

constexpr auto NiCharMin = std::numeric_limits<char>::min();
constexpr auto NiCharMax = std::numeric_limits<char>::max();
constexpr auto NiByteMin = std::numeric_limits<uint8_t>::min();
constexpr auto NiByteMax = std::numeric_limits<uint8_t>::max();
constexpr auto NiUShortMin = std::numeric_limits<uint16_t>::min();
constexpr auto NiUShortMax = std::numeric_limits<uint16_t>::max();
constexpr auto NiIntMin = std::numeric_limits<int32_t>::min();
constexpr auto NiIntMax = std::numeric_limits<int32_t>::max();
constexpr auto NiUIntMin = std::numeric_limits<uint32_t>::min();
constexpr auto NiUIntMax = std::numeric_limits<uint32_t>::max();
constexpr auto NiFloatMin = std::numeric_limits<float>::lowest();
constexpr auto NiFloatMax = std::numeric_limits<float>::max();
constexpr auto NiFloatInf = std::numeric_limits<float>::infinity();
constexpr auto NiVec3Min = Vector3(NiFloatMin, NiFloatMin, NiFloatMin);
constexpr auto NiVec4Min = Vector4(NiFloatMin, NiFloatMin, NiFloatMin, NiFloatMin);

enum NiFileVersion : uint32_t {
	V2_3 = 0x02030000,
	V3_0 = 0x03000000,
	V3_03 = 0x03000300,
	V3_1 = 0x03010000,
	V3_3_0_13 = 0x0303000D,
	V4_0_0_0 = 0x04000000,
	V4_0_0_2 = 0x04000002,
	V4_1_0_12 = 0x0401000C,
	V4_2_0_2 = 0x04020002,
	V4_2_1_0 = 0x04020100,
	V4_2_2_0 = 0x04020200,
	V5_0_0_1 = 0x05000001,
	V10_0_0_0 = 0x0A000000,
	V10_0_1_0 = 0x0A000100,
	V10_0_1_2 = 0x0A000102,
	V10_0_1_3 = 0x0A000103,
	V10_1_0_0 = 0x0A010000,
	V10_1_0_101 = 0x0A010065,
	V10_1_0_104 = 0x0A010068,
	V10_1_0_106 = 0x0A01006A,
	V10_1_0_108 = 0x0A01006C,
	V10_1_0_110 = 0x0A01006E,
	V10_1_0_112 = 0x0A010070,
	V10_1_0_113 = 0x0A010071,
	V10_1_0_114 = 0x0A010072,
	V10_2_0_0 = 0x0A020000,
	V10_2_0_1 = 0x0A020001,
	V10_3_0_1 = 0x0A030001,
	V10_4_0_1 = 0x0A040001,
	V20_0_0_2 = 0x14000002,
	V20_0_0_4 = 0x14000004,
	V20_0_0_5 = 0x14000005,
	V20_1_0_1 = 0x14010001,
	V20_1_0_3 = 0x14010003,
	V20_2_0_5 = 0x14020005,
	V20_2_0_7 = 0x14020007,
	V20_2_0_8 = 0x14020008,
	V20_2_4_7 = 0x14020407,
	V20_3_0_1 = 0x14030001,
	V20_3_0_2 = 0x14030002,
	V20_3_0_3 = 0x14030003,
	V20_3_0_6 = 0x14030006,
	V20_3_0_9 = 0x14030009,
	V20_5_0_0 = 0x14050000,
	V20_6_0_0 = 0x14060000,
	V20_6_5_0 = 0x14060500,
	V30_0_0_2 = 0x1E000002,
	V30_1_0_3 = 0x1E010003,
	UNKNOWN = 0xFFFFFFFF
};

class NiVersion {
private:
	std::string vstr;
	NiFileVersion file = UNKNOWN;
	uint32_t user = 0;
	uint32_t stream = 0;
	uint32_t nds = 0;

public:
	NiVersion() = default;
	NiVersion(NiFileVersion _file, uint32_t _user, uint32_t _stream);

	// Construct a file version enumeration from individual values
	static NiFileVersion ToFile(uint8_t major, uint8_t minor, uint8_t patch, uint8_t internal) {
		return NiFileVersion((major << 24) | (minor << 16) | (patch << 8) | internal);
	}

	// Return file version as individual values
	static std::vector<uint8_t> ToArray(NiFileVersion file) {
		return {uint8_t(file >> 24), uint8_t(file >> 16), uint8_t(file >> 8), uint8_t(file)};
	}

	std::string GetVersionInfo() const;
	std::string String() const { return vstr; }

	NiFileVersion File() const { return file; }
	void SetFile(NiFileVersion fileVer);

	uint32_t User() const { return user; }
	void SetUser(const uint32_t userVer) { user = userVer; }

	uint32_t Stream() const { return stream; }
	void SetStream(const uint32_t streamVer) { stream = streamVer; }

	uint32_t NDS() const { return nds; }
	void SetNDS(const uint32_t ndsVer) { nds = ndsVer; }

	// Check if file is for a Bethesda title
	bool IsBethesda() const { return (file == V20_2_0_7 && user >= 11) || IsOB(); }

	// Check if file has a special but supported version range
	bool IsSpecial() const { return (file == V10_0_1_0 && user == 0); }

	// Check if file has an Oblivion version range
	bool IsOB() const {
		return
			((file == V10_1_0_106 || file == V10_2_0_0) && user >= 3 && user < 11) ||
			(file == V20_0_0_4 && (user == 10 || user == 11)) ||
			(file == V20_0_0_5 && user == 11);
	}

	// Check if file has a Fallout 3 version range
	bool IsFO3() const { return file == V20_2_0_7 && stream > 11 && stream < 83; }
	// Check if file has a Skyrim (LE) version range
	bool IsSK() const { return file == V20_2_0_7 && stream == 83; }
	// Check if file has a Skyrim (SE) version range
	bool IsSSE() const { return file == V20_2_0_7 && stream == 100; }
	// Check if file has a Fallout 4 version range
	bool IsFO4() const { return file == V20_2_0_7 && stream >= 130 && stream <= 139; }
	// Check if file has a Fallout 76 version range
	bool IsFO76() const { return file == V20_2_0_7 && stream == 155; }
	// Check if file has a Starfield version range
	bool IsSF() const { return file == V20_2_0_7 && stream >= 172 && stream <= 173; }

	// Return an Oblivion file version
	static NiVersion getOB() { return NiVersion(NiFileVersion::V20_0_0_5, 11, 11); }
	// Return a Fallout 3 file version
	static NiVersion getFO3() { return NiVersion(NiFileVersion::V20_2_0_7, 11, 34); }
	// Return a Skyrim (LE) file version
	static NiVersion getSK() { return NiVersion(NiFileVersion::V20_2_0_7, 12, 83); }
	// Return a Skyrim (SE) file version
	static NiVersion getSSE() { return NiVersion(NiFileVersion::V20_2_0_7, 12, 100); }
	// Return a Fallout 4 file version
	static NiVersion getFO4() { return NiVersion(NiFileVersion::V20_2_0_7, 12, 130); }
	// Return a Fallout 76 file version
	static NiVersion getFO76() { return NiVersion(NiFileVersion::V20_2_0_7, 12, 155); }
	// Return a Starfield file version
	static NiVersion getSF() { return NiVersion(NiFileVersion::V20_2_0_7, 12, 172); }
};

enum NiEndian : uint8_t { ENDIAN_BIG, ENDIAN_LITTLE };

class NiHeaderBase {
protected:
	bool valid = false;
	std::streampos blockSizePos;

	NiVersion version;
	NiEndian endian = ENDIAN_LITTLE;

public:
	virtual ~NiHeaderBase() {}

	bool IsValid() const { return valid; }

	NiVersion& GetVersion() { return version; }
	const NiVersion& GetVersion() const { return version; }

	void SetVersion(const NiVersion& ver) { version = ver; }

	virtual uint32_t GetStringCount() const = 0;
	virtual uint32_t FindStringId(const std::string& str) const = 0;
	virtual uint32_t AddOrFindStringId(const std::string& str, const bool addEmpty = false) = 0;
	virtual std::string GetStringById(const uint32_t id) const = 0;
	virtual void SetStringById(const uint32_t id, const std::string& str) = 0;
};

class NiStreamBase {
private:
	NiHeaderBase* header = nullptr;

public:
	explicit NiStreamBase(NiHeaderBase* hdr)
		: header(hdr) {}

	NiVersion& GetVersion() { return header->GetVersion(); }
	const NiVersion& GetVersion() const { return header->GetVersion(); }

	NiHeaderBase& GetHeader() { return *header; }
	const NiHeaderBase& GetHeader() const { return *header; }
};

class NiIStream : public NiStreamBase {
private:
	std::istream* stream = nullptr;

public:
	NiIStream(std::istream* s, NiHeaderBase* hdr)
		: NiStreamBase(hdr)
		, stream(s) {}

#ifndef NIFLY_VERIF_HOOKS
	void read(char* ptr, std::streamsize count) { stream->read(ptr, count); }
	void getline(char* ptr, std::streamsize maxCount) { stream->getline(ptr, maxCount); }
	void getstring(std::string& str) { std::getline(*stream, str, '\0'); }
#else
	void read(char* ptr, std::streamsize count) {
		stream->read(ptr, count);
		if (niVerifHooks().onTransfer)
			niVerifHooks().onTransfer(0, ptr, count);
	}
	void getline(char* ptr, std::streamsize maxCount) {
		stream->getline(ptr, maxCount);
		if (niVerifHooks().onTransfer)
			niVerifHooks().onTransfer(0, ptr, stream->gcount());
	}
	void getstring(std::string& str) {
		std::getline(*stream, str, '\0');
		if (niVerifHooks().onTransfer)
			niVerifHooks().onTransfer(0, nullptr, static_cast<std::streamsize>(str.size()) + 1);
	}
#endif

	// Be careful with sizes of structs and classes
	template<typename T>
	NiIStream& operator>>(T& t) {
		read((char*) &t, sizeof(T));
#ifdef NIFLY_VERIF_HOOKS
		if (niVerifHooks().onTyped)
			niVerifHooks().onTyped(0, &t, sizeof(T), niVerifKind<T>());
#endif
		return *this;
	}
};

class NiOStream : public NiStreamBase {
private:
	std::ostream* stream = nullptr;
	std::streamsize blockSize = 0;

public:
	NiOStream(std::ostream* s, NiHeaderBase* hdr)
		: NiStreamBase(hdr)
		, stream(s) {}

	void write(const char* ptr, std::streamsize count) {
#ifdef NIFLY_VERIF_HOOKS
		if (niVerifHooks().onTransfer)
			niVerifHooks().onTransfer(1, const_cast<char*>(ptr), count);
#endif
		stream->write(ptr, count);
		blockSize += count;
	}

	void writeline(const char* ptr, std::streamsize count) {
#ifdef NIFLY_VERIF_HOOKS
		if (niVerifHooks().onTransfer)
			niVerifHooks().onTransfer(1, const_cast<char*>(ptr), count + 1);
#endif
		stream->write(ptr, count);
		stream->write("\n", 1);
		blockSize += count + 1;
	}

	void writestring(const std::string& str) {
		auto count = static_cast<std::streamsize>(str.size());
#ifdef NIFLY_VERIF_HOOKS
		if (niVerifHooks().onTransfer)
			niVerifHooks().onTransfer(1, nullptr, count + 1);
#endif
		stream->write(str.data(), count);
		stream->write("\0", 1);
		blockSize += count + 1;
	}

	std::streampos tellp() { return stream->tellp(); }

	// Be careful with sizes of structs and classes
	template<typename T>
	NiOStream& operator<<(const T& t) {
		write((const char*) &t, sizeof(T));
		return *this;
	}

	void InitBlockSize() { blockSize = 0; }
	std::streamsize GetBlockSize() { return blockSize; }
};

class NiStreamReversible {
public:
	enum class Mode { Reading, Writing };

	explicit NiStreamReversible(NiIStream* is, NiOStream* os, Mode mode_)
		: istream(is)
		, ostream(os)
		, mode(mode_) {}

	void SetMode(Mode m) { mode = m; }
	Mode GetMode() const { return mode; }

	template<typename T>
	void Sync(T& t) {
		Sync(reinterpret_cast<char*>(&t), sizeof(T));
#ifdef NIFLY_VERIF_HOOKS
		if (niVerifHooks().onTyped)
			niVerifHooks().onTyped(mode == Mode::Reading ? 0 : 1, &t, sizeof(T), niVerifKind<T>());
#endif
	}

	NiVersion& GetVersion() {
		if (mode == Mode::Reading)
			return istream->GetVersion();
		else
			return ostream->GetVersion();
	}

	const NiVersion& GetVersion() const {
		if (mode == Mode::Reading)
			return istream->GetVersion();
		else
			return ostream->GetVersion();
	}

	NiHeaderBase& GetHeader() {
		if (mode == Mode::Reading)
			return istream->GetHeader();
		else
			return ostream->GetHeader();
	}

	const NiHeaderBase& GetHeader() const {
		if (mode == Mode::Reading)
			return istream->GetHeader();
		else
			return ostream->GetHeader();
	}

	void Sync(char* ptr, std::streamsize count) {
		if (mode == Mode::Reading)
			istream->read(ptr, count);
		else
			ostream->write(ptr, count);
	}

	void SyncLine(char* ptr, std::streamsize count) {
		if (mode == Mode::Reading)
			istream->getline(ptr, count);
		else
			ostream->writeline(ptr, count);
	}

	void SyncString(std::string& str) {
		if (mode == Mode::Reading)
			istream->getstring(str);
		else
			ostream->writestring(str);
	}

	void SyncHalf(float& fl) {
		half_float::half halfData;

		if (mode == Mode::Writing)
			halfData = fl;

		Sync(reinterpret_cast<char*>(&halfData), 2);

		if (mode == Mode::Reading)
			fl = halfData;
	}
	
	void SyncUDEC3(Vector3& vec) {
		uint32_t data;

		if (mode == Mode::Writing) {
			data =  (((uint32_t)((vec.z+1.0)*511.5)) & 1023) << 20;
			data &= (((uint32_t)((vec.y+1.0)*511.5)) & 1023) << 10;
			data &= (((uint32_t)((vec.x+1.0)*511.5)) & 1023);			
		}

		Sync(data);

		if (mode == Mode::Reading) {
			vec.x = (float)(((data & 1023) / 511.5) - 1.0);
			vec.y = (float)((((data >> 10) & 1023) / 511.5) - 1.0);
			vec.z = (float)((((data >> 20) & 1023) / 511.5) - 1.0);
		}		
	}

	

	NiOStream* asWrite() { return ostream; }
	NiIStream* asRead() { return istream; }


private:
	NiIStream* istream;
	NiOStream* ostream;
	Mode mode;
};

template<typename Derived, typename Base>
class NiCloneable : public Base {
public:
	virtual ~NiCloneable() override = default;

	std::unique_ptr<Derived> Clone() const {
		return std::unique_ptr<Derived>(static_cast<Derived*>(this->Clone_impl()));
	}

private:
	virtual NiCloneable* Clone_impl() const override { return new Derived(asDer()); }

	Derived& asDer() { return static_cast<Derived&>(*this); }
	const Derived& asDer() const { return static_cast<const Derived&>(*this); }
};

template<typename Derived, typename Base>
class NiStreamable : public Base {
public:
	void Get(NiIStream& stream) override {
		Base::Get(stream);
		NiStreamReversible s(&stream, nullptr, NiStreamReversible::Mode::Reading);
		asDer().Sync(s);
	}

	void Put(NiOStream& stream) override {
		Base::Put(stream);
		NiStreamReversible s(nullptr, &stream, NiStreamReversible::Mode::Writing);
		asDer().Sync(s);
	}

private:
	Derived& asDer() { return static_cast<Derived&>(*this); }
	const Derived& asDer() const { return static_cast<const Derived&>(*this); }
};

template<typename Derived, typename Base>
class NiCloneableStreamable : public Base {
public:
	virtual ~NiCloneableStreamable() override = default;

	std::unique_ptr<Derived> Clone() const {
		return std::unique_ptr<Derived>(static_cast<Derived*>(this->Clone_impl()));
	}

	void Get(NiIStream& stream) override {
		Base::Get(stream);
		NiStreamReversible s(&stream, nullptr, NiStreamReversible::Mode::Reading);
		asDer().Sync(s);
	}

	void Put(NiOStream& stream) override {
		Base::Put(stream);
		NiStreamReversible s(nullptr, &stream, NiStreamReversible::Mode::Writing);
		asDer().Sync(s);
	}

private:
	virtual NiCloneableStreamable* Clone_impl() const override { return new Derived(asDer()); }

	Derived& asDer() { return static_cast<Derived&>(*this); }
	const Derived& asDer() const { return static_cast<const Derived&>(*this); }
};

class NiString {
private:
	std::string str;
	bool nullOutput = false; // append a null byte when writing the string

public:
	NiString() = default;
	NiString(const std::string& s, const bool wantNullOutput = false) {
		str = s;
		nullOutput = wantNullOutput;
	}

	std::string& get() { return str; }
	const std::string& get() const { return str; }

	size_t length() const { return str.length(); }

	void SetNullOutput(const bool wantNullOutput = true) { nullOutput = wantNullOutput; }
	void clear() { str.clear(); }

	void Read(NiIStream& stream, const int szSize);
	void Write(NiOStream& stream, const int szSize);

	void Sync(NiStreamReversible& stream, const int szSize) {
		if (auto istream = stream.asRead())
			Read(*istream, szSize);
		else if (auto ostream = stream.asWrite())
			Write(*ostream, szSize);
	}

	bool operator==(const NiString& rhs) const { return str == rhs.str; }
	bool operator!=(const NiString& rhs) const { return !operator==(rhs); }

	bool operator==(const std::string& rhs) const { return str == rhs; }
	bool operator!=(const std::string& rhs) const { return !operator==(rhs); }
};

class NiStringRef {
private:
	std::string str;
	uint32_t index = NIF_NPOS; // Temporary index storage for load/save

public:
	NiStringRef() = default;
	NiStringRef(const std::string& s) { str = s; }

	std::string& get() { return str; }
	const std::string& get() const { return str; }

	size_t length() const { return str.length(); }

	uint32_t GetIndex() const { return index; }
	void SetIndex(const uint32_t id) { index = id; }

	void clear() {
		index = NIF_NPOS;
		str.clear();
	}

	void Read(NiIStream& stream);
	void Write(NiOStream& stream);

	void Sync(NiStreamReversible& stream) {
		if (auto istream = stream.asRead())
			Read(*istream);
		else if (auto ostream = stream.asWrite())
			Write(*ostream);
	}

	bool operator==(const NiStringRef& rhs) const { return str == rhs.str; }
	bool operator!=(const NiStringRef& rhs) const { return !operator==(rhs); }

	bool operator==(const std::string& rhs) const { return str == rhs; }
	bool operator!=(const std::string& rhs) const { return !operator==(rhs); }
};

class NiRef {
public:
	uint32_t index = NIF_NPOS;

	void Clear() { index = NIF_NPOS; }
	bool IsEmpty() const { return index == NIF_NPOS; }

	bool operator==(const NiRef& rhs) const { return index == rhs.index; }
	bool operator!=(const NiRef& rhs) const { return !operator==(rhs); }

	bool operator==(const uint32_t rhs) const { return index == rhs; }
	bool operator!=(const uint32_t rhs) const { return !operator==(rhs); }
};

using NiPtr = NiRef;

// Helper to reduce duplication
template<typename ValueType, typename SizeType>
class NiVectorBase {
private:
	std::vector<ValueType> vec;

protected:
	static constexpr size_t NumSize = sizeof(SizeType);
	static constexpr SizeType MaxIndex = std::numeric_limits<SizeType>::max() - 1;

public:
	NiVectorBase() = default;
	NiVectorBase(const SizeType size) { resize(size); }

	SizeType size() const { return static_cast<SizeType>(vec.size()); }
	bool empty() const { return vec.empty(); }

	void clear() { vec.clear(); }

	auto begin() { return vec.begin(); }
	auto cbegin() const { return vec.begin(); }

	auto end() { return vec.end(); }
	auto cend() const { return vec.end(); }

	void resize(SizeType size) { vec.resize(size); }

	void push_back(ValueType& val) { vec.push_back(val); }
	auto insert(SizeType index, ValueType& val) { vec.insert(vec.begin() + index, val); }

	auto& operator[](SizeType i) { return vec[i]; }

	ValueType* data() { return vec.data(); }
	const ValueType* data() const { return vec.data(); }

	auto erase(SizeType i) { return vec.erase(vec.begin() + i); }
};

template<typename ValueType, typename SizeType = uint32_t>
class NiVector : public NiVectorBase<ValueType, SizeType> {
	using Base = NiVectorBase<ValueType, SizeType>;
	using Base::MaxIndex;
	using Base::NumSize;

public:
	NiVector() = default;
	NiVector(const SizeType size)
		: Base(size) {}

	SizeType Sync(NiStreamReversible& stream) {
		SizeType sz = SyncSize(stream);
		SyncData(stream, sz);
		return sz;
	}

	SizeType SyncSize(NiStreamReversible& stream) {
		SizeType sz = 0;

		if (stream.GetMode() == NiStreamReversible::Mode::Writing) {
			if (!Base::empty() && Base::size() - 1 > MaxIndex)
				Base::resize(MaxIndex + 1);
		}

		sz = Base::size();

		stream.Sync(reinterpret_cast<char*>(&sz), NumSize);
		return sz;
	}


	void SyncData(NiStreamReversible& stream, const SizeType size) {
		Base::resize(size);

		for (auto& e : *this)
			stream.Sync(e);
	}

	void SyncByteArray(NiStreamReversible& stream) {
		SizeType sz = SyncSize(stream);
		Base::resize(sz);

		if (sz > 0)
			stream.Sync(reinterpret_cast<char*>(Base::data()), sz);
	}
};

template<typename ValueType, typename SizeType = uint32_t>
class NiSyncVector : public NiVectorBase<ValueType, SizeType> {
	using Base = NiVectorBase<ValueType, SizeType>;
	using Base::MaxIndex;
	using Base::NumSize;

public:
	NiSyncVector() = default;
	NiSyncVector(const SizeType size)
		: Base(size) {}

	SizeType Sync(NiStreamReversible& stream) {
		SizeType sz = SyncSize(stream);
		SyncData(stream, sz);
		return sz;
	}

	SizeType SyncSize(NiStreamReversible& stream) {
		SizeType sz = 0;

		if (stream.GetMode() == NiStreamReversible::Mode::Writing) {
			if (!Base::empty() && Base::size() - 1 > MaxIndex)
				Base::resize(MaxIndex + 1);
		}

		sz = Base::size();

		stream.Sync(reinterpret_cast<char*>(&sz), NumSize);
		return sz;
	}

	void SyncData(NiStreamReversible& stream, const SizeType size) {
		Base::resize(size);

		for (auto& e : *this)
			e.Sync(stream);
	}

	void GetStringRefs(std::vector<NiStringRef*>& refs) {
		for (auto& e : *this)
			e.GetStringRefs(refs);
	}

	void GetChildRefs(std::set<NiRef*>& refs) {
		for (auto& e : *this)
			e.GetChildRefs(refs);
	}

	void GetChildIndices(std::vector<uint32_t>& indices) {
		for (auto& e : *this)
			e.GetChildIndices(indices);
	}

	void GetPtrs(std::set<NiPtr*>& ptrs) {
		for (auto& e : *this)
			e.GetPtrs(ptrs);
	}
};

template<typename SizeType = uint32_t, const int stringSize = 4>
class NiStringVector : public NiVectorBase<NiString, SizeType> {
private:
	using Base = NiVectorBase<NiString, SizeType>;
	using Base::MaxIndex;
	using Base::NumSize;

public:
	NiStringVector() = default;
	NiStringVector(const SizeType size) { Base::resize(size); }

	void Read(NiIStream& stream) {
		SizeType sz = 0;
		stream.read(reinterpret_cast<char*>(&sz), NumSize);

		Base::resize(sz);

		for (auto& e : *this)
			e.Read(stream, stringSize);
	}

	void Write(NiOStream& stream) {
		if (!Base::empty() && Base::size() - 1 > MaxIndex)
			Base::resize(MaxIndex + 1);

		SizeType sz = Base::size();
		stream.write(reinterpret_cast<char*>(&sz), NumSize);

		for (auto& e : *this)
			e.Write(stream, stringSize);
	}

	void Sync(NiStreamReversible& stream) {
		if (auto istream = stream.asRead())
			Read(*istream);
		else if (auto ostream = stream.asWrite())
			Write(*ostream);
	}
};

template<typename SizeType = uint32_t>
class NiStringRefVector : public NiVectorBase<NiStringRef, SizeType> {
private:
	using Base = NiVectorBase<NiStringRef, SizeType>;
	using Base::MaxIndex;
	using Base::NumSize;

public:
	NiStringRefVector() = default;
	NiStringRefVector(const SizeType size) { resize(size); }

	void Read(NiIStream& stream) {
		SizeType sz = 0;
		stream.read(reinterpret_cast<char*>(&sz), NumSize);

		Base::resize(sz);

		for (auto& e : *this)
			e.Read(stream);
	}

	void Write(NiOStream& stream) {
		if (!Base::empty() && Base::size() - 1 > MaxIndex)
			Base::resize(MaxIndex + 1);

		SizeType sz = Base::size();
		stream.write(reinterpret_cast<char*>(&sz), NumSize);

		for (auto& e : *this)
			e.Write(stream);
	}

	void Sync(NiStreamReversible& stream) {
		if (auto istream = stream.asRead())
			Read(*istream);
		else if (auto ostream = stream.asWrite())
			Write(*ostream);
	}
};

template<typename T>
class NiBlockRef : public NiRef {
	using base = NiRef;

public:
	NiBlockRef() {}
	NiBlockRef(const uint32_t id) { NiRef::index = id; }

#ifndef NIFLY_VERIF_HOOKS
	void Sync(NiStreamReversible& stream) { stream.Sync(base::index); }
#else
	void Sync(NiStreamReversible& stream) {
		if (niVerifHooks().onRef)
			niVerifHooks().onRef(stream.GetMode() == NiStreamReversible::Mode::Reading ? 0 : 1, static_cast<NiRef*>(this));
		stream.Sync(base::index);
	}
#endif
};

template<typename T>
using NiBlockPtr = NiBlockRef<T>;

class NiRefArray {
protected:
	uint32_t arraySize = 0;
	bool keepEmptyRefs = false;

public:
	virtual ~NiRefArray() {}

	uint32_t GetSize() const { return arraySize; }

	void SetKeepEmptyRefs(const bool keep = true) { keepEmptyRefs = keep; }

	virtual void Sync(NiStreamReversible& stream) = 0;

	virtual void AddBlockRef(const uint32_t id) = 0;
	virtual uint32_t GetBlockRef(const uint32_t id) const = 0;
	virtual void SetBlockRef(const uint32_t id, const uint32_t index) = 0;
	virtual void RemoveBlockRef(const uint32_t id) = 0;
	virtual void GetIndices(std::vector<uint32_t>& indices) = 0;
	virtual void GetIndexPtrs(std::set<NiRef*>& indices) = 0;
	virtual void SetIndices(const std::vector<uint32_t>& indices) = 0;
};

template<typename T>
class NiBlockRefArray : public NiRefArray {
protected:
	using NiRefArray::arraySize;
	using NiRefArray::keepEmptyRefs;

	std::vector<NiBlockRef<T>> refs;

	void CleanInvalidRefs() {
		if (keepEmptyRefs)
			return;

		refs.erase(std::remove_if(refs.begin(), refs.end(), [](NiBlockRef<T> r) { return r.IsEmpty(); }),
				   refs.end());

		arraySize = static_cast<uint32_t>(refs.size());
	}

public:
	using iterator = typename std::vector<NiBlockRef<T>>::iterator;
	using const_iterator = typename std::vector<NiBlockRef<T>>::const_iterator;

	iterator begin() { return refs.begin(); }

	iterator end() { return refs.end(); }

	const_iterator cbegin() const { return refs.cbegin(); }

	const_iterator cend() const { return refs.cend(); }

	void Clear() {
		refs.clear();
		arraySize = 0;
		keepEmptyRefs = false;
	}

	void SetSize(const uint32_t size) {
		arraySize = size;
		refs.resize(arraySize);
	}

	void Sync(NiStreamReversible& stream) override {
		if (stream.GetMode() == NiStreamReversible::Mode::Writing)
			CleanInvalidRefs();

		stream.Sync(arraySize);
		refs.resize(arraySize);

		for (auto& r : refs)
			r.Sync(stream);
	}

	void AddBlockRef(const uint32_t index) override {
		refs.push_back(NiBlockRef<T>(index));
		arraySize++;
	}

	uint32_t GetBlockRef(const uint32_t id) const override {
		if (id != NIF_NPOS && refs.size() > id)
			return refs[id].index;

		return NIF_NPOS;
	}

	void SetBlockRef(const uint32_t id, const uint32_t index) override {
		if (id != NIF_NPOS && refs.size() > id)
			refs[id].index = index;
	}

	void RemoveBlockRef(const uint32_t id) override {
		if (id != NIF_NPOS && refs.size() > id) {
			refs.erase(refs.begin() + id);
			arraySize--;
		}
	}

	void GetIndices(std::vector<uint32_t>& indices) override {
		for (auto& r : refs)
			indices.push_back(r.index);
	}

	void GetIndexPtrs(std::set<NiRef*>& indices) override {
		for (auto& r : refs)
			indices.insert(&r);
	}

	void SetIndices(const std::vector<uint32_t>& indices) override {
		arraySize = static_cast<uint32_t>(indices.size());
		refs.resize(arraySize);

		for (uint32_t i = 0; i < arraySize; i++)
			refs[i].index = indices[i];
	}
};

template<typename T>
using NiBlockPtrArray = NiBlockRefArray<T>;

template<typename T>
class NiBlockRefShortArray : public NiBlockRefArray<T> {
public:
	using base = NiBlockRefArray<T>;
	using base::arraySize;
	using base::refs;

	void Sync(NiStreamReversible& stream) override {
		if (stream.GetMode() == NiStreamReversible::Mode::Writing)
			base::CleanInvalidRefs();

		stream.Sync(reinterpret_cast<char*>(&arraySize), 2);
		refs.resize(arraySize);

		for (auto& r : refs)
			r.Sync(stream);
	}
};

template<typename T>
using NiBlockPtrShortArray = NiBlockRefShortArray<T>;

class NiObject {
protected:
	uint32_t blockSize = 0;
	uint32_t groupID = 0;

public:
	virtual ~NiObject() = default;

	static constexpr const char* BlockName = "NiUnknown";
	virtual const char* GetBlockName() { return BlockName; }

	virtual void notifyVerticesDelete(const std::vector<uint16_t>&) {}

	virtual void Get(NiIStream& stream) {
		if (stream.GetVersion().File() >= V10_0_0_0 && stream.GetVersion().File() < V10_1_0_114)
			stream.read(reinterpret_cast<char*>(&groupID), 4);
	}

	virtual void Put(NiOStream& stream) {
		if (stream.GetVersion().File() >= V10_0_0_0 && stream.GetVersion().File() < V10_1_0_114)
			stream.write(reinterpret_cast<const char*>(&groupID), 4);
	}

	virtual void GetStringRefs(std::vector<NiStringRef*>&) {}
	virtual void GetChildRefs(std::set<NiRef*>&) {}
	virtual void GetChildIndices(std::vector<uint32_t>&) {}
	virtual void GetPtrs(std::set<NiPtr*>&) {}

	std::unique_ptr<NiObject> Clone() const {
		return std::unique_ptr<NiObject>(static_cast<NiObject*>(this->Clone_impl()));
	}

	template<typename T>
	bool HasType() const {
		return dynamic_cast<const T*>(this) != nullptr;
	}

private:
	virtual NiObject* Clone_impl() const = 0;
};

class NiHeader : public NiHeaderBase, public NiCloneable<NiHeader, NiObject> {
	/*
	Minimum supported
	Version:			20.2.0.7
	User Version:		11
	User Version 2:		26

	Maximum supported
	Version:			20.2.0.7
	User Version:		12
	User Version 2:		155
	*/

private:
	NiString creator;
	uint32_t unkInt1 = 0;
	NiString exportInfo1;
	NiString exportInfo2;
	NiString exportInfo3;

	std::string copyright1;
	std::string copyright2;
	std::string copyright3;

	uint32_t embedDataSize = 0;
	std::vector<uint8_t> embedData;

	// Foreign reference to the blocks list in NifFile.
	std::vector<std::unique_ptr<NiObject>>* blocks = nullptr;

	uint32_t numBlocks = 0;
	uint16_t numBlockTypes = 0;
	std::vector<NiString> blockTypes;
	std::vector<uint16_t> blockTypeIndices;
	std::vector<uint32_t> blockSizes;

	uint32_t numStrings = 0;
	uint32_t maxStringLen = 0;
	std::vector<NiString> strings;

	uint32_t numGroups = 0;
	std::vector<uint32_t> groupSizes;

public:
	static constexpr const char* BlockName = "NiHeader";
	const char* GetBlockName() override { return BlockName; }

	void Clear();

	std::string GetCreatorInfo() const;
	void SetCreatorInfo(const std::string& creatorInfo);

	std::string GetExportInfo() const;

	// Sets export info string (automatically split into three members after 254 characters each)
	void SetExportInfo(const std::string& exportInfo);

	// Sets pointer to all blocks in the file
	void SetBlockReference(std::vector<std::unique_ptr<NiObject>>* blockRef) { blocks = blockRef; }

	uint32_t GetNumBlocks() const { return numBlocks; }

	template<class T>
	T* GetBlock(const uint32_t blockId) const {
		if (blockId != NIF_NPOS && blockId < numBlocks)
			return dynamic_cast<T*>((*blocks)[blockId].get());

		return nullptr;
	}

	template<class T>
	T* GetBlock(const NiBlockRef<T>& blockRef) const {
		return GetBlock<T>(blockRef.index);
	}

	template<class T>
	T* GetBlock(const NiBlockRef<T>* blockRef) const {
		if (blockRef)
			return GetBlock<T>(blockRef->index);
		return nullptr;
	}

	template<class T>
	T* GetBlock(const NiRef& blockRef) const {
		return GetBlock<T>(blockRef.index);
	}

	template<class T>
	T* GetBlock(const NiRef* blockRef) const {
		if (blockRef)
			return GetBlock<T>(blockRef->index);
		return nullptr;
	}

	template<class T>
	T* GetBlockUnsafe(const uint32_t blockId) const {
		if (blockId != NIF_NPOS && blockId < numBlocks)
			return static_cast<T*>((*blocks)[blockId].get());

		return nullptr;
	}

	template<class T>
	T* GetBlockUnsafe(const NiBlockRef<T>& blockRef) const {
		return GetBlockUnsafe<T>(blockRef.index);
	}

	template<class T>
	T* GetBlockUnsafe(const NiBlockRef<T>* blockRef) const {
		if (blockRef)
			return GetBlockUnsafe<T>(blockRef->index);
		return nullptr;
	}

	template<class T>
	T* GetBlockUnsafe(const NiRef& blockRef) const {
		return GetBlockUnsafe<T>(blockRef.index);
	}

	template<class T>
	T* GetBlockUnsafe(const NiRef* blockRef) const {
		if (blockRef)
			return GetBlockUnsafe<T>(blockRef->index);
		return nullptr;
	}

	// Returns the index of a block in the file (or NIF_NPOS)
	uint32_t GetBlockID(NiObject* block) const;

	// Deletes a block and notifies all other blocks
	void DeleteBlock(const uint32_t blockId);
	// Deletes a block and notifies all other blocks
	void DeleteBlock(const NiRef& blockRef);

	// Deletes all blocks with the specified block type name.
	// "orphanedOnly" makes sure no blocks that are still referenced by other blocks are deleted.
	void DeleteBlockByType(const std::string& blockTypeStr, const bool orphanedOnly = false);

	// Adds a new block to the file. Pointer is moved to the file.
	uint32_t AddBlock(std::unique_ptr<NiObject> newBlock);

	// Replaces an existing block in the file. Pointer is moved to the file.
	// This is not the same as deleting and adding a new block.
	uint32_t ReplaceBlock(const uint32_t oldBlockId, std::unique_ptr<NiObject> newBlock);

	void SetBlockOrder(std::vector<uint32_t>& newOrder);

	bool IsBlockReferenced(const uint32_t blockId, bool includePtrs = true);
	int GetBlockRefCount(const uint32_t blockId, bool includePtrs = true);

	// Deletes all unreferenced (loose) blocks of the given type starting at the specified root.
	// Use template type "NiObject" for all block types.
	// Sets the amount of deleted blocks (or 0) in "deletionCount".
	template<class T>
	bool DeleteUnreferencedBlocks(const uint32_t rootId, uint32_t* deletionCount = nullptr) {
		if (rootId == NIF_NPOS)
			return false;

		for (uint32_t i = 0; i < numBlocks; i++) {
			if (i != rootId) {
				// Only check blocks of provided template type
				auto block = GetBlock<T>(i);
				if (block && !IsBlockReferenced(i)) {
					DeleteBlock(i);

					if (deletionCount)
						(*deletionCount)++;

					// Deleting a block can cause others to become unreferenced
					return DeleteUnreferencedBlocks<T>(rootId > i ? rootId - 1 : rootId, deletionCount);
				}
			}
		}

		return true;
	}

	uint16_t AddOrFindBlockTypeId(const std::string& blockTypeName);
	std::string GetBlockTypeStringById(const uint32_t blockId) const;
	uint16_t GetBlockTypeIndex(const uint32_t blockId) const;

	uint32_t GetBlockSize(const uint32_t blockId) const;
	std::streampos GetBlockSizeStreamPos() const;
	void ResetBlockSizeStreamPos();

	uint32_t GetStringCount() const override;
	uint32_t FindStringId(const std::string& str) const override;

	// Adds a new string to the header (or finds a matching one).
	// "addEmpty" allows for adding an empty string, which is usually not required.
	// Returns the string index that can then be assigned to a block's member.
	uint32_t AddOrFindStringId(const std::string& str, const bool addEmpty = false) override;

	// Returns string at the specified string index (or empty string)
	std::string GetStringById(const uint32_t id) const override;

	// Sets string at the specified string index (or does nothing)
	void SetStringById(const uint32_t id, const std::string& str) override;

	void ClearStrings();
	void UpdateMaxStringLength();

	// Fills all string references with their corresponding header string (index -> string)
	void FillStringRefs();

	// Creates header strings for all string references or updates existing ones (string -> index)
	void UpdateHeaderStrings(const bool hasUnknown);

	static void BlockDeleted(NiObject* o, const uint32_t blockId);

	void Get(NiIStream& stream) override;
	void Put(NiOStream& stream) override;
};

struct NiPlane {
	Vector3 normal;
	float constant = 0.0f;
};

class BSTextureArray {
public:
	NiStringVector<> textureArray;

	void Sync(NiStreamReversible& stream) { textureArray.Sync(stream); }
};

// Used for all unknown block types
class NiUnknown : public NiCloneableStreamable<NiUnknown, NiObject> {
public:
	std::vector<char> data;

	NiUnknown() {}
	NiUnknown(NiIStream& stream, const uint32_t size);
	NiUnknown(const uint32_t size);

	void Sync(NiStreamReversible& stream);
};
} // namespace nifly
