/*
nifly
C++ NIF library for the Gamebryo/NetImmerse File Format
See the included GPLv3 LICENSE file
*/

#pragma once

#include "BasicTypes.hpp"
#include "Objects.hpp"

namespace nifly {
enum BSShaderType : uint32_t {
	SHADER_TALL_GRASS,
	SHADER_DEFAULT,
	SHADER_SKY = 10,
	SHADER_SKIN = 14,
	SHADER_WATER = 17,
	SHADER_LIGHTING30 = 29,
	SHADER_TILE = 32,
	SHADER_NOLIGHTING
};

enum BSLightingShaderPropertyShaderType : uint32_t {
	BSLSP_DEFAULT,
	BSLSP_ENVMAP,
	BSLSP_GLOWMAP,
	BSLSP_PARALLAX,
	BSLSP_FACE,
	BSLSP_SKINTINT,
	BSLSP_HAIRTINT,
	BSLSP_PARALLAXOCC,
	BSLSP_MULTITEXTURELANDSCAPE,
	BSLSP_LODLANDSCAPE,
	BSLSP_SNOW,
	BSLSP_MULTILAYERPARALLAX,
	BSLSP_TREEANIM,
	BSLSP_LODOBJECTS,
	BSLSP_MULTIINDEXSNOW,
	BSLSP_LODOBJECTSHD,
	BSLSP_EYE,
	BSLSP_CLOUD,
	BSLSP_LODLANDSCAPENOISE,
	BSLSP_MULTITEXTURELANDSCAPELODBLEND,
	BSLSP_DISMEMBERMENT,
	BSLSP_LAST = BSLSP_DISMEMBERMENT
};

enum SkyrimShaderPropertyFlags1 : uint32_t {
	SLSF1_SPECULAR = 1 << 0,					// Enables specularity
	SLSF1_SKINNED = 1 << 1,						// Required for skinned meshes
	SLSF1_TEMP_REFRACTION = 1 << 2,
	SLSF1_VERTEX_ALPHA = 1 << 3,				// Enables using alpha component of vertex colors
	SLSF1_GREYSCALETOPALETTE_COLOR = 1 << 4,	// For effect shader property
	SLSF1_GREYSCALETOPALETTE_ALPHA = 1 << 5,	// For effect shader property
	SLSF1_USE_FALLOFF = 1 << 6,					// Use falloff value in effect shader property
	SLSF1_ENVIRONMENT_MAPPING = 1 << 7,			// Enables environment mapping (uses environment map scale)
	SLSF1_RECEIVE_SHADOWS = 1 << 8,				// Can receive shadows
	SLSF1_CAST_SHADOWS = 1 << 9,				// Can cast shadows
	SLSF1_FACEGEN_DETAIL_MAP = 1 << 10,			// Use a face detail map in the fourth texture slot
	SLSF1_PARALLAX = 1 << 11,
	SLSF1_MODEL_SPACE_NORMALS = 1 << 12,		// Use model space normals and an external specular map
	SLSF1_NON_PROJECTIVE_SHADOWS = 1 << 13,
	SLSF1_LANDSCAPE = 1 << 14,
	SLSF1_REFRACTION = 1 << 15,					// Use normal map for refraction effect
	SLSF1_FIRE_REFRACTION = 1 << 16,
	SLSF1_EYE_ENVIRONMENT_MAPPING = 1 << 17,	// Enables eye environment mapping (must use the eye shader and the model must be skinned)
	SLSF1_HAIR_SOFT_LIGHTING = 1 << 18,			// Keeps from going too bright under lights (hair shader only)
	SLSF1_SCREENDOOR_ALPHA_FADE = 1 << 19,
	SLSF1_LOCALMAP_HIDE_SECRET = 1 << 20,		// Object and anything it is positioned above will not render on local map view
	SLSF1_FACEGEN_RGB_TINT = 1 << 21,			// Use tint mask for face
	SLSF1_OWN_EMIT = 1 << 22,					// Provides its own emittance color (will not absorb light/ambient color?)
	SLSF1_PROJECTED_UV = 1 << 23,				// Used for decalling?
	SLSF1_MULTIPLE_TEXTURES = 1 << 24,
	SLSF1_REMAPPABLE_TEXTURES = 1 << 25,
	SLSF1_DECAL = 1 << 26,
	SLSF1_DYNAMIC_DECAL = 1 << 27,
	SLSF1_PARALLAX_OCCLUSION = 1 << 28,
	SLSF1_EXTERNAL_EMITTANCE = 1 << 29,
	SLSF1_SOFT_EFFECT = 1 << 30,
	SLSF1_ZBUFFER_TEST = static_cast<uint32_t>(1) << 31				// Enables Z-Buffer testing
};

enum SkyrimShaderPropertyFlags2 : uint32_t {
	SLSF2_ZBUFFER_WRITE = 1 << 0,				// Enables writing to the Z-Buffer
	SLSF2_LOD_LANDSCAPE = 1 << 1,
	SLSF2_LOD_OBJECTS = 1 << 2,
	SLSF2_NO_FADE = 1 << 3,
	SLSF2_DOUBLE_SIDED = 1 << 4,				// Enables double-sided rendering
	SLSF2_VERTEX_COLORS = 1 << 5,				// Enables vertex color rendering
	SLSF2_GLOW_MAP = 1 << 6,					// Use glow map in the third texture slot
	SLSF2_ASSUME_SHADOWMASK = 1 << 7,
	SLSF2_PACKED_TANGENT = 1 << 8,
	SLSF2_MULTI_INDEX_SNOW = 1 << 9,
	SLSF2_VERTEX_LIGHTING = 1 << 10,
	SLSF2_UNIFORM_SCALE = 1 << 11,
	SLSF2_FIT_SLOPE = 1 << 12,
	SLSF2_BILLBOARD = 1 << 13,
	SLSF2_NO_LOD_LAND_BLEND = 1 << 14,
	SLSF2_ENVMAP_LIGHT_FADE = 1 << 15,
	SLSF2_WIREFRAME = 1 << 16,
	SLSF2_WEAPON_BLODD = 1 << 17,				// Used for blood decals on weapons
	SLSF2_HIDE_ON_LOCAL_MAP = 1 << 18,			// Similar to hide secret, but only for self?
	SLSF2_PREMULT_ALPHA = 1 << 19,				// Has premultiplied alpha
	SLSF2_CLOUD_LOD = 1 << 20,
	SLSF2_ANISOTROPIC_LIGHTING = 1 << 21,		// Hair only?
	SLSF2_NO_TRANSPARENCY_MULTISAMPLING = 1 << 22,
	SLSF2_UNUSED01 = 1 << 23,
	SLSF2_MULTI_LAYER_PARALLAX = 1 << 24,		// Use multilayer (inner-layer) map
	SLSF2_SOFT_LIGHTING = 1 << 25,				// Use soft lighting map
	SLSF2_RIM_LIGHTING = 1 << 26,				// Use rim lighting map
	SLSF2_BACK_LIGHTING = 1 << 27,				// Use back lighting map
	SLSF2_UNUSED02 = 1 << 28,
	SLSF2_TREE_ANIM = 1 << 29,					// Enables vertex animation, flutter animation
	SLSF2_EFFECT_LIGHTING = 1 << 30,
	SLSF2_HD_LOD_OBJECTS = static_cast<uint32_t>(1) << 31
};

enum Fallout4ShaderPropertyFlags1 : uint32_t {
	F4SF1_SPECULAR = 1 << 0,					// Enables specularity
	F4SF1_SKINNED = 1 << 1,						// Required for skinned meshes
	F4SF1_TEMP_REFRACTION = 1 << 2,
	F4SF1_VERTEX_ALPHA = 1 << 3,				// Enables using alpha component of vertex colors
	F4SF1_GREYSCALETOPALETTE_COLOR = 1 << 4,	// For effect shader property
	F4SF1_GREYSCALETOPALETTE_ALPHA = 1 << 5,	// For effect shader property
	F4SF1_USE_FALLOFF = 1 << 6,					// Use falloff value in effect shader property
	F4SF1_ENVIRONMENT_MAPPING = 1 << 7,			// Enables environment mapping (uses environment map scale)
	F4SF1_RGB_FALLOFF = 1 << 8,
	F4SF1_CAST_SHADOWS = 1 << 9,				// Can cast shadows
	F4SF1_FACE = 1 << 10,
	F4SF1_UI_MASK_RECTS = 1 << 11,
	F4SF1_MODEL_SPACE_NORMALS = 1 << 12,
	F4SF1_NON_PROJECTIVE_SHADOWS = 1 << 13,
	F4SF1_LANDSCAPE = 1 << 14,
	F4SF1_REFRACTION = 1 << 15,
	F4SF1_FIRE_REFRACTION = 1 << 16,
	F4SF1_EYE_ENVIRONMENT_MAPPING = 1 << 17,
	F4SF1_HAIR = 1 << 18,
	F4SF1_SCREENDOOR_ALPHA_FADE = 1 << 19,
	F4SF1_LOCALMAP_HIDE_SECRET = 1 << 20,
	F4SF1_SKIN_TINT = 1 << 21,
	F4SF1_OWN_EMIT = 1 << 22,
	F4SF1_PROJECTED_UV = 1 << 23,				// Used for decalling?
	F4SF1_MULTIPLE_TEXTURES = 1 << 24,
	F4SF1_TESSELLATE = 1 << 25,
	F4SF1_DECAL = 1 << 26,
	F4SF1_DYNAMIC_DECAL = 1 << 27,
	F4SF1_CHARACTER_LIGHTING = 1 << 28,
	F4SF1_EXTERNAL_EMITTANCE = 1 << 29,
	F4SF1_SOFT_EFFECT = 1 << 30,
	F4SF1_ZBUFFER_TEST = static_cast<uint32_t>(1) << 31				// Enables Z-Buffer testing
};

enum Fallout4ShaderPropertyFlags2 : uint32_t {
	F4SF2_ZBUFFER_WRITE = 1 << 0,				// Enables writing to the Z-Buffer
	F4SF2_LOD_LANDSCAPE = 1 << 1,
	F4SF2_LOD_OBJECTS = 1 << 2,
	F4SF2_NO_FADE = 1 << 3,
	F4SF2_DOUBLE_SIDED = 1 << 4,				// Enables double-sided rendering
	F4SF2_VERTEX_COLORS = 1 << 5,				// Enables vertex color rendering
	F4SF2_GLOW_MAP = 1 << 6,
	F4SF2_TRANSFORM_CHANGED = 1 << 7,
	F4SF2_DISMEMBERMENT_MEATCUFF = 1 << 8,
	F4SF2_TINT = 1 << 9,
	F4SF2_GRASS_VERTEX_LIGHTING = 1 << 10,
	F4SF2_GRASS_UNIFORM_SCALE = 1 << 11,
	F4SF2_GRASS_FIT_SLOPE = 1 << 12,
	F4SF2_GRASS_BILLBOARD = 1 << 13,
	F4SF2_NO_LOD_LAND_BLEND = 1 << 14,
	F4SF2_DISMEMBERMENT = 1 << 15,
	F4SF2_WIREFRAME = 1 << 16,
	F4SF2_WEAPON_BLODD = 1 << 17,
	F4SF2_HIDE_ON_LOCAL_MAP = 1 << 18,
	F4SF2_PREMULT_ALPHA = 1 << 19,
	F4SF2_VATS_TARGET = 1 << 20,
	F4SF2_ANISOTROPIC_LIGHTING = 1 << 21,
	F4SF2_SKEW_SPECULAR_ALPHA = 1 << 22,
	F4SF2_MENU_SCREEN = 1 << 23,
	F4SF2_MULTI_LAYER_PARALLAX = 1 << 24,
	F4SF2_ALPHA_TEST = 1 << 25,
	F4SF2_GRADIENT_REMAP = 1 << 26,
	F4SF2_VATS_TARGET_DRAW_ALL = 1 << 27,
	F4SF2_PIPBOY_SCREEN = 1 << 28,
	F4SF2_TREE_ANIM = 1 << 29,
	F4SF2_EFFECT_LIGHTING = 1 << 30,
	F4SF2_REFRACTION_WRITES_DEPTH = static_cast<uint32_t>(1) << 31
};

class NiProperty : public NiCloneable<NiProperty, NiObjectNET> {};

class NiShadeProperty : public NiCloneableStreamable<NiShadeProperty, NiProperty> {
public:
	uint16_t flags = 0;

	static constexpr const char* BlockName = "NiShadeProperty";
	const char* GetBlockName() override { return BlockName; }

	void Sync(NiStreamReversible& stream);
};

class NiSpecularProperty : public NiCloneableStreamable<NiSpecularProperty, NiProperty> {
public:
	uint16_t flags = 0;

	static constexpr const char* BlockName = "NiSpecularProperty";
	const char* GetBlockName() override { return BlockName; }

	void Sync(NiStreamReversible& stream);
};

struct TexTransform {
	Vector2 translation;
	Vector2 scale;
	float wRotation = 0.0f;
	uint32_t transformType = 0;
	Vector2 center;
};

class TexDesc {
public:
	NiBlockRef<NiSourceTexture> sourceRef;
	TexClampMode clampMode = TexClampMode::WRAP_S_WRAP_T;
	TexFilterMode filterMode = TexFilterMode::FILTER_TRILERP;
	uint16_t flags = 0; // TexturingMapFlags
	uint16_t maxAnisotropy = 0;
	uint32_t uvSet = 0;
	int16_t ps2_l = 0;
	int16_t ps2_k = -75;
	bool hasTexTransform = false;
	TexTransform transform;

	void Sync(NiStreamReversible& stream) {
		const NiFileVersion fileVersion = stream.GetVersion().File();

		if (fileVersion >= NiFileVersion::V3_3_0_13)
			sourceRef.Sync(stream);

		if (fileVersion <= NiFileVersion::V20_0_0_5) {
			stream.Sync(clampMode);
			stream.Sync(filterMode);
			stream.Sync(uvSet);

			if (fileVersion < NiFileVersion::V10_4_0_1) {
				stream.Sync(ps2_l);
				stream.Sync(ps2_k);
			}
		}

		if (fileVersion >= NiFileVersion::V20_1_0_3)
			stream.Sync(flags);

		if (fileVersion >= NiVersion::ToFile(20, 5, 0, 4))
			stream.Sync(maxAnisotropy);

		if (fileVersion >= NiFileVersion::V10_1_0_0) {
			stream.Sync(hasTexTransform);

			if (hasTexTransform)
				stream.Sync(transform);
		}
	}

	void GetChildRefs(std::set<NiRef*>& refs) { refs.insert(&sourceRef); }
	void GetChildIndices(std::vector<uint32_t>& indices) { indices.push_back(sourceRef.index); }
};

class ShaderTexDesc {
public:
	bool isUsed = false;
	TexDesc data;
	uint32_t mapIndex = 0;

	void Sync(NiStreamReversible& stream) {
		stream.Sync(isUsed);

		if (isUsed) {
			data.Sync(stream);
			stream.Sync(mapIndex);
		}
	}

	void GetChildRefs(std::set<NiRef*>& refs) { data.GetChildRefs(refs); }
	void GetChildIndices(std::vector<uint32_t>& indices) { data.GetChildIndices(indices); }
};

class NiTexturingProperty : public NiCloneableStreamable<NiTexturingProperty, NiProperty> {
public:
	uint16_t flags = 0;
	uint32_t applyMode = 2;
	uint32_t textureCount = 7;

	bool hasBaseTex = false;
	TexDesc baseTex;

	bool hasDarkTex = false;
	TexDesc darkTex;

	bool hasDetailTex = false;
	TexDesc detailTex;

	bool hasGlossTex = false;
	TexDesc glossTex;

	bool hasGlowTex = false;
	TexDesc glowTex;

	bool hasBumpTex = false;
	TexDesc bumpTex;
	float lumaScale = 1.0f;
	float lumaOffset = 0.0f;
	Vector4 bumpMatrix;

	bool hasNormalTex = false;
	TexDesc normalTex;

	bool hasParallaxTex = false;
	TexDesc parallaxTex;
	float parallaxOffset = 0.0f;

	bool hasDecalTex0 = false;
	TexDesc decalTex0;

	bool hasDecalTex1 = false;
	TexDesc decalTex1;

	bool hasDecalTex2 = false;
	TexDesc decalTex2;

	bool hasDecalTex3 = false;
	TexDesc decalTex3;

	NiSyncVector<ShaderTexDesc> shaderTex;

	static constexpr const char* BlockName = "NiTexturingProperty";
	const char* GetBlockName() override { return BlockName; }

	void Sync(NiStreamReversible& stream);
	void GetChildRefs(std::set<NiRef*>& refs) override;
	void GetChildIndices(std::vector<uint32_t>& indices) override;
};

class NiVertexColorProperty : public NiCloneableStreamable<NiVertexColorProperty, NiProperty> {
public:
	uint16_t flags = 0;
	uint32_t vertexMode = 0;
	uint32_t lightingMode = 0;

	static constexpr const char* BlockName = "NiVertexColorProperty";
	const char* GetBlockName() override { return BlockName; }

	void Sync(NiStreamReversible& stream);
};

class NiDitherProperty : public NiCloneableStreamable<NiDitherProperty, NiProperty> {
public:
	uint16_t flags = 0;

	static constexpr const char* BlockName = "NiDitherProperty";
	const char* GetBlockName() override { return BlockName; }

	void Sync(NiStreamReversible& stream);
};

class NiFogProperty : public NiCloneableStreamable<NiFogProperty, NiProperty> {
public:
	uint16_t flags = 0;
	float fogDepth = 1.0f;
	Color3 fogColor;

	static constexpr const char* BlockName = "NiFogProperty";
	const char* GetBlockName() override { return BlockName; }

	void Sync(NiStreamReversible& stream);
};

class NiWireframeProperty : public NiCloneableStreamable<NiWireframeProperty, NiProperty> {
public:
	uint16_t flags = 0;

	static constexpr const char* BlockName = "NiWireframeProperty";
	const char* GetBlockName() override { return BlockName; }

	void Sync(NiStreamReversible& stream);
};

enum TestFunction : uint32_t {
	TEST_ALWAYS,
	TEST_LESS,
	TEST_EQUAL,
	TEST_LESS_EQUAL,
	TEST_GREATER,
	TEST_NOT_EQUAL,
	TEST_GREATER_EQUAL,
	TEST_NEVER
};

class NiZBufferProperty : public NiCloneableStreamable<NiZBufferProperty, NiProperty> {
public:
	uint16_t flags = 3;
	TestFunction testFunction = TEST_LESS_EQUAL;

	static constexpr const char* BlockName = "NiZBufferProperty";
	const char* GetBlockName() override { return BlockName; }

	void Sync(NiStreamReversible& stream);
};

class BSShaderTextureSet : public NiCloneableStreamable<BSShaderTextureSet, NiObject> {
public:
	NiStringVector<> textures = NiStringVector<>(13);

	BSShaderTextureSet() {}
	BSShaderTextureSet(NiVersion& version);

	static constexpr const char* BlockName = "BSShaderTextureSet";
	const char* GetBlockName() override { return BlockName; }

	void Sync(NiStreamReversible& stream);
};

class NiShader : public NiCloneable<NiShader, NiProperty> {
public:
	virtual bool HasTextureSet() const { return false; }
	virtual NiBlockRef<BSShaderTextureSet>* TextureSetRef() { return nullptr; }
	virtual const NiBlockRef<BSShaderTextureSet>* TextureSetRef() const { return nullptr; }

	virtual bool IsSkinTinted() const { return false; }
	virtual bool IsFaceTinted() const { return false; }
	virtual bool IsSkinned() const { return false; }
	virtual void SetSkinned(const bool) {}
	virtual bool IsDoubleSided() const { return false; }
	virtual void SetDoubleSided(const bool) {}
	virtual bool IsModelSpace() const { return false; }
	virtual bool IsEmissive() const { return false; }
	virtual bool HasSpecular() const { return true; }
	virtual bool HasVertexColors() const { return false; }
	virtual void SetVertexColors(const bool) {}
	virtual bool HasVertexAlpha() const { return false; }
	virtual void SetVertexAlpha(const bool) {}
	virtual bool HasBacklight() const { return false; }
	virtual bool HasRimlight() const { return false; }
	virtual bool HasSoftlight() const { return false; }
	virtual bool HasGlowmap() const { return false; }
	virtual bool HasGreyscaleColor() const { return false; }
	virtual bool HasEnvironmentMapping() const { return false; }
	virtual void SetEnvironmentMapping(const bool) {}
	virtual uint32_t GetShaderType() const { return 0; }
	virtual void SetShaderType(const uint32_t) {}
	virtual Vector2 GetUVOffset() const { return Vector2(); }
	virtual Vector2 GetUVScale() const { return Vector2(1.0f, 1.0f); }
	virtual Vector3 GetSpecularColor() const { return Vector3(); }
	virtual void SetSpecularColor(const Vector3&) {}
	virtual float GetSpecularStrength() const { return 0.0f; }
	virtual void SetSpecularStrength(const float) {}
	virtual float GetGlossiness() const { return 0.0f; }
	virtual void SetGlossiness(const float) {}
	virtual float GetEnvironmentMapScale() const { return 0.0f; }
	virtual Color4 GetEmissiveColor() const { return Color4(); }
	virtual void SetEmissiveColor(const Color4&) {}
	virtual float GetEmissiveMultiple() const { return 0.0f; }
	virtual void SetEmissiveMultiple(const float) {}
	virtual float GetAlpha() const { return 1.0f; }
	virtual void SetAlpha(const float) {}
	virtual float GetBacklightPower() const { return 0.0f; }
	virtual float GetRimlightPower() const { return 2.0f; }
	virtual float GetSoftlight() const { return 0.3f; }
	virtual float GetSubsurfaceRolloff() const { return 0.3f; }
	virtual float GetGrayscaleToPaletteScale() const { return 1.0; }
	virtual float GetFresnelPower() const { return 5.0f; }
	virtual std::string GetWetMaterialName() const { return std::string(); }
	virtual void SetWetMaterialName(const std::string&) {}
};

class BSShaderProperty : public NiCloneableStreamable<BSShaderProperty, NiShader> {
public:
	uint16_t shaderFlags = 1;
	BSShaderType shaderType = SHADER_DEFAULT;
	uint32_t shaderFlags1 = 0x82000000;
	uint32_t shaderFlags2 = 1;
	float environmentMapScale = 1.0f;

	uint32_t numSF1 = 0;
	uint32_t numSF2 = 0;
	std::vector<uint32_t> SF1;
	std::vector<uint32_t> SF2;

	Vector2 uvOffset;
	Vector2 uvScale = Vector2(1.0f, 1.0f);

	void Sync(NiStreamReversible& stream);

	uint32_t GetShaderType() const override;
	void SetShaderType(const uint32_t type) override;
	bool IsSkinTinted() const override;
	bool IsFaceTinted() const override;
	bool IsSkinned() const override;
	void SetSkinned(const bool enable) override;
	bool IsDoubleSided() const override;
	void SetDoubleSided(const bool enable) override;
	bool IsModelSpace() const override;
	bool IsEmissive() const override;
	bool HasSpecular() const override;
	bool HasVertexColors() const override;
	void SetVertexColors(const bool enable) override;
	bool HasVertexAlpha() const override;
	void SetVertexAlpha(const bool enable) override;
	bool HasBacklight() const override;
	bool HasRimlight() const override;
	bool HasSoftlight() const override;
	bool HasGlowmap() const override;
	bool HasGreyscaleColor() const override;
	bool HasEnvironmentMapping() const override;
	void SetEnvironmentMapping(const bool enable) override;
	float GetEnvironmentMapScale() const override;
	Vector2 GetUVOffset() const override;
	Vector2 GetUVScale() const override;
};

class WaterShaderProperty : public NiCloneable<WaterShaderProperty, BSShaderProperty> {
public:
	static constexpr const char* BlockName = "WaterShaderProperty";
	const char* GetBlockName() override { return BlockName; }
};

class HairShaderProperty : public NiCloneable<HairShaderProperty, BSShaderProperty> {
public:
	static constexpr const char* BlockName = "HairShaderProperty";
	const char* GetBlockName() override { return BlockName; }
};

class DistantLODShaderProperty : public NiCloneable<DistantLODShaderProperty, BSShaderProperty> {
public:
	static constexpr const char* BlockName = "DistantLODShaderProperty";
	const char* GetBlockName() override { return BlockName; }
};

class BSDistantTreeShaderProperty : public NiCloneable<BSDistantTreeShaderProperty, BSShaderProperty> {
public:
	static constexpr const char* BlockName = "BSDistantTreeShaderProperty";
	const char* GetBlockName() override { return BlockName; }
};

class TallGrassShaderProperty : public NiCloneableStreamable<TallGrassShaderProperty, BSShaderProperty> {
public:
	NiString fileName;

	static constexpr const char* BlockName = "TallGrassShaderProperty";
	const char* GetBlockName() override { return BlockName; }

	void Sync(NiStreamReversible& stream);
};

class VolumetricFogShaderProperty : public NiCloneable<VolumetricFogShaderProperty, BSShaderProperty> {
public:
	static constexpr const char* BlockName = "VolumetricFogShaderProperty";
	const char* GetBlockName() override { return BlockName; }
};

class BSLightingShaderProperty : public NiCloneableStreamable<BSLightingShaderProperty, BSShaderProperty> {
public:
	NiBlockRef<BSShaderTextureSet> textureSetRef;

	Vector3 emissiveColor;
	float emissiveMultiple = 1.0f;
	NiStringRef rootMaterialName;
	float unkFloat = 0.0f;
	uint32_t textureClampMode = 3;
	float alpha = 1.0f;
	float refractionStrength = 0.0f;
	float glossiness = 1.0f;
	Vector3 specularColor = Vector3(1.0f, 1.0f, 1.0f);
	float specularStrength = 1.0f;
	float softlighting = 0.3f;
	float rimlightPower = 2.0f;

	float subsurfaceRolloff = 0.3f;
	float rimlightPower2 = NiFloatMax;
	float backlightPower = 0.0f;
	float grayscaleToPaletteScale = 1.0f;
	float fresnelPower = 5.0f;
	float wetnessSpecScale = 0.6f;
	float wetnessSpecPower = 1.4f;
	float wetnessMinVar = 0.2f;
	float wetnessEnvmapScale = 1.0f;
	float wetnessFresnelPower = 1.6f;
	float wetnessMetalness = 0.0f;
	float wetnessUnknown1 = 0.0f;
	float wetnessUnknown2 = 0.0f;

	float lumEmittance = 100.0f;
	float exposureOffset = 13.5f;
	float finalExposureMin = 2.0f;
	float finalExposureMax = 3.0f;

	bool doTranslucency = false;
	Color3 subsurfaceColor;
	float transmissiveScale = 1.0f;
	float turbulence = 0.0f;
	bool thickObject = false;
	bool mixAlbedo = false;

	bool hasTextureArrays = false;
	uint32_t numTextureArrays = 0;
	std::vector<BSTextureArray> textureArrays;

	float unkFloat1 = 0.0f;
	float unkFloat2 = 0.0f;
	uint16_t unkShort1 = 0;

	bool useSSR = false;
	bool wetnessUseSSR = false;
	Vector3 skinTintColor = Vector3(1.0f,
									1.0f,
									1.0f);
	float skinTintAlpha = 0.0f;
	Vector3 hairTintColor = Vector3(1.0f,
									1.0f,
									1.0f);
	float maxPasses = 1.0f;
	float scale = 1.0f;
	float parallaxInnerLayerThickness = 0.0f;
	float parallaxRefractionScale = 1.0f;
	Vector2 parallaxInnerLayerTextureScale = Vector2(1.0f, 1.0f);
	float parallaxEnvmapStrength = 1.0f;
	Color4 sparkleParameters;
	float eyeCubemapScale = 1.0f;
	Vector3 eyeLeftReflectionCenter;
	Vector3 eyeRightReflectionCenter;

	BSLightingShaderProperty();
	BSLightingShaderProperty(NiVersion& version);

	static constexpr const char* BlockName = "BSLightingShaderProperty";
	const char* GetBlockName() override { return BlockName; }

	void Sync(NiStreamReversible& stream);
	void GetStringRefs(std::vector<NiStringRef*>& refs) override;
	void GetChildRefs(std::set<NiRef*>& refs) override;
	void GetChildIndices(std::vector<uint32_t>& indices) override;

	bool HasTextureSet() const override { return !textureSetRef.IsEmpty(); }
	NiBlockRef<BSShaderTextureSet>* TextureSetRef() override { return &textureSetRef; }
	const NiBlockRef<BSShaderTextureSet>* TextureSetRef() const override { return &textureSetRef; }

	bool IsSkinTinted() const override;
	bool IsFaceTinted() const override;
	bool HasGlowmap() const override;
	bool HasEnvironmentMapping() const override;
	uint32_t GetShaderType() const override;
	void SetShaderType(const uint32_t type) override;
	Vector3 GetSpecularColor() const override;
	void SetSpecularColor(const Vector3& color) override;
	float GetSpecularStrength() const override;
	void SetSpecularStrength(const float strength) override;
	float GetGlossiness() const override;
	void SetGlossiness(const float gloss) override;
	Color4 GetEmissiveColor() const override;
	void SetEmissiveColor(const Color4& color) override;
	float GetEmissiveMultiple() const override;
	void SetEmissiveMultiple(const float emissive) override;
	float GetAlpha() const override;
	void SetAlpha(const float alphaValue) override;
	float GetBacklightPower() const override;
	float GetRimlightPower() const override;
	float GetSoftlight() const override;
	float GetSubsurfaceRolloff() const override;
	float GetGrayscaleToPaletteScale() const override;
	float GetFresnelPower() const override;
	std::string GetWetMaterialName() const override;
	void SetWetMaterialName(const std::string& matName) override;
};

class BSEffectShaderProperty : public NiCloneableStreamable<BSEffectShaderProperty, BSShaderProperty> {
public:
	NiString sourceTexture;
	float unkFloat = 0.0f;
	uint32_t textureClampMode = 0;
	float falloffStartAngle = 1.0f;
	float falloffStopAngle = 1.0f;
	float falloffStartOpacity = 0.0f;
	float falloffStopOpacity = 0.0f;
	float refractionPower = 0.0f;
	Color4 baseColor;
	float baseColorScale = 1.0f;
	float softFalloffDepth = 0.0f;
	NiString greyscaleTexture;

	NiString envMapTexture;
	NiString normalTexture;
	NiString envMaskTexture;
	float envMapScale = 1.0f;

	NiString reflectanceTexture;
	NiString lightingTexture;
	Color3 emittanceColor;
	NiString emitGradientTexture;

	float lumEmittance = 100.0f;
	float exposureOffset = 13.5f;
	float finalExposureMin = 2.0f;
	float finalExposureMax = 3.0f;

	uint8_t unkBytes[7]{};
	float unkFloats[6]{};
	uint8_t unkByte1 = 0;

	static constexpr const char* BlockName = "BSEffectShaderProperty";
	const char* GetBlockName() override { return BlockName; }

	void Sync(NiStreamReversible& stream);

	float GetEnvironmentMapScale() const override;
	Color4 GetEmissiveColor() const override;
	void SetEmissiveColor(const Color4& color) override;
	float GetEmissiveMultiple() const override;
	void SetEmissiveMultiple(const float emissive) override;
};

class BSWaterShaderProperty : public NiCloneableStreamable<BSWaterShaderProperty, BSShaderProperty> {
public:
	uint32_t waterFlags = 0;

	static constexpr const char* BlockName = "BSWaterShaderProperty";
	const char* GetBlockName() override { return BlockName; }

	void Sync(NiStreamReversible& stream);
};

class BSSkyShaderProperty : public NiCloneableStreamable<BSSkyShaderProperty, BSShaderProperty> {
public:
	NiString baseTexture;
	uint32_t skyFlags = 0;

	static constexpr const char* BlockName = "BSSkyShaderProperty";
	const char* GetBlockName() override { return BlockName; }

	void Sync(NiStreamReversible& stream);
};

class BSShaderLightingProperty : public NiCloneableStreamable<BSShaderLightingProperty, BSShaderProperty> {
public:
	uint32_t textureClampMode = 3; // User Version <= 11

	void Sync(NiStreamReversible& stream);
};

enum SkyObjectType : uint32_t {
	BSSM_SKY_TEXTURE,
	BSSM_SKY_SUNGLARE,
	BSSM_SKY,
	BSSM_SKY_CLOUDS,
	BSSM_SKY_STARS = 5,
	BSSM_SKY_MOON_STARS_MASK = 7
};

class SkyShaderProperty : public NiCloneableStreamable<SkyShaderProperty, BSShaderLightingProperty> {
public:
	NiString fileName;
	SkyObjectType skyObjectType = BSSM_SKY_TEXTURE;

	static constexpr const char* BlockName = "SkyShaderProperty";
	const char* GetBlockName() override { return BlockName; }

	void Sync(NiStreamReversible& stream);
};

class TileShaderProperty : public NiCloneableStreamable<TileShaderProperty, BSShaderLightingProperty> {
public:
	NiString fileName;

	static constexpr const char* BlockName = "TileShaderProperty";
	const char* GetBlockName() override { return BlockName; }

	void Sync(NiStreamReversible& stream);
};

class BSShaderNoLightingProperty
	: public NiCloneableStreamable<BSShaderNoLightingProperty, BSShaderLightingProperty> {
public:
	NiString baseTexture;
	float falloffStartAngle = 1.0f;	  // User Version 2 > 26
	float falloffStopAngle = 0.0f;	  // User Version 2 > 26
	float falloffStartOpacity = 1.0f; // User Version 2 > 26
	float falloffStopOpacity = 1.0f;  // User Version 2 > 26

	static constexpr const char* BlockName = "BSShaderNoLightingProperty";
	const char* GetBlockName() override { return BlockName; }

	void Sync(NiStreamReversible& stream);

	bool IsSkinned() const override;
	void SetSkinned(const bool enable) override;
};

class BSShaderPPLightingProperty
	: public NiCloneableStreamable<BSShaderPPLightingProperty, BSShaderLightingProperty> {
public:
	NiBlockRef<BSShaderTextureSet> textureSetRef;

	float refractionStrength = 0.0f; // User Version == 11 && User Version 2 > 14
	int refractionFirePeriod = 0;	 // User Version == 11 && User Version 2 > 14
	float parallaxMaxPasses = 4.0f;	 // User Version == 11 && User Version 2 > 24
	float parallaxScale = 1.0f;		 // User Version == 11 && User Version 2 > 24
	Color4 emissiveColor;			 // User Version >= 12

	static constexpr const char* BlockName = "BSShaderPPLightingProperty";
	const char* GetBlockName() override { return BlockName; }

	void Sync(NiStreamReversible& stream);
	void GetChildRefs(std::set<NiRef*>& refs) override;
	void GetChildIndices(std::vector<uint32_t>& indices) override;

	bool HasTextureSet() const override { return !textureSetRef.IsEmpty(); }
	NiBlockRef<BSShaderTextureSet>* TextureSetRef() override { return &textureSetRef; }
	const NiBlockRef<BSShaderTextureSet>* TextureSetRef() const override { return &textureSetRef; }

	bool IsSkinned() const override;
	void SetSkinned(const bool enable) override;
};

class Lighting30ShaderProperty : public NiCloneable<Lighting30ShaderProperty, BSShaderPPLightingProperty> {
public:
	static constexpr const char* BlockName = "Lighting30ShaderProperty";
	const char* GetBlockName() override { return BlockName; }
};

class NiAlphaProperty : public NiCloneableStreamable<NiAlphaProperty, NiProperty> {
public:
	uint16_t flags = 4844;
	uint8_t threshold = 128;

	static constexpr const char* BlockName = "NiAlphaProperty";
	const char* GetBlockName() override { return BlockName; }

	void Sync(NiStreamReversible& stream);
};


class NiMaterialProperty : public NiCloneableStreamable<NiMaterialProperty, NiShader> {
protected:
	uint16_t legacyFlags = 0;
	Vector3 colorSpecular = Vector3(1.0f, 1.0f, 1.0f);
	Vector3 colorEmissive;
	float glossiness = 10.0f;
	float alpha = 1.0f;
	float emitMulti = 1.0f;

public:
	Vector3 colorAmbient = Vector3(1.0f, 1.0f, 1.0f);
	Vector3 colorDiffuse = Vector3(1.0f, 1.0f, 1.0f);

	static constexpr const char* BlockName = "NiMaterialProperty";
	const char* GetBlockName() override { return BlockName; }

	void Sync(NiStreamReversible& stream);

	bool IsEmissive() const override;
	bool HasSpecular() const override;
	void SetSpecularColor(const Vector3& color) override;
	Vector3 GetSpecularColor() const override;
	float GetGlossiness() const override;
	void SetGlossiness(const float gloss) override;
	Color4 GetEmissiveColor() const override;
	void SetEmissiveColor(const Color4& color) override;
	float GetEmissiveMultiple() const override;
	void SetEmissiveMultiple(const float emissive) override;
	float GetAlpha() const override;
	void SetAlpha(const float alpha) override;
};

enum StencilMasks {
	ENABLE_MASK = 0x0001,
	FAIL_MASK = 0x000E,
	FAIL_POS = 1,
	ZFAIL_MASK = 0x0070,
	ZFAIL_POS = 4,
	ZPASS_MASK = 0x0380,
	ZPASS_POS = 7,
	DRAW_MASK = 0x0C00,
	DRAW_POS = 10,
	TEST_MASK = 0x7000,
	TEST_POS = 12
};

enum DrawMode { DRAW_CCW_OR_BOTH, DRAW_CCW, DRAW_CW, DRAW_BOTH, DRAW_MAX };

class NiStencilProperty : public NiCloneableStreamable<NiStencilProperty, NiProperty> {
public:
	uint16_t legacyFlags = 0;
	uint16_t flags = 19840;
	bool stencilEnabled = false;
	uint32_t stencilFunction = 0;
	uint32_t stencilRef = 0;
	uint32_t stencilMask = 0xFFFFFFFF;
	uint32_t failAction = 0;
	uint32_t zFailAction = 0;
	uint32_t passAction = 0;
	uint32_t drawMode = 3;

	static constexpr const char* BlockName = "NiStencilProperty";
	const char* GetBlockName() override { return BlockName; }

	void Sync(NiStreamReversible& stream);
};
} // namespace nifly
