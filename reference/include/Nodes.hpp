/*
nifly
C++ NIF library for the Gamebryo/NetImmerse File Format
See the included GPLv3 LICENSE file
*/

#pragma once

#include "BasicTypes.hpp"
#include "Objects.hpp"

namespace nifly {
class NiNode : public NiCloneableStreamable<NiNode, NiAVObject> {
public:
	NiBlockRefArray<NiAVObject> childRefs;
	NiBlockRefArray<NiDynamicEffect> effectRefs;

	static constexpr const char* BlockName = "NiNode";
	const char* GetBlockName() override { return BlockName; }

	void Sync(NiStreamReversible& stream);

	void GetChildRefs(std::set<NiRef*>& refs) override;
	void GetChildIndices(std::vector<uint32_t>& indices) override;
};

class BSFadeNode : public NiCloneable<BSFadeNode, NiNode> {
public:
	static constexpr const char* BlockName = "BSFadeNode";
	const char* GetBlockName() override { return BlockName; }
};

enum BSValueNodeFlags : uint8_t {
	BSVN_NONE = 0x0,
	BSVN_BILLBOARD_WORLD_Z = 0x1,
	BSVN_USE_PLAYER_ADJUST = 0x2
};

class BSValueNode : public NiCloneableStreamable<BSValueNode, NiNode> {
public:
	int value = 0;
	BSValueNodeFlags valueFlags = BSVN_NONE;

	static constexpr const char* BlockName = "BSValueNode";
	const char* GetBlockName() override { return BlockName; }

	void Sync(NiStreamReversible& stream);
};

class BSLeafAnimNode : public NiCloneable<BSLeafAnimNode, NiNode> {
public:
	static constexpr const char* BlockName = "BSLeafAnimNode";
	const char* GetBlockName() override { return BlockName; }
};

class BSTreeNode : public NiCloneableStreamable<BSTreeNode, NiNode> {
public:
	NiBlockRefArray<NiNode> bones1;
	NiBlockRefArray<NiNode> bones2;

	static constexpr const char* BlockName = "BSTreeNode";
	const char* GetBlockName() override { return BlockName; }

	void Sync(NiStreamReversible& stream);

	void GetChildRefs(std::set<NiRef*>& refs) override;
	void GetChildIndices(std::vector<uint32_t>& indices) override;
};

class BSOrderedNode : public NiCloneableStreamable<BSOrderedNode, NiNode> {
public:
	Vector4 alphaSortBound;
	bool isStaticBound = false;

	static constexpr const char* BlockName = "BSOrderedNode";
	const char* GetBlockName() override { return BlockName; }

	void Sync(NiStreamReversible& stream);
};

class BSMultiBoundData : public NiCloneable<BSMultiBoundData, NiObject> {};

class BSMultiBoundOBB : public NiCloneableStreamable<BSMultiBoundOBB, BSMultiBoundData> {
public:
	Vector3 center;
	Vector3 size;
	Matrix3 rotation;

	static constexpr const char* BlockName = "BSMultiBoundOBB";
	const char* GetBlockName() override { return BlockName; }

	void Sync(NiStreamReversible& stream);
};

class BSMultiBoundAABB : public NiCloneableStreamable<BSMultiBoundAABB, BSMultiBoundData> {
public:
	Vector3 center;
	Vector3 halfExtent;

	static constexpr const char* BlockName = "BSMultiBoundAABB";
	const char* GetBlockName() override { return BlockName; }

	void Sync(NiStreamReversible& stream);
};

class BSMultiBoundSphere : public NiCloneableStreamable<BSMultiBoundSphere, BSMultiBoundData> {
public:
	Vector3 center;
	float radius = 0.0f;

	static constexpr const char* BlockName = "BSMultiBoundSphere";
	const char* GetBlockName() override { return BlockName; }

	void Sync(NiStreamReversible& stream);
};

class BSMultiBound : public NiCloneableStreamable<BSMultiBound, NiObject> {
public:
	NiBlockRef<BSMultiBoundData> dataRef;

	static constexpr const char* BlockName = "BSMultiBound";
	const char* GetBlockName() override { return BlockName; }

	void Sync(NiStreamReversible& stream);

	void GetChildRefs(std::set<NiRef*>& refs) override;
	void GetChildIndices(std::vector<uint32_t>& indices) override;
};

enum BSCPCullingType : uint32_t {
	BSCP_CULL_NORMAL,
	BSCP_CULL_ALLPASS,
	BSCP_CULL_ALLFAIL,
	BSCP_CULL_IGNOREMULTIBOUNDS,
	BSCP_CULL_FORCEMULTIBOUNDSNOUPDATE
};

class BSMultiBoundNode : public NiCloneableStreamable<BSMultiBoundNode, NiNode> {
public:
	NiBlockRef<BSMultiBound> multiBoundRef;
	BSCPCullingType cullingMode = BSCP_CULL_NORMAL;

	static constexpr const char* BlockName = "BSMultiBoundNode";
	const char* GetBlockName() override { return BlockName; }

	void Sync(NiStreamReversible& stream);

	void GetChildRefs(std::set<NiRef*>& refs) override;
	void GetChildIndices(std::vector<uint32_t>& indices) override;
};

struct BSResourceID {
    uint32_t fileHash = 0;
    char extension[4];
    uint32_t dirHash = 0;
};

#pragma pack(push, 1)
struct BSDistantObjectUnknown {
	uint64_t unknown1 = 0;
	uint32_t unknown2 = 0;
};
#pragma pack(pop)

struct BSDistantObjectInstance {
	BSResourceID resourceID;
	NiVector<BSDistantObjectUnknown> unknownData;
	NiVector<Matrix4> transforms;

	void Sync(NiStreamReversible& stream) {
		stream.Sync(resourceID);
		unknownData.Sync(stream);
		transforms.Sync(stream);
	}
};

struct BSShaderTextureArray {
	uint8_t unknownByte = 1;
	NiSyncVector<BSTextureArray> textureArrays;

	void Sync(NiStreamReversible& stream) {
		stream.Sync(unknownByte);
		textureArrays.Sync(stream);
	}
};

class BSDistantObjectInstancedNode : public NiCloneableStreamable<BSDistantObjectInstancedNode, BSMultiBoundNode> {
public:
	NiSyncVector<BSDistantObjectInstance> instances;
	BSShaderTextureArray textureArrays[3]{};

	static constexpr const char* BlockName = "BSDistantObjectInstancedNode";
	const char* GetBlockName() override { return BlockName; }

	void Sync(NiStreamReversible& stream);
};

class BSRangeNode : public NiCloneableStreamable<BSRangeNode, NiNode> {
public:
	uint8_t min = 0;
	uint8_t max = 0;
	uint8_t current = 0;

	static constexpr const char* BlockName = "BSRangeNode";
	const char* GetBlockName() override { return BlockName; }

	void Sync(NiStreamReversible& stream);
};

class BSDebrisNode : public NiCloneable<BSDebrisNode, BSRangeNode> {
public:
	static constexpr const char* BlockName = "BSDebrisNode";
	const char* GetBlockName() override { return BlockName; }
};

class BSBlastNode : public NiCloneable<BSBlastNode, BSRangeNode> {
public:
	static constexpr const char* BlockName = "BSBlastNode";
	const char* GetBlockName() override { return BlockName; }
};

class BSDamageStage : public NiCloneable<BSDamageStage, BSBlastNode> {
public:
	static constexpr const char* BlockName = "BSDamageStage";
	const char* GetBlockName() override { return BlockName; }
};

struct UnkMaterialStruct {
	uint32_t biomeFormID = 0;
	uint32_t dirHash = 0;
	uint32_t fileHash = 0;
	std::string mat; // mat\0

	void Sync(NiStreamReversible& stream);
};

struct BSWaterReferenceStruct {
    Matrix4 transform;
    BSResourceID resourceID;
    uint32_t unkInt1 = 0;
    NiString material;

	void Sync(NiStreamReversible& stream);
};

struct BSWeakReference {
	uint32_t formID = 0;
	BSResourceID resourceID;

	uint32_t numTransforms = 0;
	std::vector<Matrix4> transforms;

	uint32_t numMaterials;
	std::vector<UnkMaterialStruct> unkMaterials;

	void Sync(NiStreamReversible& stream);
};

class BSWeakReferenceNode : public NiCloneableStreamable<BSWeakReferenceNode, NiNode> {
public:
	uint32_t numWeakRefs = 0;
	std::vector<BSWeakReference> weakRefs;

	uint32_t unkInt1 = 0;
	uint32_t numWaterRefs = 0;
	std::vector<BSWaterReferenceStruct> waterRefs;

	static constexpr const char* BlockName = "BSWeakReferenceNode";
	const char* GetBlockName() override { return BlockName; }

	void Sync(NiStreamReversible& stream);
};

class BSFaceGenNiNode : public NiCloneableStreamable<BSFaceGenNiNode, NiNode> {
public:
	uint16_t unkShort = 0;

	static constexpr const char* BlockName = "BSFaceGenNiNode";
	const char* GetBlockName() override { return BlockName; }

	void Sync(NiStreamReversible& stream);
};

enum BillboardMode : uint16_t {
	ALWAYS_FACE_CAMERA,
	ROTATE_ABOUT_UP,
	RIGID_FACE_CAMERA,
	ALWAYS_FACE_CENTER,
	RIGID_FACE_CENTER,
	BSROTATE_ABOUT_UP,
	ROTATE_ABOUT_UP2 = 9
};

class NiBillboardNode : public NiCloneableStreamable<NiBillboardNode, NiNode> {
public:
	BillboardMode billboardMode = ALWAYS_FACE_CAMERA;

	static constexpr const char* BlockName = "NiBillboardNode";
	const char* GetBlockName() override { return BlockName; }

	void Sync(NiStreamReversible& stream);
};

enum NiSwitchFlags : uint16_t { UPDATE_ONLY_ACTIVE_CHILD, UPDATE_CONTROLLERS };

class NiSwitchNode : public NiCloneableStreamable<NiSwitchNode, NiNode> {
public:
	NiSwitchFlags flags = UPDATE_ONLY_ACTIVE_CHILD;
	uint32_t index = 0;

	static constexpr const char* BlockName = "NiSwitchNode";
	const char* GetBlockName() override { return BlockName; }

	void Sync(NiStreamReversible& stream);
};

struct LODRange {
	float nearExtent = 0.0f;
	float farExtent = 0.0f;
};

class NiLODData : public NiCloneable<NiLODData, NiObject> {};

class NiRangeLODData : public NiCloneableStreamable<NiRangeLODData, NiLODData> {
public:
	Vector3 lodCenter;
	NiVector<LODRange> lodLevels;

	static constexpr const char* BlockName = "NiRangeLODData";
	const char* GetBlockName() override { return BlockName; }

	void Sync(NiStreamReversible& stream);
};

class NiScreenLODData : public NiCloneableStreamable<NiScreenLODData, NiLODData> {
public:
	Vector3 boundCenter;
	float boundRadius = 0.0f;
	Vector3 worldCenter;
	float worldRadius = 0.0f;
	NiVector<float> proportionLevels;

	static constexpr const char* BlockName = "NiScreenLODData";
	const char* GetBlockName() override { return BlockName; }

	void Sync(NiStreamReversible& stream);
};

class NiLODNode : public NiCloneableStreamable<NiLODNode, NiSwitchNode> {
public:
	NiBlockRef<NiLODData> lodLevelData;

	static constexpr const char* BlockName = "NiLODNode";
	const char* GetBlockName() override { return BlockName; }

	void Sync(NiStreamReversible& stream);

	void GetChildRefs(std::set<NiRef*>& refs) override;
	void GetChildIndices(std::vector<uint32_t>& indices) override;
};

class NiBone : public NiCloneable<NiBone, NiNode> {
public:
	static constexpr const char* BlockName = "NiBone";
	const char* GetBlockName() override { return BlockName; }
};

enum SortingMode { SORTING_INHERIT, SORTING_OFF };

class NiSortAdjustNode : public NiCloneableStreamable<NiSortAdjustNode, NiNode> {
public:
	SortingMode sortingMode = SORTING_INHERIT;

	static constexpr const char* BlockName = "NiSortAdjustNode";
	const char* GetBlockName() override { return BlockName; }

	void Sync(NiStreamReversible& stream);
};
} // namespace nifly
