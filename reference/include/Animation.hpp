/*
nifly
C++ NIF library for the Gamebryo/NetImmerse File Format
See the included GPLv3 LICENSE file
*/

#pragma once

#include "BasicTypes.hpp"
#include "ExtraData.hpp"
#include "Keys.hpp"

namespace nifly {
struct QuatTransform {
	Vector3 translation;
	Quaternion rotation;
	float scale = 1.0f;
	bool trsValid[3]{};

	void Sync(NiStreamReversible& stream) {
		stream.Sync(translation);
		stream.Sync(rotation);
		stream.Sync(scale);

		if (stream.GetVersion().File() < V10_1_0_110)
			stream.Sync(trsValid);
	}
};

class NiKeyframeData : public NiCloneableStreamable<NiKeyframeData, NiObject> {
public:
	NiKeyType rotationType = NO_INTERP;
	std::vector<NiAnimationKey<Quaternion>> quaternionKeys;
	NiAnimationKeyGroup<float> xRotations;
	NiAnimationKeyGroup<float> yRotations;
	NiAnimationKeyGroup<float> zRotations;
	NiAnimationKeyGroup<Vector3> translations;
	NiAnimationKeyGroup<float> scales;

	static constexpr const char* BlockName = "NiKeyframeData";
	const char* GetBlockName() override { return BlockName; }

	void Sync(NiStreamReversible& stream);
};

class NiTransformData : public NiCloneable<NiTransformData, NiKeyframeData> {
public:
	static constexpr const char* BlockName = "NiTransformData";

	const char* GetBlockName() override { return BlockName; }
};

class NiPosData : public NiCloneableStreamable<NiPosData, NiObject> {
public:
	NiAnimationKeyGroup<Vector3> data;

	static constexpr const char* BlockName = "NiPosData";
	const char* GetBlockName() override { return BlockName; }

	void Sync(NiStreamReversible& stream);
};

class NiBoolData : public NiCloneableStreamable<NiBoolData, NiObject> {
public:
	NiAnimationKeyGroup<uint8_t> data;

	static constexpr const char* BlockName = "NiBoolData";
	const char* GetBlockName() override { return BlockName; }

	void Sync(NiStreamReversible& stream);
};

class NiFloatData : public NiCloneableStreamable<NiFloatData, NiObject> {
public:
	NiAnimationKeyGroup<float> data;

	static constexpr const char* BlockName = "NiFloatData";
	const char* GetBlockName() override { return BlockName; }

	void Sync(NiStreamReversible& stream);
};

class NiBSplineData : public NiCloneableStreamable<NiBSplineData, NiObject> {
public:
	NiVector<float> floatControlPoints;
	NiVector<short> shortControlPoints;

	static constexpr const char* BlockName = "NiBSplineData";
	const char* GetBlockName() override { return BlockName; }

	void Sync(NiStreamReversible& stream);
};

class NiBSplineBasisData : public NiCloneableStreamable<NiBSplineBasisData, NiObject> {
public:
	uint32_t numControlPoints = 0;

	static constexpr const char* BlockName = "NiBSplineBasisData";
	const char* GetBlockName() override { return BlockName; }

	void Sync(NiStreamReversible& stream);
};

class NiInterpolator : public NiCloneable<NiInterpolator, NiObject> {};

class NiBSplineInterpolator : public NiCloneableStreamable<NiBSplineInterpolator, NiInterpolator> {
public:
	float startTime = 0.0f;
	float stopTime = 0.0f;
	NiBlockRef<NiBSplineData> splineDataRef;
	NiBlockRef<NiBSplineBasisData> basisDataRef;

	void Sync(NiStreamReversible& stream);
	void GetChildRefs(std::set<NiRef*>& refs) override;
	void GetChildIndices(std::vector<uint32_t>& indices) override;
};

class NiBSplineFloatInterpolator : public NiCloneable<NiBSplineFloatInterpolator, NiBSplineInterpolator> {};

class NiBSplineCompFloatInterpolator
	: public NiCloneableStreamable<NiBSplineCompFloatInterpolator, NiBSplineFloatInterpolator> {
public:
	float base = 0.0f;
	uint32_t offset = 0;
	float bias = 0.0f;
	float multiplier = 0.0f;

	static constexpr const char* BlockName = "NiBSplineCompFloatInterpolator";
	const char* GetBlockName() override { return BlockName; }

	void Sync(NiStreamReversible& stream);
};

class NiBSplinePoint3Interpolator
	: public NiCloneableStreamable<NiBSplinePoint3Interpolator, NiBSplineInterpolator> {
public:
	Vector3 value = NiVec3Min;
	uint32_t handle = NiUShortMax;

	void Sync(NiStreamReversible& stream);
};

class NiBSplineCompPoint3Interpolator
	: public NiCloneableStreamable<NiBSplineCompPoint3Interpolator, NiBSplinePoint3Interpolator> {
public:
	float positionOffset = NiFloatMax;
	float positionHalfRange = NiFloatMax;

	static constexpr const char* BlockName = "NiBSplineCompPoint3Interpolator";
	const char* GetBlockName() override { return BlockName; }

	void Sync(NiStreamReversible& stream);
};

class NiBSplineTransformInterpolator
	: public NiCloneableStreamable<NiBSplineTransformInterpolator, NiBSplineInterpolator> {
public:
	Vector3 translation;
	Quaternion rotation;
	float scale = 1.0f;

	uint32_t translationOffset = 0;
	uint32_t rotationOffset = 0;
	uint32_t scaleOffset = 0;

	static constexpr const char* BlockName = "NiBSplineTransformInterpolator";
	const char* GetBlockName() override { return BlockName; }

	void Sync(NiStreamReversible& stream);
};

class NiBSplineCompTransformInterpolator
	: public NiCloneableStreamable<NiBSplineCompTransformInterpolator, NiBSplineTransformInterpolator> {
public:
	float translationBias = 0.0f;
	float translationMultiplier = 0.0f;
	float rotationBias = 0.0f;
	float rotationMultiplier = 0.0f;
	float scaleBias = 0.0f;
	float scaleMultiplier = 0.0f;

	static constexpr const char* BlockName = "NiBSplineCompTransformInterpolator";
	const char* GetBlockName() override { return BlockName; }

	void Sync(NiStreamReversible& stream);
};

enum InterpBlendFlags : uint8_t { INTERP_BLEND_NONE = 0x00, INTERP_BLEND_MANAGER_CONTROLLED = 0x01 };

class InterpBlendItem {
public:
	NiBlockRef<NiInterpolator> interpolatorRef;
	float weight = 0.0f;
	float normalizedWeight = 0.0f;
	uint32_t priorityInt = 0;
	uint8_t priority = 0;
	float easeSpinner = 0.0f;

	void Sync(NiStreamReversible& stream);
};

class NiBlendInterpolator : public NiCloneableStreamable<NiBlendInterpolator, NiInterpolator> {
public:
	InterpBlendFlags flags = INTERP_BLEND_MANAGER_CONTROLLED;
	uint16_t arraySize = 0;
	uint16_t arrayGrowBy = 0;
	float weightThreshold = 0.0f;

	uint16_t interpCount = 0;
	uint8_t singleIndex = NiByteMax;
	uint16_t singleIndexShort = NiUShortMax;
	char highPriority = NiCharMin;
	int highPriorityInt = NiIntMin;
	char nextHighPriority = NiCharMin;
	int nextHighPriorityInt = NiIntMin;
	float singleTime = NiFloatMin;
	float highWeightsSum = NiFloatMin;
	float nextHighWeightsSum = NiFloatMin;
	float highEaseSpinner = NiFloatMin;
	std::vector<InterpBlendItem> interpItems;

	bool managerControlled = false;
	bool onlyUseHighestWeight = false;
	NiBlockRef<NiInterpolator> singleInterpolatorRef;

	void Sync(NiStreamReversible& stream);
	void GetChildRefs(std::set<NiRef*>& refs) override;
	void GetChildIndices(std::vector<uint32_t>& indices) override;
};

class NiBlendBoolInterpolator : public NiCloneableStreamable<NiBlendBoolInterpolator, NiBlendInterpolator> {
public:
	bool value = false;

	static constexpr const char* BlockName = "NiBlendBoolInterpolator";
	const char* GetBlockName() override { return BlockName; }

	void Sync(NiStreamReversible& stream);
};

class NiBlendFloatInterpolator : public NiCloneableStreamable<NiBlendFloatInterpolator, NiBlendInterpolator> {
public:
	float value = 0.0f;

	static constexpr const char* BlockName = "NiBlendFloatInterpolator";
	const char* GetBlockName() override { return BlockName; }

	void Sync(NiStreamReversible& stream);
};

class NiBlendPoint3Interpolator
	: public NiCloneableStreamable<NiBlendPoint3Interpolator, NiBlendInterpolator> {
public:
	Vector3 point;

	static constexpr const char* BlockName = "NiBlendPoint3Interpolator";
	const char* GetBlockName() override { return BlockName; }

	void Sync(NiStreamReversible& stream);
};

class NiBlendTransformInterpolator
	: public NiCloneableStreamable<NiBlendTransformInterpolator, NiBlendInterpolator> {
public:
	QuatTransform value;

	static constexpr const char* BlockName = "NiBlendTransformInterpolator";
	const char* GetBlockName() override { return BlockName; }

	void Sync(NiStreamReversible& stream);
};

class NiKeyBasedInterpolator : public NiInterpolator {};

class NiBoolInterpolator : public NiCloneableStreamable<NiBoolInterpolator, NiKeyBasedInterpolator> {
public:
	uint8_t boolValue = 0;
	NiBlockRef<NiBoolData> dataRef;

	static constexpr const char* BlockName = "NiBoolInterpolator";
	const char* GetBlockName() override { return BlockName; }

	void Sync(NiStreamReversible& stream);
	void GetChildRefs(std::set<NiRef*>& refs) override;
	void GetChildIndices(std::vector<uint32_t>& indices) override;
};

class NiBoolTimelineInterpolator : public NiCloneable<NiBoolTimelineInterpolator, NiBoolInterpolator> {
public:
	static constexpr const char* BlockName = "NiBoolTimelineInterpolator";
	const char* GetBlockName() override { return BlockName; }
};

class NiFloatInterpolator : public NiCloneableStreamable<NiFloatInterpolator, NiKeyBasedInterpolator> {
public:
	float floatValue = 0.0f;
	NiBlockRef<NiFloatData> dataRef;

	static constexpr const char* BlockName = "NiFloatInterpolator";
	const char* GetBlockName() override { return BlockName; }

	void Sync(NiStreamReversible& stream);
	void GetChildRefs(std::set<NiRef*>& refs) override;
	void GetChildIndices(std::vector<uint32_t>& indices) override;
};

class NiTransformInterpolator
	: public NiCloneableStreamable<NiTransformInterpolator, NiKeyBasedInterpolator> {
public:
	Vector3 translation;
	Quaternion rotation;
	float scale = 0.0f;
	NiBlockRef<NiTransformData> dataRef;

	static constexpr const char* BlockName = "NiTransformInterpolator";
	const char* GetBlockName() override { return BlockName; }

	void Sync(NiStreamReversible& stream);
	void GetChildRefs(std::set<NiRef*>& refs) override;
	void GetChildIndices(std::vector<uint32_t>& indices) override;
};

class BSRotAccumTransfInterpolator
	: public NiCloneable<BSRotAccumTransfInterpolator, NiTransformInterpolator> {
public:
	static constexpr const char* BlockName = "BSRotAccumTransfInterpolator";
	const char* GetBlockName() override { return BlockName; }
};

class NiPoint3Interpolator : public NiCloneableStreamable<NiPoint3Interpolator, NiKeyBasedInterpolator> {
public:
	Vector3 point3Value;
	NiBlockRef<NiPosData> dataRef;

	static constexpr const char* BlockName = "NiPoint3Interpolator";
	const char* GetBlockName() override { return BlockName; }

	void Sync(NiStreamReversible& stream);
	void GetChildRefs(std::set<NiRef*>& refs) override;
	void GetChildIndices(std::vector<uint32_t>& indices) override;
};

enum PathFlags : uint16_t {
	PATH_NONE = 0x0000,
	PATH_CVDATANEEDSUPDATE = 0x0001,
	PATH_CURVETYPEOPEN = 0x0002,
	PATH_ALLOWFLIP = 0x0004,
	PATH_BANK = 0x0008,
	PATH_CONSTANTVELOCITY = 0x0016,
	PATH_FOLLOW = 0x0032,
	PATH_FLIP = 0x0064
};

class NiPathInterpolator : public NiCloneableStreamable<NiPathInterpolator, NiKeyBasedInterpolator> {
private:
	PathFlags pathFlags = static_cast<PathFlags>(PATH_CVDATANEEDSUPDATE | PATH_CURVETYPEOPEN);
	int bankDir = 1;
	float maxBankAngle = 0.0f;
	float smoothing = 0.0f;
	uint16_t followAxis = 0;

	NiBlockRef<NiPosData> pathDataRef;
	NiBlockRef<NiFloatData> percentDataRef;

public:
	static constexpr const char* BlockName = "NiPathInterpolator";
	const char* GetBlockName() override { return BlockName; }

	void Sync(NiStreamReversible& stream);
	void GetChildRefs(std::set<NiRef*>& refs) override;
	void GetChildIndices(std::vector<uint32_t>& indices) override;
};

enum LookAtFlags : uint16_t {
	LOOK_X_AXIS = 0x0000,
	LOOK_FLIP = 0x0001,
	LOOK_Y_AXIS = 0x0002,
	LOOK_Z_AXIS = 0x0004
};

class NiNode;

class NiLookAtInterpolator : public NiCloneableStreamable<NiLookAtInterpolator, NiInterpolator> {
public:
	LookAtFlags flags = LOOK_X_AXIS;
	NiBlockPtr<NiNode> lookAtRef;

	NiStringRef lookAtName;

	QuatTransform transform;
	NiBlockRef<NiPoint3Interpolator> translateInterpRef;
	NiBlockRef<NiFloatInterpolator> rollInterpRef;
	NiBlockRef<NiFloatInterpolator> scaleInterpRef;

	static constexpr const char* BlockName = "NiLookAtInterpolator";
	const char* GetBlockName() override { return BlockName; }

	void Sync(NiStreamReversible& stream);
	void GetStringRefs(std::vector<NiStringRef*>& refs) override;
	void GetChildRefs(std::set<NiRef*>& refs) override;
	void GetChildIndices(std::vector<uint32_t>& indices) override;
	void GetPtrs(std::set<NiPtr*>& ptrs) override;
};

struct BSTreadTransformData {
	Vector3 translation;
	Quaternion rotation;
	float scale = 1.0f;
};

struct BSTreadTransform {
	NiStringRef name;
	BSTreadTransformData transform1;
	BSTreadTransformData transform2;

	void Sync(NiStreamReversible& stream) {
		name.Sync(stream);
		stream.Sync(transform1);
		stream.Sync(transform2);
	}

	void GetStringRefs(std::vector<NiStringRef*>& refs) { refs.emplace_back(&name); }
};

class BSTreadTransfInterpolator : public NiCloneableStreamable<BSTreadTransfInterpolator, NiInterpolator> {
public:
	NiSyncVector<BSTreadTransform> treadTransforms;
	NiBlockRef<NiFloatData> dataRef;

	static constexpr const char* BlockName = "BSTreadTransfInterpolator";
	const char* GetBlockName() override { return BlockName; }

	void Sync(NiStreamReversible& stream);
	void GetStringRefs(std::vector<NiStringRef*>& refs) override;
	void GetChildRefs(std::set<NiRef*>& refs) override;
	void GetChildIndices(std::vector<uint32_t>& indices) override;
};

class NiObjectNET;

class NiTimeController : public NiCloneableStreamable<NiTimeController, NiObject> {
public:
	NiBlockRef<NiTimeController> nextControllerRef;
	uint16_t flags = 0x000C;
	float frequency = 1.0f;
	float phase = 0.0f;
	float startTime = NiFloatMax;
	float stopTime = NiFloatMin;
	NiBlockPtr<NiObjectNET> targetRef;

	void Sync(NiStreamReversible& stream);
	void GetChildRefs(std::set<NiRef*>& refs) override;
	void GetChildIndices(std::vector<uint32_t>& indices) override;
	void GetPtrs(std::set<NiPtr*>& ptrs) override;
};

class NiLookAtController : public NiCloneableStreamable<NiLookAtController, NiTimeController> {
public:
	LookAtFlags lookAtFlags = LOOK_X_AXIS;
	NiBlockPtr<NiNode> lookAtNodePtr;

	static constexpr const char* BlockName = "NiLookAtController";
	const char* GetBlockName() override { return BlockName; }

	void Sync(NiStreamReversible& stream);
	void GetPtrs(std::set<NiPtr*>& ptrs) override;
};

class NiPathController : public NiCloneableStreamable<NiPathController, NiTimeController> {
public:
	PathFlags pathFlags = PATH_NONE;
	int bankDir = 1;
	float maxBankAngle = 0.0f;
	float smoothing = 0.0f;
	uint16_t followAxis = 0;
	NiBlockRef<NiPosData> pathDataRef;
	NiBlockRef<NiFloatData> percentDataRef;

	static constexpr const char* BlockName = "NiPathController";
	const char* GetBlockName() override { return BlockName; }

	void Sync(NiStreamReversible& stream);
	void GetChildRefs(std::set<NiRef*>& refs) override;
	void GetChildIndices(std::vector<uint32_t>& indices) override;
};

class NiPSysResetOnLoopCtlr : public NiCloneable<NiPSysResetOnLoopCtlr, NiTimeController> {
public:
	static constexpr const char* BlockName = "NiPSysResetOnLoopCtlr";
	const char* GetBlockName() override { return BlockName; }
};

class NiUVData : public NiCloneableStreamable<NiUVData, NiObject> {
public:
	NiAnimationKeyGroup<float> uTrans;
	NiAnimationKeyGroup<float> vTrans;
	NiAnimationKeyGroup<float> uScale;
	NiAnimationKeyGroup<float> vScale;

	static constexpr const char* BlockName = "NiUVData";
	const char* GetBlockName() override { return BlockName; }

	void Sync(NiStreamReversible& stream);
};

class NiUVController : public NiCloneableStreamable<NiUVController, NiTimeController> {
public:
	uint16_t textureSet = 0;
	NiBlockRef<NiUVData> dataRef;

	static constexpr const char* BlockName = "NiUVController";
	const char* GetBlockName() override { return BlockName; }

	void Sync(NiStreamReversible& stream);
	void GetChildRefs(std::set<NiRef*>& refs) override;
	void GetChildIndices(std::vector<uint32_t>& indices) override;
};

class BSFrustumFOVController : public NiCloneableStreamable<BSFrustumFOVController, NiTimeController> {
public:
	NiBlockRef<NiInterpolator> interpolatorRef;

	static constexpr const char* BlockName = "BSFrustumFOVController";
	const char* GetBlockName() override { return BlockName; }

	void Sync(NiStreamReversible& stream);
	void GetChildRefs(std::set<NiRef*>& refs) override;
	void GetChildIndices(std::vector<uint32_t>& indices) override;
};

class BSLagBoneController : public NiCloneableStreamable<BSLagBoneController, NiTimeController> {
public:
	float linearVelocity = 0.0f;
	float linearRotation = 0.0f;
	float maxDistance = 0.0f;

	static constexpr const char* BlockName = "BSLagBoneController";
	const char* GetBlockName() override { return BlockName; }

	void Sync(NiStreamReversible& stream);
};

class BSShaderProperty;

class BSProceduralLightningController
	: public NiCloneableStreamable<BSProceduralLightningController, NiTimeController> {
public:
	NiBlockRef<NiInterpolator> generationInterpRef;
	NiBlockRef<NiInterpolator> mutationInterpRef;
	NiBlockRef<NiInterpolator> subdivisionInterpRef;
	NiBlockRef<NiInterpolator> numBranchesInterpRef;
	NiBlockRef<NiInterpolator> numBranchesVarInterpRef;
	NiBlockRef<NiInterpolator> lengthInterpRef;
	NiBlockRef<NiInterpolator> lengthVarInterpRef;
	NiBlockRef<NiInterpolator> widthInterpRef;
	NiBlockRef<NiInterpolator> arcOffsetInterpRef;

	uint16_t subdivisions = 0;
	uint16_t numBranches = 0;
	uint16_t numBranchesPerVariation = 0;

	float length = 0.0f;
	float lengthVariation = 0.0f;
	float width = 0.0f;
	float childWidthMult = 0.0f;
	float arcOffset = 0.0f;
	bool fadeMainBolt = 0.0f;
	bool fadeChildBolts = 0.0f;
	bool animateArcOffset = 0.0f;

	NiBlockRef<BSShaderProperty> shaderPropertyRef;

	static constexpr const char* BlockName = "BSProceduralLightningController";
	const char* GetBlockName() override { return BlockName; }

	void Sync(NiStreamReversible& stream);
	void GetChildRefs(std::set<NiRef*>& refs) override;
	void GetChildIndices(std::vector<uint32_t>& indices) override;
};

class NiBoneLODController : public NiCloneableStreamable<NiBoneLODController, NiTimeController> {
public:
	uint32_t lod = 0;
	uint32_t numLODs = 0;
	NiSyncVector<NiBlockPtrArray<NiNode>> boneArrays;

	static constexpr const char* BlockName = "NiBoneLODController";
	const char* GetBlockName() override { return BlockName; }

	void Sync(NiStreamReversible& stream);
	void GetPtrs(std::set<NiPtr*>& ptrs) override;
};

class NiBSBoneLODController : public NiCloneable<NiBSBoneLODController, NiBoneLODController> {
public:
	static constexpr const char* BlockName = "NiBSBoneLODController";
	const char* GetBlockName() override { return BlockName; }
};

struct Morph {
	NiStringRef frameName;
	float legacyWeight = 0.0f;
	std::vector<Vector3> vectors;

	void Sync(NiStreamReversible& stream, uint32_t numVerts) {
		if (stream.GetVersion().File() >= V10_1_0_106)
			frameName.Sync(stream);

		if (stream.GetVersion().File() >= V10_1_0_104 && stream.GetVersion().File() < V20_1_0_3 && stream.GetVersion().Stream() < 10)
			stream.Sync(legacyWeight);

		vectors.resize(numVerts);
		for (uint32_t i = 0; i < numVerts; i++)
			stream.Sync(vectors[i]);
	}

	void GetStringRefs(std::vector<NiStringRef*>& refs) { refs.emplace_back(&frameName); }
};

class NiMorphData : public NiCloneableStreamable<NiMorphData, NiObject> {
private:
	uint32_t numMorphs = 0;
	std::vector<Morph> morphs;

public:
	uint32_t numVertices = 0;
	uint8_t relativeTargets = 1;

	static constexpr const char* BlockName = "NiMorphData";
	const char* GetBlockName() override { return BlockName; }

	void Sync(NiStreamReversible& stream);
	void GetStringRefs(std::vector<NiStringRef*>& refs) override;

	std::vector<Morph> GetMorphs() const;
	void SetMorphs(const uint32_t numVerts, const std::vector<Morph>& m);
};

class NiInterpController : public NiCloneableStreamable<NiInterpController, NiTimeController> {
public:
	bool managerControlled = false;

	void Sync(NiStreamReversible& stream);
};

class MorphWeight {
public:
	NiBlockRef<NiInterpolator> interpRef;
	float weight = 0.0f;

	void Sync(NiStreamReversible& stream) {
		interpRef.Sync(stream);
		stream.Sync(weight);
	}

	void GetChildRefs(std::set<NiRef*>& refs) { refs.insert(&interpRef); }
	void GetChildIndices(std::vector<uint32_t>& indices) { indices.push_back(interpRef.index); }
};

enum GeomMorpherFlags : uint16_t { GM_UPDATE_NORMALS_DISABLED, GM_UPDATE_NORMALS_ENABLED };

class NiGeomMorpherController : public NiCloneableStreamable<NiGeomMorpherController, NiInterpController> {
public:
	GeomMorpherFlags morpherFlags = GM_UPDATE_NORMALS_DISABLED;
	NiBlockRef<NiMorphData> dataRef;
	bool alwaysUpdate = false;
	NiBlockRefArray<NiInterpolator> interpolatorRefs;
	NiSyncVector<MorphWeight> interpWeights;

	NiVector<uint32_t> unknownInts;

	static constexpr const char* BlockName = "NiGeomMorpherController";
	const char* GetBlockName() override { return BlockName; }

	void Sync(NiStreamReversible& stream);
	void GetChildRefs(std::set<NiRef*>& refs) override;
	void GetChildIndices(std::vector<uint32_t>& indices) override;
};

class NiSingleInterpController : public NiCloneableStreamable<NiSingleInterpController, NiInterpController> {
public:
	NiBlockRef<NiInterpController> interpolatorRef;

	void Sync(NiStreamReversible& stream);
	void GetChildRefs(std::set<NiRef*>& refs) override;
	void GetChildIndices(std::vector<uint32_t>& indices) override;
};

class NiRollController : public NiCloneableStreamable<NiRollController, NiSingleInterpController> {
public:
	NiBlockRef<NiFloatData> dataRef;

	static constexpr const char* BlockName = "NiRollController";
	const char* GetBlockName() override { return BlockName; }

	void Sync(NiStreamReversible& stream);
	void GetChildRefs(std::set<NiRef*>& refs) override;
	void GetChildIndices(std::vector<uint32_t>& indices) override;
};

enum TargetColor : uint16_t { TC_AMBIENT, TC_DIFFUSE, TC_SPECULAR, TC_SELF_ILLUM };

class NiPoint3InterpController
	: public NiCloneableStreamable<NiPoint3InterpController, NiSingleInterpController> {
public:
	TargetColor targetColor = TC_AMBIENT;

	void Sync(NiStreamReversible& stream);
};

class NiMaterialColorController : public NiCloneable<NiMaterialColorController, NiPoint3InterpController> {
public:
	static constexpr const char* BlockName = "NiMaterialColorController";
	const char* GetBlockName() override { return BlockName; }
};

class NiLightColorController : public NiCloneable<NiLightColorController, NiPoint3InterpController> {
public:
	static constexpr const char* BlockName = "NiLightColorController";
	const char* GetBlockName() override { return BlockName; }
};

class NiExtraDataController : public NiCloneable<NiExtraDataController, NiSingleInterpController> {};

class NiFloatExtraDataController
	: public NiCloneableStreamable<NiFloatExtraDataController, NiExtraDataController> {
public:
	NiStringRef extraData;

	static constexpr const char* BlockName = "NiFloatExtraDataController";
	const char* GetBlockName() override { return BlockName; }

	void Sync(NiStreamReversible& stream);
	void GetStringRefs(std::vector<NiStringRef*>& refs) override;
};

class NiVisData : public NiCloneableStreamable<NiVisData, NiObject> {
public:
	NiSyncVector<NiAnimationKey<uint8_t>> keys;

	static constexpr const char* BlockName = "NiVisData";
	const char* GetBlockName() override { return BlockName; }

	void Sync(NiStreamReversible& stream);
};

class NiBoolInterpController : public NiSingleInterpController {};

class NiVisController : public NiCloneable<NiVisController, NiBoolInterpController> {
public:
	static constexpr const char* BlockName = "NiVisController";
	const char* GetBlockName() override { return BlockName; }
};

enum TexType : uint32_t {
	BASE_MAP,
	DARK_MAP,
	DETAIL_MAP,
	GLOSS_MAP,
	GLOW_MAP,
	BUMP_MAP,
	NORMAL_MAP,
	PARALLAX_MAP,
	DECAL_0_MAP,
	DECAL_1_MAP,
	DECAL_2_MAP,
	DECAL_3_MAP
};

class NiFloatInterpController : public NiCloneable<NiFloatInterpController, NiSingleInterpController> {};

class BSRefractionFirePeriodController
	: public NiCloneable<BSRefractionFirePeriodController, NiSingleInterpController> {
public:
	static constexpr const char* BlockName = "BSRefractionFirePeriodController";
	const char* GetBlockName() override { return BlockName; }
};

class NiSourceTexture;

class NiFlipController : public NiCloneableStreamable<NiFlipController, NiFloatInterpController> {
public:
	TexType textureSlot = BASE_MAP;
	NiBlockRefArray<NiSourceTexture> sourceRefs;

	static constexpr const char* BlockName = "NiFlipController";
	const char* GetBlockName() override { return BlockName; }

	void Sync(NiStreamReversible& stream);
	void GetChildRefs(std::set<NiRef*>& refs) override;
	void GetChildIndices(std::vector<uint32_t>& indices) override;
};

enum TexTransformType : uint32_t { TT_TRANSLATE_U, TT_TRANSLATE_V, TT_ROTATE, TT_SCALE_U, TT_SCALE_V };

class NiTextureTransformController
	: public NiCloneableStreamable<NiTextureTransformController, NiFloatInterpController> {
public:
	bool shaderMap = false;
	TexType textureSlot = BASE_MAP;
	TexTransformType operation = TT_TRANSLATE_U;

	static constexpr const char* BlockName = "NiTextureTransformController";
	const char* GetBlockName() override { return BlockName; }

	void Sync(NiStreamReversible& stream);
};

class NiLightDimmerController : public NiCloneable<NiLightDimmerController, NiFloatInterpController> {
public:
	static constexpr const char* BlockName = "NiLightDimmerController";
	const char* GetBlockName() override { return BlockName; }
};

class NiLightRadiusController : public NiCloneable<NiLightRadiusController, NiFloatInterpController> {
public:
	static constexpr const char* BlockName = "NiLightRadiusController";
	const char* GetBlockName() override { return BlockName; }
};

class NiAlphaController : public NiCloneable<NiAlphaController, NiFloatInterpController> {
public:
	static constexpr const char* BlockName = "NiAlphaController";
	const char* GetBlockName() override { return BlockName; }
};

class NiPSysUpdateCtlr : public NiCloneable<NiPSysUpdateCtlr, NiTimeController> {
public:
	static constexpr const char* BlockName = "NiPSysUpdateCtlr";
	const char* GetBlockName() override { return BlockName; }
};

class BSNiAlphaPropertyTestRefController
	: public NiCloneable<BSNiAlphaPropertyTestRefController, NiAlphaController> {
public:
	static constexpr const char* BlockName = "BSNiAlphaPropertyTestRefController";
	const char* GetBlockName() override { return BlockName; }
};

class NiKeyframeController : public NiCloneableStreamable<NiKeyframeController, NiSingleInterpController> {
public:
	NiBlockRef<NiKeyframeData> dataRef;

	static constexpr const char* BlockName = "NiKeyframeController";
	const char* GetBlockName() override { return BlockName; }

	void Sync(NiStreamReversible& stream);
	void GetChildRefs(std::set<NiRef*>& refs) override;
	void GetChildIndices(std::vector<uint32_t>& indices) override;
};

class NiTransformController : public NiCloneable<NiTransformController, NiKeyframeController> {
public:
	static constexpr const char* BlockName = "NiTransformController";
	const char* GetBlockName() override { return BlockName; }
};

class BSMaterialEmittanceMultController
	: public NiCloneable<BSMaterialEmittanceMultController, NiFloatInterpController> {
public:
	static constexpr const char* BlockName = "BSMaterialEmittanceMultController";
	const char* GetBlockName() override { return BlockName; }
};

class BSRefractionStrengthController
	: public NiCloneable<BSRefractionStrengthController, NiFloatInterpController> {
public:
	static constexpr const char* BlockName = "BSRefractionStrengthController";
	const char* GetBlockName() override { return BlockName; }
};

class BSLightingShaderPropertyColorController
	: public NiCloneableStreamable<BSLightingShaderPropertyColorController, NiFloatInterpController> {
public:
	uint32_t typeOfControlledColor = 0;

	static constexpr const char* BlockName = "BSLightingShaderPropertyColorController";
	const char* GetBlockName() override { return BlockName; }

	void Sync(NiStreamReversible& stream);
};

class BSLightingShaderPropertyFloatController
	: public NiCloneableStreamable<BSLightingShaderPropertyFloatController, NiFloatInterpController> {
public:
	uint32_t typeOfControlledVariable = 0;

	static constexpr const char* BlockName = "BSLightingShaderPropertyFloatController";
	const char* GetBlockName() override { return BlockName; }

	void Sync(NiStreamReversible& stream);
};

class BSLightingShaderPropertyUShortController
	: public NiCloneableStreamable<BSLightingShaderPropertyUShortController, NiFloatInterpController> {
public:
	uint32_t typeOfControlledVariable = 0;

	static constexpr const char* BlockName = "BSLightingShaderPropertyUShortController";
	const char* GetBlockName() override { return BlockName; }

	void Sync(NiStreamReversible& stream);
};

class BSEffectShaderPropertyColorController
	: public NiCloneableStreamable<BSEffectShaderPropertyColorController, NiFloatInterpController> {
public:
	uint32_t typeOfControlledColor = 0;

	static constexpr const char* BlockName = "BSEffectShaderPropertyColorController";
	const char* GetBlockName() override { return BlockName; }

	void Sync(NiStreamReversible& stream);
};

class BSEffectShaderPropertyFloatController
	: public NiCloneableStreamable<BSEffectShaderPropertyFloatController, NiFloatInterpController> {
public:
	uint32_t typeOfControlledVariable = 0;

	static constexpr const char* BlockName = "BSEffectShaderPropertyFloatController";
	const char* GetBlockName() override { return BlockName; }

	void Sync(NiStreamReversible& stream);
};

class NiAVObject;

class NiMultiTargetTransformController
	: public NiCloneableStreamable<NiMultiTargetTransformController, NiInterpController> {
public:
	NiBlockPtrShortArray<NiAVObject> targetRefs;

	static constexpr const char* BlockName = "NiMultiTargetTransformController";
	const char* GetBlockName() override { return BlockName; }

	void Sync(NiStreamReversible& stream);
	void GetPtrs(std::set<NiPtr*>& ptrs) override;
};

class NiPSysModifierCtlr : public NiCloneableStreamable<NiPSysModifierCtlr, NiSingleInterpController> {
public:
	NiStringRef modifierName;

	void Sync(NiStreamReversible& stream);
	void GetStringRefs(std::vector<NiStringRef*>& refs) override;
};

class NiPSysModifierBoolCtlr : public NiCloneable<NiPSysModifierBoolCtlr, NiPSysModifierCtlr> {};

class NiPSysModifierActiveCtlr : public NiCloneable<NiPSysModifierActiveCtlr, NiPSysModifierBoolCtlr> {
public:
	static constexpr const char* BlockName = "NiPSysModifierActiveCtlr";
	const char* GetBlockName() override { return BlockName; }
};

class NiPSysModifierFloatCtlr : public NiCloneable<NiPSysModifierFloatCtlr, NiPSysModifierCtlr> {};

class NiPSysEmitterLifeSpanCtlr : public NiCloneable<NiPSysEmitterLifeSpanCtlr, NiPSysModifierFloatCtlr> {
public:
	static constexpr const char* BlockName = "NiPSysEmitterLifeSpanCtlr";
	const char* GetBlockName() override { return BlockName; }
};

class NiPSysEmitterSpeedCtlr : public NiCloneable<NiPSysEmitterSpeedCtlr, NiPSysModifierFloatCtlr> {
public:
	static constexpr const char* BlockName = "NiPSysEmitterSpeedCtlr";
	const char* GetBlockName() override { return BlockName; }
};

class NiPSysEmitterInitialRadiusCtlr
	: public NiCloneable<NiPSysEmitterInitialRadiusCtlr, NiPSysModifierFloatCtlr> {
public:
	static constexpr const char* BlockName = "NiPSysEmitterInitialRadiusCtlr";
	const char* GetBlockName() override { return BlockName; }
};

class NiPSysEmitterDeclinationCtlr
	: public NiCloneable<NiPSysEmitterDeclinationCtlr, NiPSysModifierFloatCtlr> {
public:
	static constexpr const char* BlockName = "NiPSysEmitterDeclinationCtlr";
	const char* GetBlockName() override { return BlockName; }
};

class NiPSysGravityStrengthCtlr : public NiCloneable<NiPSysGravityStrengthCtlr, NiPSysModifierFloatCtlr> {
public:
	static constexpr const char* BlockName = "NiPSysGravityStrengthCtlr";
	const char* GetBlockName() override { return BlockName; }
};

class NiPSysEmitterDeclinationVarCtlr
	: public NiCloneable<NiPSysEmitterDeclinationVarCtlr, NiPSysModifierFloatCtlr> {
public:
	static constexpr const char* BlockName = "NiPSysEmitterDeclinationVarCtlr";
	const char* GetBlockName() override { return BlockName; }
};

class NiPSysFieldMagnitudeCtlr : public NiCloneable<NiPSysFieldMagnitudeCtlr, NiPSysModifierFloatCtlr> {
public:
	static constexpr const char* BlockName = "NiPSysFieldMagnitudeCtlr";
	const char* GetBlockName() override { return BlockName; }
};

class NiPSysFieldAttenuationCtlr : public NiCloneable<NiPSysFieldAttenuationCtlr, NiPSysModifierFloatCtlr> {
public:
	static constexpr const char* BlockName = "NiPSysFieldAttenuationCtlr";
	const char* GetBlockName() override { return BlockName; }
};

class NiPSysFieldMaxDistanceCtlr : public NiCloneable<NiPSysFieldMaxDistanceCtlr, NiPSysModifierFloatCtlr> {
public:
	static constexpr const char* BlockName = "NiPSysFieldMaxDistanceCtlr";
	const char* GetBlockName() override { return BlockName; }
};

class NiPSysAirFieldAirFrictionCtlr
	: public NiCloneable<NiPSysAirFieldAirFrictionCtlr, NiPSysModifierFloatCtlr> {
public:
	static constexpr const char* BlockName = "NiPSysAirFieldAirFrictionCtlr";
	const char* GetBlockName() override { return BlockName; }
};

class NiPSysAirFieldInheritVelocityCtlr
	: public NiCloneable<NiPSysAirFieldInheritVelocityCtlr, NiPSysModifierFloatCtlr> {
public:
	static constexpr const char* BlockName = "NiPSysAirFieldInheritVelocityCtlr";
	const char* GetBlockName() override { return BlockName; }
};

class NiPSysAirFieldSpreadCtlr : public NiCloneable<NiPSysAirFieldSpreadCtlr, NiPSysModifierFloatCtlr> {
public:
	static constexpr const char* BlockName = "NiPSysAirFieldSpreadCtlr";
	const char* GetBlockName() override { return BlockName; }
};

class NiPSysInitialRotSpeedCtlr : public NiCloneable<NiPSysInitialRotSpeedCtlr, NiPSysModifierFloatCtlr> {
public:
	static constexpr const char* BlockName = "NiPSysInitialRotSpeedCtlr";
	const char* GetBlockName() override { return BlockName; }
};

class NiPSysInitialRotSpeedVarCtlr
	: public NiCloneable<NiPSysInitialRotSpeedVarCtlr, NiPSysModifierFloatCtlr> {
public:
	static constexpr const char* BlockName = "NiPSysInitialRotSpeedVarCtlr";
	const char* GetBlockName() override { return BlockName; }
};

class NiPSysInitialRotAngleCtlr : public NiCloneable<NiPSysInitialRotAngleCtlr, NiPSysModifierFloatCtlr> {
public:
	static constexpr const char* BlockName = "NiPSysInitialRotAngleCtlr";
	const char* GetBlockName() override { return BlockName; }
};

class NiPSysInitialRotAngleVarCtlr
	: public NiCloneable<NiPSysInitialRotAngleVarCtlr, NiPSysModifierFloatCtlr> {
public:
	static constexpr const char* BlockName = "NiPSysInitialRotAngleVarCtlr";
	const char* GetBlockName() override { return BlockName; }
};

class NiPSysEmitterPlanarAngleCtlr
	: public NiCloneable<NiPSysEmitterPlanarAngleCtlr, NiPSysModifierFloatCtlr> {
public:
	static constexpr const char* BlockName = "NiPSysEmitterPlanarAngleCtlr";
	const char* GetBlockName() override { return BlockName; }
};

class NiPSysEmitterPlanarAngleVarCtlr
	: public NiCloneable<NiPSysEmitterPlanarAngleVarCtlr, NiPSysModifierFloatCtlr> {
public:
	static constexpr const char* BlockName = "NiPSysEmitterPlanarAngleVarCtlr";
	const char* GetBlockName() override { return BlockName; }
};

class NiPSysRotDampeningCtlr
	: public NiCloneable<NiPSysRotDampeningCtlr, NiPSysModifierFloatCtlr> {
public:
	static constexpr const char* BlockName = "NiPSysRotDampeningCtlr";
	const char* GetBlockName() override { return BlockName; }
};

class NiStringPalette : public NiCloneableStreamable<NiStringPalette, NiObject> {
public:
	NiString palette;
	uint32_t length = 0;

	static constexpr const char* BlockName = "NiStringPalette";
	const char* GetBlockName() override { return BlockName; }

	void Sync(NiStreamReversible& stream);
};

class ControllerLink {
public:
	NiString targetName;
	NiBlockRef<NiInterpolator> interpolatorRef;
	NiBlockRef<NiTimeController> controllerRef;

	NiBlockRef<NiBlendInterpolator> blendInterpolatorRef;
	uint16_t blendIndex = 0;

	uint8_t priority = 0;

	NiBlockRef<NiStringPalette> stringPaletteRef;
	uint32_t nodeNameOffset = 0;
	uint32_t propertyTypeOffset = 0;
	uint32_t controllerTypeOffset = 0;
	uint32_t controllerIDOffset = 0;
	uint32_t interpIDOffset = 0;

	NiStringRef nodeName;
	NiStringRef propType;
	NiStringRef ctrlType;
	NiStringRef ctrlID;
	NiStringRef interpID;

	void Sync(NiStreamReversible& stream) {
		if (stream.GetVersion().File() < V10_1_0_104)
			targetName.Sync(stream, 4);

		if (stream.GetVersion().File() >= V10_1_0_106)
			interpolatorRef.Sync(stream);

		if (stream.GetVersion().File() <= V20_5_0_0)
			controllerRef.Sync(stream);

		if (stream.GetVersion().File() >= V10_1_0_104 && stream.GetVersion().File() <= V10_1_0_110) {
			blendInterpolatorRef.Sync(stream);
			stream.Sync(blendIndex);
		}

		if (stream.GetVersion().File() >= V10_1_0_106 && stream.GetVersion().Stream() > 0)
			stream.Sync(priority);

		if ((stream.GetVersion().File() >= V10_1_0_104 && stream.GetVersion().File() < V10_1_0_114) ||
			(stream.GetVersion().File() >= V20_1_0_1)) {
			nodeName.Sync(stream);
			propType.Sync(stream);
			ctrlType.Sync(stream);
			ctrlID.Sync(stream);
			interpID.Sync(stream);
		}

		if (stream.GetVersion().File() >= V10_2_0_0 && stream.GetVersion().File() < V20_1_0_1) {
			stringPaletteRef.Sync(stream);
			stream.Sync(nodeNameOffset);
			stream.Sync(propertyTypeOffset);
			stream.Sync(controllerTypeOffset);
			stream.Sync(controllerIDOffset);
			stream.Sync(interpIDOffset);
		}
	}

	void GetStringRefs(std::vector<NiStringRef*>& refs) {
		refs.emplace_back(&nodeName);
		refs.emplace_back(&propType);
		refs.emplace_back(&ctrlType);
		refs.emplace_back(&ctrlID);
		refs.emplace_back(&interpID);
	}

	void GetChildRefs(std::set<NiRef*>& refs) {
		refs.insert(&interpolatorRef);
		refs.insert(&controllerRef);
		refs.insert(&blendInterpolatorRef);
		refs.insert(&stringPaletteRef);
	}

	void GetChildIndices(std::vector<uint32_t>& indices) {
		indices.push_back(interpolatorRef.index);
		indices.push_back(controllerRef.index);
		indices.push_back(blendInterpolatorRef.index);
		indices.push_back(stringPaletteRef.index);
	}
};

class NiSequence : public NiCloneableStreamable<NiSequence, NiObject> {
public:
	NiStringRef name;
	uint32_t arrayGrowBy = 0;

	NiSyncVector<ControllerLink> controlledBlocks;

	static constexpr const char* BlockName = "NiSequence";
	const char* GetBlockName() override { return BlockName; }

	void Sync(NiStreamReversible& stream);
	void GetStringRefs(std::vector<NiStringRef*>& refs) override;
	void GetChildRefs(std::set<NiRef*>& refs) override;
	void GetChildIndices(std::vector<uint32_t>& indices) override;
};

enum CycleType : uint32_t { CYCLE_LOOP, CYCLE_REVERSE, CYCLE_CLAMP };

class BSAnimNote : public NiCloneableStreamable<BSAnimNote, NiObject> {
public:
	enum AnimNoteType : uint32_t { ANT_INVALID, ANT_GRABIK, ANT_LOOKIK };

	AnimNoteType type = ANT_INVALID;
	float time = 0.0f;
	uint32_t arm = 0;
	float gain = 0.0f;
	uint32_t state = 0;

	static constexpr const char* BlockName = "BSAnimNote";
	const char* GetBlockName() override { return BlockName; }

	void Sync(NiStreamReversible& stream);
};

class BSAnimNotes : public NiCloneableStreamable<BSAnimNotes, NiObject> {
public:
	NiBlockRefShortArray<BSAnimNote> animNoteRefs;

	static constexpr const char* BlockName = "BSAnimNotes";
	const char* GetBlockName() override { return BlockName; }

	void Sync(NiStreamReversible& stream);
	void GetChildRefs(std::set<NiRef*>& refs) override;
	void GetChildIndices(std::vector<uint32_t>& indices) override;
};

class NiControllerManager;

class NiControllerSequence : public NiCloneableStreamable<NiControllerSequence, NiSequence> {
public:
	float weight = 1.0f;
	NiBlockRef<NiTextKeyExtraData> textKeyRef;
	CycleType cycleType = CYCLE_LOOP;
	float frequency = 0.0f;
	float phase = 0.0f;
	float startTime = 0.0f;
	float stopTime = 0.0f;
	bool playBackwards = false;
	NiBlockPtr<NiControllerManager> managerRef;
	NiStringRef accumRootName;

	NiBlockRef<NiStringPalette> stringPaletteRef;

	NiBlockRef<BSAnimNotes> animNotesRef;
	NiBlockRefShortArray<BSAnimNotes> animNotesRefs;

	static constexpr const char* BlockName = "NiControllerSequence";
	const char* GetBlockName() override { return BlockName; }

	void Sync(NiStreamReversible& stream);
	void GetStringRefs(std::vector<NiStringRef*>& refs) override;
	void GetChildRefs(std::set<NiRef*>& refs) override;
	void GetChildIndices(std::vector<uint32_t>& indices) override;
	void GetPtrs(std::set<NiPtr*>& ptrs) override;
};

class NiDefaultAVObjectPalette;

class NiControllerManager : public NiCloneableStreamable<NiControllerManager, NiTimeController> {
public:
	bool cumulative = false;
	NiBlockRefArray<NiControllerSequence> controllerSequenceRefs;
	NiBlockRef<NiDefaultAVObjectPalette> objectPaletteRef;

	static constexpr const char* BlockName = "NiControllerManager";
	const char* GetBlockName() override { return BlockName; }

	void Sync(NiStreamReversible& stream);
	void GetChildRefs(std::set<NiRef*>& refs) override;
	void GetChildIndices(std::vector<uint32_t>& indices) override;
};
} // namespace nifly
