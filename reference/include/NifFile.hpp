/*
nifly
C++ NIF library for the Gamebryo/NetImmerse File Format
See the included GPLv3 LICENSE file
*/

#pragma once

#include "Factory.hpp"
#include "Geometry.hpp"
#include "Nodes.hpp"

#if __has_include(<filesystem>)

#include <filesystem>

#elif __has_include(<experimental/optional>)

#include <experimental/filesystem>
namespace std::filesystem {
	using namespace std::experimental::filesystem;
}

#endif

namespace nifly {
// OptimizeFor function options
struct OptOptions {
	NiVersion targetVersion;	// NiVersion target for the optimization process
	bool headParts = false;		// Use mesh formats required for head parts (use ONLY for head parts!)
	bool removeParallax = true; // Remove parallax shader flags and texture paths
	bool calcBounds = true;		// Recalculate bounding spheres for unskinned meshes
	bool fixBSXFlags = true;	// Fix BSX flag values based on file contents
	bool fixShaderFlags = true;	// Fix shader flag values based on file contents
};

// OptimizeFor function result
struct OptResult {
	bool versionMismatch = false; // Indicates if versions are unsupported for the optimization process
	bool dupesRenamed = false;	  // Indicates if there were duplicate shape names that have been renamed
	std::vector<std::string> shapesVColorsRemoved;	 // Names of shapes that had their vertex colors removed
	std::vector<std::string> shapesNormalsRemoved;	 // Names of shapes that had their normals removed
	std::vector<std::string> shapesPartTriangulated; // Names of shapes that had their partitions triangulated
	std::vector<std::string> shapesTangentsAdded; // Names of shapes that received missing tangents/bitangents
	std::vector<std::string> shapesParallaxRemoved; // Names of shapes that had their parallax settings
};

// Sort function for bone weights with indices
struct BoneWeightsSort {
	bool operator()(const SkinWeight& lhs, const SkinWeight& rhs) { return rhs.weight < lhs.weight; }
};

// NifFile load options
struct NifLoadOptions {
	bool isTerrain = false; // Load as terrain file. Affects texture path cleanup and shape names.
};

// NifFile save options
struct NifSaveOptions {
	bool optimize = true;	// Update bounds and delete unreferenced blocks (see NifFile::Optimize)
	bool sortBlocks = true; // Sorts all blocks in a logical order (see NifFile::PrettySortBlocks)
};

class NifFile {
private:
	NiHeader hdr;
	std::vector<std::unique_ptr<NiObject>> blocks;
	bool isValid = false;
	bool hasUnknown = false;
	bool isTerrain = false;

public:
	NifFile() = default;

	NifFile(const std::filesystem::path& fileName, const NifLoadOptions& options = NifLoadOptions()) {
		Load(fileName, options);
	}

	NifFile(std::istream& file, const NifLoadOptions& options = NifLoadOptions()) { Load(file, options); }

	NifFile(const NifFile& other) { CopyFrom(other); }

	NifFile& operator=(const NifFile& other) {
		CopyFrom(other);
		return *this;
	}

	NiHeader& GetHeader() { return hdr; }
	const NiHeader& GetHeader() const { return hdr; }
	void CopyFrom(const NifFile& other);

	int Load(const std::filesystem::path& fileName, const NifLoadOptions& options = NifLoadOptions());
	int Load(std::istream& file, const NifLoadOptions& options = NifLoadOptions());
	int Save(const std::filesystem::path& fileName, const NifSaveOptions& options = NifSaveOptions());
	int Save(std::ostream& file, const NifSaveOptions& options = NifSaveOptions());

	// Update geometry bounds and delete unreferenced blocks
	void Optimize();

	// Optimizes/converts the file using OptOptions and returns OptResult.
	// For use with LE and SE files only.
	OptResult OptimizeFor(OptOptions& options);

	// Fills string refs, links NiGeometryData pointers, cleans up texture paths and removes invalid triangles.
	// For skinned BSTriShape blocks, copies mesh data from skin partitions to shape.
	// Already automatically called by NifFile::Load.
	void PrepareData();

	// Calculates data sizes required for saving.
	// For skinned BSTriShape blocks, copies mesh data back from shape to skin partitions
	// Already automatically called by NifFile::Save.
	void FinalizeData();

	// Indicates that the file was fully loaded or otherwise initialized
	bool IsValid() const { return isValid; }

	// Indicates if there have been any unknown block types during load
	bool HasUnknown() const { return hasUnknown; }

	// Indicates if the file was loaded as terrain
	bool IsTerrain() const { return isTerrain; }

	// Check if all shapes are compatible with SSE (no strips in geometry or skin partition)
	bool IsSSECompatible() const;

	// Check if the shape is compatible with SSE (no strips in geometry or skin partition)
	bool IsSSECompatible(NiShape* shape) const;

	// Creates a new file with a root NiNode using the specified version.
	void Create(const NiVersion& version);

	// Deletes all blocks, header strings and resets the valid status.
	void Clear();

	// Link NiGeometryData pointer to NiGeometry.
	// Doesn't affect BSTriShape blocks.
	void LinkGeomData();

	// Removes triangles with vertex indices that don't exist
	void RemoveInvalidTris() const;

	// Returns vertex limit depending on the file version
	// All versions: 65535 (uint16_t)
	static size_t GetVertexLimit();

	// Returns triangle limit depending on the file version
	// All versions before FO4: 65535      (uint16_t)
	// FO4 and later:           4294967295 (uint32_t)
	size_t GetTriangleLimit() const;

	NiNode* AddNode(const std::string& nodeName, const MatTransform& xformToParent, NiNode* parent = nullptr);
	void DeleteNode(const std::string& nodeName);
	static bool CanDeleteNode(NiNode* node);
	bool CanDeleteNode(const std::string& nodeName) const;
	std::string GetNodeName(const uint32_t blockID) const;
	void SetNodeName(const uint32_t blockID, const std::string& newName);

	uint32_t AssignExtraData(NiAVObject* target, std::unique_ptr<NiExtraData> extraData);

	// Explicitly sets the order of shapes to a new one.
	void SetShapeOrder(const std::vector<std::string>& order);

	struct SortState {
		std::set<uint32_t> visitedIndices;
		std::vector<uint32_t> newIndices;
		uint32_t newIndex = 0;
		std::vector<uint32_t> rootShapeOrder;
	};

	void SetSortIndices(const NiRef& ref, SortState& sortState);
	void SetSortIndices(const NiRef* ref, SortState& sortState);
	void SetSortIndices(uint32_t refIndex, SortState& sortState);

	// Sorts NiObjectNET children
	void SortNiObjectNET(NiObjectNET* objnet, SortState& sortState);

	// Sorts NiAVObject children
	void SortAVObject(NiAVObject* avobj, SortState& sortState);

	// Sorts NiTimeController children
	void SortController(NiTimeController* controller, SortState& sortState);

	// Sorts NiCollisionObject children
	void SortCollision(NiObject* parent, uint32_t parentIndex, SortState& sortState);

	// Sorts NiShape children
	void SortShape(NiShape* shape, SortState& sortState);

	// Sorts a scene graph (starting at NiNode parent)
	void SortGraph(NiNode* root, SortState& sortState);

	// Sorts all blocks in a logical order.
	// Order is based on child references, block types and version.
	void PrettySortBlocks();

	// Fixes the flag values in "BSXFlags" blocks based on file contents.
	void FixBSXFlags();

	// Fixes the flag values in shader blocks based on file contents.
	void FixShaderFlags();

	// Deletes all unreferenced (loose) blocks of the given type.
	// Use default template type "NiObject" for all block types.
	// Does nothing when there are unknown block types to prevent data loss.
	// Returns the amount of deleted blocks (or 0).
	template<class T = NiObject>
	uint32_t DeleteUnreferencedBlocks() {
		if (hasUnknown)
			return 0;

		uint32_t deletionCount = 0;
		hdr.DeleteUnreferencedBlocks<T>(GetBlockID(GetRootNode()), &deletionCount);
		return deletionCount;
	}

	// Deletes all unreferenced (loose) NiNode blocks.
	// Does nothing when there are unknown block types to prevent data loss.
	// Counts the amount of deleted blocks in "deletionCount" if passed.
	bool DeleteUnreferencedNodes(int* deletionCount = nullptr);

	// Find a block of the given type by its name.
	// Block type needs a "name" member (like blocks based on NiObjectNET).
	// Returns block in the correct type or nullptr.
	template<class T = NiObject>
	T* FindBlockByName(const std::string& name) const {
		for (auto& block : blocks) {
			auto namedBlock = dynamic_cast<T*>(block.get());
			if (namedBlock && namedBlock->name == name)
				return namedBlock;
		}

		return nullptr;
	}

	// Returns index of a block in the blocks array or NIF_NPOS
	uint32_t GetBlockID(NiObject* block) const;

	// Returns first direct parent NiNode of a block (or nullptr)
	NiNode* GetParentNode(NiObject* block) const;

	// Moves block from its current parent NiNode to a new parent
	void SetParentNode(NiObject* block, NiNode* parent);

	// Returns all NiNode blocks
	std::vector<NiNode*> GetNodes() const;

	// Returns NiShader pointer of the shape (or nullptr).
	// The underlying shader block type can differ.
	NiShader* GetShader(NiShape* shape) const;

	// Returns NiMaterialProperty pointer of the shape (or nullptr).
	// Used by OB/FO3/NV.
	NiMaterialProperty* GetMaterialProperty(NiShape* shape) const;

	// Returns NiStencilProperty pointer of the shape (or nullptr)
	// Used by OB/FO3/NV.
	NiStencilProperty* GetStencilProperty(NiShape* shape) const;

	// Returns NiTexturingProperty pointer of the shape (or nullptr)
	// Used by OB.
	NiTexturingProperty* GetTexturingProperty(NiShape* shape) const;

	// Returns a mutable gometry data structure for manipulating geometry data. If
	// geometry data cannot be found, nullptr is returned
	NiGeometryData* GetGeometryData(NiShape* shape) const;

	// Returns a list of mesh names useful for locating external mesh data eg data/geometry/<meshname>
	std::vector<std::reference_wrapper<std::string>> GetExternalGeometryPathRefs(NiShape* shape) const;

	// Loads external shape data from the provided istream, storing data in the provided shape
	bool LoadExternalShapeData(NiShape* shape, std::istream& stream, uint8_t shapeIndex);
	// Saves external shape data from the provided shape, storing data in the provided ostream
	bool SaveExternalShapeData(NiShape* shape, std::ostream& outfile, uint8_t shapeIndex);

	// Returns references to all texture path strings of the shape
	std::vector<std::reference_wrapper<std::string>> GetTexturePathRefs(NiShape* shape) const;

	// Fills "outTexFile" with the texture path in the specified slot.
	// Returns:
	// 0 if the texture slot was not found
	// 1 if the texture is found in a BSShaderTextureSet block
	// 2 if the texture is found in a BSEffectShaderProperty block
	// 3 if the texture is found in a NiTexturingProperty block
	uint32_t GetTextureSlot(NiShape* shape, std::string& outTexFile, uint32_t texIndex = 0) const;

	// Sets texture path in the specified slot.
	// Will fill path in both BSShaderTextureSet, BSEffectShaderProperty or NiTexturingProperty blocks.
	void SetTextureSlot(NiShape* shape, std::string& inTexFile, uint32_t texIndex = 0);

	// Normalizes all texture paths in BSShaderTextureSet, BSEffectShaderProperty and NiTexturingProperty blocks
	void TrimTexturePaths();

	// Clones all referenced blocks in the specified block.
	// Source block can be located in a different file (see "srcNif" parameter).
	void CloneChildren(NiObject* block, NifFile* srcNif = nullptr);

	// Clones the specified shape with a destination name and returns it.
	// Source block can be located in a different file (see "srcNif" parameter).
	NiShape* CloneShape(NiShape* srcShape, const std::string& destShapeName, NifFile* srcNif = nullptr);

	// Finds and clones the first NiNode with the specified name and returns its index (or NIF_NPOS).
	// Source block can be located in a different file (see "srcNif" parameter).
	uint32_t CloneNamedNode(const std::string& nodeName, NifFile* srcNif = nullptr);

	// Creates a new unskinned shape for the current file version with vertex/triangle data and returns it.
	// Adds default shader and texture set as well.
	// Parameters for texture coordinates (UVs) and normals are optional (pass nullptr).
	NiShape* CreateShapeFromData(const std::string& shapeName,
								 const std::vector<Vector3>* v,
								 const std::vector<Triangle>* t,
								 const std::vector<Vector2>* uv,
								 const std::vector<Vector3>* norms = nullptr);

	// Returns the names of all shape blocks in the file. Includes duplicates and unnamed shapes.
	std::vector<std::string> GetShapeNames() const;

	// Returns all shape blocks in the file.
	std::vector<NiShape*> GetShapes() const;

	// Renames a shape (same as setting the "name" member)
	static bool RenameShape(NiShape* shape, const std::string& newName);

	// Renames shapes with duplicate names by appending a suffix "_<count>"
	bool RenameDuplicateShapes();

	// Converts the shape from a NiTriStrips to a NiTriShape block
	void TriangulateShape(NiShape* shape);

	// Get direct children of a node of the given block type. Use template type "NiObject" for all block types.
	// Optionally, return extra data references as well.
	template<class T>
	std::vector<T*> GetChildren(NiNode* parent = nullptr, bool searchExtraData = false) const;

	// Returns the root NiNode (block at index 0).
	// If block index 0 is not a NiNode, find the first NiNode instead.
	NiNode* GetRootNode() const;

	// Returns a full block tree in a logical order (recursive function)
	void GetTree(std::vector<NiObject*>& result, NiObject* parent = nullptr) const;

	// Gets the transform (to parent) of the node with the specified name.
	// Returns false if no node matching the name was found.
	bool GetNodeTransformToParent(const std::string& nodeName, MatTransform& outTransform) const;

	// GetNodeTransform is deprecated. Use GetNodeTransformToParent instead.
	bool GetNodeTransform(const std::string& nodeName, MatTransform& outTransform) const {
		return GetNodeTransformToParent(nodeName, outTransform);
	}

	// Calculates the transform from the node's coordinate system to the global coordinate system
	// by composing transforms up the node tree to the root node.
	bool GetNodeTransformToGlobal(const std::string& nodeName, MatTransform& outTransform) const;

	// GetAbsoluteNodeTransform is deprecated. Use GetNodeTransformToGlobal instead.
	bool GetAbsoluteNodeTransform(const std::string& nodeName, MatTransform& outTransform) const {
		return GetNodeTransformToGlobal(nodeName, outTransform);
	}

	// Sets the transform (to parent) of the node with the specified name.
	// With "rootChildrenOnly" enabled, only set the transform of nodes that are direct root children.
	bool SetNodeTransformToParent(const std::string& nodeName,
								  const MatTransform& inTransform,
								  const bool rootChildrenOnly = false);

	// SetNodeTransform is deprecated. Use SetNodeTransformToParent instead.
	bool SetNodeTransform(const std::string& nodeName,
						  MatTransform& inTransform,
						  const bool rootChildrenOnly = false) {
		return SetNodeTransformToParent(nodeName, inTransform, rootChildrenOnly);
	}

	// Gets a list of all bone (node) names used by the shape and returns the count.
	uint32_t GetShapeBoneList(NiShape* shape, std::vector<std::string>& outList) const;

	// Gets a list of all bone (node) block indices used by the shape and returns the count.
	uint32_t GetShapeBoneIDList(NiShape* shape, std::vector<int>& outList) const;

	// Sets the bone index list of the shape's skin instance (and BSSkin::BoneData).
	// Resets bone transforms in BSSkin::BoneData if the bone count changed.
	void SetShapeBoneIDList(NiShape* shape, std::vector<int>& inList);

	// Gets a map of vertex indices to bone weights for the specified shape and bone.
	// Data source is either BSTriShape (if existing) or otherwise NiSkinData.
	// Returns the amount of vertices with non-zero weights.
	uint32_t GetShapeBoneWeights(NiShape* shape,
								 const uint32_t boneIndex,
								 std::unordered_map<uint16_t, float>& outWeights) const;

	// Gets the shape's global-to-skin transform if it has one stored (same as GetShapeTransformGlobalToSkin).
	// Otherwise, try to calculate it using skin-to-bone and node-to-global transforms of existing bones.
	// Returns false if no transform was found or calculated.
	bool CalcShapeTransformGlobalToSkin(NiShape* shape, MatTransform& outTransforms) const;

	// Gets the shape's global-to-skin transform if it has one stored.
	// Returns false if no such transform exists in the file, in which case outTransform will not be changed.
	// Note that, even if this function returns false, you can not assume that the global-to-skin
	// transform is the identity; it almost never is.
	bool GetShapeTransformGlobalToSkin(NiShape* shape, MatTransform& outTransform) const;

	// Sets the shape's global-to-skin transform if it has one stored.
	// Does nothing if the shape has no such transform.
	void SetShapeTransformGlobalToSkin(NiShape* shape, const MatTransform& inTransform);

	// Gets the bone transform (skin-to-bone) of a bone with the specified name.
	// Returns false if bone was not found.
	bool GetShapeTransformSkinToBone(NiShape* shape,
									 const std::string& boneName,
									 MatTransform& outTransform) const;

	// Gets the bone transform (skin-to-bone) of a bone with the specified bone index.
	// Returns false if bone was not found.
	bool GetShapeTransformSkinToBone(NiShape* shape,
									 const uint32_t boneIndex,
									 MatTransform& outTransform) const;

	// Sets the bone transform (skin-to-bone) of a bone with the specified bone index.
	void SetShapeTransformSkinToBone(NiShape* shape,
									 const uint32_t boneIndex,
									 const MatTransform& inTransform);

	// GetShapeBoneTransform is deprecated. Use GetShapeTransformGlobalToSkin or GetShapeTransformSkinToBone instead.
	// Empty string for "boneName" returns the overall skin transform for the shape.
	bool GetShapeBoneTransform(NiShape* shape, const std::string& boneName, MatTransform& outTransform) const;

	// GetShapeBoneTransform is deprecated. Use GetShapeTransformGlobalToSkin or GetShapeTransformSkinToBone instead.
	// 0xFFFFFFFF on the bone index returns the overall skin transform for the shape.
	bool GetShapeBoneTransform(NiShape* shape, const uint32_t boneIndex, MatTransform& outTransform) const;

	// SetShapeBoneTransform is deprecated. Use SetShapeTransformGlobalToSkin or SetShapeTransfromSkinToBone instead.
	// 0xFFFFFFFF for the bone index sets the overall skin transform for the shape.
	bool SetShapeBoneTransform(NiShape* shape, const uint32_t boneIndex, MatTransform& inTransform);

	// Sets bounding sphere for the specified bone index on the shape with the name.
	// Returns false if shape or bone was not found.
	bool SetShapeBoneBounds(const std::string& shapeName, const uint32_t boneIndex, BoundingSphere& inBounds);

	// Gets bounding sphere for the specified bone index on the shape.
	// Returns false if shape or bone was not found.
	bool GetShapeBoneBounds(NiShape* shape, const uint32_t boneIndex, BoundingSphere& outBounds) const;

	// Changes a bone index (node reference) from an old to a new index.
	void UpdateShapeBoneID(const std::string& shapeName, const uint32_t oldID, const uint32_t newID);

	// Sets the bone weights on NiSkinData from the specified vertex weight map.
	// Not implemented for BSTriShape, use SetShapeVertWeights instead.
	void SetShapeBoneWeights(const std::string& shapeName,
							 const uint32_t boneIndex,
							 std::unordered_map<uint16_t, float>& inWeights);

	// Sets the bone weights and bone indices for a single vertex on the shape
	// Not implemented for NiTriShape, use SetShapeBoneWeights instead.
	void SetShapeVertWeights(const std::string& shapeName,
							 const uint16_t vertIndex,
							 std::vector<uint8_t>& boneids,
							 std::vector<float>& weights) const;

	// Clears all bone weights and bone indices on the shape. Not implemented for NiTriShape.
	void ClearShapeVertWeights(const std::string& shapeName) const;

	// Gets the segmentation info and a list of the segments each triangle is assigned to.
	// A triangle can only be assigned to one segment at the same time.
	// A segment index of -1 in the list means the triangle is currently not assigned to any segment.
	static bool GetShapeSegments(NiShape* shape, NifSegmentationInfo& inf, std::vector<int>& triParts);

	// Sets the segmentation info and a list of the segments each triangle is assigned to.
	// A triangle can only be assigned to one segment at the same time.
	static void SetShapeSegments(NiShape* shape,
								 const NifSegmentationInfo& inf,
								 const std::vector<int>& triParts);

	// Gets the partition info and a list of the partitions each triangle is assigned to.
	// A triangle can only be assigned to one partition at the same time.
	// A partition index of -1 in the list means the triangle is currently not assigned to any partition.
	bool GetShapePartitions(NiShape* shape,
							NiVector<BSDismemberSkinInstance::PartitionInfo>& partitionInfo,
							std::vector<int>& triParts) const;

	// Sets the partition info and a list of the partitions each triangle is assigned to.
	// A triangle can only be assigned to one partition at the same time.
	// "convertSkinInstance" will convert a NiSkinInstance to a BSDismemberSkinInstance block.
	void SetShapePartitions(NiShape* shape,
							const NiVector<BSDismemberSkinInstance::PartitionInfo>& partitionInfo,
							const std::vector<int>& triParts,
							const bool convertSkinInstance = true);

	// Clears all partitions and assigns all triangles to a default partition slot.
	// Default slot 32 for Skyrim (body) and slot 0 for FO3/NV (torso).
	void SetDefaultPartition(NiShape* shape);

	// Delete partitions with the specified indices. partInds must be in sorted ascending order before calling!
	void DeletePartitions(NiShape* shape, std::vector<uint32_t>& partInds);

	// Reorder triangles of the shape to the order of triangle indices in the list
	static bool ReorderTriangles(NiShape* shape, const std::vector<uint32_t>& triangleIndices);

	// Gets pointer to vertex positions of the shape (can be nullptr or empty)
	const std::vector<Vector3>* GetVertsForShape(NiShape* shape);
	// Gets pointer to vertex normals of the shape (can be nullptr or empty)
	const std::vector<Vector3>* GetNormalsForShape(NiShape* shape);
	// Gets pointer to vertex texture coordinates (UVs) of the shape (can be nullptr or empty)
	const std::vector<Vector2>* GetUvsForShape(NiShape* shape);
	// Gets pointer to vertex colors of the shape (can be nullptr or empty)
	const std::vector<Color4>* GetColorsForShape(const std::string& shapeName);
	const std::vector<Color4>* GetColorsForShape(NiShape* shape);
	// Gets pointer to vertex tangents of the shape (can be nullptr or empty)
	const std::vector<Vector3>* GetTangentsForShape(NiShape* shape);
	// Gets pointer to vertex bitangents of the shape (can be nullptr or empty)
	const std::vector<Vector3>* GetBitangentsForShape(NiShape* shape);
	// Gets pointer to vertex eye data of the shape (can be nullptr or empty)
	const std::vector<float>* GetEyeDataForShape(NiShape* shape);

	// Gets copy of vertex positions of the shape. Returns false if none are found.
	bool GetVertsForShape(NiShape* shape, std::vector<Vector3>& outVerts) const;
	// Gets copy of vertex texture coordinates (UVs) of the shape. Returns false if none are found.
	bool GetUvsForShape(NiShape* shape, std::vector<Vector2>& outUvs) const;
	// Gets copy of vertex colors of the shape. Returns false if none are found.
	bool GetColorsForShape(NiShape* shape, std::vector<Color4>& outColors) const;
	// Gets copy of vertex tangents of the shape. Returns false if none are found.
	bool GetTangentsForShape(NiShape* shape, std::vector<Vector3>& outTang) const;
	// Gets copy of vertex bitangents of the shape. Returns false if none are found.
	bool GetBitangentsForShape(NiShape* shape, std::vector<Vector3>& outBitang) const;
	// Gets copy of vertex eye data of the shape. Returns false if none is found.
	static bool GetEyeDataForShape(NiShape* shape, std::vector<float>& outEyeData);

	// Sets vertex positions of the shape. Use this function to change vertex count.
	// If vertex count is changed, other vertex data (UVs, normals, ...) is dropped.
	void SetVertsForShape(NiShape* shape, const std::vector<Vector3>& verts);
	// Sets vertex texture coordinates (UVs) of the shape. Size needs to match the current vertex count.
	void SetUvsForShape(NiShape* shape, const std::vector<Vector2>& uvs);
	// Sets vertex colors of the shape. Size needs to match the current vertex count.
	void SetColorsForShape(NiShape* shape, const std::vector<Color4>& colors);
	// Sets vertex colors of the shape. Size needs to match the current vertex count.
	void SetColorsForShape(const std::string& shapeName, const std::vector<Color4>& colors);
	// Sets vertex tangents of the shape. Size needs to match the current vertex count.
	void SetTangentsForShape(NiShape* shape, const std::vector<Vector3>& tangents);
	// Sets vertex bitangents of the shape. Size needs to match the current vertex count.
	void SetBitangentsForShape(NiShape* shape, const std::vector<Vector3>& bitangents);
	// Sets vertex eye data of the shape. Size needs to match the current vertex count.
	static void SetEyeDataForShape(NiShape* shape, const std::vector<float>& eyeData);

	// Gets binary extra data that contains tangent and bitangent data (used in OB).
	// Returns nullptr if no matching extra data was found.
	NiBinaryExtraData* GetBinaryTangentData(NiShape* shape,
											std::vector<nifly::Vector3>* outTangents = nullptr,
											std::vector<nifly::Vector3>* outBitangents = nullptr) const;

	// Sets binary extra data that contains tangent and bitangent data (used in OB).
	void SetBinaryTangentData(NiShape* shape,
							  const std::vector<nifly::Vector3>* tangents,
							  const std::vector<nifly::Vector3>* bitangents);

	// Deletes binary extra data that contains tangent and bitangent data (used in OB).
	void DeleteBinaryTangentData(NiShape* shape);

	// Inverts all texture coordinates on the U- and/or V-axis
	void InvertUVsForShape(NiShape* shape, bool invertX, bool invertY);

	// Mirrors the shape on the X-, Y- and/or Z-axis.
	// Updates normals and tangents as well. Flips triangles if needed.
	void MirrorShape(NiShape* shape, bool mirrorX, bool mirrorY, bool mirrorZ);

	// Sets vertex normals of the shape. Size needs to match the current vertex count.
	void SetNormalsForShape(NiShape* shape, const std::vector<Vector3>& norms);

	// Recalculates (or adds) new normals for the shape.
	// "smooth" and "smoothThresh" affect normals smoothing on virtually welded mesh/UV seams.
	// "force" creates normals for Skyrim model space mapped meshes, which are usually not required.
	void CalcNormalsForShape(NiShape* shape,
							 const bool force = false,
							 const bool smooth = true,
							 const float smoothThresh = 60.0f);

	// Recalculates (or adds) new tangents and bitangents for the shape.
	// Requires normals and UVs to be set beforehand.
	void CalcTangentsForShape(NiShape* shape);

	// Apply normals from a different file to a shape with the same name and vertex count.
	int ApplyNormalsFromFile(NifFile& srcNif, const std::string& shapeName);

	// Gets the translation of the root node (or zero vector)
	void GetRootTranslation(Vector3& outVec) const;

	// Moves a single vertex to the specified position
	void MoveVertex(NiShape* shape, const Vector3& pos, const int id);

	// Moves the entire shape by the specified offset. Respects the specified masking map.
	void OffsetShape(NiShape* shape,
					 const Vector3& offset,
					 std::unordered_map<uint16_t, float>* mask = nullptr);

	// Scales the entire shape from the scene root by the specified factors. Respects the specified masking map.
	void ScaleShape(NiShape* shape, const Vector3& scale, std::unordered_map<uint16_t, float>* mask = nullptr);

	// Rotates the entire shape from the scene root by the specified angles in degrees. Respects the specified masking map.
	void RotateShape(NiShape* shape,
					 const Vector3& angle,
					 std::unordered_map<uint16_t, float>* mask = nullptr);

	// Returns alpha property of the shape (or nullptr)
	NiAlphaProperty* GetAlphaProperty(NiShape* shape) const;

	// Assigns a new alpha property block to the shape/shader.
	// Removes any existing ones. Pointer is moved to the file.
	uint32_t AssignAlphaProperty(NiShape* shape, std::unique_ptr<NiAlphaProperty> alphaProp);

	// Removes any existing alpha properties for the shape/shader.
	void RemoveAlphaProperty(NiShape* shape);

	// Deletes a shape and its child blocks
	void DeleteShape(NiShape* shape);

	// Deletes the shader of a shape and its child blocks
	void DeleteShader(NiShape* shape);

	// Deletes all skinning blocks of a shape and disables skinning
	void DeleteSkinning(NiShape* shape);

	// Removes any partitions without triangles assigned
	void RemoveEmptyPartitions(NiShape* shape);

	// Deletes the specified vertex indices from the shape and notifies all blocks.
	// Skinning and partitions/segments are corrected accordingly.
	bool DeleteVertsForShape(NiShape* shape, const std::vector<uint16_t>& indices);

	// Calculates the difference between the shape's vertex positions and the specified target data (with a scale).
	// Vertices that match up are not returned in the diff data map.
	int CalcShapeDiff(NiShape* shape,
					  const std::vector<Vector3>* targetData,
					  std::unordered_map<uint16_t, Vector3>& outDiffData,
					  float scale = 1.0f);

	// Calculates the difference between the shape's texture coordinates and the specified target data (with a scale).
	// Texture coordinates that match up are not returned in the diff data map.
	int CalcUVDiff(NiShape* shape,
				   const std::vector<Vector2>* targetData,
				   std::unordered_map<uint16_t, Vector3>& outDiffData,
				   float scale = 1.0f);

	// Create all blocks and flags required for skinning, if they don't already exist
	// Blocks: BSDismemberSkinInstance, NiSkinData, NiSkinPartition, BSSkin::Instance, BSSkin::BoneData
	void CreateSkinning(NiShape* shape);

	// Makes NiTriShapeData dynamic by setting the consistency flag to mutable.
	void SetShapeDynamic(const std::string& shapeName);

	// Maintains the number of and makeup of skin partitions where possible,
	// but updates the weighting values and vertex/triangle maps.
	// If required by limits, inserts additional partitions with matching slots.
	void UpdateSkinPartitions(NiShape* shape);

	// Update bone set partition flags. Called automatically in some functions that edit partitions.
	void UpdatePartitionFlags(NiShape* shape);
};

template<class T>
std::vector<T*> NifFile::GetChildren(NiNode* parent, bool searchExtraData) const {
	std::vector<T*> result;
	T* n;

	if (parent == nullptr) {
		parent = GetRootNode();
		if (parent == nullptr)
			return result;
	}

	for (auto& child : parent->childRefs) {
		n = hdr.GetBlock<T>(child);
		if (n)
			result.push_back(n);
	}

	if (searchExtraData) {
		for (auto& extraData : parent->extraDataRefs) {
			n = hdr.GetBlock<T>(extraData);
			if (n)
				result.push_back(n);
		}
	}

	return result;
}
} // namespace nifly
