/*
nifly
C++ NIF library for the Gamebryo/NetImmerse File Format
See the included GPLv3 LICENSE file
*/

#pragma once

#include "BasicTypes.hpp"

#include <unordered_map>

namespace nifly {
class NiFactory {
public:
	virtual std::unique_ptr<NiObject> Create() = 0;
	virtual std::unique_ptr<NiObject> Load(NiIStream& stream) = 0;

	virtual ~NiFactory() = default;
};

template<typename T>
class NiFactoryType final : public NiFactory {
public:
	// Create new NiObject
	std::unique_ptr<NiObject> Create() override { return std::make_unique<T>(); }

	// Load new NiObject from file
	std::unique_ptr<NiObject> Load(NiIStream& stream) override {
		auto nio = std::make_unique<T>();
		nio->Get(stream);
		return nio;
	}
};

class NiFactoryRegister {
public:
	// Constructor registers the block types
	NiFactoryRegister();

	template<typename T>
	void RegisterFactory() {
		// Any NiObject can be registered together with its block name
		m_registrations.emplace(T::BlockName, std::make_unique<NiFactoryType<T>>());
	}

	// Get block factory via header std::string
	NiFactory* GetFactoryByName(const std::string& name) {
		auto it = m_registrations.find(name);
		if (it != m_registrations.end())
			return it->second.get();

		return nullptr;
	}

	// Get static instance of factory register
	static NiFactoryRegister& Get();

protected:
	std::unordered_map<std::string, std::unique_ptr<NiFactory>> m_registrations;
};
} // namespace nifly
