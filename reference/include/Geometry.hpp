/*
nifly
C++ NIF library for the Gamebryo/NetImmerse File Format
See the included GPLv3 LICENSE file
*/

#pragma once

#include "BasicTypes.hpp"
#include "Objects.hpp"
#include "Shaders.hpp"
#include "Skin.hpp"
#include "VertexData.hpp"

#include <deque>

namespace nifly {
struct AdditionalDataInfo {
	int dataType = 0;
	uint32_t numChannelBytesPerElement = 0;
	uint32_t numChannelBytes = 0;
	uint32_t numTotalBytesPerElement = 0;
	uint32_t blockIndex = 0;
	uint32_t channelOffset = 0;
	uint8_t unkByte1 = 2;

	void Sync(NiStreamReversible& stream) {
		stream.Sync(dataType);
		stream.Sync(numChannelBytesPerElement);
		stream.Sync(numChannelBytes);
		stream.Sync(numTotalBytesPerElement);
		stream.Sync(blockIndex);
		stream.Sync(channelOffset);
		stream.Sync(unkByte1);
	}
};

struct AdditionalDataBlock {
	bool hasData = false;
	uint32_t blockSize = 0;

	uint32_t numBlocks = 0;
	std::vector<uint32_t> blockOffsets;

	uint32_t numData = 0;
	std::vector<uint32_t> dataSizes;
	std::vector<std::vector<uint8_t>> data;

	void Sync(NiStreamReversible& stream) {
		stream.Sync(hasData);

		if (hasData) {
			stream.Sync(blockSize);

			stream.Sync(numBlocks);
			blockOffsets.resize(numBlocks);
			for (uint32_t i = 0; i < numBlocks; i++)
				stream.Sync(blockOffsets[i]);

			stream.Sync(numData);
			dataSizes.resize(numData);
			for (uint32_t i = 0; i < numData; i++)
				stream.Sync(dataSizes[i]);

			data.resize(numData);
			for (uint32_t i = 0; i < numData; i++) {
				data[i].resize(blockSize);
				for (uint32_t j = 0; j < blockSize; j++)
					stream.Sync(data[i][j]);
			}
		}
	}
};

class AdditionalGeomData : public NiCloneable<AdditionalGeomData, NiObject> {};

class NiAdditionalGeometryData : public NiCloneableStreamable<NiAdditionalGeometryData, AdditionalGeomData> {
public:
	uint16_t numVertices = 0;
	NiSyncVector<AdditionalDataInfo> blockInfos;
	NiSyncVector<AdditionalDataBlock> blocks;

	static constexpr const char* BlockName = "NiAdditionalGeometryData";
	const char* GetBlockName() override { return BlockName; }

	void Sync(NiStreamReversible& stream);
};

struct BSPackedAdditionalDataBlock {
	bool hasData = false;
	uint32_t numTotalBytes = 0;

	uint32_t numBlocks = 0;
	std::vector<uint32_t> blockOffsets;

	uint32_t numAtoms = 0;
	std::vector<uint32_t> atomSizes;
	std::vector<uint8_t> data;

	uint32_t unkInt1 = 0;
	uint32_t numTotalBytesPerElement = 0;

	void Sync(NiStreamReversible& stream) {
		stream.Sync(hasData);

		if (hasData) {
			stream.Sync(numTotalBytes);

			stream.Sync(numBlocks);
			blockOffsets.resize(numBlocks);
			for (uint32_t i = 0; i < numBlocks; i++)
				stream.Sync(blockOffsets[i]);

			stream.Sync(numAtoms);
			atomSizes.resize(numAtoms);
			for (uint32_t i = 0; i < numAtoms; i++)
				stream.Sync(atomSizes[i]);

			data.resize(numTotalBytes);
			for (uint32_t i = 0; i < numTotalBytes; i++)
				stream.Sync(data[i]);
		}

		stream.Sync(unkInt1);
		stream.Sync(numTotalBytesPerElement);
	}
};

class BSPackedAdditionalGeometryData
	: public NiCloneableStreamable<BSPackedAdditionalGeometryData, AdditionalGeomData> {
public:
	uint16_t numVertices = 0;
	NiSyncVector<AdditionalDataInfo> blockInfos;
	NiSyncVector<BSPackedAdditionalDataBlock> blocks;

	static constexpr const char* BlockName = "BSPackedAdditionalGeometryData";
	const char* GetBlockName() override { return BlockName; }

	void Sync(NiStreamReversible& stream);
};

enum ConsistencyType : uint16_t { CT_MUTABLE = 0x0000, CT_STATIC = 0x4000, CT_VOLATILE = 0x8000 };

class NiGeometryData : public NiCloneableStreamable<NiGeometryData, NiObject> {
protected:
	bool isPSys = false;

	uint16_t numVertices = 0;
	bool hasVertices = true;
	bool hasNormals = false;
	bool hasVertexColors = false;
	BoundingSphere bounds;

public:
	std::vector<Vector3> vertices;
	std::vector<Vector3> normals;
	std::vector<Vector3> tangents;
	std::vector<Vector3> bitangents;
	std::vector<Color4> vertexColors;

	int groupID = 0;
	uint8_t compressFlags = 0;
	uint32_t materialCRC = 0;

	uint8_t keepFlags = 0;
	uint16_t dataFlags = 0;
	std::vector<std::vector<Vector2>> uvSets;

	ConsistencyType consistencyFlags = CT_MUTABLE;
	NiBlockRef<AdditionalGeomData> additionalDataRef;

	void Sync(NiStreamReversible& stream);
	void GetChildRefs(std::set<NiRef*>& refs) override;
	void GetChildIndices(std::vector<uint32_t>& indices) override;

	void notifyVerticesDelete(const std::vector<uint16_t>& vertIndices) override;

	uint16_t GetNumVertices() const;
	void SetVertices(const bool enable);
	bool HasVertices() const { return hasVertices; }

	void SetNormals(const bool enable);
	bool HasNormals() const { return hasNormals; }

	void SetVertexColors(const bool enable);
	bool HasVertexColors() const { return hasVertexColors; }

	void SetUVs(const bool enable);
	bool HasUVs() const { return (dataFlags & (1 << 0)) != 0; }

	void SetTangents(const bool enable);
	bool HasTangents() const { return (dataFlags & (1 << 12)) != 0; }

	virtual uint32_t GetNumTriangles() const;
	virtual bool GetTriangles(std::vector<Triangle>& tris) const;
	virtual void SetTriangles(const std::vector<Triangle>& tris);

	void SetBounds(const BoundingSphere& newBounds) { this->bounds = newBounds; }
	BoundingSphere GetBounds() const { return bounds; }
	void UpdateBounds();

	virtual void Create(NiVersion& version,
						const std::vector<Vector3>* verts,
						const std::vector<Triangle>* tris,
						const std::vector<Vector2>* uvs,
						const std::vector<Vector3>* norms);
	virtual void RecalcNormals(const bool smooth = true,
							   const float smoothThres = 60.0f,
							   std::unordered_set<uint32_t>* lockedIndices = nullptr);
	virtual void CalcTangentSpace();
};

class NiShape : public NiCloneable<NiShape, NiAVObject> {
public:
	virtual NiGeometryData* GetGeomData() const { return nullptr; }
	virtual void SetGeomData(NiGeometryData*) {}

	virtual bool HasData() const { return false; }
	virtual NiBlockRef<NiGeometryData>* DataRef() { return nullptr; }
	virtual const NiBlockRef<NiGeometryData>* DataRef() const { return nullptr; }

	virtual bool HasSkinInstance() const { return false; }
	virtual NiBlockRef<NiBoneContainer>* SkinInstanceRef() { return nullptr; }
	virtual const NiBlockRef<NiBoneContainer>* SkinInstanceRef() const { return nullptr; }

	virtual bool HasShaderProperty() const { return false; }
	virtual NiBlockRef<NiShader>* ShaderPropertyRef() { return nullptr; }
	virtual const NiBlockRef<NiShader>* ShaderPropertyRef() const { return nullptr; }

	virtual bool HasAlphaProperty() const { return false; }
	virtual NiBlockRef<NiAlphaProperty>* AlphaPropertyRef() { return nullptr; }
	virtual const NiBlockRef<NiAlphaProperty>* AlphaPropertyRef() const { return nullptr; }

	virtual uint16_t GetNumVertices() const;
	virtual void SetVertices(const bool enable);
	virtual bool HasVertices() const;

	virtual void SetUVs(const bool enable);
	virtual bool HasUVs() const;

	virtual void SetNormals(const bool enable);
	virtual bool HasNormals() const;

	virtual void SetTangents(const bool enable);
	virtual bool HasTangents() const;

	virtual void SetVertexColors(const bool enable);
	virtual bool HasVertexColors() const;

	virtual void SetSkinned(const bool enable);
	virtual bool IsSkinned() const;

	virtual uint32_t GetNumTriangles() const;
	virtual bool GetTriangles(std::vector<Triangle>& tris) const;
	virtual void SetTriangles(const std::vector<Triangle>& tris);
	virtual bool ReorderTriangles(const std::vector<uint32_t>& triInds);

	virtual void SetBounds(const BoundingSphere& bounds);
	virtual BoundingSphere GetBounds() const;
	virtual void UpdateBounds();

	int GetBoneID(const NiHeader& hdr, const std::string& boneName) const;
};


class BSTriShape : public NiCloneableStreamable<BSTriShape, NiShape> {
protected:
	NiBlockRef<NiBoneContainer> skinInstanceRef;
	NiBlockRef<NiShader> shaderPropertyRef;
	NiBlockRef<NiAlphaProperty> alphaPropertyRef;

	BoundingSphere bounds;
	float boundMinMax[6]{};

	uint32_t numTriangles = 0;
	uint16_t numVertices = 0;

public:
	VertexDesc vertexDesc;

	uint32_t dataSize = 0;
	uint32_t vertexSize = 0; // Not in file

	uint32_t particleDataSize = 0;
	std::vector<Vector3> particleVerts;
	std::vector<Vector3> particleNorms;
	std::vector<Triangle> particleTris;

	std::vector<Vector3> rawVertices;	// temporary copy filled by UpdateRawVertices function
	std::vector<Vector3> rawNormals;	// temporary copy filled by UpdateRawNormals function
	std::vector<Vector3> rawTangents;	// temporary copy filled by UpdateRawTangents function
	std::vector<Vector3> rawBitangents; // temporary copy filled by UpdateRawBitangents function
	std::vector<Vector2> rawUvs;		// temporary copy filled by UpdateRawUvs function
	std::vector<Color4> rawColors;		// temporary copy filled by UpdateRawColors function
	std::vector<float> rawEyeData;		// temporary copy filled by UpdateRawEyeData function

	std::vector<uint32_t> deletedTris; // temporary storage for BSSubIndexTriShape

	std::vector<BSVertexData> vertData;
	std::vector<Triangle> triangles;

	BSTriShape();

	static constexpr const char* BlockName = "BSTriShape";
	const char* GetBlockName() override { return BlockName; }

	void Sync(NiStreamReversible& stream);
	void notifyVerticesDelete(const std::vector<uint16_t>& vertIndices) override;
	void GetChildRefs(std::set<NiRef*>& refs) override;
	void GetChildIndices(std::vector<uint32_t>& indices) override;

	bool HasSkinInstance() const override { return !skinInstanceRef.IsEmpty(); }
	NiBlockRef<NiBoneContainer>* SkinInstanceRef() override { return &skinInstanceRef; }
	const NiBlockRef<NiBoneContainer>* SkinInstanceRef() const override { return &skinInstanceRef; }

	bool HasShaderProperty() const override { return !shaderPropertyRef.IsEmpty(); }
	NiBlockRef<NiShader>* ShaderPropertyRef() override { return &shaderPropertyRef; }
	const NiBlockRef<NiShader>* ShaderPropertyRef() const override { return &shaderPropertyRef; }

	bool HasAlphaProperty() const override { return !alphaPropertyRef.IsEmpty(); }
	NiBlockRef<NiAlphaProperty>* AlphaPropertyRef() override { return &alphaPropertyRef; }
	const NiBlockRef<NiAlphaProperty>* AlphaPropertyRef() const override { return &alphaPropertyRef; }

	std::vector<Vector3>& UpdateRawVertices();
	std::vector<Vector3>& UpdateRawNormals();
	std::vector<Vector3>& UpdateRawTangents();
	std::vector<Vector3>& UpdateRawBitangents();
	std::vector<Vector2>& UpdateRawUvs();
	std::vector<Color4>& UpdateRawColors();
	std::vector<float>& UpdateRawEyeData();

	uint16_t GetNumVertices() const override;
	void SetVertices(const bool enable) override;
	bool HasVertices() const override { return vertexDesc.HasFlag(VF_VERTEX); }

	void SetUVs(const bool enable) override;
	bool HasUVs() const override { return vertexDesc.HasFlag(VF_UV); }

	void SetSecondUVs(const bool enable);
	bool HasSecondUVs() const { return vertexDesc.HasFlag(VF_UV_2); }

	void SetNormals(const bool enable) override;
	bool HasNormals() const override { return vertexDesc.HasFlag(VF_NORMAL); }

	void SetTangents(const bool enable) override;
	bool HasTangents() const override { return vertexDesc.HasFlag(VF_TANGENT); }

	void SetVertexColors(const bool enable) override;
	bool HasVertexColors() const override { return vertexDesc.HasFlag(VF_COLORS); }

	void SetSkinned(const bool enable) override;
	bool IsSkinned() const override { return vertexDesc.HasFlag(VF_SKINNED); }

	void SetEyeData(const bool enable);
	bool HasEyeData() const { return vertexDesc.HasFlag(VF_EYEDATA); }

	void SetFullPrecision(const bool enable);
	bool IsFullPrecision() const { return vertexDesc.HasFlag(VF_FULLPREC); }
	bool CanChangePrecision() const { return (HasVertices()); }

	uint32_t GetNumTriangles() const override;
	bool GetTriangles(std::vector<Triangle>&) const override;
	void SetTriangles(const std::vector<Triangle>&) override;

	void SetBounds(const BoundingSphere& newBounds) override { bounds = newBounds; }
	BoundingSphere GetBounds() const override { return bounds; }
	void UpdateBounds() override;

	void SetVertexData(const std::vector<BSVertexData>& bsVertData);

	void SetNormals(const std::vector<Vector3>& inNorms);
	void RecalcNormals(const bool smooth = true,
					   const float smoothThres = 60.0f,
					   std::unordered_set<uint32_t>* lockedIndices = nullptr);
	void CalcTangentSpace();
	int CalcDataSizes(NiVersion& version);

	void SetTangentData(const std::vector<Vector3>& in);
	void SetBitangentData(const std::vector<Vector3>& in);
	void SetEyeData(const std::vector<float>& in);

	virtual void Create(NiVersion& version,
						const std::vector<Vector3>* verts,
						const std::vector<Triangle>* tris,
						const std::vector<Vector2>* uvs,
						const std::vector<Vector3>* normals = nullptr);
};


// NifSubSegmentInfo: not in file.  The portion of a subsegment's data
// that has nothing to do with triangle set partitioning.
struct NifSubSegmentInfo {
	// partID: a small nonnegative integer uniquely identifying this
	// subsegment among all the segments and subsegments.  Used as a value
	// in triParts.  Not in the file.
	int partID = 0;
	uint32_t userSlotID = 0;
	uint32_t material = 0;
	std::vector<float> extraData;
};

// NifSegmentInfo: not in file.  The portion of a segment's data that
// has nothing to do with triangle set partitioning.
struct NifSegmentInfo {
	// partID: a small nonnegative integer uniquely identifying this
	// segment among all the segments and subsegments.  Used as a value
	// in triParts.  Not in the file.
	int partID = 0;
	std::vector<NifSubSegmentInfo> subs;
};

// NifSegmentationInfo: not in file.  The portion of a shape's
// segmentation data that has nothing to do with triangle set partitioning.
// The intention is that this data structure can be used for any type of
// segmentation data, both BSSITSSegmentation and BSGeometrySegmentData.
struct NifSegmentationInfo {
	std::vector<NifSegmentInfo> segs;
	std::string ssfFile;
};


class BSGeometrySegmentData {
public:
	uint8_t flags = 0;
	uint32_t index = 0;
	uint32_t numTris = 0;

	void Sync(NiStreamReversible& stream);
};

class BSSubIndexTriShape : public NiCloneableStreamable<BSSubIndexTriShape, BSTriShape> {
public:
	class BSSITSSubSegment {
	public:
		uint32_t startIndex = 0;
		uint32_t numPrimitives = 0;
		uint32_t arrayIndex = 0;
		uint32_t unkInt1 = 0;
	};

	class BSSITSSegment {
	public:
		uint32_t startIndex = 0;
		uint32_t numPrimitives = 0;
		uint32_t parentArrayIndex = 0xFFFFFFFF;
		uint32_t numSubSegments = 0;
		std::vector<BSSITSSubSegment> subSegments;
	};

	class BSSITSSubSegmentDataRecord {
	public:
		uint32_t userSlotID = 0;
		uint32_t material = 0xFFFFFFFF;
		uint32_t numData = 0;
		std::vector<float> extraData;
	};

	class BSSITSSubSegmentData {
	public:
		uint32_t numSegments = 0;
		uint32_t numTotalSegments = 0;
		std::vector<uint32_t> arrayIndices;
		std::vector<BSSITSSubSegmentDataRecord> dataRecords;
		NiString ssfFile;
	};

	class BSSITSSegmentation {
	public:
		uint32_t numPrimitives = 0;
		uint32_t numSegments = 0;
		uint32_t numTotalSegments = 0;
		std::vector<BSSITSSegment> segments;
		BSSITSSubSegmentData subSegmentData;
	};

protected:
	// SSE
	uint32_t numSegments = 0;
	std::vector<BSGeometrySegmentData> segments;

	// FO4
	BSSITSSegmentation segmentation;

public:
	static constexpr const char* BlockName = "BSSubIndexTriShape";
	const char* GetBlockName() override { return BlockName; }

	void Sync(NiStreamReversible& stream);
	void notifyVerticesDelete(const std::vector<uint16_t>& vertIndices) override;

	std::vector<BSGeometrySegmentData> GetSegments() const;
	void SetSegments(const std::vector<BSGeometrySegmentData>& sd);

	void GetSegmentation(NifSegmentationInfo& inf, std::vector<int>& triParts) const;
	void SetSegmentation(const NifSegmentationInfo& inf, const std::vector<int>& triParts);

	void SetDefaultSegments();
	void Create(NiVersion& version,
				const std::vector<Vector3>* verts,
				const std::vector<Triangle>* tris,
				const std::vector<Vector2>* uvs,
				const std::vector<Vector3>* normals = nullptr) override;
};

class BSMeshLODTriShape : public NiCloneableStreamable<BSMeshLODTriShape, BSTriShape> {
public:
	uint32_t lodSize0 = 0;
	uint32_t lodSize1 = 0;
	uint32_t lodSize2 = 0;

	static constexpr const char* BlockName = "BSMeshLODTriShape";
	const char* GetBlockName() override { return BlockName; }

	void Sync(NiStreamReversible& stream);
	void notifyVerticesDelete(const std::vector<uint16_t>& vertIndices) override;
};

class BSDynamicTriShape : public NiCloneableStreamable<BSDynamicTriShape, BSTriShape> {
public:
	uint32_t dynamicDataSize;
	std::vector<Vector4> dynamicData;

	BSDynamicTriShape();

	static constexpr const char* BlockName = "BSDynamicTriShape";
	const char* GetBlockName() override { return BlockName; }

	void Sync(NiStreamReversible& stream);
	void notifyVerticesDelete(const std::vector<uint16_t>& vertIndices) override;
	void CalcDynamicData();

	void Create(NiVersion& version,
				const std::vector<Vector3>* verts,
				const std::vector<Triangle>* tris,
				const std::vector<Vector2>* uvs,
				const std::vector<Vector3>* normals = nullptr) override;
};

// BSGeometryMeshData is not a nif block object.  In order to be able to use the data as if it were a block
// data object for reading and modifying geometry data, we inherit the NiGeometryData interface, and override
// the Sync function.  The stream provided to sync for this object is not the same stream that is working with
// a nif file.  
class BSGeometryMeshData : public NiCloneableStreamable<BSGeometryMeshData, NiGeometryData> {
private:
	// Traditional scale based on havok to unit transform used in skyrim, fallout, etc. In Starfield mesh files are normalized to metric units,
	// this scale makes default vertex positions closely match the older games
	const float havokScale = 69.969f;
	// experimentally, the below scale produced very accurate values to SSE mesh sizes (comparing markerxheading.nif)
	// const float havokScale = 69.9866f;

public:
	struct BoneWeight {
		uint16_t boneIndex = 0;
		uint16_t weight = 0;
	};

	struct Meshlet {
		uint32_t vertCount = 0;
		uint32_t vertOffset = 0;
		uint32_t primCount = 0;
		uint32_t primOffset = 0;
	};

	struct CullData {
		Vector3 center;
		Vector3 expand;
	};

	uint32_t version = 0;

	uint32_t nTriIndices = 0;
	std::vector<Triangle> tris;

	float scale = 0.0f;
	uint32_t nWeightsPerVert = 0;

	// Vert count is a full 32 bits, versus the 16 bit count in NiGeometryData
	uint32_t nVertices = 0;
	std::vector<uint16_t> packedVerts;
	// vertices from NIGeometryData

	uint32_t nUV1 = 0;
	//std::vector<Vector2> uvs1;
	uint32_t nUV2 = 0;
	//std::vector<Vector2> uvs2;
	// uvSets from NiGeometryData  -- read/write interspersed with nUV1, nUV2

	uint32_t nColors = 0;
	std::vector<ByteColor4> vColors;
	// vertexColors from NiGeometryData

	uint32_t nNormals = 0;
	std::vector<uint32_t> packedNormals;
	// normals from NiGeometryData  (UDEC3 packed in file)

	uint32_t nTangents = 0;
	std::vector<uint32_t> packedTangents;
	// tangents from NiGeometryData  (UDEC3 packed in file)

	uint32_t nTotalWeights = 0;
	std::vector<std::vector<BoneWeight>> skinWeights;

	uint32_t nLODS = 0;
	std::vector<std::vector<Triangle>> lods;

	uint32_t nMeshlets = 0;
	std::vector<Meshlet> meshletList;

	uint32_t nCullData = 0;
	std::vector<CullData> cullDataList;

	void Sync(NiStreamReversible& stream);
};

struct BSGeometryMesh {
	uint32_t triSize = 0;
	uint32_t numVerts = 0;
	uint32_t flags = 0;		// Often 64

	// in official files, this is 41 characters: hex characters from sha1 of the mesh data split into 2 parts
	// with a path separator. The game does not seem to check the digest, so the same name can be used for
	// replacement, or probably a human-readable one
	NiString meshName;		

	BSGeometryMeshData meshData;
	void Sync(NiStreamReversible& stream);
};

class BSGeometry : public NiCloneableStreamable<BSGeometry, NiShape> {
protected:
	BoundingSphere bounds;
	float boundMinMax[6]{};

	NiBlockRef<NiBoneContainer> skinInstanceRef;
	NiBlockRef<NiShader> shaderPropertyRef;
	NiBlockRef<NiAlphaProperty> alphaPropertyRef;

	std::vector<BSGeometryMesh> meshes;

	// A currently selected BSGeometryMesh in the list of meshes. All get/set data accessors use this to
	// address a desired mesh
	uint8_t selectedMesh = 0;

public:
	static constexpr const char* BlockName = "BSGeometry";
	const char* GetBlockName() override { return BlockName; }

	void Sync(NiStreamReversible& stream);
	void GetChildRefs(std::set<NiRef*>& refs) override;
	void GetChildIndices(std::vector<uint32_t>& indices) override;
		
	NiGeometryData* GetGeomData() const override;

	bool GetTriangles(std::vector<Triangle>& tris) const override;
	void SetTriangles(const std::vector<Triangle>& tris) override;

	uint8_t MeshCount() { return (uint8_t) meshes.size();	}

	// SelectMesh provides a way to choose which mesh from the BSGeometryMesh list data accesessors will use.
	// If this is not called, functions to retrieve vertices, triangles, etc will default to the first mesh.
	// Returns a pointer to the mesh data selected.
	// TODO: this is not thread safe.  A mutex should be set in SelectMesh and released in ReleaseMesh to
	// avoid synchronization issues.  Alternatively, Get/Set data functions could be changed to take a
	// selector option, but that's a significant API change.
	BSGeometryMesh* SelectMesh(uint8_t whichMesh) {
		if (whichMesh < meshes.size()) {
			selectedMesh = whichMesh;
			return &meshes[selectedMesh];
		}
		return nullptr;
	}
	// ReleaseMesh resets the selected mesh data to default.  This is a stand in for a mutex unlock operation
	// so should always be called as soon after SelectMesh as possble.
	void ReleaseMesh() {
		selectedMesh = 0;
		return;
	}
};

class NiSkinInstance;

class NiGeometry : public NiCloneableStreamable<NiGeometry, NiShape> {
protected:
	NiBlockRef<NiGeometryData> dataRef;
	NiBlockRef<NiBoneContainer> skinInstanceRef;
	NiBlockRef<NiShader> shaderPropertyRef;
	NiBlockRef<NiAlphaProperty> alphaPropertyRef;

public:
	NiSyncVector<NiStringRef> materialNames;
	NiVector<uint32_t> materialExtraData;

	int activeMaterial = 0;
	uint8_t defaultMatNeedsUpdateFlag = 0;

	bool shader = false;
	NiStringRef shaderName;
	uint32_t implementation = 0;

	void Sync(NiStreamReversible& stream);
	void GetStringRefs(std::vector<NiStringRef*>& refs) override;
	void GetChildRefs(std::set<NiRef*>& refs) override;
	void GetChildIndices(std::vector<uint32_t>& indices) override;

	bool IsSkinned() const override;

	bool HasData() const override { return !dataRef.IsEmpty(); }
	NiBlockRef<NiGeometryData>* DataRef() override { return &dataRef; }
	const NiBlockRef<NiGeometryData>* DataRef() const override { return &dataRef; }

	bool HasSkinInstance() const override { return !skinInstanceRef.IsEmpty(); }
	NiBlockRef<NiBoneContainer>* SkinInstanceRef() override { return &skinInstanceRef; }
	const NiBlockRef<NiBoneContainer>* SkinInstanceRef() const override { return &skinInstanceRef; }

	bool HasShaderProperty() const override { return !shaderPropertyRef.IsEmpty(); }
	NiBlockRef<NiShader>* ShaderPropertyRef() override { return &shaderPropertyRef; }
	const NiBlockRef<NiShader>* ShaderPropertyRef() const override { return &shaderPropertyRef; }

	bool HasAlphaProperty() const override { return !alphaPropertyRef.IsEmpty(); }
	NiBlockRef<NiAlphaProperty>* AlphaPropertyRef() override { return &alphaPropertyRef; }
	const NiBlockRef<NiAlphaProperty>* AlphaPropertyRef() const override { return &alphaPropertyRef; }
};

class NiTriBasedGeom : public NiCloneable<NiTriBasedGeom, NiGeometry> {};

class NiTriBasedGeomData : public NiCloneableStreamable<NiTriBasedGeomData, NiGeometryData> {
protected:
	uint16_t numTriangles = 0;

public:
	void Sync(NiStreamReversible& stream);

	void Create(NiVersion& version,
				const std::vector<Vector3>* verts,
				const std::vector<Triangle>* tris,
				const std::vector<Vector2>* uvs,
				const std::vector<Vector3>* norms) override;
};

struct MatchGroup {
	uint16_t count = 0;
	std::vector<uint16_t> matches;
};

class NiTriShapeData : public NiCloneableStreamable<NiTriShapeData, NiTriBasedGeomData> {
protected:
	uint32_t numTrianglePoints = 0;
	bool hasTriangles = false;
	std::vector<Triangle> triangles;

	uint16_t numMatchGroups = 0;
	std::vector<MatchGroup> matchGroups;

public:
	static constexpr const char* BlockName = "NiTriShapeData";
	const char* GetBlockName() override { return BlockName; }

	void Sync(NiStreamReversible& stream);
	void Create(NiVersion& version,
				const std::vector<Vector3>* verts,
				const std::vector<Triangle>* tris,
				const std::vector<Vector2>* uvs,
				const std::vector<Vector3>* norms) override;
	void notifyVerticesDelete(const std::vector<uint16_t>& vertIndices) override;

	std::vector<MatchGroup> GetMatchGroups() const;
	void SetMatchGroups(const std::vector<MatchGroup>& mg);

	uint32_t GetNumTriangles() const override;
	bool GetTriangles(std::vector<Triangle>& tris) const override;
	void SetTriangles(const std::vector<Triangle>& tris) override;

	void RecalcNormals(const bool smooth = true,
					   const float smoothThres = 60.0f,
					   std::unordered_set<uint32_t>* lockedIndices = nullptr) override;
	void CalcTangentSpace() override;
};

class NiTriShape : public NiCloneable<NiTriShape, NiTriBasedGeom> {
protected:
	NiTriShapeData* shapeData = nullptr;

public:
	static constexpr const char* BlockName = "NiTriShape";
	const char* GetBlockName() override { return BlockName; }

	NiGeometryData* GetGeomData() const override;
	void SetGeomData(NiGeometryData* geomDataPtr) override;
};

class StripsInfo {
public:
	NiVector<uint16_t, uint16_t> stripLengths;
	bool hasPoints = true;
	std::vector<std::vector<uint16_t>> points;

	void Sync(NiStreamReversible& stream);
};

class NiTriStripsData : public NiCloneableStreamable<NiTriStripsData, NiTriBasedGeomData> {
public:
	StripsInfo stripsInfo;

	static constexpr const char* BlockName = "NiTriStripsData";
	const char* GetBlockName() override { return BlockName; }

	void Sync(NiStreamReversible& stream);
	void notifyVerticesDelete(const std::vector<uint16_t>& vertIndices) override;

	uint32_t GetNumTriangles() const override;
	bool GetTriangles(std::vector<Triangle>& tris) const override;
	void SetTriangles(const std::vector<Triangle>& tris) override;
	std::vector<Triangle> StripsToTris() const;

	void RecalcNormals(const bool smooth = true,
					   const float smoothThres = 60.0f,
					   std::unordered_set<uint32_t>* lockedIndices = nullptr) override;
	void CalcTangentSpace() override;
};

class NiTriStrips : public NiCloneable<NiTriStrips, NiTriBasedGeom> {
protected:
	NiTriStripsData* stripsData = nullptr;

public:
	static constexpr const char* BlockName = "NiTriStrips";
	const char* GetBlockName() override { return BlockName; }

	NiGeometryData* GetGeomData() const override;
	void SetGeomData(NiGeometryData* geomDataPtr) override;

	bool ReorderTriangles(const std::vector<uint32_t>&) override { return false; }
};

class NiLinesData : public NiCloneableStreamable<NiLinesData, NiGeometryData> {
public:
	std::deque<bool> lineFlags;

	static constexpr const char* BlockName = "NiLinesData";
	const char* GetBlockName() override { return BlockName; }

	void Sync(NiStreamReversible& stream);
	void notifyVerticesDelete(const std::vector<uint16_t>& vertIndices) override;
};

class NiLines : public NiCloneable<NiLines, NiTriBasedGeom> {
protected:
	NiLinesData* linesData = nullptr;

public:
	static constexpr const char* BlockName = "NiLines";
	const char* GetBlockName() override { return BlockName; }

	NiGeometryData* GetGeomData() const override;
	void SetGeomData(NiGeometryData* geomDataPtr) override;
};

struct PolygonInfo {
	uint16_t numVertices = 0;
	uint16_t vertexOffset = 0;
	uint16_t numTriangles = 0;
	uint16_t triangleOffset = 0;
};

class NiScreenElementsData : public NiCloneableStreamable<NiScreenElementsData, NiTriShapeData> {
protected:
	uint16_t maxPolygons = 0;
	std::vector<PolygonInfo> polygons;
	std::vector<uint16_t> polygonIndices;

	uint16_t polygonGrowBy = 1;
	uint16_t numPolygons = 0;
	uint16_t maxVertices = 0;
	uint16_t verticesGrowBy = 1;
	uint16_t maxIndices = 0;
	uint16_t indicesGrowBy = 1;

public:
	static constexpr const char* BlockName = "NiScreenElementsData";
	const char* GetBlockName() override { return BlockName; }

	void Sync(NiStreamReversible& stream);
	void notifyVerticesDelete(const std::vector<uint16_t>& vertIndices) override;
};

class NiScreenElements : public NiCloneable<NiScreenElements, NiTriShape> {
protected:
	NiScreenElementsData* elemData = nullptr;

public:
	static constexpr const char* BlockName = "NiScreenElements";
	const char* GetBlockName() override { return BlockName; }

	NiGeometryData* GetGeomData() const override;
	void SetGeomData(NiGeometryData* geomDataPtr) override;
};

class BSLODTriShape : public NiCloneableStreamable<BSLODTriShape, NiTriBasedGeom> {
protected:
	NiTriShapeData* shapeData = nullptr;

public:
	uint32_t level0 = 0;
	uint32_t level1 = 0;
	uint32_t level2 = 0;

	static constexpr const char* BlockName = "BSLODTriShape";
	const char* GetBlockName() override { return BlockName; }

	NiGeometryData* GetGeomData() const override;
	void SetGeomData(NiGeometryData* geomDataPtr) override;

	void Sync(NiStreamReversible& stream);
};

class BSSegmentedTriShape : public NiCloneableStreamable<BSSegmentedTriShape, NiTriShape> {
protected:
	uint32_t numSegments = 0;
	std::vector<BSGeometrySegmentData> segments;

public:
	static constexpr const char* BlockName = "BSSegmentedTriShape";
	const char* GetBlockName() override { return BlockName; }

	void Sync(NiStreamReversible& stream);

	std::vector<BSGeometrySegmentData> GetSegments() const;
	void SetSegments(const std::vector<BSGeometrySegmentData>& sd);
};
} // namespace nifly
