/*
nifly
C++ NIF library for the Gamebryo/NetImmerse File Format
See the included GPLv3 LICENSE file
*/

#pragma once

#include "BasicTypes.hpp"
#include "VertexData.hpp"

namespace nifly {
#pragma pack(push, 1)
struct SkinWeight {
	uint16_t index;
	float weight;

	SkinWeight(const uint16_t index_ = 0, const float weight_ = 0.0f)
		: index(index_)
		, weight(weight_) {}
};
#pragma pack(pop)

struct VertexWeight {
	float w1 = 0.0f;
	float w2 = 0.0f;
	float w3 = 0.0f;
	float w4 = 0.0f;
};

struct BoneIndices {
	uint8_t i1 = 0;
	uint8_t i2 = 0;
	uint8_t i3 = 0;
	uint8_t i4 = 0;
};

class NiSkinData : public NiCloneableStreamable<NiSkinData, NiObject> {
public:
	struct BoneData {
		// boneTransform transforms from skin CS to bone CS.
		// Recommend renaming boneTransform to transformSkinToBone.
		MatTransform boneTransform;
		BoundingSphere bounds;
		uint16_t numVertices = 0;
		std::vector<SkinWeight> vertexWeights;
	};

	// skinTransform transforms from the global CS to the skin CS.
	// Recommend renaming to "transformGlobalToSkin".
	MatTransform skinTransform;
	uint32_t numBones = 0;
	uint8_t hasVertWeights = 1;
	std::vector<BoneData> bones;

	static constexpr const char* BlockName = "NiSkinData";
	const char* GetBlockName() override { return BlockName; }

	void Sync(NiStreamReversible& stream);
	void notifyVerticesDelete(const std::vector<uint16_t>& vertIndices) override;
};

class NiSkinPartition : public NiCloneableStreamable<NiSkinPartition, NiObject> {
public:
	struct PartitionBlock {
		uint16_t numVertices = 0;
		uint16_t numTriangles = 0;
		uint16_t numBones = 0;
		uint16_t numStrips = 0;
		uint16_t numWeightsPerVertex = 0;
		std::vector<uint16_t> bones;
		bool hasVertexMap = false;
		std::vector<uint16_t> vertexMap;
		bool hasVertexWeights = false;
		std::vector<VertexWeight> vertexWeights;
		std::vector<uint16_t> stripLengths;
		bool hasFaces = false;
		std::vector<std::vector<uint16_t>> strips;
		std::vector<Triangle> triangles;
		bool hasBoneIndices = false;
		std::vector<BoneIndices> boneIndices;

		uint8_t lodLevel = 0;  // User Version >= 12
		bool globalVB = false; // User Version >= 12
		VertexDesc vertexDesc; // User Version >= 12, User Version 2 == 100
		// When trueTriangles is changed so it's no longer in sync with
		// triParts, triParts should be cleared.
		std::vector<Triangle> trueTriangles; // User Version >= 12, User Version 2 == 100

		bool ConvertStripsToTriangles();
		void GenerateTrueTrianglesFromMappedTriangles();
		void GenerateMappedTrianglesFromTrueTrianglesAndVertexMap();
		void GenerateVertexMapFromTrueTriangles();
	};

	uint32_t numPartitions = 0;
	uint32_t dataSize = 0;	 // User Version >= 12, User Version 2 == 100
	uint32_t vertexSize = 0; // User Version >= 12, User Version 2 == 100
	VertexDesc vertexDesc;	 // User Version >= 12, User Version 2 == 100

	uint32_t numVertices = 0;			// Not in file
	std::vector<BSVertexData> vertData; // User Version >= 12, User Version 2 == 100
	std::vector<PartitionBlock> partitions;

	// bMappedIndices is not in the file; it is calculated from
	// the file version.  If true, the vertex indices in triangles
	// and strips are indices into vertexMap, not the shape's vertices.
	// trueTriangles always uses indices into the shape's vertex list.
	bool bMappedIndices = true;

	// triParts is not in the file; it is generated as needed.  If
	// not empty, its size should match the shape's triangle list.
	// It gives the partition index (into "partitions") of each
	// triangle.  Whenever triParts is changed so it's not in sync
	// with trueTriangles, GenerateTrueTrianglesFromTriParts should
	// be called to get them back in sync.
	std::vector<int> triParts;

	bool HasVertices() const { return vertexDesc.HasFlag(VF_VERTEX); }
	bool HasUVs() const { return vertexDesc.HasFlag(VF_UV); }
	bool HasNormals() const { return vertexDesc.HasFlag(VF_NORMAL); }
	bool HasTangents() const { return vertexDesc.HasFlag(VF_TANGENT); }
	bool HasVertexColors() const { return vertexDesc.HasFlag(VF_COLORS); }
	bool IsSkinned() const { return vertexDesc.HasFlag(VF_SKINNED); }
	bool HasEyeData() const { return vertexDesc.HasFlag(VF_EYEDATA); }
	bool IsFullPrecision() const { return true; }

	static constexpr const char* BlockName = "NiSkinPartition";
	const char* GetBlockName() override { return BlockName; }

	void Sync(NiStreamReversible& stream);
	void notifyVerticesDelete(const std::vector<uint16_t>& vertIndices) override;
	// DeletePartitions: partInds must be in sorted ascending order
	void DeletePartitions(const std::vector<uint32_t>& partInds);
	uint32_t RemoveEmptyPartitions(std::vector<uint32_t>& outDeletedIndices);
	// ConvertStripsToTriangles returns true if any conversions were
	// actually performed.  After calling this function, all of the
	// strips will be empty.
	bool ConvertStripsToTriangles();
	// PrepareTrueTriangles: ensures each partition's trueTriangles has
	// valid data, if necessary by generating it from "triangles" or "strips".
	void PrepareTrueTriangles();
	// PrepareVertexMapsAndTriangles: ensures "vertexMap" and "triangles"
	// have valid data for every partition, if necessary by generating them
	// from trueTriangles.
	void PrepareVertexMapsAndTriangles();
	// GenerateTriPartsFromTrueTriangles: generates triParts from
	// the partitions' trueTriangles by looking them up in shapeTris.
	// The new triParts will have the same size as shapeTris.  Though
	// typically triParts[i] will be between 0 and partitions.size()-1,
	// it is theoretically possible for some triParts[i] to be -1
	// (like because of garbage data in the file).
	void GenerateTriPartsFromTrueTriangles(const std::vector<Triangle>& shapeTris);
	// GenerateTrueTrianglesFromTriParts: generates the partitions'
	// trueTriangles from triParts and shapeTris.  If triParts[i] is
	// out of range, the corresponding triangle will not be copied
	// into a partition.
	void GenerateTrueTrianglesFromTriParts(const std::vector<Triangle>& shapeTris);
	// PrepareTriParts: ensures triParts has data, generating it
	// if necessary from trueTriangles and shapeTris.
	void PrepareTriParts(const std::vector<Triangle>& shapeTris);
};

class NiNode;

class NiBoneContainer : public NiCloneable<NiBoneContainer, NiObject> {
public:
	NiBlockPtrArray<NiNode> boneRefs;
};

class NiSkinInstance : public NiCloneableStreamable<NiSkinInstance, NiBoneContainer> {
public:
	NiBlockRef<NiSkinData> dataRef;
	NiBlockRef<NiSkinPartition> skinPartitionRef;
	NiBlockPtr<NiNode> targetRef;

	static constexpr const char* BlockName = "NiSkinInstance";
	const char* GetBlockName() override { return BlockName; }

	void Sync(NiStreamReversible& stream);
	void GetChildRefs(std::set<NiRef*>& refs) override;
	void GetChildIndices(std::vector<uint32_t>& indices) override;
	void GetPtrs(std::set<NiRef*>& ptrs) override;
};


enum PartitionFlags : uint16_t { PF_NONE = 0, PF_EDITOR_VISIBLE = 1 << 0, PF_START_NET_BONESET = 1 << 8 };

class BSDismemberSkinInstance : public NiCloneableStreamable<BSDismemberSkinInstance, NiSkinInstance> {
public:
	struct PartitionInfo {
		PartitionFlags flags = PF_NONE;
		uint16_t partID = 0;
	};

	NiVector<PartitionInfo> partitions;

	static constexpr const char* BlockName = "BSDismemberSkinInstance";
	const char* GetBlockName() override { return BlockName; }

	void Sync(NiStreamReversible& stream);

	// DeletePartitions: partInds must be in sorted ascending order.
	void DeletePartitions(const std::vector<uint32_t>& partInds);
};

class BSSkinBoneData : public NiCloneableStreamable<BSSkinBoneData, NiObject> {
public:
	uint32_t nBones = 0;

	struct BoneData {
		BoundingSphere bounds;
		// boneTransform transforms from skin CS (which is usually not
		// the same as global CS for skins with BSSkinBoneData) to bone
		// CS.  Recommend renaming boneTransform to transformSkinToBone.
		MatTransform boneTransform;
	};
	// Note that, unlike for NiSkinData, the global-to-skin transform
	// "skinTransform" is not given explicitly but implied by the other
	// transforms.

	std::vector<BoneData> boneXforms;

	static constexpr const char* BlockName = "BSSkin::BoneData";
	const char* GetBlockName() override { return BlockName; }

	void Sync(NiStreamReversible& stream);
};

class NiAVObject;

class BSSkinInstance : public NiCloneableStreamable<BSSkinInstance, NiBoneContainer> {
public:
	NiBlockPtr<NiAVObject> targetRef;
	NiBlockRef<BSSkinBoneData> dataRef;
	NiVector<Vector3> scales;

	static constexpr const char* BlockName = "BSSkin::Instance";
	const char* GetBlockName() override { return BlockName; }

	void Sync(NiStreamReversible& stream);
	void GetChildRefs(std::set<NiRef*>& refs) override;
	void GetChildIndices(std::vector<uint32_t>& indices) override;
	void GetPtrs(std::set<NiRef*>& ptrs) override;
};
} // namespace nifly
