/*
nifly
C++ NIF library for the Gamebryo/NetImmerse File Format
See the included GPLv3 LICENSE file
*/

#pragma once

#include "Object3d.hpp"

#include <filesystem>
#include <memory>
#include <string_view>

namespace nifly {
// Applies a vertex index renumbering map to p1, p2, and p3 of a vector of triangles.
// If a triangle has an index out of range of the map
// or if an index maps to a negative number, the triangle is removed.
template<typename IndexType1, typename IndexType2 = int>
void ApplyMapToTriangles(std::vector<Triangle>& tris,
						 const std::vector<IndexType1>& map,
						 std::vector<IndexType2>* deletedTris = nullptr) {
	const size_t mapsz = map.size();
	int di = 0;
	for (IndexType2 si = 0; si < static_cast<IndexType2>(tris.size()); ++si) {
		const Triangle& stri = tris[si];
		// Triangle's indices are unsigned, but IndexType might be signed.
		if (stri.p1 >= mapsz || stri.p2 >= mapsz || stri.p3 >= mapsz || map[stri.p1] < 0 || map[stri.p2] < 0
			|| map[stri.p3] < 0) {
			if (deletedTris)
				deletedTris->push_back(si);

			continue;
		}

		Triangle& dtri = tris[di];
		dtri.p1 = static_cast<uint16_t>(map[stri.p1]);
		dtri.p2 = static_cast<uint16_t>(map[stri.p2]);
		dtri.p3 = static_cast<uint16_t>(map[stri.p3]);
		++di;
	}

	tris.resize(di);
}

inline uint16_t CalcMaxTriangleIndex(const std::vector<Triangle>& v) {
	uint16_t maxind = 0;

	for (size_t i = 0; i < v.size(); ++i) {
		maxind = std::max(maxind, v[i].p1);
		maxind = std::max(maxind, v[i].p2);
		maxind = std::max(maxind, v[i].p3);
	}

	return maxind;
}

// 'indices' must be in sorted ascending order beforehand.
template<typename VectorType, typename IndexType>
void EraseVectorIndices(VectorType& v, const std::vector<IndexType>& indices) {
	if (indices.empty() || indices[0] >= v.size())
		return;

	size_t indi = 1;
	IndexType di = indices[0];
	IndexType si = di + 1;
	for (; si < v.size(); ++si) {
		if (indi < indices.size() && si == indices[indi])
			++indi;
		else
			v[di++] = std::move(v[si]);
	}

	v.resize(di);
}

// 'indices' must be in sorted ascending order beforehand.
template<typename VectorType, typename IndexType>
void InsertVectorIndices(VectorType& v, const std::vector<IndexType>& indices) {
	if (indices.empty() || indices.back() >= v.size() + indices.size())
		return;

	int64_t indi = static_cast<int64_t>(indices.size() - 1);
	IndexType di = v.size() + indices.size() - 1;
	IndexType si = v.size() - 1;
	v.resize(di + 1);

	while (true) {
		while (indi >= 0 && di == indices[indi])
			--di, --indi;

		if (indi < 0)
			break;

		v[di--] = std::move(v[si--]);
	}
}

// 'indices' must be in sorted ascending order beforehand.
template<typename IndexType1, typename IndexType2>
std::vector<int> GenerateIndexCollapseMap(const std::vector<IndexType1>& indices, const IndexType2 mapSize) {
	std::vector<int> map(mapSize);

	size_t indi = 0;
	for (IndexType2 si = 0, di = 0; si < mapSize; ++si) {
		if (indi < indices.size() && si == indices[indi]) {
			map[si] = -1;
			++indi;
		}
		else
			map[si] = static_cast<int>(di++);
	}

	return map;
}

// 'indices' must be in sorted ascending order beforehand.
template<typename IndexType1, typename IndexType2>
std::vector<int> GenerateIndexExpandMap(const std::vector<IndexType1>& indices, const IndexType2 mapSize) {
	std::vector<int> map(mapSize);

	size_t indi = 0;
	for (IndexType2 si = 0, di = 0; si < mapSize; ++si, ++di) {
		while (indi < indices.size() && di == indices[indi])
			++di, ++indi;

		map[si] = static_cast<int>(di);
	}
	return map;
}

// MapType is something like std::unordered_map<int, Data> or std::map<int, Data>.
// If a MapType-key k is in the indexMap, it is deleted if indexMap[k]
// is negative, or changed to indexMap[k] otherwise.
// If k is not in indexMap, defaultOffset is added to it.
template<typename MapType>
void ApplyIndexMapToMapKeys(MapType& keyMap, const std::vector<int> indexMap, const int defaultOffset) {
	using KeyType = typename MapType::key_type;
	MapType copy;

	for (auto& d : keyMap) {
		if (d.first >= indexMap.size()) {
			auto keyVal = static_cast<KeyType>(d.first + defaultOffset);
			copy[keyVal] = std::move(d.second);
		}
		else if (indexMap[d.first] >= 0) {
			auto keyVal = static_cast<KeyType>(indexMap[d.first]);
			copy[keyVal] = std::move(d.second);
		}
	}

	keyMap = std::move(copy);
}

// Strips with less than 3 points are skipped as they cannot become a triangle.
template<typename IndexType>
std::vector<Triangle> GenerateTrianglesFromStrips(const std::vector<std::vector<IndexType>>& strips) {
	std::vector<Triangle> tris;

	for (const std::vector<IndexType>& strip : strips) {
		if (strip.size() < 3)
			continue;

		uint16_t a = strip[0];
		uint16_t b = strip[1];
		for (size_t i = 2; i < strip.size(); ++i) {
			uint16_t c = strip[i];
			if (a != b && b != c && c != a) {
				if ((i & 1) == 0)
					tris.push_back(Triangle(a, b, c));
				else
					tris.push_back(Triangle(a, c, b));
			}

			a = b;
			b = c;
		}
	}

	return tris;
}

// Helper to check if a potentially non valid UTF8 path is relative
inline bool is_relative_path(std::string_view path) noexcept {
	try {
		return std::filesystem::u8path(path).is_relative();
	}
	catch (const std::exception&) {
		// ignore the exception
		// the path is invalid, but might be readable by the game
		return false;
	}
}

// Helper to trim whitespace characters including newlines from the start and end of a string
void trim_whitespace(std::string& str);

// Convenience wrapper for std::find
template<typename Container, typename Value = typename Container::value>
auto find(Container& cont, Value&& val) {
	return std::find(std::begin(cont), std::end(cont), std::forward<Value>(val));
}

// Convenience wrapper for std::find (const)
template<typename Container, typename Value = typename Container::value>
auto find(const Container& cont, Value&& val) {
	return std::find(std::cbegin(cont), std::cend(cont), std::forward<Value>(val));
}

// Convenience wrapper for std::find_if
template<typename Container, typename Pred>
auto find_if(Container& cont, Pred&& pred) {
	return std::find_if(std::begin(cont), std::end(cont), std::forward<Pred>(pred));
}

// Convenience wrapper for std::find_if (const)
template<typename Container, typename Pred>
auto find_if(const Container& cont, Pred&& pred) {
	return std::find_if(std::cbegin(cont), std::cend(cont), std::forward<Pred>(pred));
}

// Convenience wrapper for std::find
template<typename Container, typename Value = typename Container::value>
bool contains(const Container& cont, Value&& val) {
	return find(cont, std::forward<Value>(val)) != std::end(cont);
}

// Return new unique pointer and raw pointer to the same object as part of a pair.
// This way, the object can still be accessed using the raw pointer after moving the smart pointer.
// Usage: auto [triShapeS, triShape] = make_unique<NiTriShape>();
template<typename T>
std::pair<std::unique_ptr<T>, T*> make_unique() {
	auto ptr = std::make_unique<T>();
	auto raw = ptr.get();
	return std::make_pair(std::move(ptr), raw);
}

} // namespace nifly
